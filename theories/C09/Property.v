(* C09 — Policy-mode throttling never exceeds the allowed count per aligned
   window.  Final statements only; proofs are in Proofs.v / LimitRange.v.

   Vocabulary (Model.v / Spec.v):
     run_map [] h          trace of a history h of TryToIncrement / Counters() calls
                           on an empty RateLimitState: one entry per request with
                           its instant, key, verdict and the limit in force
     entries_of k tr       the entries of key k = (remedy name, grouping, group id)
     project k h           the sub-history key k sees (its requests + every Counters())
     count (in_right W j)  requests that proceeded at an instant in (jW,(j+1)W]
     bounded_right W B tr  every request that proceeded is within the limit in force,
                           counting those before it in its right-closed grid window
                           (windows not cut by an old window ending at B; B = 0: all)
   Hypotheses: window size W > 0; clock readings of the key's own events are
   non-decreasing (they are taken under the state's mutex).
   The model is the tree WITH patches/C09/fix-F-C09.patch. *)
From Coq Require Import List ZArith Bool Lia.
From Verif Require Import C09.Model C09.Spec C09.Proofs C09.LimitRange.
Import ListNotations.
Open Scope Z_scope.

(* ------------------------------------------------------------------ *)
(** Per grid window at most the limit proceeds.  The text does not fix the
    closure of the window edges, so the statement is the disjunction; this code
    satisfies the right-closed half (and not the left-closed one, see
    [C09_left_closed_half_fails]).  Window data other than the size (allowed
    count, ratio, spill-over) may change from request to request: each request
    that proceeds is within the limit in force when it is handled. *)
Theorem C09_grid_bound : forall h k W,
  0 < W -> key_valid k = true ->
  const_window W (project k h) -> mono (map sev_now (project k h)) ->
  bounded_left W 0 (entries_of k (run_map [] h)) \/
  bounded_right W 0 (entries_of k (run_map [] h)).
Proof. intros. right. apply map_grid_bound; assumption. Qed.
Print Assumptions C09_grid_bound.

(* With constant window data and spill-over off the limit in force is the one
   number scaled_quota allowed parts, and no grid window exceeds it. *)
Theorem C09_grid_bound_const : forall h k wd,
  0 < wW wd -> wSpillOn wd = false -> key_valid k = true ->
  const_data wd (project k h) -> mono (map sev_now (project k h)) ->
  let L := scaled_quota (wAllowed wd) (wParts wd) in
  (forall j, count (in_left (wW wd) j) (entries_of k (run_map [] h)) <= L) \/
  (forall j, count (in_right (wW wd) j) (entries_of k (run_map [] h)) <= L).
Proof. intros. right. apply map_grid_bound_const; assumption. Qed.
Print Assumptions C09_grid_bound_const.

(* Window size changes between requests: after any history h1 whose last request
   of key k carried window size W, all further requests with size W respect the
   W-grid in every window that is not cut by the window left open at the change
   (ending at wend s1): all windows if that end is on the W-grid, else those
   beginning at or after it. *)
Theorem C09_grid_bound_after_resize : forall h1 h2 k W s1,
  0 < W -> key_valid k = true ->
  get (final_map [] h1) k = Some s1 -> wW (swd s1) = W ->
  const_window W (project k h2) -> mono (map sev_now (project k h2)) ->
  bounded_left W (wend s1) (entries_of k (run_map (final_map [] h1) h2)) \/
  bounded_right W (wend s1) (entries_of k (run_map (final_map [] h1) h2)).
Proof. intros. right. apply map_grid_bound_after_resize; assumption. Qed.
Print Assumptions C09_grid_bound_after_resize.

(* The side condition above is needed: in the window the change cuts, more than
   the limit can proceed (old window (0,10] still open at 10; new size 4; the
   window (8,12] gets 4 > 3 requests of the second part of the history).  The
   hypotheses of the theorem hold here (stale end 10, stored size 4). *)
Example C09_cut_window_not_bounded :
  let k := {| kLimiter := [65]; kGrouped := false; kGroup := [] |} in
  let wd w := {| wW := w; wAllowed := 3; wParts := scale; wSpillOn := false; wRenew := 0 |} in
  let h1 := [(1, AInc k (wd 10)); (9, AInc k (wd 4))] in
  let h2 := [(10, AInc k (wd 4)); (11, AInc k (wd 4)); (11, AInc k (wd 4)); (11, AInc k (wd 4))] in
  option_map (fun s => (wend s, wW (swd s))) (get (final_map [] h1) k) = Some (10, 4) /\
  count (in_right 4 2) (entries_of k (run_map (final_map [] h1) h2)) = 4 /\
  map s_lim (entries_of k (run_map (final_map [] h1) h2)) = [3; 3; 3; 3].
Proof. vm_compute. repeat split. Qed.

(* The left-closed half does not hold for this code (requests at 1, 3, 4, 4 with
   window 3 and limit 2: three proceed in [3,6)); not a defect, the text leaves
   the closure open. *)
Theorem C09_left_closed_half_fails :
  exists h k W, 0 < W /\ key_valid k = true /\ const_window W (project k h) /\
    mono (map sev_now (project k h)) /\
    ~ bounded_left W 0 (entries_of k (run_map [] h)).
Proof. exact left_closed_half_fails. Qed.
Print Assumptions C09_left_closed_half_fails.

(* ------------------------------------------------------------------ *)
(** Counters of different remedies and different groups never influence each
    other. *)

(* a request on one key leaves the state of every other key unchanged *)
Theorem C09_isolation_step : forall m now k wd k',
  k' <> k -> get (fst (step_map m now (AInc k wd))) k' = get m k'.
Proof. exact step_map_frame. Qed.
Print Assumptions C09_isolation_step.

(* a call refused for a missing remedy name / group id changes nothing at all *)
Theorem C09_invalid_key_no_effect : forall m now k wd,
  key_valid k = false -> fst (step_map m now (AInc k wd)) = m.
Proof. exact invalid_key_no_effect. Qed.
Print Assumptions C09_invalid_key_no_effect.

(* what happens to a key (verdicts, limits in force) is a function of its own
   sub-history alone, whatever the other keys do in between *)
Theorem C09_isolation : forall h k,
  key_valid k = true ->
  entries_of k (run_map [] h) = run_single None (project k h).
Proof. intros h k Hk. exact (project_run h [] k Hk). Qed.
Print Assumptions C09_isolation.

Corollary C09_isolation_histories : forall h h' k,
  key_valid k = true -> project k h = project k h' ->
  entries_of k (run_map [] h) = entries_of k (run_map [] h').
Proof. intros h h' k Hk E. rewrite !C09_isolation by exact Hk. rewrite E. reflexivity. Qed.
Print Assumptions C09_isolation_histories.

(* ------------------------------------------------------------------ *)
(** Handled one at a time, a request is rejected only if its group's share of
    the current window is used up. *)

(* the verdict is Block exactly when the counter of the up-to-date window has
   reached the limit in force *)
Theorem C09_exact_sequential : forall now wd s,
  wW wd <> 0 ->
  let s1 := ensure now (with_wd s wd) in
  (snd (try_inc now wd s) = Block <-> limit_at now wd s <= cnt s1) /\
  (snd (try_inc now wd s) = Proceed <-> cnt s1 < limit_at now wd s).
Proof. exact try_inc_verdict. Qed.
Print Assumptions C09_exact_sequential.

(* ... and that counter only counts requests of this key that proceeded inside
   the closed grid cell [jW,(j+1)W] around the rejected request: a rejection
   (after the epoch instant, clock >= 0) means the limit in force is used up
   there. *)
Theorem C09_rejected_only_when_used_up : forall h k W pre e post,
  0 < W -> key_valid k = true ->
  const_window W (project k h) -> mono_from 0 (map sev_now (project k h)) ->
  entries_of k (run_map [] h) = pre ++ e :: post ->
  s_verdict e = Block -> 0 < s_now e ->
  exists j, in_closed W j (s_now e) = true /\ s_lim e <= count (in_closed W j) pre.
Proof. intros. eapply map_rejected_used_up; eassumption. Qed.
Print Assumptions C09_rejected_only_when_used_up.

(* ------------------------------------------------------------------ *)
(** The limit is the allowed count scaled by the allocation percentage, rounded
    up.  (Patched code; bound of the reflection in the statement: percentages
    with at most two decimals between 0 and 100, every int64 count.) *)
Theorem C09_limit_is_ceiling : forall total h,
  0 <= total <= max_i64 -> 0 <= h <= 10000 ->
  limit_code total (ratio_of_pct_bits (pct_bits_of_hundredths h)) = limit_exact total h.
Proof.
  intros total h Ht Hh. unfold limit_code. rewrite (snap_hundredths h Hh).
  exact (limit_is_ceiling total h Ht Hh).
Qed.
Print Assumptions C09_limit_is_ceiling.

(* whatever float64 the ratio is, the integer part of the limit is an exact
   ceiling of total * parts / 10^9 *)
Theorem C09_limit_integer_part : forall total parts,
  0 < total -> 0 < parts < two63 -> cdiv (total * parts) scale <= max_i64 ->
  (scaled_quota total parts - 1) * scale < total * parts <= scaled_quota total parts * scale.
Proof.
  intros total parts Ht Hp Hq. rewrite (scaled_quota_ceiling total parts Ht Hp Hq).
  apply cdiv_spec. reflexivity.
Qed.
Print Assumptions C09_limit_integer_part.

(* F-C09, the formula of the unpatched tree int64(math.Ceil(float64(total)*ratio)):
   allowed 100 at 7 % gives 8, the exact rounded-up share is 7; the patched
   formula gives 7. *)
Example C09_unfixed_limit_refuted :
  let r7 := ratio_of_pct_bits (pct_bits_of_hundredths 700) in
  limit_unfixed 100 r7 = Some 8 /\ limit_exact 100 700 = 7 /\ limit_code 100 r7 = 7.
Proof. vm_compute. repeat split. Qed.

(* ------------------------------------------------------------------ *)
(** Plugin level (StrategyBasedThrottlingPlugin.OnRequest). *)

(* the remaining requests get the configured rejection status (429 when unset) *)
Theorem C09_plugin_status : forall m now r hs m' s,
  plugin_step m now r hs = (m', PEarly s) -> s = status_of r.
Proof. exact plugin_status. Qed.
Print Assumptions C09_plugin_status.

(* requests that reach a counter do so under a key made of the remedy name and,
   for grouped remedies, the header name and the (trimmed) header value: different
   remedy names, or different values of the group header under one configuration,
   never share a key -- with C09_isolation: never influence each other *)
Theorem C09_plugin_keys_distinct : forall r r' hs hs' k k' rb rb',
  plugin_pre r hs = PreLimit k rb -> plugin_pre r' hs' = PreLimit k' rb' ->
  (rName r <> rName r' -> k <> k') /\
  (forall g, rGqa r = Some g -> rGqa r' = Some g ->
     trim (header hs (gHeader g)) <> trim (header hs' (gHeader g)) -> k <> k').
Proof. exact plugin_keys_distinct. Qed.
Print Assumptions C09_plugin_keys_distinct.

(* default behaviours that decide without a counter (allow, block, undefined)
   leave every counter untouched *)
Theorem C09_plugin_default_no_count : forall m now r hs o,
  plugin_pre r hs = PreDone o -> plugin_step m now r hs = (m, o).
Proof. exact plugin_done_no_effect. Qed.
Print Assumptions C09_plugin_default_no_count.

(* ------------------------------------------------------------------ *)
(** Non-vacuity: a two-key history with a roll-over and rejections satisfies the
    hypotheses; what the model says it does. *)
Example C09_example_history :
  let a := {| kLimiter := [65]; kGrouped := true; kGroup := [103; 49] |} in
  let b := {| kLimiter := [65]; kGrouped := true; kGroup := [103; 50] |} in
  let wd := {| wW := 10; wAllowed := 3; wParts := 500000000; wSpillOn := false; wRenew := 0 |} in
  let h := [(9, AInc a wd); (10, AInc a wd); (10, AInc b wd); (10, AInc a wd);
            (11, APeek); (11, AInc a wd); (11, AInc b wd); (20, AInc a wd); (20, AInc a wd);
            (21, AInc a wd)] in
  key_valid a = true /\ const_data wd (project a h) /\ mono_from 0 (map sev_now (project a h)) /\
  map (fun e => (s_now e, s_verdict e, s_lim e)) (entries_of a (run_map [] h)) =
    [(9, Proceed, 2); (10, Proceed, 2); (10, Block, 2); (11, Proceed, 2); (20, Proceed, 2);
     (20, Block, 2); (21, Proceed, 2)] /\
  map (fun e => (s_now e, s_verdict e)) (entries_of b (run_map [] h)) =
    [(10, Proceed); (11, Proceed)].
Proof.
  cbn zeta. split; [reflexivity|]. split; [repeat constructor|].
  split; [cbn; lia|]. vm_compute. split; reflexivity.
Qed.

(* a grouped plugin request: key, ratio and the store step it amounts to *)
Example C09_example_plugin :
  let g := {| gHeader := [88; 45; 71]; gGroups := [{| aVal := [97]; aPct := 4619567317775286272 |}];
              gDefault := s_block; gDefPct := 0 |} in
  let r := {| rName := [114]; rAllowed := 100; rWsec := 1; rStatus := 0; rSpillOn := false;
              rRenew := 0; rGqa := Some g |} in
  (* X-G: "a" is listed with 7 %: key r / "x-g:a", limit 7; X-G: "b" is not: blocked, 429 *)
  (exists k rb, plugin_pre r [([88; 45; 71], [97])] = PreLimit k rb /\
                kGroup k = [120; 45; 103; 58; 97] /\ limit_code 100 rb = 7) /\
  plugin_step [] 5 r [([88; 45; 71], [98])] = ([], PEarly 429).
Proof.
  cbn zeta. split.
  - eexists. eexists. split; [reflexivity|]. split; vm_compute; reflexivity.
  - vm_compute. reflexivity.
Qed.
