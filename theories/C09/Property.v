(* placeholder while the harness is being brought up *)
From Verif Require Import C09.Model.
