(* C09 — Policy-mode throttling never exceeds the allowed count per aligned
   window.  Final statements only; proofs are in Proofs.v / LimitRange.v.

   Vocabulary (Model.v / Spec.v):
     run_map [] h          trace of a history h of TryToIncrement / Counters() calls
                           on an empty RateLimitState: one entry per request with
                           its instant, key, verdict and the limit in force
     entries_of k tr       the entries of key k = (remedy name, grouping, group id)
     project k h           the sub-history key k sees (its requests + every Counters())
     count (in_right W j)  requests that proceeded at an instant in (jW,(j+1)W]
     bounded_right W B tr  every request that proceeded is within the limit in force,
                           counting those before it in its right-closed grid window
                           (windows not cut by an old window ending at B; B = 0: all)
   Hypotheses: window size W > 0; clock readings of the key's own events are
   non-decreasing (they are taken under the state's mutex).
   The model is the tree WITH patches/C09/fix-F-C09.patch.

   Last part (Registry.v): the registry layer as a small-step machine whose atomic steps are
   the lock regions (plugin.mutex, RateLimitState.mutex, the limiter's mutex), threads =
   requests and metrics collections:
     run v (init_config ts) sch = Some c'   the labels of sch are a schedule of the threads ts
     c_trace c'            one entry per decided request, in the order of the decisions
     log_of k (c_log c')   the lock regions of the limiter of key k (requests: SInc, the
                           Counter() of a collection: SPeek) with the clock readings taken inside
     erase ts sch          the schedule without the steps of the collections
   Clock hypothesis of the registry theorems (audit 2): the readings of the lock regions of
   the key's OWN limiter, map sev_now (log_of k (c_log c')), are non-decreasing; nothing is
   asked of the labels of other limiters.  A globally non-decreasing schedule satisfies it
   for every key (C09_registry_monotone_schedule_is_key_monotone).
   Suite "overlap" (Overlap.v): every state its interpreter reaches is a state some schedule
   of [run Head] reaches (C09_overlap_suite_states_are_reachable). *)
From Coq Require Import List ZArith Bool Lia.
From Verif Require Import C09.Model C09.Spec C09.Proofs C09.ProofsAudit C09.LimitRange C09.Registry C09.RegistryProofs.
From Verif Require Import C09.Variants C09.VariantsProofs.
From Verif Require C09.Overlap.
Import ListNotations.
Open Scope Z_scope.

(* ------------------------------------------------------------------ *)
(** Per grid window at most the limit proceeds.  The text does not fix the
    closure of the window edges, so the statement is the disjunction; this code
    satisfies the right-closed half (and not the left-closed one, see
    [C09_left_closed_half_fails]).  Window data other than the size (allowed
    count, ratio, spill-over) may change from request to request: each request
    that proceeds is within the limit in force when it is handled. *)
Theorem C09_grid_bound : forall h k W,
  0 < W -> key_valid k = true ->
  const_window W (project k h) -> mono (map sev_now (project k h)) ->
  bounded_left W 0 (entries_of k (run_map [] h)) \/
  bounded_right W 0 (entries_of k (run_map [] h)).
Proof. intros. right. apply map_grid_bound; assumption. Qed.
Print Assumptions C09_grid_bound.

(* With constant window data and spill-over off the limit in force is the one
   number scaled_quota allowed parts, and no grid window exceeds it. *)
Theorem C09_grid_bound_const : forall h k wd,
  0 < wW wd -> wSpillOn wd = false -> key_valid k = true ->
  const_data wd (project k h) -> mono (map sev_now (project k h)) ->
  let L := scaled_quota (wAllowed wd) (wParts wd) in
  (forall j, count (in_left (wW wd) j) (entries_of k (run_map [] h)) <= L) \/
  (forall j, count (in_right (wW wd) j) (entries_of k (run_map [] h)) <= L).
Proof. intros. right. apply map_grid_bound_const; assumption. Qed.
Print Assumptions C09_grid_bound_const.

(* Window size changes between requests: after any history h1 whose last request
   of key k carried window size W, all further requests with size W respect the
   W-grid in every window that is not cut by the window left open at the change
   (ending at wend s1): all windows if that end is on the W-grid, else those
   beginning at or after it. *)
Theorem C09_grid_bound_after_resize : forall h1 h2 k W s1,
  0 < W -> key_valid k = true ->
  get (final_map [] h1) k = Some s1 -> wW (swd s1) = W ->
  const_window W (project k h2) -> mono (map sev_now (project k h2)) ->
  bounded_left W (wend s1) (entries_of k (run_map (final_map [] h1) h2)) \/
  bounded_right W (wend s1) (entries_of k (run_map (final_map [] h1) h2)).
Proof. intros. right. apply map_grid_bound_after_resize; assumption. Qed.
Print Assumptions C09_grid_bound_after_resize.

(* The side condition above is needed: in the window the change cuts, more than
   the limit can proceed (old window (0,10] still open at 10; new size 4; the
   window (8,12] gets 4 > 3 requests of the second part of the history).  The
   hypotheses of the theorem hold here (stale end 10, stored size 4). *)
Example C09_cut_window_not_bounded :
  let k := {| kLimiter := [65]; kGrouped := false; kGroup := [] |} in
  let wd w := {| wW := w; wAllowed := 3; wParts := scale; wSpillOn := false; wRenew := 0 |} in
  let h1 := [(1, AInc k (wd 10)); (9, AInc k (wd 4))] in
  let h2 := [(10, AInc k (wd 4)); (11, AInc k (wd 4)); (11, AInc k (wd 4)); (11, AInc k (wd 4))] in
  option_map (fun s => (wend s, wW (swd s))) (get (final_map [] h1) k) = Some (10, 4) /\
  count (in_right 4 2) (entries_of k (run_map (final_map [] h1) h2)) = 4 /\
  map s_lim (entries_of k (run_map (final_map [] h1) h2)) = [3; 3; 3; 3].
Proof. vm_compute. repeat split. Qed.

(* Sharper side condition: only the ONE grid window that contains the end of the window left
   open at the change is excluded -- windows that end at or before it lie inside the old
   window (no reset happens there, the counter counts every request that proceeded), windows
   that begin at or after it are on the new grid.  [good_window_tight] is exactly the negation
   of the situation of [C09_cut_window_not_bounded]: k*W < B < (k+1)*W with B off the W-grid. *)
Theorem C09_grid_bound_after_resize_tight : forall h1 h2 k W s1,
  0 < W -> key_valid k = true ->
  get (final_map [] h1) k = Some s1 -> wW (swd s1) = W ->
  const_window W (project k h2) -> mono (map sev_now (project k h2)) ->
  bounded_right_tight W (wend s1) (entries_of k (run_map (final_map [] h1) h2)).
Proof. exact map_grid_bound_after_resize_tight. Qed.
Print Assumptions C09_grid_bound_after_resize_tight.

Theorem C09_good_window_tight_exact : forall W B k, 0 < W ->
  good_window_tight W B k <-> ~ (~ (W | B) /\ k * W < B < (k + 1) * W).
Proof.
  intros W B k HW. unfold good_window_tight, good_window. split.
  - intros [[D|L]|R] [ND I]; [contradiction | lia | lia].
  - intros H. destruct (Z.le_gt_cases B (k * W)) as [L|G]; [left; right; exact L|].
    destruct (Z.le_gt_cases ((k + 1) * W) B) as [R|G2]; [right; exact R|].
    destruct (Z.eq_dec (B mod W) 0) as [D|ND].
    + left. left. apply Z.mod_divide; [lia | exact D].
    + exfalso. apply H. split; [|lia]. intros D. apply ND. apply Z.mod_divide; [lia | exact D].
Qed.
Print Assumptions C09_good_window_tight_exact.

(* The left-closed half does not hold for this code (requests at 1, 3, 4, 4 with
   window 3 and limit 2: three proceed in [3,6)); not a defect, the text leaves
   the closure open. *)
Theorem C09_left_closed_half_fails :
  exists h k W, 0 < W /\ key_valid k = true /\ const_window W (project k h) /\
    mono (map sev_now (project k h)) /\
    ~ bounded_left W 0 (entries_of k (run_map [] h)).
Proof. exact left_closed_half_fails. Qed.
Print Assumptions C09_left_closed_half_fails.

(* ------------------------------------------------------------------ *)
(** Counters of different remedies and different groups never influence each
    other. *)

(* a request on one key leaves the state of every other key unchanged *)
Theorem C09_isolation_step : forall m now k wd k',
  k' <> k -> get (fst (step_map m now (AInc k wd))) k' = get m k'.
Proof. exact step_map_frame. Qed.
Print Assumptions C09_isolation_step.

(* a call refused for a missing remedy name / group id changes nothing at all *)
Theorem C09_invalid_key_no_effect : forall m now k wd,
  key_valid k = false -> fst (step_map m now (AInc k wd)) = m.
Proof. exact invalid_key_no_effect. Qed.
Print Assumptions C09_invalid_key_no_effect.

(* what happens to a key (verdicts, limits in force) is a function of its own
   sub-history alone, whatever the other keys do in between *)
Theorem C09_isolation : forall h k,
  key_valid k = true ->
  entries_of k (run_map [] h) = run_single None (project k h).
Proof. intros h k Hk. exact (project_run h [] k Hk). Qed.
Print Assumptions C09_isolation.

Corollary C09_isolation_histories : forall h h' k,
  key_valid k = true -> project k h = project k h' ->
  entries_of k (run_map [] h) = entries_of k (run_map [] h').
Proof. intros h h' k Hk E. rewrite !C09_isolation by exact Hk. rewrite E. reflexivity. Qed.
Print Assumptions C09_isolation_histories.

(* ------------------------------------------------------------------ *)
(** Handled one at a time, a request is rejected only if its group's share of
    the current window is used up. *)

(* the verdict is Block exactly when the counter of the up-to-date window has
   reached the limit in force *)
Theorem C09_exact_sequential : forall now wd s,
  wW wd <> 0 ->
  let s1 := ensure now (with_wd s wd) in
  (snd (try_inc now wd s) = Block <-> limit_at now wd s <= cnt s1) /\
  (snd (try_inc now wd s) = Proceed <-> cnt s1 < limit_at now wd s).
Proof. exact try_inc_verdict. Qed.
Print Assumptions C09_exact_sequential.

(* ... and that counter only counts requests of this key that proceeded inside
   the closed grid cell [jW,(j+1)W] around the rejected request: a rejection
   (after the epoch instant, clock >= 0) means the limit in force is used up
   there. *)
Theorem C09_rejected_only_when_used_up : forall h k W pre e post,
  0 < W -> key_valid k = true ->
  const_window W (project k h) -> mono_from 0 (map sev_now (project k h)) ->
  entries_of k (run_map [] h) = pre ++ e :: post ->
  s_verdict e = Block -> 0 < s_now e ->
  exists j, in_closed W j (s_now e) = true /\ s_lim e <= count (in_closed W j) pre.
Proof. intros. eapply map_rejected_used_up; eassumption. Qed.
Print Assumptions C09_rejected_only_when_used_up.

(* the same after a window-size change, for rejections after the window left open at the
   change has ended (rejections inside that window are decided by its counter, which also
   counts requests from before the change: not covered) *)
Theorem C09_rejected_only_when_used_up_after_resize : forall h1 h2 k W s1 pre e post,
  0 < W -> key_valid k = true ->
  get (final_map [] h1) k = Some s1 -> wW (swd s1) = W ->
  const_window W (project k h2) -> mono_from 0 (map sev_now (project k h2)) ->
  entries_of k (run_map (final_map [] h1) h2) = pre ++ e :: post ->
  s_verdict e = Block -> wend s1 < s_now e ->
  exists j, in_closed W j (s_now e) = true /\ s_lim e <= count (in_closed W j) pre.
Proof. exact map_rejected_used_up_after_resize. Qed.
Print Assumptions C09_rejected_only_when_used_up_after_resize.

(* ------------------------------------------------------------------ *)
(** One limiter on its own: the same two statements over the lock regions of a single
    singleRateLimitState, each with its own clock reading (a Counter() region of a collection
    reads the clock per limiter; the store-level [APeek] gives all keys one instant). *)
Theorem C09_single_grid_bound : forall h W,
  0 < W -> const_window W h -> mono (map sev_now h) ->
  bounded_left W 0 (run_single None h) \/ bounded_right W 0 (run_single None h).
Proof. intros. right. apply single_bounded_fresh; assumption. Qed.
Print Assumptions C09_single_grid_bound.

Theorem C09_single_rejected_only_when_used_up : forall h W pre e post,
  0 < W -> const_window W h -> mono_from 0 (map sev_now h) ->
  run_single None h = pre ++ e :: post -> s_verdict e = Block -> 0 < s_now e ->
  exists j, in_closed W j (s_now e) = true /\ s_lim e <= count (in_closed W j) pre.
Proof.
  intros h W pre e post HW HC HM HR HV HB.
  exact (single_exact W 0 HW h None [] 0 (conj eq_refl eq_refl) (Z.le_refl 0) HC HM pre e post HR HV HB).
Qed.
Print Assumptions C09_single_rejected_only_when_used_up.

(* ------------------------------------------------------------------ *)
(** F-C09c (open): the limit in force is ceil((allowed + spill-over) * ratio) also for a
    request whose window data has spill-over DISABLED -- the amount accumulated while it was
    enabled stays in force (and is no longer updated).  So "at most the allowed number
    (scaled, rounded up)" and "rejected only if the share is used up", read with the nominal
    limit of the request, fail once spill-over was enabled earlier for the key; they hold for
    every request up to which no request of the key had spill-over enabled. *)

Theorem C09_judged_entries : forall h k,
  key_valid k = true -> map snd (judged k h) = entries_of k (run_map [] h).
Proof. exact judged_entries. Qed.
Print Assumptions C09_judged_entries.

Definition C09_allowed_bound_full : Prop :=
  forall h k W, 0 < W -> key_valid k = true ->
    const_window W (project k h) -> mono (map sev_now (project k h)) ->
    nominal_left (fun _ => True) W (judged k h) \/ nominal_right (fun _ => True) W (judged k h).

(* spill-over on with allowed 5: one request at 1, one at 25 (4 unused requests carried over);
   then the configuration allowed 0, spill-over off: four requests proceed at 35 *)
Definition sp_key : key := {| kLimiter := [65]; kGrouped := false; kGroup := [] |}.
Definition sp_on : wdata := {| wW := 10; wAllowed := 5; wParts := scale; wSpillOn := true; wRenew := 0 |}.
Definition sp_off : wdata := {| wW := 10; wAllowed := 0; wParts := scale; wSpillOn := false; wRenew := 0 |}.
Definition sp_hist : list (Z * action) :=
  [(1, AInc sp_key sp_on); (25, AInc sp_key sp_on); (35, AInc sp_key sp_off); (35, AInc sp_key sp_off)].

Theorem C09_allowed_bound_full_refuted : ~ C09_allowed_bound_full.
Proof.
  intros H.
  destruct (H sp_hist sp_key 10 ltac:(lia) eq_refl ltac:(repeat constructor) ltac:(cbn; lia)) as [HB|HB];
    specialize (HB [(sp_on, {| s_now := 1; s_verdict := Proceed; s_lim := 5 |});
                    (sp_on, {| s_now := 25; s_verdict := Proceed; s_lim := 9 |})]
                   sp_off {| s_now := 35; s_verdict := Proceed; s_lim := 4 |}
                   [(sp_off, {| s_now := 35; s_verdict := Proceed; s_lim := 4 |})] 3
                   eq_refl eq_refl eq_refl I eq_refl);
    vm_compute in HB; apply HB; reflexivity.
Qed.
Print Assumptions C09_allowed_bound_full_refuted.

(* side condition (decidable, [spill_freeb]; = the monitor's classifier): no request of the key
   up to and including this one had spill-over enabled.  Allowed count and ratio may change
   from request to request: each request is held to the nominal limit of its own data. *)
Theorem C09_allowed_bound_holds_outside_stale_spillover : forall h k W,
  0 < W -> key_valid k = true ->
  const_window W (project k h) -> mono (map sev_now (project k h)) ->
  nominal_left spill_free W (judged k h) \/ nominal_right spill_free W (judged k h).
Proof. intros. right. apply map_nominal_right; assumption. Qed.
Print Assumptions C09_allowed_bound_holds_outside_stale_spillover.

Definition C09_rejected_nominal_full : Prop :=
  forall h k W, 0 < W -> key_valid k = true ->
    const_window W (project k h) -> mono_from 0 (map sev_now (project k h)) ->
    nominal_rejections (fun _ => True) W (judged k h).

(* spill-over on, allowed 2 at 150 %: three requests proceed at 1; the roll-over at 15 makes
   the spill-over amount -1; then allowed 2 at 100 %, spill-over off: the second request at 25
   is rejected with one of two used *)
Definition sn_on : wdata :=
  {| wW := 10; wAllowed := 2; wParts := 1500000000; wSpillOn := true; wRenew := 0 |}.
Definition sn_off : wdata := {| wW := 10; wAllowed := 2; wParts := scale; wSpillOn := false; wRenew := 0 |}.
Definition sn_hist : list (Z * action) :=
  [(1, AInc sp_key sn_on); (1, AInc sp_key sn_on); (1, AInc sp_key sn_on); (15, AInc sp_key sn_on);
   (25, AInc sp_key sn_off); (25, AInc sp_key sn_off)].

Theorem C09_rejected_nominal_full_refuted : ~ C09_rejected_nominal_full.
Proof.
  intros H.
  destruct (H sn_hist sp_key 10 ltac:(lia) eq_refl ltac:(repeat constructor) ltac:(cbn; lia)
              [(sn_on, {| s_now := 1; s_verdict := Proceed; s_lim := 3 |});
               (sn_on, {| s_now := 1; s_verdict := Proceed; s_lim := 3 |});
               (sn_on, {| s_now := 1; s_verdict := Proceed; s_lim := 3 |});
               (sn_on, {| s_now := 15; s_verdict := Proceed; s_lim := 2 |});
               (sn_off, {| s_now := 25; s_verdict := Proceed; s_lim := 1 |})]
              sn_off {| s_now := 25; s_verdict := Block; s_lim := 1 |} []
              eq_refl eq_refl ltac:(cbn; lia) eq_refl I) as (j & Hj & Hc).
  unfold in_closed in Hj. cbn [s_now] in Hj. apply andb_prop in Hj. destruct Hj as [H1 H2].
  apply Z.leb_le in H1. apply Z.leb_le in H2. assert (j = 2) by lia. subst j.
  vm_compute in Hc. apply Hc. reflexivity.
Qed.
Print Assumptions C09_rejected_nominal_full_refuted.

Theorem C09_rejected_nominal_holds_outside_stale_spillover : forall h k W,
  0 < W -> key_valid k = true ->
  const_window W (project k h) -> mono_from 0 (map sev_now (project k h)) ->
  nominal_rejections spill_free W (judged k h).
Proof. exact map_nominal_rejections. Qed.
Print Assumptions C09_rejected_nominal_holds_outside_stale_spillover.

(* non-vacuity of the side condition: the first three requests of the refutation's history
   satisfy nothing (spill-over on); the example history of the end of this file satisfies it
   throughout *)
Theorem C09_spill_free_decidable : forall l, spill_freeb l = true <-> spill_free l.
Proof. exact spill_free_iff. Qed.
Print Assumptions C09_spill_free_decidable.

(* non-vacuity of the statements of this part and of the resize / single-limiter ones: a key
   whose allowed count changes from request to request (2, then 1) without spill-over: the side
   condition holds for every request, there are rejections and a roll-over; and a size change
   10 -> 4 at instant 9 with a rejection after the old window (0,10] has ended *)
Example C09_example_audit :
  let k := sp_key in
  let wd a := {| wW := 10; wAllowed := a; wParts := scale; wSpillOn := false; wRenew := 0 |} in
  let h := [(1, AInc k (wd 2)); (2, AInc k (wd 2)); (3, AInc k (wd 2)); (11, AInc k (wd 1));
            (12, AInc k (wd 1)); (12, AInc k (wd 2))] in
  spill_freeb (judged k h) = true /\ const_window 10 (project k h) /\
  mono_from 0 (map sev_now (project k h)) /\
  map (fun we => (nominal (fst we), s_now (snd we), s_verdict (snd we))) (judged k h) =
    [(2, 1, Proceed); (2, 2, Proceed); (2, 3, Block); (1, 11, Proceed); (1, 12, Block);
     (2, 12, Proceed)] /\
  run_single None (project k h) = map snd (judged k h) /\
  let w4 := {| wW := 4; wAllowed := 1; wParts := scale; wSpillOn := false; wRenew := 0 |} in
  let h1 := [(1, AInc k (wd 3)); (9, AInc k w4)] in
  let h2 := [(13, AInc k w4); (14, AInc k w4)] in
  option_map (fun s => (wend s, wW (swd s))) (get (final_map [] h1) k) = Some (10, 4) /\
  map (fun e => (s_now e, s_verdict e, s_lim e)) (entries_of k (run_map (final_map [] h1) h2)) =
    [(13, Proceed, 1); (14, Block, 1)].
Proof.
  cbn zeta. split; [vm_compute; reflexivity|]. split; [repeat constructor|].
  split; [cbn; lia|]. split; [vm_compute; reflexivity|]. split; [vm_compute; reflexivity|].
  split; vm_compute; reflexivity.
Qed.

(* ------------------------------------------------------------------ *)
(** The limit is the allowed count scaled by the allocation percentage, rounded
    up.  (Patched code; bound of the reflection in the statement: percentages
    with at most two decimals between 0 and 100, every int64 count.) *)
Theorem C09_limit_is_ceiling : forall total h,
  0 <= total <= max_i64 -> 0 <= h <= 10000 ->
  limit_code total (ratio_of_pct_bits (pct_bits_of_hundredths h)) = limit_exact total h.
Proof.
  intros total h Ht Hh. unfold limit_code. rewrite (snap_hundredths h Hh).
  exact (limit_is_ceiling total h Ht Hh).
Qed.
Print Assumptions C09_limit_is_ceiling.

(* whatever float64 the ratio is, the integer part of the limit is an exact
   ceiling of total * parts / 10^9 *)
Theorem C09_limit_integer_part : forall total parts,
  0 < total -> 0 < parts < two63 -> cdiv (total * parts) scale <= max_i64 ->
  (scaled_quota total parts - 1) * scale < total * parts <= scaled_quota total parts * scale.
Proof.
  intros total parts Ht Hp Hq. rewrite (scaled_quota_ceiling total parts Ht Hp Hq).
  apply cdiv_spec. reflexivity.
Qed.
Print Assumptions C09_limit_integer_part.

(* F-C09, the formula of the unpatched tree int64(math.Ceil(float64(total)*ratio)):
   allowed 100 at 7 % gives 8, the exact rounded-up share is 7; the patched
   formula gives 7. *)
Theorem C09_unfixed_limit_refuted :
  let r7 := ratio_of_pct_bits (pct_bits_of_hundredths 700) in
  limit_unfixed 100 r7 = Some 8 /\ limit_exact 100 700 = 7 /\ limit_code 100 r7 = 7.
Proof. vm_compute. repeat split. Qed.
Print Assumptions C09_unfixed_limit_refuted.

(* ------------------------------------------------------------------ *)
(** Plugin level (StrategyBasedThrottlingPlugin.OnRequest). *)

(* the remaining requests get the configured rejection status (429 when unset) *)
Theorem C09_plugin_status : forall m now r hs m' s,
  plugin_step m now r hs = (m', PEarly s) -> s = status_of r.
Proof. exact plugin_status. Qed.
Print Assumptions C09_plugin_status.

(* requests that reach a counter do so under a key made of the remedy name and,
   for grouped remedies, the header name and the (trimmed) header value: different
   remedy names, or different values of the group header under one configuration,
   never share a key -- with C09_isolation: never influence each other *)
Theorem C09_plugin_keys_distinct : forall r r' hs hs' k k' rb rb',
  plugin_pre r hs = PreLimit k rb -> plugin_pre r' hs' = PreLimit k' rb' ->
  (rName r <> rName r' -> k <> k') /\
  (forall g, rGqa r = Some g -> rGqa r' = Some g ->
     trim (header hs (gHeader g)) <> trim (header hs' (gHeader g)) -> k <> k').
Proof. exact plugin_keys_distinct. Qed.
Print Assumptions C09_plugin_keys_distinct.

(* default behaviours that decide without a counter (allow, block, undefined)
   leave every counter untouched *)
Theorem C09_plugin_default_no_count : forall m now r hs o,
  plugin_pre r hs = PreDone o -> plugin_step m now r hs = (m, o).
Proof. exact plugin_done_no_effect. Qed.
Print Assumptions C09_plugin_default_no_count.

(* a request that reaches a counter (valid key, non-zero window) gets NoOp exactly when it is
   counted, and otherwise the early response with the configured status -- "the remaining ones
   get the configured rejection status" *)
Theorem C09_plugin_outcome : forall m now r hs k rb,
  plugin_pre r hs = PreLimit k rb -> key_valid k = true -> wW (wd_of_remedy r rb) <> 0 ->
  let v := snd (try_inc now (wd_of_remedy r rb) (or_init (get m k))) in
  (v = Proceed /\ snd (plugin_step m now r hs) = PNoOp) \/
  (v = Block /\ snd (plugin_step m now r hs) = PEarly (status_of r)).
Proof. exact plugin_outcome. Qed.
Print Assumptions C09_plugin_outcome.

(* the suite "plugin" runs exactly the plugin histories the theorems below speak about *)
Theorem C09_plugin_suite_is_history : forall base rs reqs,
  run_plugin_reqs base rs [] reqs =
  option_map (fun h => map (fun e => code_of_pout (p_out e)) (run_plugin_hist [] h))
             (pevs_of_reqs base rs reqs).
Proof. intros. apply run_plugin_reqs_hist. Qed.
Print Assumptions C09_plugin_suite_is_history.

(* Plugin level, composed: any history of OnRequest calls (any remedies, configuration
   versions, headers) and metrics collections from the empty state.  For a counter key k whose
   requests all hand the same window data wd to the limiter (spill-over off): per aligned
   window at most the nominal limit of NoOp answers for k (disjunction of closures; the
   right-closed half holds), and every other request of k gets the early response with the
   configured status of its remedy. *)
Theorem C09_plugin_window_bound : forall h k wd,
  0 < wW wd -> wSpillOn wd = false -> key_valid k = true ->
  plugin_requests_use k wd h -> mono (map pev_now (filter (concerns k) h)) ->
  let tr := pentries_of k (run_plugin_hist [] h) in
  ((forall j, pcount (in_left (wW wd) j) tr <= nominal wd) \/
   (forall j, pcount (in_right (wW wd) j) tr <= nominal wd)) /\
  Forall (fun e => p_out e = PNoOp \/ p_out e = PEarly (p_status e)) tr.
Proof.
  intros h k wd HW Hs Hk HU HM tr.
  destruct (plugin_window_bound h k wd HW Hs Hk HU HM) as [HB HF]. split; [right; exact HB | exact HF].
Qed.
Print Assumptions C09_plugin_window_bound.

(* ... for one group of one remedy: remedy r (one configuration version: every request under
   its name is a request of r), spill-over off, group header value v listed with ANY percentage
   (float64 bits pct); requests whose header value differs from v only in surrounding white
   space are excluded (they share v's counter but get the default allocation).  Per aligned
   window at most [limit_code allowed (pct/100)] requests of (r, v) get NoOp -- the code's limit
   function, equal to the exact rounded-up share for the percentages of C09_limit_is_ceiling
   (two decimals, 0..100 %) -- and all others of (r, v) get the early response with the
   configured status. *)
Theorem C09_plugin_group_share_any : forall h r g v pct,
  rGqa r = Some g -> find_alloc (gGroups g) v = Some pct ->
  0 < rWsec r -> rSpillOn r = false -> rName r <> [] ->
  let k := {| kLimiter := rName r; kGrouped := true;
              kGroup := lower (gHeader g) ++ [58] ++ trim v |} in
  let W := rWsec r * 1000000000 in
  Forall (fun e => match e with
                   | PReq _ r' hs => rName r' = rName r ->
                                     r' = r /\ (trim (header hs (gHeader g)) = trim v ->
                                                header hs (gHeader g) = v)
                   | PCol _ => True
                   end) h ->
  mono (map pev_now (filter (concerns k) h)) ->
  let tr := pentries_of k (run_plugin_hist [] h) in
  let L := limit_code (rAllowed r) (ratio_of_pct_bits pct) in
  ((forall j, pcount (in_left W j) tr <= L) \/ (forall j, pcount (in_right W j) tr <= L)) /\
  Forall (fun e => p_out e = PNoOp \/ p_out e = PEarly (p_status e)) tr.
Proof.
  intros h r g v pct Hg Hf Hw Hso Hn k W HF HM tr L.
  set (wd := wd_of_remedy r (ratio_of_pct_bits pct)).
  assert (Hk : key_valid k = true).
  { unfold key_valid, k. cbn [kLimiter kGrouped kGroup].
    destruct (rName r); [contradiction|]. destruct (lower (gHeader g)); reflexivity. }
  change L with (nominal wd). change W with (wW wd).
  apply C09_plugin_window_bound; try assumption.
  - cbn. lia.
  - apply one_version_uses; assumption.
Qed.
Print Assumptions C09_plugin_group_share_any.

(* ... and with the number of the statement, for a percentage hp/100 with two decimals in
   0..100 %: at most ceil(allowed * hp / 10000) NoOp answers per aligned window *)
Theorem C09_plugin_group_share : forall h r g v hp,
  rGqa r = Some g -> find_alloc (gGroups g) v = Some (pct_bits_of_hundredths hp) ->
  0 <= hp <= 10000 -> 0 <= rAllowed r <= max_i64 -> 0 < rWsec r -> rSpillOn r = false ->
  rName r <> [] ->
  let k := {| kLimiter := rName r; kGrouped := true;
              kGroup := lower (gHeader g) ++ [58] ++ trim v |} in
  let W := rWsec r * 1000000000 in
  Forall (fun e => match e with
                   | PReq _ r' hs => rName r' = rName r ->
                                     r' = r /\ (trim (header hs (gHeader g)) = trim v ->
                                                header hs (gHeader g) = v)
                   | PCol _ => True
                   end) h ->
  mono (map pev_now (filter (concerns k) h)) ->
  let tr := pentries_of k (run_plugin_hist [] h) in
  ((forall j, pcount (in_left W j) tr <= limit_exact (rAllowed r) hp) \/
   (forall j, pcount (in_right W j) tr <= limit_exact (rAllowed r) hp)) /\
  Forall (fun e => p_out e = PNoOp \/ p_out e = PEarly (p_status e)) tr.
Proof.
  intros h r g v hp Hg Hf Hhp Ha Hw Hso Hn k W HF HM tr.
  rewrite <- (C09_limit_is_ceiling (rAllowed r) hp Ha Hhp).
  exact (C09_plugin_group_share_any h r g v _ Hg Hf Hw Hso Hn HF HM).
Qed.
Print Assumptions C09_plugin_group_share.

(* non-vacuity: remedy "r" (allowed 100, window 1 s, status unset) with X-G: "a" listed at 7 %;
   nine requests of group a and one of an unlisted group in one window, a collection in
   between: seven NoOp, then 429.  ALL hypotheses of C09_plugin_group_share hold on it --
   the per-key clock hypothesis included: the instants that concern the key are
   [5;5;5;5;5;5;5;5;5;5] (a collection concerns every key; the request of the other group at
   instant 7 does not concern it) -- and the last conjunct is the theorem applied to it.
   (Audit 2, item 3: the earlier version of this history had the collection at instant 6
   followed by requests at 5, which violates that hypothesis, and did not state it.) *)
Definition pgs_g : gqa :=
  {| gHeader := [88; 45; 71];
     gGroups := [{| aVal := [97]; aPct := pct_bits_of_hundredths 700 |}];
     gDefault := s_block; gDefPct := 0 |}.
Definition pgs_r : remedy :=
  {| rName := [114]; rAllowed := 100; rWsec := 1; rStatus := 0; rSpillOn := false;
     rRenew := 0; rGqa := Some pgs_g |}.
Definition pgs_a : pev := PReq 5 pgs_r [([88; 45; 71], [97])].
Definition pgs_h : list pev :=
  [pgs_a; pgs_a; pgs_a; PCol 5; pgs_a; pgs_a; PReq 7 pgs_r [([88; 45; 71], [98])];
   pgs_a; pgs_a; pgs_a; pgs_a].
Definition pgs_k : key :=
  {| kLimiter := [114]; kGrouped := true; kGroup := lower [88; 45; 71] ++ [58] ++ trim [97] |}.

Example C09_example_plugin_history :
  let tr := pentries_of pgs_k (run_plugin_hist [] pgs_h) in
  Forall (fun e => match e with
                   | PReq _ r' hs => rName r' = rName pgs_r ->
                                     r' = pgs_r /\ (trim (header hs (gHeader pgs_g)) = trim [97] ->
                                                    header hs (gHeader pgs_g) = [97])
                   | PCol _ => True
                   end) pgs_h /\
  mono (map pev_now (filter (concerns pgs_k) pgs_h)) /\
  map pev_now (filter (concerns pgs_k) pgs_h) = [5; 5; 5; 5; 5; 5; 5; 5; 5; 5] /\
  limit_exact 100 700 = 7 /\
  map (fun e => (p_now e, code_of_pout (p_out e))) tr =
    [(5, 0); (5, 0); (5, 0); (5, 0); (5, 0); (5, 0); (5, 0); (5, 429); (5, 429)] /\
  map (fun e => code_of_pout (p_out e)) (run_plugin_hist [] pgs_h) = [0; 0; 0; 0; 0; 429; 0; 0; 429; 429] /\
  (* C09_plugin_group_share applied to this history *)
  (((forall j, pcount (in_left 1000000000 j) tr <= 7) \/
    (forall j, pcount (in_right 1000000000 j) tr <= 7)) /\
   Forall (fun e => p_out e = PNoOp \/ p_out e = PEarly (p_status e)) tr).
Proof.
  cbn zeta.
  assert (HF : Forall (fun e => match e with
                   | PReq _ r' hs => rName r' = rName pgs_r ->
                                     r' = pgs_r /\ (trim (header hs (gHeader pgs_g)) = trim [97] ->
                                                    header hs (gHeader pgs_g) = [97])
                   | PCol _ => True
                   end) pgs_h).
  { repeat (apply Forall_cons;
            [first [exact I
                   | intros _; split; [reflexivity|]; vm_compute; intros E;
                     first [reflexivity | discriminate E]]|]).
    apply Forall_nil. }
  assert (HM : mono (map pev_now (filter (concerns pgs_k) pgs_h))).
  { vm_compute. repeat split; discriminate. }
  split; [exact HF|]. split; [exact HM|].
  split; [vm_compute; reflexivity|]. split; [reflexivity|].
  split; [vm_compute; reflexivity|]. split; [vm_compute; reflexivity|].
  refine (C09_plugin_group_share pgs_h pgs_r pgs_g [97] 700 eq_refl _ _ _ _ eq_refl _ HF HM).
  - vm_compute. reflexivity.
  - lia.
  - unfold max_i64. cbn. lia.
  - cbn. lia.
  - discriminate.
Qed.

(* ------------------------------------------------------------------ *)
(** Non-vacuity: a two-key history with a roll-over and rejections satisfies the
    hypotheses; what the model says it does. *)
Example C09_example_history :
  let a := {| kLimiter := [65]; kGrouped := true; kGroup := [103; 49] |} in
  let b := {| kLimiter := [65]; kGrouped := true; kGroup := [103; 50] |} in
  let wd := {| wW := 10; wAllowed := 3; wParts := 500000000; wSpillOn := false; wRenew := 0 |} in
  let h := [(9, AInc a wd); (10, AInc a wd); (10, AInc b wd); (10, AInc a wd);
            (11, APeek); (11, AInc a wd); (11, AInc b wd); (20, AInc a wd); (20, AInc a wd);
            (21, AInc a wd)] in
  key_valid a = true /\ const_data wd (project a h) /\ mono_from 0 (map sev_now (project a h)) /\
  map (fun e => (s_now e, s_verdict e, s_lim e)) (entries_of a (run_map [] h)) =
    [(9, Proceed, 2); (10, Proceed, 2); (10, Block, 2); (11, Proceed, 2); (20, Proceed, 2);
     (20, Block, 2); (21, Proceed, 2)] /\
  map (fun e => (s_now e, s_verdict e)) (entries_of b (run_map [] h)) =
    [(10, Proceed); (11, Proceed)].
Proof.
  cbn zeta. split; [reflexivity|]. split; [repeat constructor|].
  split; [cbn; lia|]. vm_compute. split; reflexivity.
Qed.

(* a grouped plugin request: key, ratio and the store step it amounts to *)
Example C09_example_plugin :
  let g := {| gHeader := [88; 45; 71]; gGroups := [{| aVal := [97]; aPct := 4619567317775286272 |}];
              gDefault := s_block; gDefPct := 0 |} in
  let r := {| rName := [114]; rAllowed := 100; rWsec := 1; rStatus := 0; rSpillOn := false;
              rRenew := 0; rGqa := Some g |} in
  (* X-G: "a" is listed with 7 %: key r / "x-g:a", limit 7; X-G: "b" is not: blocked, 429 *)
  (exists k rb, plugin_pre r [([88; 45; 71], [97])] = PreLimit k rb /\
                kGroup k = [120; 45; 103; 58; 97] /\ limit_code 100 rb = 7) /\
  plugin_step [] 5 r [([88; 45; 71], [98])] = ([], PEarly 429).
Proof.
  cbn zeta. split.
  - eexists. eexists. split; [reflexivity|]. split; vm_compute; reflexivity.
  - vm_compute. reflexivity.
Qed.

(* ------------------------------------------------------------------ *)
(** The registry layer under every interleaving of requests and metrics
    collections (RateLimitState.getLimiterState / TryToIncrement / Counters() as coded at
    HEAD, with OnRequest's and observeQuotaUsed's use of plugin.mutex). *)

(* whatever the schedule, a limiter key sees exactly the single-limiter run of its own lock
   regions: the concurrent machine refines the sequential model the theorems above are about *)
Theorem C09_registry_refines : forall ts sch c' k,
  forallb initial ts = true -> run Head (init_config ts) sch = Some c' -> key_valid k = true ->
  entries_of k (c_trace c') = run_single None (log_of k (c_log c')).
Proof. exact head_refines. Qed.
Print Assumptions C09_registry_refines.

(* the clock hypothesis of the theorems below is per key; a schedule whose labels carry
   non-decreasing readings (the form the hypothesis had before audit 2) satisfies it for every
   key, with the same lower bound *)
Theorem C09_registry_monotone_schedule_is_key_monotone : forall v ts sch c' k,
  run v (init_config ts) sch = Some c' ->
  (mono (map l_now sch) -> mono (map sev_now (log_of k (c_log c')))) /\
  (forall lo, mono_from lo (map l_now sch) -> mono_from lo (map sev_now (log_of k (c_log c')))).
Proof.
  intros v ts sch c' k HR. split.
  - exact (run_key_mono v ts sch c' k HR).
  - intros lo. exact (run_key_mono_from v ts sch c' k lo HR).
Qed.
Print Assumptions C09_registry_monotone_schedule_is_key_monotone.

(* per (remedy, group) and aligned window at most the scaled allowance proceeds, for every
   interleaving; requests of the key carry the same window data, spill-over off; the readings
   of the key's own lock regions are non-decreasing.  The disjunction of closures is kept in
   this variant-indexed form because its refutation for SnapshotPrune then refutes BOTH
   closures; for HEAD the right-closed half is stated on its own below
   (C09_registry_bound_right_closed). *)
Definition registry_bound (v : variant) : Prop :=
  forall ts sch c' k wd,
    forallb initial ts = true -> run v (init_config ts) sch = Some c' ->
    mono (map sev_now (log_of k (c_log c'))) -> key_valid k = true ->
    0 < wW wd -> wSpillOn wd = false -> requests_use k wd ts ->
    let L := scaled_quota (wAllowed wd) (wParts wd) in
    (forall j, count (in_left (wW wd) j) (entries_of k (c_trace c')) <= L) \/
    (forall j, count (in_right (wW wd) j) (entries_of k (c_trace c')) <= L).

Theorem C09_registry_bound : registry_bound Head.
Proof. intros ts sch c' k wd Hi HR HM Hk HW Hs HU L. right. eapply head_grid_bound_const_key; eassumption. Qed.
Print Assumptions C09_registry_bound.

(* what the code satisfies, without the disjunction: right-closed grid windows (jW, (j+1)W] *)
Theorem C09_registry_bound_right_closed : forall ts sch c' k wd,
  forallb initial ts = true -> run Head (init_config ts) sch = Some c' ->
  mono (map sev_now (log_of k (c_log c'))) -> key_valid k = true ->
  0 < wW wd -> wSpillOn wd = false -> requests_use k wd ts ->
  forall j, count (in_right (wW wd) j) (entries_of k (c_trace c'))
            <= scaled_quota (wAllowed wd) (wParts wd).
Proof. exact head_grid_bound_const_key. Qed.
Print Assumptions C09_registry_bound_right_closed.

(* "Counters() works on a snapshot of the map and afterwards drops the limiters it found
   idle": a request that increments a limiter between the look and the removal is forgotten,
   two requests proceed in one window with limit 1 (under either closure) *)
Theorem C09_registry_bound_snapshot_prune_refuted : ~ registry_bound SnapshotPrune.
Proof.
  intros H. destruct snapshot_prune_witness as (c' & HR & _ & HcR & HcL).
  assert (HM : mono (map sev_now (log_of wit_key (c_log c')))).
  { apply (run_key_mono SnapshotPrune wit_threads wit_schedule c' wit_key HR). cbn. lia. }
  destruct (H wit_threads wit_schedule c' wit_key wit_wd eq_refl HR HM) as [HB|HB];
    try reflexivity; try (cbn; lia).
  - repeat constructor.
  - specialize (HB 1). change (wW wit_wd) with 10 in HB. rewrite HcL in HB. vm_compute in HB. apply HB. reflexivity.
  - specialize (HB 1). change (wW wit_wd) with 10 in HB. rewrite HcR in HB. vm_compute in HB. apply HB. reflexivity.
Qed.
Print Assumptions C09_registry_bound_snapshot_prune_refuted.

(* window data other than the size may vary from request to request *)
Theorem C09_registry_grid_bound : forall ts sch c' k W,
  forallb initial ts = true -> run Head (init_config ts) sch = Some c' ->
  mono (map sev_now (log_of k (c_log c'))) -> key_valid k = true -> 0 < W ->
  const_window W (log_of k (c_log c')) ->
  bounded_left W 0 (entries_of k (c_trace c')) \/ bounded_right W 0 (entries_of k (c_trace c')).
Proof. intros. right. eapply head_grid_bound_key; eassumption. Qed.
Print Assumptions C09_registry_grid_bound.

(* a rejection means the allowance of the closed grid cell around it is used up -- also when
   requests and collections overlap *)
Theorem C09_registry_rejected_only_when_used_up : forall ts sch c' k W pre e post,
  forallb initial ts = true -> run Head (init_config ts) sch = Some c' ->
  mono_from 0 (map sev_now (log_of k (c_log c'))) -> key_valid k = true -> 0 < W ->
  const_window W (log_of k (c_log c')) ->
  entries_of k (c_trace c') = pre ++ e :: post ->
  s_verdict e = Block -> 0 < s_now e ->
  exists j, in_closed W j (s_now e) = true /\ s_lim e <= count (in_closed W j) pre.
Proof. intros. eapply head_rejected_used_up_key; eassumption. Qed.
Print Assumptions C09_registry_rejected_only_when_used_up.

(* groups are independent: what happens to a key depends on the lock regions of its own
   limiter only, whatever the other threads are and do *)
Theorem C09_registry_isolation : forall ts1 sch1 c1 ts2 sch2 c2 k,
  forallb initial ts1 = true -> run Head (init_config ts1) sch1 = Some c1 ->
  forallb initial ts2 = true -> run Head (init_config ts2) sch2 = Some c2 ->
  key_valid k = true -> log_of k (c_log c1) = log_of k (c_log c2) ->
  entries_of k (c_trace c1) = entries_of k (c_trace c2).
Proof.
  intros ts1 sch1 c1 ts2 sch2 c2 k H1 R1 H2 R2 Hk E.
  rewrite (head_refines _ _ _ _ H1 R1 Hk), (head_refines _ _ _ _ H2 R2 Hk), E. reflexivity.
Qed.
Print Assumptions C09_registry_isolation.

(* metrics collections are transparent for the control flow: without them the same request
   steps are a schedule, the registry maps the same keys to the same states, and every key
   sees its history minus the Counter() regions *)
Theorem C09_metrics_keep_registry : forall ts sch c',
  forallb initial ts = true -> run Head (init_config ts) sch = Some c' ->
  exists c'', run Head (init_config ts) (erase ts sch) = Some c'' /\
              c_map c'' = c_map c' /\
              forall k, key_valid k = true ->
                entries_of k (c_trace c'') = srun init (filter is_inc (log_of k (c_log c'))) /\
                entries_of k (c_trace c') = srun init (log_of k (c_log c')).
Proof. exact head_erase. Qed.
Print Assumptions C09_metrics_keep_registry.

(* "Counters() never changes a verdict" in full does not hold for this code: a Counter()
   region opens the next window early, and a request exactly on the grid instant that ends
   that window is then counted in it instead of opening a window of its own (limit 1,
   window 10: requests at 5, 20, 21 with a collection at 15 all proceed; without the
   collection the one at 21 is rejected).  Both behaviours respect the bound. *)
Definition C09_metrics_read_only_full : Prop :=
  forall ts sch c',
    forallb initial ts = true -> run Head (init_config ts) sch = Some c' ->
    mono_from 0 (map l_now sch) ->
    exists c'', run Head (init_config ts) (erase ts sch) = Some c'' /\
                map e_verdict (c_trace c'') = map e_verdict (c_trace c').

Theorem C09_metrics_read_only_full_refuted : ~ C09_metrics_read_only_full.
Proof.
  intros H. destruct neutral_witness as (c1 & c2 & R1 & R2 & V1 & V2).
  destruct (H nwit_threads nwit_schedule c1 eq_refl R1) as (c3 & R3 & V3); [cbn; lia|].
  rewrite R2 in R3. injection R3 as <-. rewrite V1, V2 in V3. discriminate.
Qed.
Print Assumptions C09_metrics_read_only_full_refuted.

(* outside that boundary case (no lock region of the key reads a grid instant) erasing the
   collections leaves every verdict and limit of the key unchanged *)
Theorem C09_metrics_read_only_holds_outside_grid_instants : forall ts sch c' k wd,
  forallb initial ts = true -> run Head (init_config ts) sch = Some c' ->
  mono_from 0 (map sev_now (log_of k (c_log c'))) -> key_valid k = true ->
  0 < wW wd -> wSpillOn wd = false -> requests_use k wd ts ->
  Forall (fun e => sev_now e mod wW wd <> 0) (log_of k (c_log c')) ->
  exists c'', run Head (init_config ts) (erase ts sch) = Some c'' /\
              c_map c'' = c_map c' /\
              entries_of k (c_trace c'') = entries_of k (c_trace c').
Proof. exact head_metrics_neutral_key. Qed.
Print Assumptions C09_metrics_read_only_holds_outside_grid_instants.

(* lock order plugin.mutex -> RateLimitState.mutex -> limiter mutex: from every state an
   interleaving can reach, some step is possible as long as a thread is unfinished *)
Theorem C09_registry_no_deadlock : forall ts sch c',
  forallb initial ts = true -> run Head (init_config ts) sch = Some c' ->
  existsb (fun t => negb (finished t)) (c_threads c') = true ->
  exists l c'', step Head c' l = Some c''.
Proof.
  intros ts sch c' Hi HR HU. apply head_progress; [|exact HU].
  eapply run_head_not_releasing; [exact HR|]. apply initial_not_releasing. exact Hi.
Qed.
Print Assumptions C09_registry_no_deadlock.

(* ------------------------------------------------------------------ *)
(** F-C09b (fixed by patches/C09/fix-F-C09b.patch).  getLimiterState registers a new limiter
    state and releases the registry mutex before that limiter's TryToIncrement stores the
    window data; a metrics collection in between visits a state whose stored window size is 0.
    The unpatched Counter() divides by it (the quota_used gauge callback panics, whatever the
    configured window sizes are); the patched one returns the counter of such a state. *)

Definition nonzero_sizes (ts : list thread) : Prop :=
  Forall (fun t => match t with TReq _ wd _ => wW wd <> 0 | TCol _ => True end) ts.

(* every collection that ends, ends with counters -- for every interleaving, although every
   request carries a non-zero window size *)
Definition collections_complete (v : variant) : Prop :=
  forall ts sch c' i out,
    forallb initial ts = true -> nonzero_sizes ts -> run v (init_config ts) sch = Some c' ->
    nth_error (c_threads c') i = Some (TCol (CDone out)) -> out <> None.

(* the patched code: for all window sizes, zero included *)
Theorem C09_collections_complete : forall ts sch c' i out,
  forallb initial ts = true -> run Head (init_config ts) sch = Some c' ->
  nth_error (c_threads c') i = Some (TCol (CDone out)) -> out <> None.
Proof. exact head_collections_complete. Qed.
Print Assumptions C09_collections_complete.

Corollary C09_collections_complete_head : collections_complete Head.
Proof. intros ts sch c' i out Hi _. exact (head_collections_complete ts sch c' i out Hi). Qed.
Print Assumptions C09_collections_complete_head.

(* the unpatched Counter(): one request (window 10) that has registered its limiter, one
   collection *)
Theorem C09_collections_complete_unfixed_refuted : ~ collections_complete FreshDivides.
Proof.
  intros H. destruct fresh_divides_witness as (c' & HR & E).
  refine (H fwit_threads fwit_schedule c' 1%nat None eq_refl _ HR E eq_refl).
  repeat constructor; cbn; lia.
Qed.
Print Assumptions C09_collections_complete_unfixed_refuted.

(* non-vacuity: on the patched machine the same steps are a schedule; the collection reports
   0 for the registered key and the request then proceeds *)
Example C09_collections_example :
  forallb initial fwit_threads = true /\ nonzero_sizes fwit_threads /\
  exists c', run Head (init_config fwit_threads) fwit_schedule_head = Some c' /\
             c_threads c' = [TReq wit_key wit_wd (RDone Proceed); TCol (CDone (Some [(wit_key, 0)]))].
Proof.
  split; [reflexivity|]. split; [repeat constructor; cbn; lia|]. exact fresh_head_witness.
Qed.

(* non-vacuity: the schedule of the refutation is not a schedule of the HEAD machine (the
   request waits for the registry); when the collection is over the request is counted on the
   registered state and the follow-up request is rejected *)
Example C09_registry_example :
  forallb initial wit_threads = true /\ mono (map l_now wit_schedule_head) /\
  requests_use wit_key wit_wd wit_threads /\
  run Head (init_config wit_threads) wit_schedule = None /\
  exists c', run Head (init_config wit_threads) wit_schedule_head = Some c' /\
             mono_from 0 (map sev_now (log_of wit_key (c_log c'))) /\
             map (fun e => (s_now e, s_verdict e)) (entries_of wit_key (c_trace c')) =
               [(1, Proceed); (11, Proceed); (12, Block)].
Proof.
  split; [reflexivity|]. split; [cbn; lia|]. split; [repeat constructor|].
  split; [exact head_blocks_witness|].
  destruct head_witness as (c' & HR & HE). exists c'. split; [exact HR|]. split; [|exact HE].
  apply (run_key_mono_from Head wit_threads wit_schedule_head c' wit_key 0 HR). cbn. lia.
Qed.

(* non-vacuity of the PER-KEY clock hypothesis where the schedule-level one fails: the request
   of key A takes its limiter and reads 10, is held there (as suite overlap holds a goroutine
   in its clock reading) while the request of key B runs its region at 20, and A's region is
   listed afterwards with the reading it took: the labels read [10; 20; 20; 10], not
   monotone; each key's own readings are.  C09_registry_bound_right_closed applies. *)
Definition stale_key_b : key := {| kLimiter := [66]; kGrouped := false; kGroup := [] |}.
Definition stale_threads : list thread :=
  [TReq wit_key wit_wd RLook; TReq stale_key_b wit_wd RLook].
Definition stale_schedule : list label := [lab 0 10; lab 1 20; lab 1 20; lab 0 10].

Example C09_registry_stale_reading_example :
  ~ mono (map l_now stale_schedule) /\
  exists c', run Head (init_config stale_threads) stale_schedule = Some c' /\
             map sev_now (log_of wit_key (c_log c')) = [10] /\
             map sev_now (log_of stale_key_b (c_log c')) = [20] /\
             map (fun e => (s_now e, s_verdict e)) (entries_of wit_key (c_trace c')) = [(10, Proceed)] /\
             forall j, count (in_right 10 j) (entries_of wit_key (c_trace c')) <= 1.
Proof.
  split; [cbn; lia|].
  eexists. split; [vm_compute; reflexivity|].
  split; [vm_compute; reflexivity|]. split; [vm_compute; reflexivity|].
  split; [vm_compute; reflexivity|].
  refine (C09_registry_bound_right_closed stale_threads stale_schedule _ wit_key wit_wd
            eq_refl _ _ eq_refl _ eq_refl _).
  - vm_compute. reflexivity.
  - vm_compute. exact I.
  - cbn. lia.
  - repeat constructor; discriminate.
Qed.

(* non-vacuity of C09_metrics_read_only_holds_outside_grid_instants: on the run of
   C09_registry_example (three requests, one collection, a rejection) the lock regions of the
   key read 1, 11, 11 (the Counter() region), 12 -- no grid instant of window 10 -- and the
   theorem applies: without the collection the key sees the same verdicts *)
Example C09_metrics_read_only_example :
  exists c', run Head (init_config wit_threads) wit_schedule_head = Some c' /\
             map (fun e => sev_now e mod 10) (log_of wit_key (c_log c')) = [1; 1; 1; 2] /\
             exists c'', run Head (init_config wit_threads) (erase wit_threads wit_schedule_head) = Some c'' /\
                         c_map c'' = c_map c' /\
                         entries_of wit_key (c_trace c'') = entries_of wit_key (c_trace c').
Proof.
  eexists. split; [vm_compute; reflexivity|]. split; [vm_compute; reflexivity|].
  refine (C09_metrics_read_only_holds_outside_grid_instants wit_threads wit_schedule_head _
            wit_key wit_wd eq_refl _ _ eq_refl _ eq_refl _ _).
  - vm_compute. reflexivity.
  - vm_compute. repeat split; discriminate.
  - cbn. lia.
  - repeat constructor.
  - vm_compute. repeat (apply Forall_cons; [discriminate|]). apply Forall_nil.
Qed.

(* ------------------------------------------------------------------ *)
(** Suite "overlap" and the registry machine.  The suite's entry point Overlap.run_overlap
    interprets the forced schedule of a case by Overlap.run_ops; every change it makes to the
    machine configuration is a [Registry.step Head] (Overlap.machine_step), so every state
    it reaches -- in particular the final one, whose verdicts and counters are compared with
    the implementation's -- is reached by some schedule of [run Head] from the initial
    threads of the case: the states the suite compares are states the C09_registry_*
    theorems speak about.  (The clock hypothesis of those theorems is per key; the
    interpreter executes a parked region with the reading taken when it was parked, see
    C09_registry_stale_reading_example.) *)
Theorem C09_overlap_suite_states_are_reachable : forall ops o0 o sts,
  Overlap.run_ops o0 ops = Some (o, sts) ->
  exists sch, run Head (Overlap.o_cfg o0) sch = Some (Overlap.o_cfg o).
Proof. exact Overlap.run_ops_reachable. Qed.
Print Assumptions C09_overlap_suite_states_are_reachable.

(* ... for a whole case: if the suite accepts it (run_overlap = None, no mismatch), the
   observed verdicts and counters are those of a configuration that a schedule of the Head
   machine reaches from the case's threads, all of them initial *)
Theorem C09_overlap_accepted_case_is_a_run : forall k,
  Overlap.run_overlap k = None ->
  exists ts sch c',
    Overlap.overlap_threads k = Some ts /\ forallb initial ts = true /\
    run Head (init_config ts) sch = Some c' /\
    zlist_eqb (Overlap.verdicts_of c' (Overlap.overlap_kt k) (Overlap.ov_reqs k) 0)
              (Overlap.ov_verdicts k) = true /\
    Overlap.all2 Overlap.counters_eqb
      (Overlap.counters_of c' (length (Overlap.ov_cols k)) (length (Overlap.ov_reqs k)))
      (Overlap.ov_counters k) = true.
Proof. exact Overlap.run_overlap_accepted_reachable. Qed.
Print Assumptions C09_overlap_accepted_case_is_a_run.

(* non-vacuity: two ungrouped remedies r1, r2 (1 request per second).  Request 0 (r1) is held
   in its clock reading at the base instant; the clock moves on by 0.5 s; request 1 (r2) runs;
   request 0 is released (its region runs with the reading it took); request 2 (r1) is
   rejected with 429; a collection reports 1 for both.  The case is accepted. *)
Example C09_overlap_example :
  Overlap.run_overlap Overlap.overlap_example = None.
Proof. vm_compute. reflexivity. Qed.

(* ------------------------------------------------------------------ *)
(** Two more dimensions (Variants.v), each with a variant switch.

    1. Spill-over: the group's share is taken of the WHOLE budget (allowed + carried over)
    and rounded up once.  For every state, instant and window data (positive budget and
    ratio, no int64 saturation): a request proceeds exactly when the requests already
    counted in its window are fewer than budget * ratio (as a rational number), i.e. the
    limit in force is ceil((allowed + carried over) * ratio) and nothing larger.  The
    variant that rounds the two shares up separately (seeded change C09-12) lets a fifth
    request through where 8 * 50 % = 4. *)
Theorem C09_carry_share_exact : carry_share_exact WholeBudget.
Proof. exact carry_share_exact_whole. Qed.
Print Assumptions C09_carry_share_exact.

Theorem C09_carry_share_split_ceilings_refuted : ~ carry_share_exact SplitCeilings.
Proof. exact carry_share_exact_split_refuted. Qed.
Print Assumptions C09_carry_share_split_ceilings_refuted.

(* WholeBudget is what the model (and, through GenEquiv, the translated source) does; the
   hypotheses of the statement are satisfiable and the witness state is an ordinary one:
   HEAD rejects the fifth request, the split variant counts it *)
Example C09_carry_share_example :
  (forall now wd s, try_inc_v WholeBudget now wd s = try_inc now wd s) /\
  limit_at 25 cs_wd cs_st = 4 /\ snd (try_inc 25 cs_wd cs_st) = Block /\
  snd (try_inc_v SplitCeilings 25 cs_wd cs_st) = Proceed /\
  limit_with_carry SplitCeilings 5 3 500000000 = 5.
Proof. split; [exact try_inc_whole_budget|]. vm_compute. repeat split. Qed.

(** 2. One plugin instance across configuration changes (the plugin and the limiter state
    survive apply_policies): for every history of requests, each carrying the remedy record
    in force when it is handled -- any number of versions under one name, same or different
    numbers of groups -- and every state the instance may be in, every request is decided
    (counter key, ratio, default behaviour) by the allocation table passed with it.  With
    [C09_plugin_window_bound] / [C09_plugin_outcome], which are stated over [plugin_pre]:
    the share in force is the one of the table in force.  The variant that keeps a
    per-name index of the table and rebuilds it only when the number of groups changes
    (seeded change C09-11) keeps deciding by the old percentages. *)
Theorem C09_table_in_force : table_in_force LiveTable.
Proof. exact table_in_force_live. Qed.
Print Assumptions C09_table_in_force.

Theorem C09_table_in_force_indexed_per_name_refuted : ~ table_in_force IndexedPerName.
Proof. exact table_in_force_indexed_refuted. Qed.
Print Assumptions C09_table_in_force_indexed_per_name_refuted.

Example C09_table_in_force_example :
  (forall ix r hs, plugin_pre_v LiveTable ix r hs = (ix, plugin_pre r hs)) /\
  map (fun p => match p with PreLimit _ rb => snap rb | PreDone _ => -1 end)
      (run_pre_v LiveTable [] rl_history) = [500000000; 200000000] /\
  map (fun p => match p with PreLimit _ rb => snap rb | PreDone _ => -1 end)
      (run_pre_v IndexedPerName [] rl_history) = [500000000; 500000000].
Proof. split; [exact plugin_pre_live|]. vm_compute. split; reflexivity. Qed.
