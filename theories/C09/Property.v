(* C09 — Policy-mode throttling never exceeds the allowed count per aligned
   window.  Final statements only; proofs are in Proofs.v / LimitRange.v.

   Vocabulary (Model.v / Spec.v):
     run_map [] h          trace of a history h of TryToIncrement / Counters() calls
                           on an empty RateLimitState: one entry per request with
                           its instant, key, verdict and the limit in force
     entries_of k tr       the entries of key k = (remedy name, grouping, group id)
     project k h           the sub-history key k sees (its requests + every Counters())
     count (in_right W j)  requests that proceeded at an instant in (jW,(j+1)W]
     bounded_right W B tr  every request that proceeded is within the limit in force,
                           counting those before it in its right-closed grid window
                           (windows not cut by an old window ending at B; B = 0: all)
   Hypotheses: window size W > 0; clock readings of the key's own events are
   non-decreasing (they are taken under the state's mutex).
   The model is the tree WITH patches/C09/fix-F-C09.patch.

   Last part (Registry.v): the registry layer as a small-step machine whose atomic steps are
   the lock regions (plugin.mutex, RateLimitState.mutex, the limiter's mutex), threads =
   requests and metrics collections:
     run v (init_config ts) sch = Some c'   the labels of sch are a schedule of the threads ts
     c_trace c'            one entry per decided request, in the order of the decisions
     log_of k (c_log c')   the lock regions of the limiter of key k (requests: SInc, the
                           Counter() of a collection: SPeek) with the clock readings taken inside
     erase ts sch          the schedule without the steps of the collections *)
From Coq Require Import List ZArith Bool Lia.
From Verif Require Import C09.Model C09.Spec C09.Proofs C09.LimitRange C09.Registry C09.RegistryProofs.
Import ListNotations.
Open Scope Z_scope.

(* ------------------------------------------------------------------ *)
(** Per grid window at most the limit proceeds.  The text does not fix the
    closure of the window edges, so the statement is the disjunction; this code
    satisfies the right-closed half (and not the left-closed one, see
    [C09_left_closed_half_fails]).  Window data other than the size (allowed
    count, ratio, spill-over) may change from request to request: each request
    that proceeds is within the limit in force when it is handled. *)
Theorem C09_grid_bound : forall h k W,
  0 < W -> key_valid k = true ->
  const_window W (project k h) -> mono (map sev_now (project k h)) ->
  bounded_left W 0 (entries_of k (run_map [] h)) \/
  bounded_right W 0 (entries_of k (run_map [] h)).
Proof. intros. right. apply map_grid_bound; assumption. Qed.
Print Assumptions C09_grid_bound.

(* With constant window data and spill-over off the limit in force is the one
   number scaled_quota allowed parts, and no grid window exceeds it. *)
Theorem C09_grid_bound_const : forall h k wd,
  0 < wW wd -> wSpillOn wd = false -> key_valid k = true ->
  const_data wd (project k h) -> mono (map sev_now (project k h)) ->
  let L := scaled_quota (wAllowed wd) (wParts wd) in
  (forall j, count (in_left (wW wd) j) (entries_of k (run_map [] h)) <= L) \/
  (forall j, count (in_right (wW wd) j) (entries_of k (run_map [] h)) <= L).
Proof. intros. right. apply map_grid_bound_const; assumption. Qed.
Print Assumptions C09_grid_bound_const.

(* Window size changes between requests: after any history h1 whose last request
   of key k carried window size W, all further requests with size W respect the
   W-grid in every window that is not cut by the window left open at the change
   (ending at wend s1): all windows if that end is on the W-grid, else those
   beginning at or after it. *)
Theorem C09_grid_bound_after_resize : forall h1 h2 k W s1,
  0 < W -> key_valid k = true ->
  get (final_map [] h1) k = Some s1 -> wW (swd s1) = W ->
  const_window W (project k h2) -> mono (map sev_now (project k h2)) ->
  bounded_left W (wend s1) (entries_of k (run_map (final_map [] h1) h2)) \/
  bounded_right W (wend s1) (entries_of k (run_map (final_map [] h1) h2)).
Proof. intros. right. apply map_grid_bound_after_resize; assumption. Qed.
Print Assumptions C09_grid_bound_after_resize.

(* The side condition above is needed: in the window the change cuts, more than
   the limit can proceed (old window (0,10] still open at 10; new size 4; the
   window (8,12] gets 4 > 3 requests of the second part of the history).  The
   hypotheses of the theorem hold here (stale end 10, stored size 4). *)
Example C09_cut_window_not_bounded :
  let k := {| kLimiter := [65]; kGrouped := false; kGroup := [] |} in
  let wd w := {| wW := w; wAllowed := 3; wParts := scale; wSpillOn := false; wRenew := 0 |} in
  let h1 := [(1, AInc k (wd 10)); (9, AInc k (wd 4))] in
  let h2 := [(10, AInc k (wd 4)); (11, AInc k (wd 4)); (11, AInc k (wd 4)); (11, AInc k (wd 4))] in
  option_map (fun s => (wend s, wW (swd s))) (get (final_map [] h1) k) = Some (10, 4) /\
  count (in_right 4 2) (entries_of k (run_map (final_map [] h1) h2)) = 4 /\
  map s_lim (entries_of k (run_map (final_map [] h1) h2)) = [3; 3; 3; 3].
Proof. vm_compute. repeat split. Qed.

(* The left-closed half does not hold for this code (requests at 1, 3, 4, 4 with
   window 3 and limit 2: three proceed in [3,6)); not a defect, the text leaves
   the closure open. *)
Theorem C09_left_closed_half_fails :
  exists h k W, 0 < W /\ key_valid k = true /\ const_window W (project k h) /\
    mono (map sev_now (project k h)) /\
    ~ bounded_left W 0 (entries_of k (run_map [] h)).
Proof. exact left_closed_half_fails. Qed.
Print Assumptions C09_left_closed_half_fails.

(* ------------------------------------------------------------------ *)
(** Counters of different remedies and different groups never influence each
    other. *)

(* a request on one key leaves the state of every other key unchanged *)
Theorem C09_isolation_step : forall m now k wd k',
  k' <> k -> get (fst (step_map m now (AInc k wd))) k' = get m k'.
Proof. exact step_map_frame. Qed.
Print Assumptions C09_isolation_step.

(* a call refused for a missing remedy name / group id changes nothing at all *)
Theorem C09_invalid_key_no_effect : forall m now k wd,
  key_valid k = false -> fst (step_map m now (AInc k wd)) = m.
Proof. exact invalid_key_no_effect. Qed.
Print Assumptions C09_invalid_key_no_effect.

(* what happens to a key (verdicts, limits in force) is a function of its own
   sub-history alone, whatever the other keys do in between *)
Theorem C09_isolation : forall h k,
  key_valid k = true ->
  entries_of k (run_map [] h) = run_single None (project k h).
Proof. intros h k Hk. exact (project_run h [] k Hk). Qed.
Print Assumptions C09_isolation.

Corollary C09_isolation_histories : forall h h' k,
  key_valid k = true -> project k h = project k h' ->
  entries_of k (run_map [] h) = entries_of k (run_map [] h').
Proof. intros h h' k Hk E. rewrite !C09_isolation by exact Hk. rewrite E. reflexivity. Qed.
Print Assumptions C09_isolation_histories.

(* ------------------------------------------------------------------ *)
(** Handled one at a time, a request is rejected only if its group's share of
    the current window is used up. *)

(* the verdict is Block exactly when the counter of the up-to-date window has
   reached the limit in force *)
Theorem C09_exact_sequential : forall now wd s,
  wW wd <> 0 ->
  let s1 := ensure now (with_wd s wd) in
  (snd (try_inc now wd s) = Block <-> limit_at now wd s <= cnt s1) /\
  (snd (try_inc now wd s) = Proceed <-> cnt s1 < limit_at now wd s).
Proof. exact try_inc_verdict. Qed.
Print Assumptions C09_exact_sequential.

(* ... and that counter only counts requests of this key that proceeded inside
   the closed grid cell [jW,(j+1)W] around the rejected request: a rejection
   (after the epoch instant, clock >= 0) means the limit in force is used up
   there. *)
Theorem C09_rejected_only_when_used_up : forall h k W pre e post,
  0 < W -> key_valid k = true ->
  const_window W (project k h) -> mono_from 0 (map sev_now (project k h)) ->
  entries_of k (run_map [] h) = pre ++ e :: post ->
  s_verdict e = Block -> 0 < s_now e ->
  exists j, in_closed W j (s_now e) = true /\ s_lim e <= count (in_closed W j) pre.
Proof. intros. eapply map_rejected_used_up; eassumption. Qed.
Print Assumptions C09_rejected_only_when_used_up.

(* ------------------------------------------------------------------ *)
(** The limit is the allowed count scaled by the allocation percentage, rounded
    up.  (Patched code; bound of the reflection in the statement: percentages
    with at most two decimals between 0 and 100, every int64 count.) *)
Theorem C09_limit_is_ceiling : forall total h,
  0 <= total <= max_i64 -> 0 <= h <= 10000 ->
  limit_code total (ratio_of_pct_bits (pct_bits_of_hundredths h)) = limit_exact total h.
Proof.
  intros total h Ht Hh. unfold limit_code. rewrite (snap_hundredths h Hh).
  exact (limit_is_ceiling total h Ht Hh).
Qed.
Print Assumptions C09_limit_is_ceiling.

(* whatever float64 the ratio is, the integer part of the limit is an exact
   ceiling of total * parts / 10^9 *)
Theorem C09_limit_integer_part : forall total parts,
  0 < total -> 0 < parts < two63 -> cdiv (total * parts) scale <= max_i64 ->
  (scaled_quota total parts - 1) * scale < total * parts <= scaled_quota total parts * scale.
Proof.
  intros total parts Ht Hp Hq. rewrite (scaled_quota_ceiling total parts Ht Hp Hq).
  apply cdiv_spec. reflexivity.
Qed.
Print Assumptions C09_limit_integer_part.

(* F-C09, the formula of the unpatched tree int64(math.Ceil(float64(total)*ratio)):
   allowed 100 at 7 % gives 8, the exact rounded-up share is 7; the patched
   formula gives 7. *)
Example C09_unfixed_limit_refuted :
  let r7 := ratio_of_pct_bits (pct_bits_of_hundredths 700) in
  limit_unfixed 100 r7 = Some 8 /\ limit_exact 100 700 = 7 /\ limit_code 100 r7 = 7.
Proof. vm_compute. repeat split. Qed.

(* ------------------------------------------------------------------ *)
(** Plugin level (StrategyBasedThrottlingPlugin.OnRequest). *)

(* the remaining requests get the configured rejection status (429 when unset) *)
Theorem C09_plugin_status : forall m now r hs m' s,
  plugin_step m now r hs = (m', PEarly s) -> s = status_of r.
Proof. exact plugin_status. Qed.
Print Assumptions C09_plugin_status.

(* requests that reach a counter do so under a key made of the remedy name and,
   for grouped remedies, the header name and the (trimmed) header value: different
   remedy names, or different values of the group header under one configuration,
   never share a key -- with C09_isolation: never influence each other *)
Theorem C09_plugin_keys_distinct : forall r r' hs hs' k k' rb rb',
  plugin_pre r hs = PreLimit k rb -> plugin_pre r' hs' = PreLimit k' rb' ->
  (rName r <> rName r' -> k <> k') /\
  (forall g, rGqa r = Some g -> rGqa r' = Some g ->
     trim (header hs (gHeader g)) <> trim (header hs' (gHeader g)) -> k <> k').
Proof. exact plugin_keys_distinct. Qed.
Print Assumptions C09_plugin_keys_distinct.

(* default behaviours that decide without a counter (allow, block, undefined)
   leave every counter untouched *)
Theorem C09_plugin_default_no_count : forall m now r hs o,
  plugin_pre r hs = PreDone o -> plugin_step m now r hs = (m, o).
Proof. exact plugin_done_no_effect. Qed.
Print Assumptions C09_plugin_default_no_count.

(* ------------------------------------------------------------------ *)
(** Non-vacuity: a two-key history with a roll-over and rejections satisfies the
    hypotheses; what the model says it does. *)
Example C09_example_history :
  let a := {| kLimiter := [65]; kGrouped := true; kGroup := [103; 49] |} in
  let b := {| kLimiter := [65]; kGrouped := true; kGroup := [103; 50] |} in
  let wd := {| wW := 10; wAllowed := 3; wParts := 500000000; wSpillOn := false; wRenew := 0 |} in
  let h := [(9, AInc a wd); (10, AInc a wd); (10, AInc b wd); (10, AInc a wd);
            (11, APeek); (11, AInc a wd); (11, AInc b wd); (20, AInc a wd); (20, AInc a wd);
            (21, AInc a wd)] in
  key_valid a = true /\ const_data wd (project a h) /\ mono_from 0 (map sev_now (project a h)) /\
  map (fun e => (s_now e, s_verdict e, s_lim e)) (entries_of a (run_map [] h)) =
    [(9, Proceed, 2); (10, Proceed, 2); (10, Block, 2); (11, Proceed, 2); (20, Proceed, 2);
     (20, Block, 2); (21, Proceed, 2)] /\
  map (fun e => (s_now e, s_verdict e)) (entries_of b (run_map [] h)) =
    [(10, Proceed); (11, Proceed)].
Proof.
  cbn zeta. split; [reflexivity|]. split; [repeat constructor|].
  split; [cbn; lia|]. vm_compute. split; reflexivity.
Qed.

(* a grouped plugin request: key, ratio and the store step it amounts to *)
Example C09_example_plugin :
  let g := {| gHeader := [88; 45; 71]; gGroups := [{| aVal := [97]; aPct := 4619567317775286272 |}];
              gDefault := s_block; gDefPct := 0 |} in
  let r := {| rName := [114]; rAllowed := 100; rWsec := 1; rStatus := 0; rSpillOn := false;
              rRenew := 0; rGqa := Some g |} in
  (* X-G: "a" is listed with 7 %: key r / "x-g:a", limit 7; X-G: "b" is not: blocked, 429 *)
  (exists k rb, plugin_pre r [([88; 45; 71], [97])] = PreLimit k rb /\
                kGroup k = [120; 45; 103; 58; 97] /\ limit_code 100 rb = 7) /\
  plugin_step [] 5 r [([88; 45; 71], [98])] = ([], PEarly 429).
Proof.
  cbn zeta. split.
  - eexists. eexists. split; [reflexivity|]. split; vm_compute; reflexivity.
  - vm_compute. reflexivity.
Qed.

(* ------------------------------------------------------------------ *)
(** The registry layer under every interleaving of requests and metrics
    collections (RateLimitState.getLimiterState / TryToIncrement / Counters() as coded at
    HEAD, with OnRequest's and observeQuotaUsed's use of plugin.mutex). *)

(* whatever the schedule, a limiter key sees exactly the single-limiter run of its own lock
   regions: the concurrent machine refines the sequential model the theorems above are about *)
Theorem C09_registry_refines : forall ts sch c' k,
  forallb initial ts = true -> run Head (init_config ts) sch = Some c' -> key_valid k = true ->
  entries_of k (c_trace c') = run_single None (log_of k (c_log c')).
Proof. exact head_refines. Qed.
Print Assumptions C09_registry_refines.

(* per (remedy, group) and aligned window at most the scaled allowance proceeds, for every
   interleaving; requests of the key carry the same window data, spill-over off *)
Definition registry_bound (v : variant) : Prop :=
  forall ts sch c' k wd,
    forallb initial ts = true -> run v (init_config ts) sch = Some c' ->
    mono (map l_now sch) -> key_valid k = true ->
    0 < wW wd -> wSpillOn wd = false -> requests_use k wd ts ->
    let L := scaled_quota (wAllowed wd) (wParts wd) in
    (forall j, count (in_left (wW wd) j) (entries_of k (c_trace c')) <= L) \/
    (forall j, count (in_right (wW wd) j) (entries_of k (c_trace c')) <= L).

Theorem C09_registry_bound : registry_bound Head.
Proof. intros ts sch c' k wd Hi HR HM Hk HW Hs HU L. right. eapply head_grid_bound_const; eassumption. Qed.
Print Assumptions C09_registry_bound.

(* "Counters() works on a snapshot of the map and afterwards drops the limiters it found
   idle": a request that increments a limiter between the look and the removal is forgotten,
   two requests proceed in one window with limit 1 (under either closure) *)
Theorem C09_registry_bound_snapshot_prune_refuted : ~ registry_bound SnapshotPrune.
Proof.
  intros H. destruct snapshot_prune_witness as (c' & HR & _ & HcR & HcL).
  destruct (H wit_threads wit_schedule c' wit_key wit_wd eq_refl HR) as [HB|HB];
    try reflexivity; try (cbn; lia).
  - repeat constructor.
  - specialize (HB 1). change (wW wit_wd) with 10 in HB. rewrite HcL in HB. vm_compute in HB. apply HB. reflexivity.
  - specialize (HB 1). change (wW wit_wd) with 10 in HB. rewrite HcR in HB. vm_compute in HB. apply HB. reflexivity.
Qed.
Print Assumptions C09_registry_bound_snapshot_prune_refuted.

(* window data other than the size may vary from request to request *)
Theorem C09_registry_grid_bound : forall ts sch c' k W,
  forallb initial ts = true -> run Head (init_config ts) sch = Some c' ->
  mono (map l_now sch) -> key_valid k = true -> 0 < W ->
  const_window W (log_of k (c_log c')) ->
  bounded_left W 0 (entries_of k (c_trace c')) \/ bounded_right W 0 (entries_of k (c_trace c')).
Proof. intros. right. eapply head_grid_bound; eassumption. Qed.
Print Assumptions C09_registry_grid_bound.

(* a rejection means the allowance of the closed grid cell around it is used up -- also when
   requests and collections overlap *)
Theorem C09_registry_rejected_only_when_used_up : forall ts sch c' k W pre e post,
  forallb initial ts = true -> run Head (init_config ts) sch = Some c' ->
  mono_from 0 (map l_now sch) -> key_valid k = true -> 0 < W ->
  const_window W (log_of k (c_log c')) ->
  entries_of k (c_trace c') = pre ++ e :: post ->
  s_verdict e = Block -> 0 < s_now e ->
  exists j, in_closed W j (s_now e) = true /\ s_lim e <= count (in_closed W j) pre.
Proof. intros. eapply head_rejected_used_up; eassumption. Qed.
Print Assumptions C09_registry_rejected_only_when_used_up.

(* groups are independent: what happens to a key depends on the lock regions of its own
   limiter only, whatever the other threads are and do *)
Theorem C09_registry_isolation : forall ts1 sch1 c1 ts2 sch2 c2 k,
  forallb initial ts1 = true -> run Head (init_config ts1) sch1 = Some c1 ->
  forallb initial ts2 = true -> run Head (init_config ts2) sch2 = Some c2 ->
  key_valid k = true -> log_of k (c_log c1) = log_of k (c_log c2) ->
  entries_of k (c_trace c1) = entries_of k (c_trace c2).
Proof.
  intros ts1 sch1 c1 ts2 sch2 c2 k H1 R1 H2 R2 Hk E.
  rewrite (head_refines _ _ _ _ H1 R1 Hk), (head_refines _ _ _ _ H2 R2 Hk), E. reflexivity.
Qed.
Print Assumptions C09_registry_isolation.

(* metrics collections are transparent for the control flow: without them the same request
   steps are a schedule, the registry maps the same keys to the same states, and every key
   sees its history minus the Counter() regions *)
Theorem C09_metrics_keep_registry : forall ts sch c',
  forallb initial ts = true -> run Head (init_config ts) sch = Some c' ->
  exists c'', run Head (init_config ts) (erase ts sch) = Some c'' /\
              c_map c'' = c_map c' /\
              forall k, key_valid k = true ->
                entries_of k (c_trace c'') = srun init (filter is_inc (log_of k (c_log c'))) /\
                entries_of k (c_trace c') = srun init (log_of k (c_log c')).
Proof. exact head_erase. Qed.
Print Assumptions C09_metrics_keep_registry.

(* "Counters() never changes a verdict" in full does not hold for this code: a Counter()
   region opens the next window early, and a request exactly on the grid instant that ends
   that window is then counted in it instead of opening a window of its own (limit 1,
   window 10: requests at 5, 20, 21 with a collection at 15 all proceed; without the
   collection the one at 21 is rejected).  Both behaviours respect the bound. *)
Definition C09_metrics_read_only_full : Prop :=
  forall ts sch c',
    forallb initial ts = true -> run Head (init_config ts) sch = Some c' ->
    mono_from 0 (map l_now sch) ->
    exists c'', run Head (init_config ts) (erase ts sch) = Some c'' /\
                map e_verdict (c_trace c'') = map e_verdict (c_trace c').

Theorem C09_metrics_read_only_full_refuted : ~ C09_metrics_read_only_full.
Proof.
  intros H. destruct neutral_witness as (c1 & c2 & R1 & R2 & V1 & V2).
  destruct (H nwit_threads nwit_schedule c1 eq_refl R1) as (c3 & R3 & V3); [cbn; lia|].
  rewrite R2 in R3. injection R3 as <-. rewrite V1, V2 in V3. discriminate.
Qed.
Print Assumptions C09_metrics_read_only_full_refuted.

(* outside that boundary case (no lock region of the key reads a grid instant) erasing the
   collections leaves every verdict and limit of the key unchanged *)
Theorem C09_metrics_read_only_holds_outside_grid_instants : forall ts sch c' k wd,
  forallb initial ts = true -> run Head (init_config ts) sch = Some c' ->
  mono_from 0 (map l_now sch) -> key_valid k = true ->
  0 < wW wd -> wSpillOn wd = false -> requests_use k wd ts ->
  Forall (fun e => sev_now e mod wW wd <> 0) (log_of k (c_log c')) ->
  exists c'', run Head (init_config ts) (erase ts sch) = Some c'' /\
              c_map c'' = c_map c' /\
              entries_of k (c_trace c'') = entries_of k (c_trace c').
Proof. exact head_metrics_neutral. Qed.
Print Assumptions C09_metrics_read_only_holds_outside_grid_instants.

(* lock order plugin.mutex -> RateLimitState.mutex -> limiter mutex: from every state an
   interleaving can reach, some step is possible as long as a thread is unfinished *)
Theorem C09_registry_no_deadlock : forall ts sch c',
  forallb initial ts = true -> run Head (init_config ts) sch = Some c' ->
  existsb (fun t => negb (finished t)) (c_threads c') = true ->
  exists l c'', step Head c' l = Some c''.
Proof.
  intros ts sch c' Hi HR HU. apply head_progress; [|exact HU].
  eapply run_head_not_releasing; [exact HR|]. apply initial_not_releasing. exact Hi.
Qed.
Print Assumptions C09_registry_no_deadlock.

(* non-vacuity: the schedule of the refutation is not a schedule of the HEAD machine (the
   request waits for the registry); when the collection is over the request is counted on the
   registered state and the follow-up request is rejected *)
Example C09_registry_example :
  forallb initial wit_threads = true /\ mono (map l_now wit_schedule_head) /\
  requests_use wit_key wit_wd wit_threads /\
  run Head (init_config wit_threads) wit_schedule = None /\
  exists c', run Head (init_config wit_threads) wit_schedule_head = Some c' /\
             map (fun e => (s_now e, s_verdict e)) (entries_of wit_key (c_trace c')) =
               [(1, Proceed); (11, Proceed); (12, Block)].
Proof.
  split; [reflexivity|]. split; [cbn; lia|]. split; [repeat constructor|].
  split; [exact head_blocks_witness | exact head_witness].
Qed.
