(* C09 — vocabulary of the statements: counting the requests that proceeded in a
   grid window, monotone clocks, histories with one window size. *)
From Coq Require Import List ZArith Bool.
From Verif Require Import C09.Model.
Import ListNotations.
Open Scope Z_scope.

Definition is_pass (e : sentry) : bool := verdict_eqb (s_verdict e) Proceed.

(* the k-th grid window of length W, with its three possible closures *)
Definition in_right (W k t : Z) : bool := (k * W <? t) && (t <=? (k + 1) * W).   (* (kW,(k+1)W] *)
Definition in_left (W k t : Z) : bool := (k * W <=? t) && (t <? (k + 1) * W).    (* [kW,(k+1)W) *)
Definition in_closed (W k t : Z) : bool := (k * W <=? t) && (t <=? (k + 1) * W). (* [kW,(k+1)W] *)

(* number of requests of a trace that proceeded at an instant satisfying p *)
Fixpoint count (p : Z -> bool) (tr : list sentry) : Z :=
  match tr with
  | [] => 0
  | e :: r => (if is_pass e && p (s_now e) then 1 else 0) + count p r
  end.

(* non-decreasing clock readings, the first one at least lo *)
Fixpoint mono_from (lo : Z) (l : list Z) : Prop :=
  match l with
  | [] => True
  | t :: r => lo <= t /\ mono_from t r
  end.
Definition mono (l : list Z) : Prop :=
  match l with [] => True | t :: r => mono_from t r end.

(* every request of the (single-key) history carries window size W *)
Definition const_window (W : Z) (h : list sev) : Prop :=
  Forall (fun ev => match ev with SInc _ wd => wW wd = W | SPeek _ => True end) h.

(* every request carries the same window data, spill-over off *)
Definition const_data (wd : wdata) (h : list sev) : Prop :=
  Forall (fun ev => match ev with SInc _ wd' => wd' = wd | SPeek _ => True end) h.

(* no request of the (store level) history has a zero window size *)
Definition nonzero_windows (h : list (Z * action)) : Prop :=
  Forall (fun na => match snd na with AInc _ wd => wW wd <> 0 | APeek => True end) h.

(* grid windows of size W that are not cut by the window left open (ending at B)
   when the window size became W: all of them if B is on the W-grid, otherwise
   those that begin at or after B *)
Definition good_window (W B k : Z) : Prop := (W | B) \/ B <= k * W.

(* the two halves of "at most the limit per grid window", per request that
   proceeded: it is within the limit in force when it was handled, counting the
   requests that proceeded before it in the same window *)
Definition bounded_right (W B : Z) (tr : list sentry) : Prop :=
  forall pre e post k, tr = pre ++ e :: post -> is_pass e = true ->
    good_window W B k -> in_right W k (s_now e) = true ->
    count (in_right W k) (pre ++ [e]) <= s_lim e.
Definition bounded_left (W B : Z) (tr : list sentry) : Prop :=
  forall pre e post k, tr = pre ++ e :: post -> is_pass e = true ->
    good_window W B k -> in_left W k (s_now e) = true ->
    count (in_left W k) (pre ++ [e]) <= s_lim e.
