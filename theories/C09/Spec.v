(* C09 — vocabulary of the statements: counting the requests that proceeded in a
   grid window, monotone clocks, histories with one window size. *)
From Coq Require Import List ZArith Bool.
From Verif Require Import C09.Model.
Import ListNotations.
Open Scope Z_scope.

Definition is_pass (e : sentry) : bool := verdict_eqb (s_verdict e) Proceed.

(* the k-th grid window of length W, with its three possible closures *)
Definition in_right (W k t : Z) : bool := (k * W <? t) && (t <=? (k + 1) * W).   (* (kW,(k+1)W] *)
Definition in_left (W k t : Z) : bool := (k * W <=? t) && (t <? (k + 1) * W).    (* [kW,(k+1)W) *)
Definition in_closed (W k t : Z) : bool := (k * W <=? t) && (t <=? (k + 1) * W). (* [kW,(k+1)W] *)

(* number of requests of a trace that proceeded at an instant satisfying p *)
Fixpoint count (p : Z -> bool) (tr : list sentry) : Z :=
  match tr with
  | [] => 0
  | e :: r => (if is_pass e && p (s_now e) then 1 else 0) + count p r
  end.

(* non-decreasing clock readings, the first one at least lo *)
Fixpoint mono_from (lo : Z) (l : list Z) : Prop :=
  match l with
  | [] => True
  | t :: r => lo <= t /\ mono_from t r
  end.
Definition mono (l : list Z) : Prop :=
  match l with [] => True | t :: r => mono_from t r end.

(* every request of the (single-key) history carries window size W *)
Definition const_window (W : Z) (h : list sev) : Prop :=
  Forall (fun ev => match ev with SInc _ wd => wW wd = W | SPeek _ => True end) h.

(* every request carries the same window data, spill-over off *)
Definition const_data (wd : wdata) (h : list sev) : Prop :=
  Forall (fun ev => match ev with SInc _ wd' => wd' = wd | SPeek _ => True end) h.

(* no request of the (store level) history has a zero window size *)
Definition nonzero_windows (h : list (Z * action)) : Prop :=
  Forall (fun na => match snd na with AInc _ wd => wW wd <> 0 | APeek => True end) h.

(* grid windows of size W that are not cut by the window left open (ending at B)
   when the window size became W: all of them if B is on the W-grid, otherwise
   those that begin at or after B *)
Definition good_window (W B k : Z) : Prop := (W | B) \/ B <= k * W.

(* the two halves of "at most the limit per grid window", per request that
   proceeded: it is within the limit in force when it was handled, counting the
   requests that proceeded before it in the same window *)
Definition bounded_right (W B : Z) (tr : list sentry) : Prop :=
  forall pre e post k, tr = pre ++ e :: post -> is_pass e = true ->
    good_window W B k -> in_right W k (s_now e) = true ->
    count (in_right W k) (pre ++ [e]) <= s_lim e.
Definition bounded_left (W B : Z) (tr : list sentry) : Prop :=
  forall pre e post k, tr = pre ++ e :: post -> is_pass e = true ->
    good_window W B k -> in_left W k (s_now e) = true ->
    count (in_left W k) (pre ++ [e]) <= s_lim e.

(* ------------------------------------------------------------------ *)
(** Vocabulary added for the audit items (nominal limit, stale spill-over, windows inside
    the window left open by a size change). *)

(* the requests of a single-key history, each paired with the window data it carried *)
Fixpoint run_single_wd (o : option st) (h : list sev) : list (wdata * sentry) :=
  match h with
  | [] => []
  | ev :: r =>
      let '(o', es) := step_single o ev in
      match ev with
      | SInc _ wd => map (pair wd) es
      | SPeek _ => []
      end ++ run_single_wd o' r
  end.

(* what happened to the requests of key k in a store-level history: (window data of the
   request, its entry); [map snd (judged k h) = entries_of k (run_map [] h)] *)
Definition judged (k : key) (h : list (Z * action)) : list (wdata * sentry) :=
  run_single_wd None (project k h).

(* the limit the statement speaks about: the allowed count scaled by the allocation ratio,
   rounded up -- no spill-over *)
Definition nominal (wd : wdata) : Z := scaled_quota (wAllowed wd) (wParts wd).

(* no request so far had spill-over enabled *)
Definition spill_free (l : list (wdata * sentry)) : Prop :=
  Forall (fun we => wSpillOn (fst we) = false) l.
Definition spill_freeb (l : list (wdata * sentry)) : bool :=
  forallb (fun we => negb (wSpillOn (fst we))) l.

(* per request that proceeded with spill-over disabled: it is within the nominal limit of its
   own window data, counting the requests that proceeded before it in the same grid window;
   [side] = the condition on the requests up to and including it *)
Definition nominal_right (side : list (wdata * sentry) -> Prop) (W : Z)
           (tr : list (wdata * sentry)) : Prop :=
  forall pre wd e post j, tr = pre ++ (wd, e) :: post -> is_pass e = true ->
    wSpillOn wd = false -> side (pre ++ [(wd, e)]) -> in_right W j (s_now e) = true ->
    count (in_right W j) (map snd pre ++ [e]) <= nominal wd.
Definition nominal_left (side : list (wdata * sentry) -> Prop) (W : Z)
           (tr : list (wdata * sentry)) : Prop :=
  forall pre wd e post j, tr = pre ++ (wd, e) :: post -> is_pass e = true ->
    wSpillOn wd = false -> side (pre ++ [(wd, e)]) -> in_left W j (s_now e) = true ->
    count (in_left W j) (map snd pre ++ [e]) <= nominal wd.

(* per rejected request with spill-over disabled: the nominal limit of its own window data is
   used up in the closed grid cell around it *)
Definition nominal_rejections (side : list (wdata * sentry) -> Prop) (W : Z)
           (tr : list (wdata * sentry)) : Prop :=
  forall pre wd e post, tr = pre ++ (wd, e) :: post -> s_verdict e = Block -> 0 < s_now e ->
    wSpillOn wd = false -> side (pre ++ [(wd, e)]) ->
    exists j, in_closed W j (s_now e) = true /\ nominal wd <= count (in_closed W j) (map snd pre).

(* after a window-size change: only the one grid window that contains the end B of the window
   left open is excluded (windows that end at or before B are inside the old window) *)
Definition good_window_tight (W B k : Z) : Prop := good_window W B k \/ (k + 1) * W <= B.

Definition bounded_right_tight (W B : Z) (tr : list sentry) : Prop :=
  forall pre e post k, tr = pre ++ e :: post -> is_pass e = true ->
    good_window_tight W B k -> in_right W k (s_now e) = true ->
    count (in_right W k) (pre ++ [e]) <= s_lim e.

(* ------------------------------------------------------------------ *)
(** Plugin-level histories: calls of StrategyBasedThrottlingPlugin.OnRequest (any remedies,
    any headers) and metrics collections (RateLimitState.Counters()). *)

Inductive pev :=
| PReq (now : Z) (r : remedy) (hs : list (str * str))
| PCol (now : Z).

Definition pev_now (e : pev) : Z := match e with PReq t _ _ => t | PCol t => t end.

(* the counter key a request reaches (None: decided by a default behaviour, no counter) *)
Definition pkey_of (r : remedy) (hs : list (str * str)) : option key :=
  match plugin_pre r hs with PreLimit k _ => Some k | PreDone _ => None end.

(* one entry per OnRequest call: instant, key reached, configured rejection status, action *)
Record pentry := { p_now : Z; p_key : option key; p_status : Z; p_out : pout }.

Fixpoint run_plugin_hist (m : smap) (h : list pev) : list pentry :=
  match h with
  | [] => []
  | PReq now r hs :: rest =>
      let '(m', o) := plugin_step m now r hs in
      {| p_now := now; p_key := pkey_of r hs; p_status := status_of r; p_out := o |}
        :: run_plugin_hist m' rest
  | PCol now :: rest => run_plugin_hist (fst (step_map m now APeek)) rest
  end.

Definition reaches (k : key) (o : option key) : bool :=
  match o with Some k' => key_eqb k k' | None => false end.

Definition pentries_of (k : key) (tr : list pentry) : list pentry :=
  filter (fun e => reaches k (p_key e)) tr.

(* the events of a plugin history that concern key k: the requests that reach it and every
   collection *)
Definition concerns (k : key) (e : pev) : bool :=
  match e with PReq _ r hs => reaches k (pkey_of r hs) | PCol _ => true end.

(* number of NoOp answers at an instant satisfying p *)
Fixpoint pcount (p : Z -> bool) (tr : list pentry) : Z :=
  match tr with
  | [] => 0
  | e :: r => (match p_out e with PNoOp => if p (p_now e) then 1 else 0 | _ => 0 end) + pcount p r
  end.

(* every request of the history that reaches key k hands window data wd to the limiter *)
Definition plugin_requests_use (k : key) (wd : wdata) (h : list pev) : Prop :=
  Forall (fun e => match e with
                   | PReq _ r hs => forall k' rb, plugin_pre r hs = PreLimit k' rb -> k' = k ->
                                                  wd_of_remedy r rb = wd
                   | PCol _ => True
                   end) h.

(* the store-level history a plugin history amounts to *)
Definition store_ev (e : pev) : list (Z * action) :=
  match e with
  | PReq now r hs => match plugin_pre r hs with
                     | PreLimit k rb => [(now, AInc k (wd_of_remedy r rb))]
                     | PreDone _ => []
                     end
  | PCol now => [(now, APeek)]
  end.
Definition store_hist (h : list pev) : list (Z * action) := flat_map store_ev h.

(* the requests of the suite "plugin" (Model.run_plugin_reqs) as a plugin history *)
Fixpoint pevs_of_reqs (base : Z) (rs : list remedy) (reqs : list req_t) : option (list pev) :=
  match reqs with
  | [] => Some []
  | (now, i, hs) :: rest =>
      match nth_error rs i, pevs_of_reqs base rs rest with
      | Some r, Some h => Some (PReq (base + now) r hs :: h)
      | _, _ => None
      end
  end.
