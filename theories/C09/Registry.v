(* C09 — the registry layer (limit.RateLimitState) as a small-step machine.

   Code modelled (proxy/src/services/lunar-engine, HEAD):
     utils/limit/rate_limit_state_by_limiter.go
        RateLimitState.TryToIncrement = validateLimitKeys; getLimiterState (get-or-create
                                        under state.mutex); singleRateLimitState.TryToIncrement
                                        (under the limiter's own mutex, clock read inside)
        RateLimitState.Counters       = state.mutex held from the first to the last limiter;
                                        for every entry of the map (Go map order: any order)
                                        singleRateLimitState.Counter() under the limiter's mutex
     services/remedies/strategy_based_throttling_plugin.go
        OnRequest                     = plugin.mutex.Lock() section (definedQuotas) first
        observeQuotaUsed              = plugin.mutex.RLock() around rateLimitState.Counters()

   Atomic steps = lock regions.  Lock order: plugin.mutex (read side) -> state.mutex ->
   limiter mutex in a collection; a request never holds two of them at once, so a limiter
   region can always run to its end and is taken as one step.  Pointers to limiter states are
   indices into a heap that only grows (an unlinked state stays alive while a request holds it).

   Threads: requests (TReq) and metrics collections (TCol).  A schedule is a list of labels
   (thread, clock reading taken inside the step, choice of the next map entry); [step] returns
   None when the thread cannot take a step (finished, or waiting for a mutex).

   [SnapshotPrune] is the variant "Counters() works on a snapshot of the map and afterwards
   drops the limiters it found idle" (refuted in RegistryProofs.v).

   [FreshDivides] is the tree WITHOUT patches/C09/fix-F-C09b.patch: Counter() calls
   ensureWindowIsUpdated unconditionally, i.e. divides by the stored window size, which is 0
   on a state getLimiterState has registered and whose first TryToIncrement has not stored
   the window data yet (a request between RLook and its limiter region): the collection
   panics.  Head = the patched Counter(), which returns the counter of such a state.

   The single-limiter functions are Model.try_inc / Model.peek (tied to the source by
   C09.GenEquiv).  Executable definitions only. *)
From Coq Require Import List ZArith Bool Arith.
From Verif Require Import C09.Model.
Import ListNotations.
Open Scope Z_scope.

Inductive variant := Head | SnapshotPrune | FreshDivides.

(* Counter() divides by the stored window size without looking at it *)
Definition divides (v : variant) : bool :=
  match v with FreshDivides => true | _ => false end.

(* groupsStateByLimiter: key -> pointer *)
Definition rmap := list (key * nat).
Fixpoint rget (m : rmap) (k : key) : option nat :=
  match m with
  | [] => None
  | (k', p) :: r => if key_eqb k k' then Some p else rget r k
  end.
Fixpoint rdel (m : rmap) (k : key) : rmap :=
  match m with
  | [] => []
  | (k', p) :: r => if key_eqb k k' then rdel r k else (k', p) :: rdel r k
  end.

Fixpoint upd {A : Type} (l : list A) (i : nat) (x : A) : list A :=
  match l, i with
  | [], _ => []
  | _ :: r, O => x :: r
  | y :: r, S i' => y :: upd r i' x
  end.

Fixpoint remove_nth {A : Type} (l : list A) (i : nat) : list A :=
  match l, i with
  | [], _ => []
  | _ :: r, O => r
  | y :: r, S i' => y :: remove_nth r i'
  end.

(* program counter of a request *)
Inductive rpc :=
| RGate                  (* OnRequest entered, before plugin.mutex.Lock() *)
| RLook                  (* before RateLimitState.TryToIncrement (group id being built) *)
| RHave (p : nat)        (* getLimiterState returned pointer p *)
| RDone (v : verdict).

(* program counter of a metrics collection *)
Inductive cpc :=
| CNew
| CRead                                   (* plugin.mutex.RLock() held *)
| CWork (todo : list (key * nat))         (* map entries still to visit *)
        (acc : list (key * Z))            (* counters read so far *)
        (idle : list key)                 (* SnapshotPrune: limiters judged idle *)
| CRelease (acc : list (key * Z)) (idle : list key)   (* SnapshotPrune: before release(idle) *)
| CDone (out : option (list (key * Z))).  (* None: run-time panic (integer divide by zero;
                                             variant FreshDivides only) *)

Inductive thread :=
| TReq (k : key) (wd : wdata) (pc : rpc)
| TCol (pc : cpc).

Record config := {
  c_map : rmap;
  c_heap : list st;
  c_threads : list thread;
  c_trace : list entry;          (* one entry per decided request, in the order of the decisions *)
  c_log : list (key * sev)       (* ghost: the lock regions of the limiters, in execution order *)
}.

Definition init_config (ts : list thread) : config :=
  {| c_map := []; c_heap := []; c_threads := ts; c_trace := []; c_log := [] |}.

(* threads as they are before anything ran *)
Definition initial (t : thread) : bool :=
  match t with
  | TReq _ _ RGate | TReq _ _ RLook | TCol CNew => true
  | _ => false
  end.

(* plugin.mutex read-locked by some collection *)
Definition reading (ts : list thread) : bool :=
  existsb (fun t => match t with
                    | TCol CRead | TCol (CWork _ _ _) | TCol (CRelease _ _) => true
                    | _ => false
                    end) ts.

(* state.mutex held across steps: only by Counters() of the HEAD code *)
Definition reg_locked (v : variant) (ts : list thread) : bool :=
  match v with
  | Head | FreshDivides =>
      existsb (fun t => match t with TCol (CWork _ _ _) => true | _ => false end) ts
  | SnapshotPrune => false
  end.

Definition set_thread (c : config) (i : nat) (t : thread) : config :=
  {| c_map := c_map c; c_heap := c_heap c; c_threads := upd (c_threads c) i t;
     c_trace := c_trace c; c_log := c_log c |}.

Definition mk_entry (now : Z) (k : key) (wd : wdata) (s : st) (v : verdict) : entry :=
  {| e_now := now; e_key := k; e_verdict := v;
     e_lim := match v with Panic => 0 | _ => limit_at now wd s end |}.

Definition step_req (v : variant) (c : config) (i : nat) (now : Z)
           (k : key) (wd : wdata) (pc : rpc) : option config :=
  match pc with
  | RGate =>
      (* plugin.mutex.Lock(): waits for the collections that hold the read side *)
      if reading (c_threads c) then None else Some (set_thread c i (TReq k wd RLook))
  | RLook =>
      if negb (key_valid k) then
        (* validateLimitKeys fails before the registry is touched *)
        Some {| c_map := c_map c; c_heap := c_heap c;
                c_threads := upd (c_threads c) i (TReq k wd (RDone Invalid));
                c_trace := c_trace c ++ [{| e_now := now; e_key := k; e_verdict := Invalid; e_lim := 0 |}];
                c_log := c_log c |}
      else if reg_locked v (c_threads c) then None
      else
        (* getLimiterState under state.mutex *)
        match rget (c_map c) k with
        | Some p => Some (set_thread c i (TReq k wd (RHave p)))
        | None =>
            let p := length (c_heap c) in
            Some {| c_map := c_map c ++ [(k, p)]; c_heap := c_heap c ++ [init];
                    c_threads := upd (c_threads c) i (TReq k wd (RHave p));
                    c_trace := c_trace c; c_log := c_log c |}
        end
  | RHave p =>
      (* singleRateLimitState.TryToIncrement under the limiter's mutex *)
      let s := nth p (c_heap c) init in
      let '(s', vd) := try_inc now wd s in
      Some {| c_map := c_map c; c_heap := upd (c_heap c) p s';
              c_threads := upd (c_threads c) i (TReq k wd (RDone vd));
              c_trace := c_trace c ++ [mk_entry now k wd s vd];
              c_log := c_log c ++ [(k, SInc now wd)] |}
  | RDone _ => None
  end.

Definition in_use (s : st) : bool := (0 <? cnt s) || wSpillOn (swd s).

Definition step_col (v : variant) (c : config) (i : nat) (now : Z) (pick : nat)
           (pc : cpc) : option config :=
  match pc with
  | CNew => Some (set_thread c i (TCol CRead))
  | CRead =>
      (* Counters(): HEAD takes state.mutex and keeps it; the variant copies the map *)
      if reg_locked v (c_threads c) then None
      else Some (set_thread c i (TCol (CWork (c_map c) [] [])))
  | CWork todo acc idle =>
      match todo with
      | [] =>
          match v with
          | Head | FreshDivides => Some (set_thread c i (TCol (CDone (Some acc))))
          | SnapshotPrune => Some (set_thread c i (TCol (CRelease acc idle)))
          end
      | _ =>
          match nth_error todo pick with
          | None => None
          | Some (k, p) =>
              (* Counter() / usage() under the limiter's mutex *)
              let s := nth p (c_heap c) init in
              if divides v && (wW (swd s) =? 0) then
                (* unpatched Counter(): elapsedTime / WindowSize with a zero size: the collection
                   panics, the deferred unlocks run, nothing was written *)
                Some (set_thread c i (TCol (CDone None)))
              else
                (* patched Counter(): a stored size 0 is returned as it is (Model.peek) *)
                let s' := peek now s in
                let idle' := match v with
                             | Head | FreshDivides => idle
                             | SnapshotPrune => if in_use s' then idle else idle ++ [k]
                             end in
                Some {| c_map := c_map c; c_heap := upd (c_heap c) p s';
                        c_threads := upd (c_threads c) i
                                       (TCol (CWork (remove_nth todo pick) (acc ++ [(k, cnt s')]) idle'));
                        c_trace := c_trace c; c_log := c_log c ++ [(k, SPeek now)] |}
          end
      end
  | CRelease acc idle =>
      (* release(idle) under state.mutex (a state HEAD never reaches) *)
      match v with
      | Head | FreshDivides => None
      | SnapshotPrune =>
          Some {| c_map := fold_left rdel idle (c_map c); c_heap := c_heap c;
                  c_threads := upd (c_threads c) i (TCol (CDone (Some acc)));
                  c_trace := c_trace c; c_log := c_log c |}
      end
  | CDone _ => None
  end.

Record label := { l_tid : nat; l_now : Z; l_pick : nat }.

Definition step (v : variant) (c : config) (l : label) : option config :=
  match nth_error (c_threads c) (l_tid l) with
  | None => None
  | Some (TReq k wd pc) => step_req v c (l_tid l) (l_now l) k wd pc
  | Some (TCol pc) => step_col v c (l_tid l) (l_now l) (l_pick l) pc
  end.

Fixpoint run (v : variant) (c : config) (sch : list label) : option config :=
  match sch with
  | [] => Some c
  | l :: r => match step v c l with Some c' => run v c' r | None => None end
  end.

(* the lock regions of one limiter key *)
Definition log_of (k : key) (lg : list (key * sev)) : list sev :=
  flat_map (fun ke => if key_eqb k (fst ke) then [snd ke] else []) lg.

(* removing the metrics collections from a schedule *)
Definition is_req (ts : list thread) (i : nat) : bool :=
  match nth_error ts i with Some (TReq _ _ _) => true | _ => false end.
Definition erase (ts : list thread) (sch : list label) : list label :=
  filter (fun l => is_req ts (l_tid l)) sch.

Definition is_inc (e : sev) : bool := match e with SInc _ _ => true | SPeek _ => false end.

(* a single limiter, total version of Model.step_single / run_single *)
Definition sstep (s : st) (e : sev) : st * list sentry :=
  match e with
  | SInc now wd =>
      let '(s', v) := try_inc now wd s in
      (s', [{| s_now := now; s_verdict := v;
               s_lim := match v with Panic => 0 | _ => limit_at now wd s end |}])
  | SPeek now => (peek now s, [])
  end.
Fixpoint srun (s : st) (h : list sev) : list sentry :=
  match h with
  | [] => []
  | e :: r => snd (sstep s e) ++ srun (fst (sstep s e)) r
  end.
Fixpoint sfinal (s : st) (h : list sev) : st :=
  match h with
  | [] => s
  | e :: r => sfinal (fst (sstep s e)) r
  end.
