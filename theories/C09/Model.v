(* C09 — model of policy-mode (strategy based) throttling.

   Code modelled (proxy/src/services/lunar-engine):
     utils/limit/single_rate_limit_state.go   singleRateLimitState.TryToIncrement,
                                              Counter, ensureWindowIsUpdated, scaledQuota
     utils/limit/rate_limit_state.go          validateLimitKeys
     utils/limit/rate_limit_state_by_limiter.go  RateLimitState.TryToIncrement / Counters
     services/remedies/strategy_based_throttling_plugin.go  OnRequest, buildGroupID,
                                              getQuotaAllocationRatio
     libs/shared-model/config/default_behavior_type_inference.go

   The limit function is the one of the tree WITH patches/C09/fix-F-C09.patch:
     scaledQuota(total, ratio) = ceil(total * round(ratio*1e9) / 1e9)   (integers)
   [limit_unfixed] is the formula of the unpatched tree, kept for the witness.

   Time = Z nanoseconds since the Unix epoch.  Strings = list Z of byte codes.
   float64 values enter as their raw 64-bit patterns and are computed on with
   Flocq's binary64 (bit exact, round to nearest even).

   Executable definitions only; proofs are in Proofs.v. *)
From Coq Require Import List ZArith Bool.
From Flocq Require Import IEEE754.BinarySingleNaN IEEE754.Binary IEEE754.Bits.
Import ListNotations.
Open Scope Z_scope.

(* ------------------------------------------------------------------ *)
(** * The limit: scaledQuota                                            *)

Definition scale : Z := 1000000000.                (* quotaRatioScale *)
Definition max_i64 : Z := 9223372036854775807.     (* math.MaxInt64 *)
Definition two63 : Z := 9223372036854775808.

(* ceiling of a/b for b > 0 *)
Definition cdiv (a b : Z) : Z := - ((- a) / b).

(* float64 constants, written with their canonical mantissa/exponent *)
Definition b64_1e9 : binary64 := B754_finite 53 1024 false 8388608000000000 (-23) eq_refl.
Definition b64_100 : binary64 := B754_finite 53 1024 false 7036874417766400 (-46) eq_refl.
Definition bits_one : Z := 4607182418800017408.     (* float64(1) *)

(* math.Round on a finite value (-1)^s * m * 2^e: nearest integer, halves away
   from zero *)
Definition round_half_away (s : bool) (m : positive) (e : Z) : Z :=
  let a :=
    if 0 <=? e then Zpos m * 2 ^ e
    else let d := 2 ^ (- e) in
         let q := Zpos m / d in
         if d <=? 2 * (Zpos m mod d) then q + 1 else q in
  if s then - a else a.

(* parts := math.Round(ratio * 1e9), as the integer the Go code goes on with:
   NaN -> 0 (fails "parts > 0"), +Inf -> 2^63 (passes "parts >= MaxInt64"),
   -Inf -> -1 (fails "parts > 0") *)
Definition parts_of (x : binary64) : Z :=
  match b64_mult mode_NE x b64_1e9 with
  | B754_zero _ _ _ => 0
  | B754_infinity _ _ s => if s then -1 else two63
  | B754_nan _ _ _ _ _ => 0
  | B754_finite _ _ s m e _ => round_half_away s m e
  end.

Definition snap (ratio_bits : Z) : Z := parts_of (b64_of_bits ratio_bits).

(* the integer part of scaledQuota *)
Definition scaled_quota (total parts : Z) : Z :=
  if (total <=? 0) || (parts <=? 0) then 0
  else if two63 <=? parts then max_i64
  else Z.min max_i64 (cdiv (total * parts) scale).

Definition limit_code (total ratio_bits : Z) : Z := scaled_quota total (snap ratio_bits).

(* the exact rounded-up share for a percentage given in hundredths of a percent
   (pct = h/100 %): ceil(total * h / 10000) *)
Definition limit_exact (total h : Z) : Z := cdiv (total * h) 10000.

(* float64(z) for an integer that fits, and the ratio the plugin hands to the
   limiter for a configured percentage:  ratio = pct / 100  in float64 *)
Definition b64_of_Z (z : Z) : binary64 :=
  binary_normalize 53 1024 (eq_refl _) (eq_refl _) mode_NE z 0 false.
Definition ratio_of_pct_bits (pct_bits : Z) : Z :=
  bits_of_b64 (b64_div mode_NE (b64_of_bits pct_bits) b64_100).
(* the float64 a YAML decimal h/100 is parsed to (correctly rounded quotient of
   two exactly representable integers = correctly rounded decimal) *)
Definition pct_bits_of_hundredths (h : Z) : Z :=
  bits_of_b64 (b64_div mode_NE (b64_of_Z h) b64_100).

(* --- the unpatched formula: int64(math.Ceil(float64(total) * ratio)) --- *)
Definition ceil_b64 (x : binary64) : option Z :=
  match x with
  | B754_zero _ _ _ => Some 0
  | B754_finite _ _ s m e _ =>
      Some (if 0 <=? e then (if s then - (Zpos m * 2 ^ e) else Zpos m * 2 ^ e)
            else let d := 2 ^ (- e) in
                 if s then - (Zpos m / d) else cdiv (Zpos m) d)
  | _ => None
  end.
Definition limit_unfixed (total ratio_bits : Z) : option Z :=
  ceil_b64 (b64_mult mode_NE (b64_of_Z total) (b64_of_bits ratio_bits)).

(* ------------------------------------------------------------------ *)
(** * One limiter state: singleRateLimitState                           *)

Record wdata := {             (* limit.WindowData, ratio already read as parts *)
  wW : Z;                     (* WindowSize, ns *)
  wAllowed : Z;               (* AllowedRequestCount *)
  wParts : Z;                 (* round(QuotaAllocationRatio * 1e9) *)
  wSpillOn : bool;            (* SpilloverEnabled *)
  wRenew : Z                  (* SpilloverRenewOnDay *)
}.

Record st := {
  cnt : Z;                    (* counter *)
  spill : Z;                  (* spillover *)
  wend : Z;                   (* windowEndTime, ns; 0 = epochTime *)
  swd : wdata                 (* windowData stored by the last TryToIncrement *)
}.

Definition wd0 : wdata :=
  {| wW := 0; wAllowed := 0; wParts := 0; wSpillOn := false; wRenew := 0 |}.
Definition init : st := {| cnt := 0; spill := 0; wend := 0; swd := wd0 |}.

(* time.Time.Day() of a UTC instant (days-to-civil, proleptic Gregorian) *)
Definition day_of_month (now : Z) : Z :=
  let days := now / 86400000000000 in
  let z := days + 719468 in
  let era := z / 146097 in
  let doe := z - era * 146097 in
  let yoe := (doe - doe / 1460 + doe / 36524 - doe / 146096) / 365 in
  let doy := doe - (365 * yoe + yoe / 4 - yoe / 100) in
  let mp := (5 * doy + 2) / 153 in
  doy - (153 * mp + 2) / 5 + 1.

(* ensureWindowIsUpdated, for a stored window size <> 0.
   Go's integer division truncates towards zero = Z.quot. *)
Definition ensure (now : Z) (s : st) : st :=
  let wd := swd s in
  if wend s <? now then                                  (* currentTime.After(windowEndTime) *)
    let sp :=
      if wSpillOn wd && negb (wend s =? 0) then
        if day_of_month now =? wRenew wd then 0
        else spill s + (wAllowed wd - cnt s)
      else spill s in
    {| cnt := 0; spill := sp;
       wend := Z.quot now (wW wd) * wW wd + wW wd; swd := wd |}
  else s.

Inductive verdict := Proceed | Block | Invalid | Panic.

Definition verdict_eqb (a b : verdict) : bool :=
  match a, b with
  | Proceed, Proceed | Block, Block | Invalid, Invalid | Panic, Panic => true
  | _, _ => false
  end.

Definition with_wd (s : st) (wd : wdata) : st :=
  {| cnt := cnt s; spill := spill s; wend := wend s; swd := wd |}.

(* the limit in force for a request with window data [wd] arriving at [now]
   in state [s] *)
Definition limit_at (now : Z) (wd : wdata) (s : st) : Z :=
  let s1 := ensure now (with_wd s wd) in
  scaled_quota (wAllowed wd + spill s1) (wParts wd).

(* TryToIncrement: new state, verdict.  A zero window size is a division by
   zero inside ensureWindowIsUpdated (run-time panic, after windowData was
   stored). *)
Definition try_inc (now : Z) (wd : wdata) (s : st) : st * verdict :=
  let s0 := with_wd s wd in
  if wW wd =? 0 then (s0, Panic)
  else
    let s1 := ensure now s0 in
    let lim := scaled_quota (wAllowed wd + spill s1) (wParts wd) in
    if lim <=? cnt s1 then (s1, Block)
    else ({| cnt := cnt s1 + 1; spill := spill s1; wend := wend s1; swd := wd |}, Proceed).

(* Counter(): brings the window up to date with the STORED window data *)
Definition peek (now : Z) (s : st) : st :=
  if wW (swd s) =? 0 then s else ensure now s.

(* ------------------------------------------------------------------ *)
(** * The keyed store: RateLimitState                                   *)

Definition str := list Z.
Fixpoint str_eqb (a b : str) : bool :=
  match a, b with
  | [], [] => true
  | x :: a', y :: b' => (x =? y) && str_eqb a' b'
  | _, _ => false
  end.

(* limit.RequestArguments: LimiterID (remedy name), Grouping, GroupID *)
Record key := { kLimiter : str; kGrouped : bool; kGroup : str }.
Definition key_eqb (a b : key) : bool :=
  str_eqb (kLimiter a) (kLimiter b) && Bool.eqb (kGrouped a) (kGrouped b)
  && str_eqb (kGroup a) (kGroup b).

(* validateLimitKeys *)
Definition key_valid (k : key) : bool :=
  match kLimiter k with
  | [] => false
  | _ => if kGrouped k then match kGroup k with [] => false | _ => true end else true
  end.

Definition smap := list (key * st).
Fixpoint get (m : smap) (k : key) : option st :=
  match m with
  | [] => None
  | (k', s) :: r => if key_eqb k k' then Some s else get r k
  end.
Fixpoint set (m : smap) (k : key) (s : st) : smap :=
  match m with
  | [] => [(k, s)]
  | (k', s') :: r => if key_eqb k k' then (k, s) :: r else (k', s') :: set r k s
  end.

Inductive action := AInc (k : key) (wd : wdata) | APeek.

(* one trace entry per TryToIncrement call: instant, key, verdict, limit in force *)
Record entry := { e_now : Z; e_key : key; e_verdict : verdict; e_lim : Z }.

Definition or_init (o : option st) : st := match o with Some s => s | None => init end.

(* RateLimitState.TryToIncrement (getLimiterState creates a fresh state when the
   key is new) and Counters() (every stored state is brought up to date) *)
Definition step_map (m : smap) (now : Z) (a : action) : smap * list entry :=
  match a with
  | AInc k wd =>
      if key_valid k then
        let s := or_init (get m k) in
        let '(s', v) := try_inc now wd s in
        (set m k s',
         [{| e_now := now; e_key := k; e_verdict := v;
             e_lim := match v with Panic => 0 | _ => limit_at now wd s end |}])
      else (m, [{| e_now := now; e_key := k; e_verdict := Invalid; e_lim := 0 |}])
  | APeek => (map (fun ks => (fst ks, peek now (snd ks))) m, [])
  end.

Fixpoint run_map (m : smap) (h : list (Z * action)) : list entry :=
  match h with
  | [] => []
  | (now, a) :: r => let '(m', es) := step_map m now a in es ++ run_map m' r
  end.

Fixpoint final_map (m : smap) (h : list (Z * action)) : smap :=
  match h with
  | [] => m
  | (now, a) :: r => final_map (fst (step_map m now a)) r
  end.

(* --- the same for one key in isolation (used to state non-interference) --- *)
Inductive sev := SInc (now : Z) (wd : wdata) | SPeek (now : Z).
Definition sev_now (e : sev) : Z := match e with SInc t _ => t | SPeek t => t end.

Record sentry := { s_now : Z; s_verdict : verdict; s_lim : Z }.

Definition step_single (o : option st) (e : sev) : option st * list sentry :=
  match e with
  | SInc now wd =>
      let s := or_init o in
      let '(s', v) := try_inc now wd s in
      (Some s', [{| s_now := now; s_verdict := v;
                    s_lim := match v with Panic => 0 | _ => limit_at now wd s end |}])
  | SPeek now => (option_map (peek now) o, [])
  end.

Fixpoint run_single (o : option st) (h : list sev) : list sentry :=
  match h with
  | [] => []
  | e :: r => let '(o', es) := step_single o e in es ++ run_single o' r
  end.

Fixpoint final_single (o : option st) (h : list sev) : option st :=
  match h with
  | [] => o
  | e :: r => final_single (fst (step_single o e)) r
  end.

(* the sub-history a key sees: its own requests and every Counters() call *)
Definition project (k : key) (h : list (Z * action)) : list sev :=
  flat_map (fun na => match snd na with
                      | AInc k' wd => if key_eqb k k' then [SInc (fst na) wd] else []
                      | APeek => [SPeek (fst na)]
                      end) h.

Definition entries_of (k : key) (tr : list entry) : list sentry :=
  flat_map (fun e => if key_eqb k (e_key e)
                     then [{| s_now := e_now e; s_verdict := e_verdict e; s_lim := e_lim e |}]
                     else []) tr.

(* ------------------------------------------------------------------ *)
(** * The plugin: StrategyBasedThrottlingPlugin.OnRequest               *)

Definition is_space (c : Z) : bool :=          (* ASCII part of unicode.IsSpace *)
  (c =? 9) || (c =? 10) || (c =? 11) || (c =? 12) || (c =? 13) || (c =? 32).
Fixpoint trim_left (s : str) : str :=
  match s with
  | c :: r => if is_space c then trim_left r else s
  | [] => []
  end.
Definition trim (s : str) : str := rev (trim_left (rev (trim_left s))).   (* strings.TrimSpace *)
Definition lower (s : str) : str :=                                         (* strings.ToLower, ASCII *)
  map (fun c => if (65 <=? c) && (c <=? 90) then c + 32 else c) s.

Record alloc := { aVal : str; aPct : Z (* float64 bits of allocation_percentage *) }.
Record gqa := {                       (* GroupQuotaAllocation *)
  gHeader : str;                      (* group_by.header_name *)
  gGroups : list alloc;
  gDefault : str;                     (* literal of `default` *)
  gDefPct : Z                         (* float64 bits of default_allocation_percentage *)
}.
Record remedy := {
  rName : str;
  rAllowed : Z;
  rWsec : Z;                          (* window_size_in_seconds *)
  rStatus : Z;                        (* response_status_code, 0 = unset *)
  rSpillOn : bool;
  rRenew : Z;
  rGqa : option gqa
}.

Definition s_allow : str := [97;108;108;111;119].
Definition s_block : str := [98;108;111;99;107].
Definition s_use_default : str :=
  [117;115;101;95;100;101;102;97;117;108;116;95;97;108;108;111;99;97;116;105;111;110].
Definition s_ungrouped : str := [117;110;103;114;111;117;112;101;100;76;105;109;105;116].

(* onRequest.Headers[name]: Go map lookup, "" when absent *)
Fixpoint header (hs : list (str * str)) (name : str) : str :=
  match hs with
  | [] => []
  | (n, v) :: r => if str_eqb n name then v else header r name
  end.

Fixpoint find_alloc (gs : list alloc) (v : str) : option Z :=
  match gs with
  | [] => None
  | a :: r => if str_eqb (aVal a) v then Some (aPct a) else find_alloc r v
  end.

(* action returned by OnRequest *)
Inductive pout := PNoOp | PEarly (status : Z) | PErr | PPanic.

(* what OnRequest decides before it reaches the limiter *)
Inductive pre := PreDone (o : pout) | PreLimit (k : key) (ratio_bits : Z).

Definition status_of (r : remedy) : Z := if rStatus r =? 0 then 429 else rStatus r.

Definition plugin_pre (r : remedy) (hs : list (str * str)) : pre :=
  match rGqa r with
  | None => PreLimit {| kLimiter := rName r; kGrouped := false; kGroup := s_ungrouped |} bits_one
  | Some g =>
      let hv := header hs (gHeader g) in
      let k := {| kLimiter := rName r; kGrouped := true;
                  kGroup := lower (gHeader g) ++ [58] ++ trim hv |} in
      match find_alloc (gGroups g) hv with
      | Some pct => PreLimit k (ratio_of_pct_bits pct)
      | None =>
          if str_eqb (gDefault g) s_allow then PreDone PNoOp
          else if str_eqb (gDefault g) s_block then PreDone (PEarly (status_of r))
          else if str_eqb (gDefault g) s_use_default
               then PreLimit k (ratio_of_pct_bits (gDefPct g))
          else PreDone PNoOp
      end
  end.

Definition wd_of_remedy (r : remedy) (ratio_bits : Z) : wdata :=
  {| wW := rWsec r * 1000000000; wAllowed := rAllowed r; wParts := snap ratio_bits;
     wSpillOn := rSpillOn r; wRenew := rRenew r |}.

Definition plugin_step (m : smap) (now : Z) (r : remedy) (hs : list (str * str))
  : smap * pout :=
  match plugin_pre r hs with
  | PreDone o => (m, o)
  | PreLimit k rb =>
      let '(m', es) := step_map m now (AInc k (wd_of_remedy r rb)) in
      (m', match es with
           | e :: _ => match e_verdict e with
                       | Proceed => PNoOp
                       | Block => PEarly (status_of r)
                       | Invalid => PErr
                       | Panic => PPanic
                       end
           | [] => PErr
           end)
  end.

(* ------------------------------------------------------------------ *)
(** * Correspondence entry points                                       *)

(* suite "limit": [n] requests at one instant on a fresh key with
   AllowedRequestCount = total and the given ratio; observed = how many proceeded.
   When the ratio comes from a percentage with two decimals, h = that percentage in
   hundredths (else -1) and the case also checks that the model's reading of a
   configured percentage (decimal -> float64 -> /100) gives the very ratio bits
   the Go side computed. *)
Definition case_limit := (Z * Z * Z * Z * Z)%type.  (* total, ratio bits, n, proceeded, h *)
Definition mk_limit (total rb n passed h : Z) : case_limit := (total, rb, n, passed, h).
Definition run_limit (c : case_limit) : option Z :=
  let '(total, rb, n, passed, h) := c in
  let l := limit_code total rb in
  if negb (Z.min n l =? passed) then Some l
  else if (h <? 0) || (ratio_of_pct_bits (pct_bits_of_hundredths h) =? rb) then None
  else Some (-1).

(* suite "hist": a history on the package API.
   profiles: (window ns, allowed, ratio bits, spill-over enabled, renew day)
   ops: HInc now key profile-index | HPeek now
   observed: one code per HInc: 0 Block, 1 Proceed, 2 error, 3 panic *)
Inductive hop := HInc (now : Z) (k : str * bool * str) (p : nat) | HPeek (now : Z).
Definition profile := (Z * Z * Z * bool * Z)%type.
Definition case_hist := (Z * list profile * list hop * list Z)%type.
(* monomorphic builders used by the generated case files (instants of the ops
   are offsets from [base]) *)
Definition mk_key (l : str) (g : bool) (i : str) : str * bool * str := (l, g, i).
Definition mk_profile (w a rb : Z) (so : bool) (rd : Z) : profile := (w, a, rb, so, rd).
Definition mk_hist (base : Z) (ps : list profile) (ops : list hop) (obs : list Z) : case_hist :=
  (base, ps, ops, obs).

Definition wd_of_profile (p : profile) : wdata :=
  let '(w, a, rb, so, rd) := p in
  {| wW := w; wAllowed := a; wParts := snap rb; wSpillOn := so; wRenew := rd |}.

Definition code_of_verdict (v : verdict) : Z :=
  match v with Block => 0 | Proceed => 1 | Invalid => 2 | Panic => 3 end.

Fixpoint zlist_eqb (a b : list Z) : bool :=
  match a, b with
  | [], [] => true
  | x :: a', y :: b' => (x =? y) && zlist_eqb a' b'
  | _, _ => false
  end.

Fixpoint compile_hist (base : Z) (wds : list wdata) (ops : list hop)
  : option (list (Z * action)) :=
  match ops with
  | [] => Some []
  | HPeek now :: r => option_map (cons (base + now, APeek)) (compile_hist base wds r)
  | HInc now (l, g, i) p :: r =>
      match nth_error wds p, compile_hist base wds r with
      | Some wd, Some h =>
          Some ((base + now, AInc {| kLimiter := l; kGrouped := g; kGroup := i |} wd) :: h)
      | _, _ => None
      end
  end.

Definition run_hist (c : case_hist) : option (list Z) :=
  let '(base, profiles, ops, observed) := c in
  match compile_hist base (map wd_of_profile profiles) ops with
  | None => Some [-1]                                   (* malformed case *)
  | Some h =>
      let out := map (fun e => code_of_verdict (e_verdict e)) (run_map [] h) in
      if zlist_eqb out observed then None else Some out
  end.

(* suite "plugin": requests through OnRequest.
   remedies: (name, allowed, window s, status, spill on, renew day, group allocation)
   group allocation: (header name, [(value, pct bits)], default literal, default pct bits)
   requests: (now, remedy index, headers)
   observed: 0 = NoOp, s > 0 = early response with status s, -1 error, -2 panic *)
Definition gqa_t := (str * list (str * Z) * str * Z)%type.
Definition remedy_t := (str * Z * Z * Z * bool * Z * option gqa_t)%type.
Definition req_t := (Z * nat * list (str * str))%type.
Definition case_plugin := (Z * list remedy_t * list req_t * list Z)%type.
(* monomorphic builders used by the generated case files (request instants are
   offsets from [base]) *)
Definition mk_alloc (v : str) (pct : Z) : str * Z := (v, pct).
Definition mk_gqa (h : str) (gs : list (str * Z)) (d : str) (dp : Z) : gqa_t := (h, gs, d, dp).
Definition mk_remedy (n : str) (a w s : Z) (so : bool) (rd : Z) (g : option gqa_t) : remedy_t :=
  (n, a, w, s, so, rd, g).
Definition mk_hdr (n v : str) : str * str := (n, v).
Definition mk_req (now : Z) (i : nat) (hs : list (str * str)) : req_t := (now, i, hs).
Definition mk_plugin (base : Z) (rs : list remedy_t) (reqs : list req_t) (obs : list Z)
  : case_plugin := (base, rs, reqs, obs).

Definition remedy_of (t : remedy_t) : remedy :=
  let '(n, a, w, s, so, rd, g) := t in
  {| rName := n; rAllowed := a; rWsec := w; rStatus := s; rSpillOn := so; rRenew := rd;
     rGqa := option_map (fun g : gqa_t =>
                           let '(h, gs, d, dp) := g in
                           {| gHeader := h;
                              gGroups := map (fun vp => {| aVal := fst vp; aPct := snd vp |}) gs;
                              gDefault := d; gDefPct := dp |}) g |}.

Definition code_of_pout (o : pout) : Z :=
  match o with PNoOp => 0 | PEarly s => s | PErr => -1 | PPanic => -2 end.

Fixpoint run_plugin_reqs (base : Z) (rs : list remedy) (m : smap)
         (reqs : list req_t) : option (list Z) :=
  match reqs with
  | [] => Some []
  | (now, i, hs) :: rest =>
      match nth_error rs i with
      | None => None
      | Some r =>
          let '(m', o) := plugin_step m (base + now) r hs in
          option_map (cons (code_of_pout o)) (run_plugin_reqs base rs m' rest)
      end
  end.

Definition run_plugin (c : case_plugin) : option (list Z) :=
  let '(base, rems, reqs, observed) := c in
  match run_plugin_reqs base (map remedy_of rems) [] reqs with
  | None => Some [-9]                                   (* malformed case *)
  | Some out => if zlist_eqb out observed then None else Some out
  end.
