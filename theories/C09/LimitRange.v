(* C09 — the float64 part of the limit, checked by reflection over every
   percentage with two decimals between 0 and 100.

   A configured percentage h/100 (h = 0..10000) is read by the YAML decoder as
   the nearest float64, divided by 100 in float64 by the plugin, multiplied by
   1e9 in float64 and rounded by scaledQuota.  [hundredths_all] evaluates these
   three IEEE operations (Flocq binary64, bit exact) for all 10001 values and
   finds the decimal ratio recovered exactly: h * 10^5 billionths. *)
From Coq Require Import List ZArith Bool Lia.
From Verif Require Import C09.Model.
Import ListNotations.
Open Scope Z_scope.

Definition hundredths_ok (h : Z) : bool :=
  snap (ratio_of_pct_bits (pct_bits_of_hundredths h)) =? h * 100000.

Fixpoint all_upto (n : nat) (f : Z -> bool) : bool :=
  match n with
  | O => f 0
  | S k => f (Z.of_nat (S k)) && all_upto k f
  end.

Lemma all_upto_spec n f :
  all_upto n f = true -> forall h, 0 <= h <= Z.of_nat n -> f h = true.
Proof.
  induction n as [|n IH]; intros H h Hh.
  - cbn in *. replace h with 0 by lia. exact H.
  - cbn [all_upto] in H. apply andb_prop in H. destruct H as [H1 H2].
    destruct (Z.eq_dec h (Z.of_nat (S n))) as [->|Hn]; [exact H1|].
    apply IH; [exact H2 | lia].
Qed.

Lemma hundredths_all : all_upto (Z.to_nat 10000) hundredths_ok = true.
Proof. vm_cast_no_check (eq_refl true). Qed.   (* evaluated once, by the kernel's VM, at Qed *)

Lemma snap_hundredths h :
  0 <= h <= 10000 -> snap (ratio_of_pct_bits (pct_bits_of_hundredths h)) = h * 100000.
Proof.
  intros Hh. apply Z.eqb_eq.
  apply (all_upto_spec (Z.to_nat 10000) hundredths_ok hundredths_all).
  rewrite Z2Nat.id; lia.
Qed.
