(* C09 — correspondence entry point of the suite "overlap": forced schedules of requests
   (StrategyBasedThrottlingPlugin.OnRequest) and metrics collections (the quota_used gauge
   callback observeQuotaUsed -> RateLimitState.Counters()) that really overlap in the
   harness, interpreted on the registry machine of Registry.v (variant Head).

   The harness holds goroutines at its yield points:
     hasher   obfuscator.Hasher.HashBytes, called by buildGroupID: after the plugin.mutex
              section of OnRequest, before the registry is looked up          (pc RLook)
     clock    clock.Now() inside ensureWindowIsUpdated: the limiter's mutex is held; of a
              request (inside TryToIncrement, pc RHave) or of a collection (inside Counter(),
              its n-th reading, pc CWork)
     gap      verifhook.Yield("limit.state_obtained") in RateLimitState.TryToIncrement, between
              getLimiterState and the limiter's TryToIncrement (patches/C09/
              hook-limit-state-obtained.patch; the harness uses it only when the tree has it):
              the request holds the pointer and no mutex                        (pc RHave)
   A goroutine held in the clock keeps its limiter; its region is executed on the machine
   when it is released, with the reading it took when it was parked.  After every operation
   all threads run until each is finished, parked, or waiting for a mutex; the order in which
   runnable threads are advanced does not matter for the schedules the harness generates (at
   most one runnable request per key, the clock does not move while a collection is active).

   Go's map iteration order is not observable from outside: a collection visits the first
   entry of its to-do list whose limiter is free.  The harness only parks a collection in a
   reading when no request holds a limiter, and keeps the clock fixed while a collection is
   active, so every order gives the same observables.

   Executable definitions first; the last section (audit 2) proves that the interpreter only
   ever moves the machine by Registry.step Head: every state it reaches is reached by a
   schedule of [run Head] (run_ops_reachable, run_overlap_accepted_reachable). *)
From Coq Require Import List ZArith Bool Arith.
From Verif Require Import C09.Model C09.Registry.
Import ListNotations.
Open Scope Z_scope.

Inductive oop :=
| OStart (r : nat)        (* a goroutine calls OnRequest for request r *)
| ORelease (r : nat)      (* request r leaves the yield point it is parked in *)
| OCollect (j : nat)      (* a goroutine runs the gauge callback *)
| OResume (j : nat)       (* collection j leaves the clock reading it is parked in *)
| OSet (t : Z).           (* the clock is set (offset from the base instant) *)

Record rov := {
  v_started : bool;
  v_parkH : bool;          (* still to be parked in the hasher *)
  v_parkG : bool;          (* still to be parked between getLimiterState and the limiter *)
  v_parkC : bool;          (* still to be parked in its clock reading *)
  v_at : Z;                (* 0 running / waiting, 1 parked in the hasher, 2 parked in the clock,
                              4 parked in the gap *)
  v_read : Z               (* the reading taken when it was parked in the clock *)
}.

Record cov := {
  w_started : bool;
  w_parks : list nat;      (* numbers (1-based) of the clock readings at which it is parked *)
  w_reads : nat;           (* clock readings so far *)
  w_parked : bool;
  w_pick : nat;            (* index in the to-do list of the entry being visited *)
  w_read : Z
}.

Record ov := {
  o_cfg : config;
  o_clock : Z;
  o_rs : list rov;
  o_cs : list cov
}.

Definition lbl (i : nat) (now : Z) (pick : nat) : label :=
  {| l_tid := i; l_now := now; l_pick := pick |}.

Definition req_pc (c : config) (r : nat) : option rpc :=
  match nth_error (c_threads c) r with Some (TReq _ _ pc) => Some pc | _ => None end.
Definition req_grouped (c : config) (r : nat) : bool :=
  match nth_error (c_threads c) r with Some (TReq k _ _) => kGrouped k | _ => false end.
Definition col_pc (c : config) (i : nat) : option cpc :=
  match nth_error (c_threads c) i with Some (TCol pc) => Some pc | _ => None end.

(* limiters whose mutex is held by a parked goroutine *)
Fixpoint held_by_reqs (c : config) (rs : list rov) (r : nat) : list nat :=
  match rs with
  | [] => []
  | v :: rest =>
      (if v_at v =? 2 then match req_pc c r with Some (RHave p) => [p] | _ => [] end else [])
      ++ held_by_reqs c rest (S r)
  end.
Fixpoint held_by_cols (c : config) (cs : list cov) (i : nat) : list nat :=
  match cs with
  | [] => []
  | w :: rest =>
      (if w_parked w
       then match col_pc c i with
            | Some (CWork todo _ _) => match nth_error todo (w_pick w) with
                                       | Some (_, p) => [p] | None => [] end
            | _ => []
            end
       else [])
      ++ held_by_cols c rest (S i)
  end.
Definition held (o : ov) : list nat :=
  held_by_reqs (o_cfg o) (o_rs o) 0 ++ held_by_cols (o_cfg o) (o_cs o) (length (o_rs o)).
Definition is_held (o : ov) (p : nat) : bool := existsb (Nat.eqb p) (held o).

Definition set_rov (o : ov) (r : nat) (v : rov) : ov :=
  {| o_cfg := o_cfg o; o_clock := o_clock o; o_rs := upd (o_rs o) r v; o_cs := o_cs o |}.
Definition set_cov (o : ov) (j : nat) (w : cov) : ov :=
  {| o_cfg := o_cfg o; o_clock := o_clock o; o_rs := o_rs o; o_cs := upd (o_cs o) j w |}.
Definition set_cfg (o : ov) (c : config) : ov :=
  {| o_cfg := c; o_clock := o_clock o; o_rs := o_rs o; o_cs := o_cs o |}.

Definition machine_step (o : ov) (l : label) : option ov :=
  option_map (set_cfg o) (step Head (o_cfg o) l).

(* one move of request r, None when it cannot move *)
Definition adv_req (o : ov) (r : nat) (v : rov) : option ov :=
  if negb (v_started v) || negb (v_at v =? 0) then None
  else
    match req_pc (o_cfg o) r with
    | Some RGate => machine_step o (lbl r (o_clock o) 0)
    | Some RLook =>
        (* the hasher is only called for a grouped remedy *)
        if v_parkH v && req_grouped (o_cfg o) r then
          Some (set_rov o r {| v_started := true; v_parkH := false; v_parkG := v_parkG v;
                               v_parkC := v_parkC v; v_at := 1; v_read := 0 |})
        else machine_step o (lbl r (o_clock o) 0)
    | Some (RHave p) =>
        if v_parkG v then
          (* the yield point right after getLimiterState: no mutex is held *)
          Some (set_rov o r {| v_started := true; v_parkH := false; v_parkG := false;
                               v_parkC := v_parkC v; v_at := 4; v_read := 0 |})
        else if is_held o p then None
        else if v_parkC v then
          Some (set_rov o r {| v_started := true; v_parkH := false; v_parkG := false;
                               v_parkC := false; v_at := 2; v_read := o_clock o |})
        else machine_step o (lbl r (o_clock o) 0)
    | _ => None
    end.

(* index of the first to-do entry whose limiter is free *)
Fixpoint first_free (o : ov) (todo : list (key * nat)) (i : nat) : option nat :=
  match todo with
  | [] => None
  | (_, p) :: rest => if is_held o p then first_free o rest (S i) else Some i
  end.

Definition adv_col (o : ov) (j : nat) (w : cov) : option ov :=
  let i := (length (o_rs o) + j)%nat in
  if negb (w_started w) || w_parked w then None
  else
    match col_pc (o_cfg o) i with
    | Some CNew | Some CRead => machine_step o (lbl i (o_clock o) 0)
    | Some (CWork [] _ _) => machine_step o (lbl i (o_clock o) 0)
    | Some (CWork todo _ _) =>
        match first_free o todo 0 with
        | None => None
        | Some pick =>
            let n := S (w_reads w) in
            if match nth_error todo pick with
               | Some (_, p) => wW (swd (nth p (c_heap (o_cfg o)) init)) =? 0
               | None => false
               end
            then
              (* a registered state without window data: Counter() returns its counter before
                 it reads the clock -- no reading, nowhere to park *)
              machine_step o (lbl i (o_clock o) pick)
            else if existsb (Nat.eqb n) (w_parks w) then
              Some (set_cov o j {| w_started := true; w_parks := w_parks w; w_reads := n;
                                   w_parked := true; w_pick := pick; w_read := o_clock o |})
            else
              option_map (fun o' => set_cov o' j {| w_started := true; w_parks := w_parks w;
                                                    w_reads := n; w_parked := false;
                                                    w_pick := 0; w_read := 0 |})
                         (machine_step o (lbl i (o_clock o) pick))
        end
    | _ => None
    end.

Fixpoint first_move_req (o : ov) (rs : list rov) (r : nat) : option ov :=
  match rs with
  | [] => None
  | v :: rest => match adv_req o r v with Some o' => Some o' | None => first_move_req o rest (S r) end
  end.
Fixpoint first_move_col (o : ov) (cs : list cov) (j : nat) : option ov :=
  match cs with
  | [] => None
  | w :: rest => match adv_col o j w with Some o' => Some o' | None => first_move_col o rest (S j) end
  end.

(* run until nothing can move; None = out of fuel *)
Fixpoint settle (fuel : nat) (o : ov) : option ov :=
  match fuel with
  | O => None
  | S f =>
      match first_move_req o (o_rs o) 0 with
      | Some o' => settle f o'
      | None => match first_move_col o (o_cs o) 0 with
                | Some o' => settle f o'
                | None => Some o
                end
      end
  end.

Definition do_op (o : ov) (op : oop) : option ov :=
  match op with
  | OStart r =>
      match nth_error (o_rs o) r with
      | Some v => if v_started v then None
                  else Some (set_rov o r {| v_started := true; v_parkH := v_parkH v;
                                            v_parkG := v_parkG v;
                                            v_parkC := v_parkC v; v_at := 0; v_read := 0 |})
      | None => None
      end
  | ORelease r =>
      match nth_error (o_rs o) r with
      | Some v =>
          let v' := {| v_started := true; v_parkH := v_parkH v; v_parkG := v_parkG v;
                       v_parkC := v_parkC v; v_at := 0; v_read := 0 |} in
          if (v_at v =? 1) || (v_at v =? 4) then Some (set_rov o r v')
          else if v_at v =? 2 then
            option_map (fun o' => set_rov o' r v') (machine_step o (lbl r (v_read v) 0))
          else None
      | None => None
      end
  | OCollect j =>
      match nth_error (o_cs o) j with
      | Some w => if w_started w then None
                  else Some (set_cov o j {| w_started := true; w_parks := w_parks w; w_reads := 0;
                                            w_parked := false; w_pick := 0; w_read := 0 |})
      | None => None
      end
  | OResume j =>
      match nth_error (o_cs o) j with
      | Some w =>
          if w_parked w then
            option_map (fun o' => set_cov o' j {| w_started := true; w_parks := w_parks w;
                                                  w_reads := w_reads w; w_parked := false;
                                                  w_pick := 0; w_read := 0 |})
                       (machine_step o (lbl (length (o_rs o) + j) (w_read w) (w_pick w)))
          else None
      | None => None
      end
  | OSet t => Some {| o_cfg := o_cfg o; o_clock := t; o_rs := o_rs o; o_cs := o_cs o |}
  end.

(* what the harness sees of a thread: -1 not started, 0 waiting for a mutex, 1 parked in the
   hasher, 2 parked in a clock reading, 3 finished, 4 parked in the gap *)
Fixpoint req_status (c : config) (rs : list rov) (r : nat) : list Z :=
  match rs with
  | [] => []
  | v :: rest =>
      (if negb (v_started v) then -1
       else match req_pc c r with
            | Some (RDone _) => 3
            | _ => v_at v
            end) :: req_status c rest (S r)
  end.
Fixpoint col_status (c : config) (cs : list cov) (i : nat) : list Z :=
  match cs with
  | [] => []
  | w :: rest =>
      (if negb (w_started w) then -1
       else match col_pc c i with
            | Some (CDone _) => 3
            | _ => if w_parked w then 2 else 0
            end) :: col_status c rest (S i)
  end.
Definition status (o : ov) : list Z :=
  req_status (o_cfg o) (o_rs o) 0 ++ col_status (o_cfg o) (o_cs o) (length (o_rs o)).

Definition fuel : nat := 400.

Fixpoint run_ops (o : ov) (ops : list oop) : option (ov * list (list Z)) :=
  match ops with
  | [] => Some (o, [])
  | op :: rest =>
      match do_op o op with
      | None => None
      | Some o1 =>
          match settle fuel o1 with
          | None => None
          | Some o2 =>
              match run_ops o2 rest with
              | None => None
              | Some (o3, sts) => Some (o3, status o2 :: sts)
              end
          end
      end
  end.

(* ---------------------------------------------------------------- the case *)

(* the distinct (remedy index, headers) pairs of the case; a request refers to one of them
   (the float64 steps of the ratio are then evaluated once per pair) *)
Definition okey_t := (nat * list (str * str))%type.
Definition mk_okey (i : nat) (hs : list (str * str)) : okey_t := (i, hs).
(* request: index into the pairs, park in the hasher, park in the gap, park in the clock *)
Definition oreq_t := (nat * bool * bool * bool)%type.
Definition mk_oreq (i : nat) (ph pg pc : bool) : oreq_t := (i, ph, pg, pc).
(* observed counters of one collection: (remedy_name, group_id, value) *)
Definition ocnt_t := (str * str * Z)%type.
Definition mk_ocnt (l g : str) (n : Z) : ocnt_t := (l, g, n).

Record case_overlap := {
  ov_base : Z;
  ov_remedies : list remedy_t;
  ov_keys : list okey_t;
  ov_reqs : list oreq_t;
  ov_cols : list (list nat);
  ov_ops : list oop;
  ov_status : list Z;                (* after every operation, the status vector as one number:
                                        digit (status + 1) in base 8, first thread = lowest digit *)
  ov_verdicts : list Z;              (* per request: 0 NoOp, s > 0 status, -1 error, -2 panic, -9 unfinished *)
  ov_counters : list (list ocnt_t)   (* per collection *)
}.
Definition mk_overlap := Build_case_overlap.

(* per pair: the thread a request of that pair is, and its remedy *)
Definition key_thread (rs : list remedy) (q : okey_t) : option (thread * remedy) :=
  let '(i, hs) := q in
  match nth_error rs i with
  | Some r => match plugin_pre r hs with
              | PreLimit k rb => Some (TReq k (wd_of_remedy r rb) RGate, r)
              | PreDone _ => None
              end
  | None => None
  end.

Fixpoint build_threads (kt : list (option (thread * remedy))) (reqs : list oreq_t)
  : option (list thread) :=
  match reqs with
  | [] => Some []
  | (i, _, _, _) :: rest =>
      match nth_error kt i, build_threads kt rest with
      | Some (Some (t, _)), Some ts => Some (t :: ts)
      | _, _ => None
      end
  end.

Definition rebase (base : Z) (op : oop) : oop :=
  match op with OSet t => OSet (base + t) | _ => op end.

Fixpoint verdicts_of (c : config) (kt : list (option (thread * remedy))) (reqs : list oreq_t)
         (r : nat) : list Z :=
  match reqs with
  | [] => []
  | (i, _, _, _) :: rest =>
      (match req_pc c r, nth_error kt i with
       | Some (RDone v), Some (Some (_, rm)) =>
           match v with
           | Proceed => 0
           | Block => status_of rm
           | Invalid => -1
           | Panic => -2
           end
       | _, _ => -9
       end) :: verdicts_of c kt rest (S r)
  end.

Fixpoint counters_of (c : config) (n : nat) (i : nat) : list (list ocnt_t) :=
  match n with
  | O => []
  | S n' =>
      (match col_pc c i with
       | Some (CDone (Some acc)) => map (fun kn => (kLimiter (fst kn), kGroup (fst kn), snd kn)) acc
       | _ => [([], [], -1)]
       end) :: counters_of c n' (S i)
  end.

Definition cnt_in (obs : list ocnt_t) (x : ocnt_t) : bool :=
  let '(l, g, n) := x in
  existsb (fun y => let '(l', g', n') := y in str_eqb l l' && str_eqb g g' && (n =? n')) obs.
Definition counters_eqb (a b : list ocnt_t) : bool :=
  Nat.eqb (length a) (length b) && forallb (cnt_in b) a && forallb (cnt_in a) b.
Fixpoint all2 {A : Type} (f : A -> A -> bool) (a b : list A) : bool :=
  match a, b with
  | [], [] => true
  | x :: a', y :: b' => f x y && all2 f a' b'
  | _, _ => false
  end.

Definition enc_status (l : list Z) : Z := fold_right (fun s acc => (s + 1) + 8 * acc) 0 l.

Definition overlap_out := (list (list Z) * list Z * list (list ocnt_t))%type.

Definition run_overlap (k : case_overlap) : option overlap_out :=
  let rs := map remedy_of (ov_remedies k) in
  let kt := map (key_thread rs) (ov_keys k) in
  match build_threads kt (ov_reqs k) with
  | None => Some ([[-7]], [], [])                         (* malformed case *)
  | Some reqs =>
      let ts := reqs ++ map (fun _ => TCol CNew) (ov_cols k) in
      let o0 := {| o_cfg := init_config ts; o_clock := ov_base k;
                   o_rs := map (fun q : oreq_t =>
                                  let '(_, ph, pg, pc) := q in
                                  {| v_started := false; v_parkH := ph; v_parkG := pg;
                                     v_parkC := pc; v_at := 0; v_read := 0 |}) (ov_reqs k);
                   o_cs := map (fun ps => {| w_started := false; w_parks := ps; w_reads := 0;
                                             w_parked := false; w_pick := 0; w_read := 0 |})
                               (ov_cols k) |} in
      match run_ops o0 (map (rebase (ov_base k)) (ov_ops k)) with
      | None => Some ([[-8]], [], [])                     (* not a schedule of the machine *)
      | Some (o, sts) =>
          let vs := verdicts_of (o_cfg o) kt (ov_reqs k) 0 in
          let cs := counters_of (o_cfg o) (length (ov_cols k)) (length (ov_reqs k)) in
          if zlist_eqb (map enc_status sts) (ov_status k) && zlist_eqb vs (ov_verdicts k)
             && all2 counters_eqb cs (ov_counters k)
          then None else Some (sts, vs, cs)
      end
  end.

(* ---------------------------------------------------------------- reachability *)
(* Every change of o_cfg made by adv_req / adv_col / do_op is a machine_step, i.e. one
   Registry.step Head; parking, starting and clock setting leave o_cfg alone. *)

Definition reach (c c' : config) : Prop := exists sch, run Head c sch = Some c'.

Lemma run_app v a : forall c b,
  run v c (a ++ b) = match run v c a with Some c1 => run v c1 b | None => None end.
Proof.
  induction a as [|l r IH]; intros c b; cbn [app run]; [reflexivity|].
  destruct (step v c l); [apply IH | reflexivity].
Qed.

Lemma reach_refl c : reach c c.
Proof. exists []. reflexivity. Qed.

Lemma reach_trans a b c : reach a b -> reach b c -> reach a c.
Proof. intros [s1 H1] [s2 H2]. exists (s1 ++ s2). rewrite run_app, H1. exact H2. Qed.

Lemma machine_step_reach o l o' : machine_step o l = Some o' -> reach (o_cfg o) (o_cfg o').
Proof.
  unfold machine_step. destruct (step Head (o_cfg o) l) as [c|] eqn:E; [|discriminate].
  intros [= <-]. exists [l]. cbn [run]. rewrite E. reflexivity.
Qed.

Lemma adv_req_reach o r v o' : adv_req o r v = Some o' -> reach (o_cfg o) (o_cfg o').
Proof.
  unfold adv_req. destruct (_ || _); [discriminate|].
  destruct (req_pc (o_cfg o) r) as [[| |p|vd]|]; try discriminate.
  - apply machine_step_reach.
  - destruct (_ && _); [intros [= <-]; exact (reach_refl _) | apply machine_step_reach].
  - destruct (v_parkG v); [intros [= <-]; exact (reach_refl _)|].
    destruct (is_held o p); [discriminate|].
    destruct (v_parkC v); [intros [= <-]; exact (reach_refl _) | apply machine_step_reach].
Qed.

Lemma adv_col_reach o j w o' : adv_col o j w = Some o' -> reach (o_cfg o) (o_cfg o').
Proof.
  unfold adv_col. cbv zeta. destruct (_ || _); [discriminate|].
  destruct (col_pc (o_cfg o) _) as [[| |todo acc idle|acc idle|out]|]; try discriminate;
    try apply machine_step_reach.
  destruct todo as [|x todo']; [apply machine_step_reach|].
  destruct (first_free o (x :: todo') 0) as [pick|]; [|discriminate].
  match goal with |- context [if ?b then _ else _] => destruct b end; [apply machine_step_reach|].
  destruct (existsb _ _); [intros [= <-]; exact (reach_refl _)|].
  destruct (machine_step o _) as [o1|] eqn:E; [|discriminate]. cbn [option_map]. intros [= <-].
  exact (machine_step_reach _ _ _ E).
Qed.

Lemma first_move_req_reach o rs : forall r o',
  first_move_req o rs r = Some o' -> reach (o_cfg o) (o_cfg o').
Proof.
  induction rs as [|v rest IH]; intros r o'; cbn [first_move_req]; [discriminate|].
  destruct (adv_req o r v) as [o1|] eqn:E; [|apply IH].
  intros [= <-]. exact (adv_req_reach _ _ _ _ E).
Qed.

Lemma first_move_col_reach o cs : forall j o',
  first_move_col o cs j = Some o' -> reach (o_cfg o) (o_cfg o').
Proof.
  induction cs as [|w rest IH]; intros j o'; cbn [first_move_col]; [discriminate|].
  destruct (adv_col o j w) as [o1|] eqn:E; [|apply IH].
  intros [= <-]. exact (adv_col_reach _ _ _ _ E).
Qed.

Lemma settle_reach f : forall o o', settle f o = Some o' -> reach (o_cfg o) (o_cfg o').
Proof.
  induction f as [|f IH]; intros o o'; cbn [settle]; [discriminate|].
  destruct (first_move_req o (o_rs o) 0) as [o1|] eqn:E1.
  - intros H. eapply reach_trans; [exact (first_move_req_reach _ _ _ _ E1) | exact (IH _ _ H)].
  - destruct (first_move_col o (o_cs o) 0) as [o1|] eqn:E2.
    + intros H. eapply reach_trans; [exact (first_move_col_reach _ _ _ _ E2) | exact (IH _ _ H)].
    + intros [= <-]. apply reach_refl.
Qed.

Lemma do_op_reach o op o' : do_op o op = Some o' -> reach (o_cfg o) (o_cfg o').
Proof.
  destruct op as [r|r|j|j|t]; cbn [do_op].
  - destruct (nth_error (o_rs o) r) as [v|]; [|discriminate].
    destruct (v_started v); [discriminate|]. intros [= <-]. exact (reach_refl _).
  - destruct (nth_error (o_rs o) r) as [v|]; [|discriminate]. cbv zeta.
    destruct (_ || _); [intros [= <-]; exact (reach_refl _)|].
    destruct (v_at v =? 2); [|discriminate].
    destruct (machine_step o _) as [o1|] eqn:E; [|discriminate]. cbn [option_map]. intros [= <-].
    exact (machine_step_reach _ _ _ E).
  - destruct (nth_error (o_cs o) j) as [w|]; [|discriminate].
    destruct (w_started w); [discriminate|]. intros [= <-]. exact (reach_refl _).
  - destruct (nth_error (o_cs o) j) as [w|]; [|discriminate].
    destruct (w_parked w); [|discriminate].
    destruct (machine_step o _) as [o1|] eqn:E; [|discriminate]. cbn [option_map]. intros [= <-].
    exact (machine_step_reach _ _ _ E).
  - intros [= <-]. exact (reach_refl _).
Qed.

(* every state the interpreter of the forced schedules reaches is a state of the registry
   machine: some schedule of Registry.run Head leads from the start configuration to it *)
Lemma run_ops_reachable ops : forall o0 o sts,
  run_ops o0 ops = Some (o, sts) -> exists sch, run Head (o_cfg o0) sch = Some (o_cfg o).
Proof.
  induction ops as [|op rest IH]; intros o0 o sts; cbn [run_ops].
  - intros [= <- _]. apply reach_refl.
  - destruct (do_op o0 op) as [o1|] eqn:E1; [|discriminate].
    destruct (settle fuel o1) as [o2|] eqn:E2; [|discriminate].
    destruct (run_ops o2 rest) as [[o3 sts3]|] eqn:E3; [|discriminate].
    intros [= <- _].
    apply (reach_trans _ (o_cfg o1)); [exact (do_op_reach _ _ _ E1)|].
    apply (reach_trans _ (o_cfg o2)); [exact (settle_reach _ _ _ E2)|].
    exact (IH _ _ _ E3).
Qed.

(* the threads and the start state of a case, as run_overlap builds them *)
Definition overlap_kt (k : case_overlap) : list (option (thread * remedy)) :=
  map (key_thread (map remedy_of (ov_remedies k))) (ov_keys k).
Definition overlap_threads (k : case_overlap) : option (list thread) :=
  option_map (fun reqs => reqs ++ map (fun _ => TCol CNew) (ov_cols k))
             (build_threads (overlap_kt k) (ov_reqs k)).


Definition initial_entry (x : option (thread * remedy)) : Prop :=
  match x with Some (t, _) => initial t = true | None => True end.

Lemma build_threads_initial kt reqs : Forall initial_entry kt -> forall ts,
  build_threads kt reqs = Some ts -> forallb initial ts = true.
Proof.
  intros HK. induction reqs as [|[[[i ph] pg] pc] rest IH]; intros ts; cbn [build_threads].
  - intros [= <-]. reflexivity.
  - destruct (nth_error kt i) as [[[t rm]|]|] eqn:Ei; try discriminate.
    destruct (build_threads kt rest) as [ts'|]; [|discriminate]. intros [= <-].
    cbn [forallb]. rewrite (IH ts' eq_refl), andb_true_r.
    rewrite Forall_forall in HK. exact (HK _ (nth_error_In _ _ Ei)).
Qed.

Lemma overlap_kt_initial k : Forall initial_entry (overlap_kt k).
Proof.
  unfold overlap_kt. apply Forall_forall. intros x HIn. apply in_map_iff in HIn.
  destruct HIn as ([i hs] & <- & _). unfold key_thread, initial_entry.
  destruct (nth_error _ i) as [r|]; [|exact I].
  destruct (plugin_pre r hs); [exact I | reflexivity].
Qed.

Lemma overlap_threads_initial k ts : overlap_threads k = Some ts -> forallb initial ts = true.
Proof.
  unfold overlap_threads. destruct (build_threads _ _) as [reqs|] eqn:E; [|discriminate].
  cbn [option_map]. intros [= <-]. rewrite forallb_app.
  rewrite (build_threads_initial _ _ (overlap_kt_initial k) _ E). cbn [andb].
  induction (ov_cols k); [reflexivity | exact IHl].
Qed.

(* a case the suite accepts (run_overlap = None) shows the verdicts and counters of a
   configuration that a schedule of the registry machine reaches from the initial threads *)
Lemma run_overlap_accepted_reachable k : run_overlap k = None ->
  exists ts sch c',
    overlap_threads k = Some ts /\ forallb initial ts = true /\
    run Head (init_config ts) sch = Some c' /\
    zlist_eqb (verdicts_of c' (overlap_kt k) (ov_reqs k) 0) (ov_verdicts k) = true /\
    all2 counters_eqb (counters_of c' (length (ov_cols k)) (length (ov_reqs k)))
         (ov_counters k) = true.
Proof.
  unfold run_overlap. cbv zeta. fold (overlap_kt k).
  destruct (build_threads (overlap_kt k) (ov_reqs k)) as [reqs|] eqn:EB; [|discriminate].
  destruct (run_ops _ _) as [[o sts]|] eqn:ER; [|discriminate].
  destruct (_ && _) eqn:EC; [|discriminate]. intros _.
  apply andb_true_iff in EC. destruct EC as [EC E3]. apply andb_true_iff in EC. destruct EC as [_ E2].
  assert (ET : overlap_threads k = Some (reqs ++ map (fun _ => TCol CNew) (ov_cols k))).
  { unfold overlap_threads. rewrite EB. reflexivity. }
  destruct (run_ops_reachable _ _ _ _ ER) as [sch HS]. cbn [o_cfg] in HS.
  eexists. exists sch, (o_cfg o). split; [exact ET|]. split; [exact (overlap_threads_initial k _ ET)|].
  split; [exact HS|]. split; assumption.
Qed.


(* a small accepted case (used by Property.C09_overlap_example): two ungrouped remedies of 1
   request per second; request 0 (first remedy) is parked in its clock reading at the base
   instant, the clock moves on by 0.5 s, request 1 (second remedy) runs, request 0 is released
   and its region runs with the reading it took, request 2 (first remedy) is rejected, one
   collection reports 1 for both limiters *)
Definition overlap_example : case_overlap :=
  let ug : str := [117; 110; 103; 114; 111; 117; 112; 101; 100; 76; 105; 109; 105; 116] in
  mk_overlap 1000000000100000000
    [mk_remedy [114; 49] 1 1 0 false 0 None; mk_remedy [114; 50] 1 1 0 false 0 None]
    [mk_okey 0%nat []; mk_okey 1%nat []]
    [mk_oreq 0%nat false false true; mk_oreq 1%nat false false false; mk_oreq 0%nat false false false]
    [([] : list nat)]
    [OStart 0%nat; OSet 500000000; OStart 1%nat; ORelease 0%nat; OStart 2%nat; OCollect 0%nat]
    (map enc_status [[2; -1; -1; -1]; [2; -1; -1; -1]; [2; 3; -1; -1]; [3; 3; -1; -1];
                     [3; 3; 3; -1]; [3; 3; 3; 3]])
    [0; 0; 429]
    [[mk_ocnt [114; 49] ug 1; mk_ocnt [114; 50] ug 1]].
