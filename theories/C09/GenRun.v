(* C09 — the translator squares of GenEquiv.v lifted to RUNS.

   GenEquiv.v proves, for ONE call in an arbitrary state, that the definitions the
   translator reads off the Go source (theories/C09/Gen.v: TryToIncrement,
   ensureWindowIsUpdated, Counter of singleRateLimitState) equal Model.try_inc / ensure /
   peek.  Here the GENERATED limiter states are threaded through whole histories:

     gen_run rd m h        a history h of (instant, GInc key WindowData | GPeek) calls on a
                           keyed store m of generated limiter states (Gen.srl): a request
                           runs the generated TryToIncrement on the state of its key (a new
                           key gets [gen_init], the literal of newSingleRateLimitState), a
                           collection runs the generated Counter on every stored state
     g_trace               one Model.entry per request: instant, key, verdict (Panicked =
                           Panic), limit in force (the scaledQuota parameter applied to the
                           allowed count + the spill-over of the state the call left)
     g_store               the final store of generated states
     g_ok                  no Counter call of a collection panicked

   C09_gen_run: for every history, gen_run is step for step the model run that suite "hist"
   evaluates (Model.run_map / final_map on the history read through repr): same trace, the
   final stores related by repr, no collection panics.  C09_gen_run_hist_suite: Model.run_hist
   itself, restated with the generated run in place of run_map.  C09_gen_run_no_panic: no
   request of a run panics when every request carries a non-zero window size (and the first
   request with a zero size does: C09_gen_run_zero_size_panics).  C09_gen_window_bound /
   C09_gen_grid_bound / C09_gen_rejected_only_when_used_up / C09_gen_isolation: the store
   level theorems of C09.Property restated for the generated run, as corollaries.
   C09_gen_run_single: the same for one limiter on its own (Model.run_single, the function
   the registry machine is refined to).

   What is generated and what is not: the three methods of singleRateLimitState are
   generated; the keyed map of RateLimitState (getLimiterState, the loop of Counters(),
   validateLimitKeys = Model.key_valid) and the literal of newSingleRateLimitState are
   written by hand below, as in Model.v -- they are tied to the code by the differential
   suites only.  scaledQuota is the function parameter of the generated definitions.

   As in GenEquiv.v everything is stated for ANY reading rd of the float64 bit pattern of
   the ratio as parts per 1e9, here with rd 0 = 0 (the ratio of a fresh state is float64 0,
   bit pattern 0; the model's fresh state has 0 parts).  The model's reading is snap
   (snap 0 = 0 by computation); only C09_gen_run_hist_suite mentions it and therefore rests
   on the Flocq axioms named in props/C09.json. *)
From Coq Require Import List ZArith Bool Lia.
From Verif Require Import Lib.GoSem C09.Model C09.Spec C09.Proofs C09.GenEquiv.
From Verif Require C09.Gen C09.Property.
Import ListNotations.
Open Scope Z_scope.

(* ---------------------------------------------------------------- the generated run *)

Inductive gaction := GInc (k : key) (wd : Gen.WindowData) | GPeek.

Definition gstore := list (key * Gen.srl).

(* newSingleRateLimitState (single_rate_limit_state.go): all fields zero, windowEndTime =
   epochTime; float64 0 = bit pattern 0.  Hand-copied (the constructor is not translated). *)
Definition gen_init : Gen.srl :=
  Gen.mk_srl 0 0 (Gen.mk_WindowData 0 0 0 false 0) Gen.epochTime.

Fixpoint gget (m : gstore) (k : key) : option Gen.srl :=
  match m with
  | [] => None
  | (k', s) :: r => if key_eqb k k' then Some s else gget r k
  end.
Fixpoint gset (m : gstore) (k : key) (s : Gen.srl) : gstore :=
  match m with
  | [] => [(k, s)]
  | (k', s') :: r => if key_eqb k k' then (k, s) :: r else (k', s') :: gset r k s
  end.
Definition g_or_init (o : option Gen.srl) : Gen.srl :=
  match o with Some s => s | None => gen_init end.

Definition verdict_of (o : outcome Gen.srl Gen.CurrentLimitState) : verdict :=
  match o with
  | Panicked _ => Panic
  | Normal _ r => repr_verdict (Gen.CurrentLimitState_LimitSate r)
  end.

Definition completes {A} (o : outcome Gen.srl A) : bool :=
  match o with Normal _ _ => true | Panicked _ => false end.

Record grun := { g_store : gstore; g_trace : list entry; g_ok : bool }.

Section Reading.
Variable rd : Z -> Z.

(* the limit in force of a call, read off the state it left: TryToIncrement does not change
   the spill-over after ensureWindowIsUpdated *)
Definition gen_lim (wd : Gen.WindowData) (o : outcome Gen.srl Gen.CurrentLimitState) : Z :=
  match o with
  | Panicked _ => 0
  | Normal s' _ => quota_fn rd (Gen.WindowData_AllowedRequestCount wd + Gen.srl_spillover s')
                            (Gen.WindowData_QuotaAllocationRatio wd)
  end.

(* RateLimitState.TryToIncrement / Counters() around the generated methods; a panic keeps
   the state reached so far (the suite's driver recovers it) *)
Definition gen_step (m : gstore) (now : Z) (a : gaction) : grun :=
  match a with
  | GInc k wd =>
      if key_valid k then
        let o := Gen.TryToIncrement (quota_fn rd) (g_or_init (gget m k)) wd now in
        {| g_store := gset m k (out_state o);
           g_trace := [{| e_now := now; e_key := k; e_verdict := verdict_of o;
                          e_lim := gen_lim wd o |}];
           g_ok := true |}
      else {| g_store := m;
              g_trace := [{| e_now := now; e_key := k; e_verdict := Invalid; e_lim := 0 |}];
              g_ok := true |}
  | GPeek =>
      {| g_store := map (fun ks => (fst ks, out_state (Gen.Counter (snd ks) now))) m;
         g_trace := [];
         g_ok := forallb (fun ks => completes (Gen.Counter (snd ks) now)) m |}
  end.

Fixpoint gen_run (m : gstore) (h : list (Z * gaction)) : grun :=
  match h with
  | [] => {| g_store := m; g_trace := []; g_ok := true |}
  | (now, a) :: r =>
      let s := gen_step m now a in
      let t := gen_run (g_store s) r in
      {| g_store := g_store t; g_trace := g_trace s ++ g_trace t; g_ok := g_ok s && g_ok t |}
  end.

(* ---------------------------------------------------------------- reading a run as a model run *)

Definition repr_action (a : gaction) : action :=
  match a with GInc k wd => AInc k (repr_wd rd wd) | GPeek => APeek end.
Definition repr_hist (h : list (Z * gaction)) : list (Z * action) :=
  map (fun na => (fst na, repr_action (snd na))) h.
Definition repr_store (m : gstore) : smap :=
  map (fun ks => (fst ks, repr rd (snd ks))) m.

Lemma gget_repr m k : get (repr_store m) k = option_map (repr rd) (gget m k).
Proof.
  induction m as [|[k' s] m IH]; [reflexivity|].
  cbn [gget repr_store map fst snd get]. destruct (key_eqb k k'); [reflexivity|exact IH].
Qed.

Lemma gset_repr m k s : repr_store (gset m k s) = set (repr_store m) k (repr rd s).
Proof.
  induction m as [|[k' s'] m IH]; [reflexivity|].
  cbn [gset repr_store map fst snd set]. destruct (key_eqb k k'); [reflexivity|].
  cbn [map fst snd]. f_equal. exact IH.
Qed.

Hypothesis rd_zero : rd 0 = 0.

Lemma gen_init_repr : repr rd gen_init = init.
Proof. unfold repr, repr_wd, gen_init, init, wd0. cbn. rewrite rd_zero. reflexivity. Qed.

Lemma g_or_init_repr m k : repr rd (g_or_init (gget m k)) = or_init (get (repr_store m) k).
Proof.
  rewrite gget_repr. destruct (gget m k); [reflexivity|exact gen_init_repr].
Qed.

(* the limit the model records is the one read off the state the call left *)
Lemma limit_at_post now wd s s' v :
  try_inc now wd s = (s', v) -> v <> Panic ->
  limit_at now wd s = scaled_quota (wAllowed wd + spill s') (wParts wd).
Proof.
  unfold try_inc, limit_at. destruct (wW wd =? 0).
  - intros H; inversion H; subst. congruence.
  - destruct (_ <=? _); intros H _; inversion H; subst; reflexivity.
Qed.

Lemma gen_peek_store now m :
  repr_store (map (fun ks => (fst ks, out_state (Gen.Counter (snd ks) now))) m)
  = map (fun ks => (fst ks, peek now (snd ks))) (repr_store m)
  /\ forallb (fun ks => completes (Gen.Counter (snd ks) now)) m = true.
Proof.
  induction m as [|[k s] m [IH1 IH2]]; [split; reflexivity|].
  cbn [map forallb fst snd repr_store].
  destruct (C09_gen_Counter rd s now) as (s' & Hc & Hr).
  rewrite Hc. cbn [out_state completes andb]. split; [|exact IH2].
  rewrite Hr. f_equal. exact IH1.
Qed.

(* one call: the square of GenEquiv.v inside the keyed store *)
Lemma gen_step_square m now a :
  step_map (repr_store m) now (repr_action a)
  = (repr_store (g_store (gen_step m now a)), g_trace (gen_step m now a))
  /\ g_ok (gen_step m now a) = true.
Proof.
  destruct a as [k wd|]; cbn [gen_step repr_action step_map].
  - destruct (key_valid k); [|split; reflexivity].
    cbn [g_store g_trace g_ok]. split; [|reflexivity].
    rewrite <- g_or_init_repr.
    pose proof (C09_gen_TryToIncrement rd (g_or_init (gget m k)) wd now) as Hsq.
    destruct (try_inc now (repr_wd rd wd) (repr rd (g_or_init (gget m k)))) as [s' v] eqn:Et.
    rewrite gset_repr.
    destruct (Gen.TryToIncrement (quota_fn rd) (g_or_init (gget m k)) wd now) as [s1 r|s1];
      cbn [repr_try out_state verdict_of gen_lim] in *; inversion Hsq; subst s' v.
    + assert (Hnp : repr_verdict (Gen.CurrentLimitState_LimitSate r) <> Panic)
        by (destruct (Gen.CurrentLimitState_LimitSate r); discriminate).
      rewrite (limit_at_post _ _ _ _ _ Et Hnp).
      destruct (Gen.CurrentLimitState_LimitSate r); reflexivity.
    + reflexivity.
  - cbn [g_store g_trace g_ok]. destruct (gen_peek_store now m) as [H1 H2].
    rewrite H1, H2. split; reflexivity.
Qed.

Lemma gen_run_square h : forall m,
  g_trace (gen_run m h) = run_map (repr_store m) (repr_hist h) /\
  repr_store (g_store (gen_run m h)) = final_map (repr_store m) (repr_hist h) /\
  g_ok (gen_run m h) = true.
Proof.
  induction h as [|[now a] h IH]; intros m; [repeat split; reflexivity|].
  cbn [gen_run repr_hist map fst snd run_map final_map g_store g_trace g_ok].
  destruct (gen_step_square m now a) as [Hs Hok]. rewrite Hs, Hok.
  destruct (IH (g_store (gen_step m now a))) as (H1 & H2 & H3).
  cbn [fst]. rewrite H1, H2, H3. repeat split; reflexivity.
Qed.

(* ---------------------------------------------------------------- panics *)

Definition nonzero_sizes (h : list (Z * gaction)) : Prop :=
  Forall (fun na => match snd na with
                    | GInc _ wd => Gen.WindowData_WindowSize wd <> 0
                    | GPeek => True
                    end) h.

Lemma gen_try_no_panic s wd now :
  Gen.WindowData_WindowSize wd <> 0 ->
  verdict_of (Gen.TryToIncrement (quota_fn rd) s wd now) <> Panic.
Proof.
  intros HW. pose proof (C09_gen_TryToIncrement rd s wd now) as Hsq.
  unfold try_inc in Hsq. change (wW (repr_wd rd wd)) with (Gen.WindowData_WindowSize wd) in Hsq.
  destruct (Gen.WindowData_WindowSize wd =? 0) eqn:E; [apply Z.eqb_eq in E; contradiction|].
  destruct (Gen.TryToIncrement (quota_fn rd) s wd now) as [s1 r|s1]; cbn [verdict_of repr_try] in *.
  - destruct (Gen.CurrentLimitState_LimitSate r); discriminate.
  - destruct (_ <=? _) in Hsq; inversion Hsq.
Qed.

Lemma gen_try_zero_panics s wd now :
  Gen.WindowData_WindowSize wd = 0 ->
  verdict_of (Gen.TryToIncrement (quota_fn rd) s wd now) = Panic.
Proof.
  intros HW. pose proof (C09_gen_TryToIncrement rd s wd now) as Hsq.
  unfold try_inc in Hsq. change (wW (repr_wd rd wd)) with (Gen.WindowData_WindowSize wd) in Hsq.
  rewrite HW in Hsq. cbn [Z.eqb] in Hsq.
  destruct (Gen.TryToIncrement (quota_fn rd) s wd now) as [s1 r|s1]; cbn [verdict_of repr_try] in *.
  - exact (f_equal snd Hsq).
  - reflexivity.
Qed.

Lemma gen_run_no_panic h : forall m,
  nonzero_sizes h ->
  Forall (fun e => e_verdict e <> Panic) (g_trace (gen_run m h)).
Proof.
  induction h as [|[now a] h IH]; intros m HN; [constructor|].
  inversion HN as [|? ? Ha Hr]; subst. cbn [gen_run g_trace]. apply Forall_app. split.
  - destruct a as [k wd|]; cbn [gen_step].
    + destruct (key_valid k); cbn [g_trace]; constructor; try constructor; cbn [e_verdict].
      * apply gen_try_no_panic. exact Ha.
      * discriminate.
    + constructor.
  - apply IH. exact Hr.
Qed.

End Reading.

(* ---------------------------------------------------------------- the statements *)

(* The generated run is the model run of the same history, from the empty store on. *)
Theorem C09_gen_run : forall rd, rd 0 = 0 -> forall h,
  g_trace (gen_run rd [] h) = run_map [] (repr_hist rd h) /\
  repr_store rd (g_store (gen_run rd [] h)) = final_map [] (repr_hist rd h) /\
  g_ok (gen_run rd [] h) = true.
Proof. intros rd H0 h. exact (gen_run_square rd H0 h []). Qed.
Print Assumptions C09_gen_run.

(* ... and from any store (what the induction needs; also: a run can be cut anywhere). *)
Theorem C09_gen_run_from : forall rd, rd 0 = 0 -> forall m h,
  g_trace (gen_run rd m h) = run_map (repr_store rd m) (repr_hist rd h) /\
  repr_store rd (g_store (gen_run rd m h)) = final_map (repr_store rd m) (repr_hist rd h) /\
  g_ok (gen_run rd m h) = true.
Proof. intros rd H0 m h. exact (gen_run_square rd H0 h m). Qed.
Print Assumptions C09_gen_run_from.

(* The documented guard: no request of a run ends in a run-time panic when every request
   carries a non-zero window size (no hypothesis on the store the run starts from: a state
   registered without window data is overwritten by the request's before the division);
   collections never panic (Counter() of the tree with fix-F-C09b). *)
Theorem C09_gen_run_no_panic : forall rd, rd 0 = 0 -> forall m h,
  nonzero_sizes h ->
  Forall (fun e => e_verdict e <> Panic) (g_trace (gen_run rd m h)) /\
  g_ok (gen_run rd m h) = true.
Proof.
  intros rd H0 m h HN. split; [exact (gen_run_no_panic rd h m HN)|].
  exact (proj2 (proj2 (gen_run_square rd H0 h m))).
Qed.
Print Assumptions C09_gen_run_no_panic.

(* The guard is exact: a request with a valid key and window size 0 panics, in any state. *)
Theorem C09_gen_run_zero_size_panics : forall rd m now k wd,
  key_valid k = true -> Gen.WindowData_WindowSize wd = 0 ->
  map e_verdict (g_trace (gen_step rd m now (GInc k wd))) = [Panic].
Proof.
  intros rd m now k wd Hk HW. cbn [gen_step]. rewrite Hk. cbn [g_trace map e_verdict].
  now rewrite (gen_try_zero_panics rd _ wd now HW).
Qed.
Print Assumptions C09_gen_run_zero_size_panics.

(* ---------------------------------------------------------------- suite "hist" *)

Definition gwd_of_profile (p : profile) : Gen.WindowData :=
  let '(w, a, rb, so, rday) := p in Gen.mk_WindowData w a rb so rday.

Fixpoint gen_compile_hist (base : Z) (wds : list Gen.WindowData) (ops : list hop)
  : option (list (Z * gaction)) :=
  match ops with
  | [] => Some []
  | HPeek now :: r => option_map (cons (base + now, GPeek)) (gen_compile_hist base wds r)
  | HInc now (l, g, i) p :: r =>
      match nth_error wds p, gen_compile_hist base wds r with
      | Some wd, Some h =>
          Some ((base + now, GInc {| kLimiter := l; kGrouped := g; kGroup := i |} wd) :: h)
      | _, _ => None
      end
  end.

(* Model.run_hist with the generated run in the place of run_map *)
Definition gen_run_hist (c : case_hist) : option (list Z) :=
  let '(base, profiles, ops, observed) := c in
  match gen_compile_hist base (map gwd_of_profile profiles) ops with
  | None => Some [-1]
  | Some h =>
      let out := map (fun e => code_of_verdict (e_verdict e)) (g_trace (gen_run snap [] h)) in
      if zlist_eqb out observed then None else Some out
  end.

Lemma gwd_of_profile_repr p : repr_wd snap (gwd_of_profile p) = wd_of_profile p.
Proof. destruct p as [[[[w a] rb] so] rday]. reflexivity. Qed.

Lemma gen_compile_hist_repr base gwds ops :
  compile_hist base (map (repr_wd snap) gwds) ops
  = option_map (repr_hist snap) (gen_compile_hist base gwds ops).
Proof.
  induction ops as [|[now [[l g] i] p|now] ops IH]; [reflexivity| |].
  - cbn [compile_hist gen_compile_hist]. rewrite IH, nth_error_map.
    destruct (nth_error gwds p) as [wd|]; [|reflexivity].
    cbn [option_map]. destruct (gen_compile_hist base gwds ops); reflexivity.
  - cbn [compile_hist gen_compile_hist]. rewrite IH.
    destruct (gen_compile_hist base gwds ops); reflexivity.
Qed.

Lemma snap_zero : snap 0 = 0.
Proof. vm_compute. reflexivity. Qed.

(* What suite "hist" evaluates on every case is the generated run: a case is accepted
   (None) exactly when the verdict codes the Go code produced are those of the generated
   definitions threaded through the case's history. *)
Theorem C09_gen_run_hist_suite : forall c, run_hist c = gen_run_hist c.
Proof.
  intros [[[base ps] ops] obs]. unfold run_hist, gen_run_hist.
  replace (map wd_of_profile ps) with (map (repr_wd snap) (map gwd_of_profile ps))
    by (rewrite map_map; apply map_ext; exact gwd_of_profile_repr).
  rewrite gen_compile_hist_repr.
  destruct (gen_compile_hist base (map gwd_of_profile ps) ops) as [h|]; [|reflexivity].
  cbn [option_map]. now rewrite (proj1 (C09_gen_run snap snap_zero h)).
Qed.
Print Assumptions C09_gen_run_hist_suite.

(* ---------------------------------------------------------------- the property, for the generated run *)

(* the events of a history that concern key k: its own requests and every collection *)
Definition g_concerns (k : key) (na : Z * gaction) : bool :=
  match snd na with GInc k' _ => key_eqb k k' | GPeek => true end.
(* every request of key k carries window data wd / window size W *)
Definition g_requests_use (k : key) (wd : Gen.WindowData) (h : list (Z * gaction)) : Prop :=
  Forall (fun na => match snd na with
                    | GInc k' wd' => key_eqb k k' = true -> wd' = wd
                    | GPeek => True
                    end) h.
Definition g_requests_size (k : key) (W : Z) (h : list (Z * gaction)) : Prop :=
  Forall (fun na => match snd na with
                    | GInc k' wd' => key_eqb k k' = true -> Gen.WindowData_WindowSize wd' = W
                    | GPeek => True
                    end) h.
Definition g_instants (k : key) (h : list (Z * gaction)) : list Z :=
  map fst (filter (g_concerns k) h).

Lemma repr_hist_cons rd now a h :
  repr_hist rd ((now, a) :: h) = (now, repr_action rd a) :: repr_hist rd h.
Proof. reflexivity. Qed.

Lemma project_instants rd k h :
  map sev_now (project k (repr_hist rd h)) = g_instants k h.
Proof.
  induction h as [|[now a] h IH]; [reflexivity|].
  rewrite repr_hist_cons, project_cons, map_app, IH.
  unfold g_instants.
  destruct a as [k' wd|]; cbn [repr_action filter g_concerns snd];
    [destruct (key_eqb k k')|]; reflexivity.
Qed.

Lemma project_const_data rd k wd h :
  g_requests_use k wd h -> const_data (repr_wd rd wd) (project k (repr_hist rd h)).
Proof.
  unfold const_data. induction h as [|[now a] h IH]; intros HU; [constructor|].
  inversion HU as [|? ? Ha Hr]; subst. rewrite repr_hist_cons, project_cons.
  apply Forall_app. split; [|exact (IH Hr)].
  destruct a as [k' wd'|]; cbn [repr_action snd] in *.
  - destruct (key_eqb k k'); [|constructor].
    constructor; [now rewrite (Ha eq_refl)|constructor].
  - constructor; [exact I|constructor].
Qed.

Lemma project_const_window rd k W h :
  g_requests_size k W h -> const_window W (project k (repr_hist rd h)).
Proof.
  unfold const_window. induction h as [|[now a] h IH]; intros HU; [constructor|].
  inversion HU as [|? ? Ha Hr]; subst. rewrite repr_hist_cons, project_cons.
  apply Forall_app. split; [|exact (IH Hr)].
  destruct a as [k' wd'|]; cbn [repr_action snd] in *.
  - destruct (key_eqb k k'); [|constructor].
    constructor; [exact (Ha eq_refl)|constructor].
  - constructor; [exact I|constructor].
Qed.

(* C09.Property.C09_grid_bound_const for the generated run: with the same window data on
   every request of the key (spill-over off) no grid window lets more than
   scaledQuota(allowed, ratio) requests of the key proceed -- counted on the verdicts the
   GENERATED TryToIncrement returns along the run. *)
Corollary C09_gen_window_bound : forall rd, rd 0 = 0 -> forall h k wd,
  0 < Gen.WindowData_WindowSize wd -> Gen.WindowData_SpilloverEnabled wd = false ->
  key_valid k = true ->
  g_requests_use k wd h -> mono (g_instants k h) ->
  let W := Gen.WindowData_WindowSize wd in
  let L := quota_fn rd (Gen.WindowData_AllowedRequestCount wd)
                       (Gen.WindowData_QuotaAllocationRatio wd) in
  (forall j, count (in_left W j) (entries_of k (g_trace (gen_run rd [] h))) <= L) \/
  (forall j, count (in_right W j) (entries_of k (g_trace (gen_run rd [] h))) <= L).
Proof.
  intros rd H0 h k wd HW HS Hk HU HM. cbn zeta.
  rewrite (proj1 (C09_gen_run rd H0 h)).
  apply (Property.C09_grid_bound_const (repr_hist rd h) k (repr_wd rd wd)); try assumption.
  - apply project_const_data. exact HU.
  - rewrite project_instants. exact HM.
Qed.
Print Assumptions C09_gen_window_bound.

(* C09.Property.C09_grid_bound: only the window size is constant; every request that
   proceeds is within the limit in force when it was handled. *)
Corollary C09_gen_grid_bound : forall rd, rd 0 = 0 -> forall h k W,
  0 < W -> key_valid k = true ->
  g_requests_size k W h -> mono (g_instants k h) ->
  bounded_left W 0 (entries_of k (g_trace (gen_run rd [] h))) \/
  bounded_right W 0 (entries_of k (g_trace (gen_run rd [] h))).
Proof.
  intros rd H0 h k W HW Hk HU HM.
  rewrite (proj1 (C09_gen_run rd H0 h)).
  apply (Property.C09_grid_bound (repr_hist rd h) k W); try assumption.
  - apply project_const_window. exact HU.
  - rewrite project_instants. exact HM.
Qed.
Print Assumptions C09_gen_grid_bound.

(* C09.Property.C09_rejected_only_when_used_up *)
Corollary C09_gen_rejected_only_when_used_up : forall rd, rd 0 = 0 -> forall h k W pre e post,
  0 < W -> key_valid k = true ->
  g_requests_size k W h -> mono_from 0 (g_instants k h) ->
  entries_of k (g_trace (gen_run rd [] h)) = pre ++ e :: post ->
  s_verdict e = Block -> 0 < s_now e ->
  exists j, in_closed W j (s_now e) = true /\ s_lim e <= count (in_closed W j) pre.
Proof.
  intros rd H0 h k W pre e post HW Hk HU HM.
  rewrite (proj1 (C09_gen_run rd H0 h)).
  apply (Property.C09_rejected_only_when_used_up (repr_hist rd h) k W pre e post); try assumption.
  - apply project_const_window. exact HU.
  - rewrite project_instants. exact HM.
Qed.
Print Assumptions C09_gen_rejected_only_when_used_up.

(* ---------------------------------------------------------------- one limiter on its own *)

(* the lock regions of ONE generated limiter, each with its own clock reading: the generated
   counterpart of Model.run_single, the function every schedule of the registry machine is
   refined to (C09.Property.C09_registry_refines) *)
Inductive gsev := GSInc (now : Z) (wd : Gen.WindowData) | GSPeek (now : Z).

Record grun1 := { g1_state : option Gen.srl; g1_trace : list sentry; g1_ok : bool }.

Section Single.
Variable rd : Z -> Z.

Definition gen_step_single (o : option Gen.srl) (e : gsev) : grun1 :=
  match e with
  | GSInc now wd =>
      let r := Gen.TryToIncrement (quota_fn rd) (g_or_init o) wd now in
      {| g1_state := Some (out_state r);
         g1_trace := [{| s_now := now; s_verdict := verdict_of r; s_lim := gen_lim rd wd r |}];
         g1_ok := true |}
  | GSPeek now =>
      match o with
      | None => {| g1_state := None; g1_trace := []; g1_ok := true |}
      | Some s => let c := Gen.Counter s now in
                  {| g1_state := Some (out_state c); g1_trace := []; g1_ok := completes c |}
      end
  end.

Fixpoint gen_run_single (o : option Gen.srl) (h : list gsev) : grun1 :=
  match h with
  | [] => {| g1_state := o; g1_trace := []; g1_ok := true |}
  | e :: r =>
      let s := gen_step_single o e in
      let t := gen_run_single (g1_state s) r in
      {| g1_state := g1_state t; g1_trace := g1_trace s ++ g1_trace t;
         g1_ok := g1_ok s && g1_ok t |}
  end.

Definition repr_sev (e : gsev) : sev :=
  match e with GSInc now wd => SInc now (repr_wd rd wd) | GSPeek now => SPeek now end.

(* the sub-history a key sees *)
Definition gproject (k : key) (h : list (Z * gaction)) : list gsev :=
  flat_map (fun na => match snd na with
                      | GInc k' wd => if key_eqb k k' then [GSInc (fst na) wd] else []
                      | GPeek => [GSPeek (fst na)]
                      end) h.

Lemma gproject_repr k h : project k (repr_hist rd h) = map repr_sev (gproject k h).
Proof.
  induction h as [|[now a] h IH]; [reflexivity|].
  rewrite repr_hist_cons, project_cons, IH. unfold gproject. cbn [flat_map snd fst].
  rewrite map_app. f_equal.
  destruct a as [k' wd|]; cbn [repr_action]; [destruct (key_eqb k k')|]; reflexivity.
Qed.

Hypothesis rd_zero : rd 0 = 0.

Lemma gen_step_single_square o e :
  step_single (option_map (repr rd) o) (repr_sev e)
  = (option_map (repr rd) (g1_state (gen_step_single o e)), g1_trace (gen_step_single o e))
  /\ g1_ok (gen_step_single o e) = true.
Proof.
  destruct e as [now wd|now]; cbn [gen_step_single repr_sev step_single].
  - cbn [g1_state g1_trace g1_ok option_map]. split; [|reflexivity].
    assert (Hi : or_init (option_map (repr rd) o) = repr rd (g_or_init o))
      by (destruct o; [reflexivity|symmetry; exact (gen_init_repr rd rd_zero)]).
    rewrite Hi.
    pose proof (C09_gen_TryToIncrement rd (g_or_init o) wd now) as Hsq.
    destruct (try_inc now (repr_wd rd wd) (repr rd (g_or_init o))) as [s' v] eqn:Et.
    destruct (Gen.TryToIncrement (quota_fn rd) (g_or_init o) wd now) as [s1 r|s1];
      cbn [repr_try out_state verdict_of gen_lim] in *; inversion Hsq; subst s' v.
    + assert (Hnp : repr_verdict (Gen.CurrentLimitState_LimitSate r) <> Panic)
        by (destruct (Gen.CurrentLimitState_LimitSate r); discriminate).
      rewrite (limit_at_post _ _ _ _ _ Et Hnp).
      destruct (Gen.CurrentLimitState_LimitSate r); reflexivity.
    + reflexivity.
  - destruct o as [s|]; [|split; reflexivity].
    destruct (C09_gen_Counter rd s now) as (s' & Hc & Hr).
    cbn [g1_state g1_trace g1_ok option_map]. rewrite Hc. cbn [out_state completes].
    rewrite Hr. split; reflexivity.
Qed.

Lemma gen_run_single_square h : forall o,
  g1_trace (gen_run_single o h) = run_single (option_map (repr rd) o) (map repr_sev h) /\
  option_map (repr rd) (g1_state (gen_run_single o h))
    = final_single (option_map (repr rd) o) (map repr_sev h) /\
  g1_ok (gen_run_single o h) = true.
Proof.
  induction h as [|e h IH]; intros o; [repeat split; reflexivity|].
  cbn [gen_run_single map run_single final_single g1_state g1_trace g1_ok].
  destruct (gen_step_single_square o e) as [Hs Hok]. rewrite Hs, Hok.
  destruct (IH (g1_state (gen_step_single o e))) as (H1 & H2 & H3).
  cbn [fst]. rewrite H1, H2, H3. repeat split; reflexivity.
Qed.

End Single.

Theorem C09_gen_run_single : forall rd, rd 0 = 0 -> forall o h,
  g1_trace (gen_run_single rd o h) = run_single (option_map (repr rd) o) (map (repr_sev rd) h) /\
  option_map (repr rd) (g1_state (gen_run_single rd o h))
    = final_single (option_map (repr rd) o) (map (repr_sev rd) h) /\
  g1_ok (gen_run_single rd o h) = true.
Proof. intros rd H0 o h. exact (gen_run_single_square rd H0 h o). Qed.
Print Assumptions C09_gen_run_single.

(* C09.Property.C09_isolation for the generated run: what happens to a key in a run over the
   keyed store is the run of ONE generated limiter over the key's own sub-history, whatever
   the other keys do in between. *)
Corollary C09_gen_isolation : forall rd, rd 0 = 0 -> forall h k,
  key_valid k = true ->
  entries_of k (g_trace (gen_run rd [] h)) = g1_trace (gen_run_single rd None (gproject k h)).
Proof.
  intros rd H0 h k Hk.
  rewrite (proj1 (C09_gen_run rd H0 h)), (Property.C09_isolation _ k Hk), gproject_repr.
  symmetry. exact (proj1 (C09_gen_run_single rd H0 None (gproject k h))).
Qed.
Print Assumptions C09_gen_isolation.

(* C09.Property.C09_single_grid_bound for one generated limiter *)
Corollary C09_gen_single_grid_bound : forall rd, rd 0 = 0 -> forall h W,
  0 < W ->
  Forall (fun e => match e with GSInc _ wd => Gen.WindowData_WindowSize wd = W
                              | GSPeek _ => True end) h ->
  mono (map (fun e => match e with GSInc t _ => t | GSPeek t => t end) h) ->
  bounded_left W 0 (g1_trace (gen_run_single rd None h)) \/
  bounded_right W 0 (g1_trace (gen_run_single rd None h)).
Proof.
  intros rd H0 h W HW HC HM.
  rewrite (proj1 (C09_gen_run_single rd H0 None h)).
  apply (Property.C09_single_grid_bound (map (repr_sev rd) h) W HW).
  - unfold const_window. rewrite Forall_map. eapply Forall_impl; [|exact HC].
    intros [t wd|t]; cbn; trivial.
  - rewrite map_map. erewrite map_ext; [exact HM|]. intros [t wd|t]; reflexivity.
Qed.
Print Assumptions C09_gen_single_grid_bound.

(* ---------------------------------------------------------------- example *)

Definition ex_a : key := {| kLimiter := [65]; kGrouped := true; kGroup := [103; 49] |}.
Definition ex_b : key := {| kLimiter := [65]; kGrouped := true; kGroup := [103; 50] |}.
(* window 10 ns, 3 allowed, ratio 0.5 (bits 0x3FE0000000000000): limit 2 *)
Definition ex_wd : Gen.WindowData := Gen.mk_WindowData 10 3 4602678819172646912 false 0.
Definition ex_wd0 : Gen.WindowData := Gen.mk_WindowData 0 3 4602678819172646912 false 0.
Definition ex_h : list (Z * gaction) :=
  [(9, GInc ex_a ex_wd); (10, GInc ex_a ex_wd); (10, GInc ex_b ex_wd); (10, GInc ex_a ex_wd);
   (11, GPeek); (11, GInc ex_a ex_wd); (11, GInc ex_b ex_wd); (20, GInc ex_a ex_wd);
   (20, GInc ex_a ex_wd); (21, GInc ex_a ex_wd)].

(* the generated definitions run on a history with two keys, a collection, two refusals and
   a change of window; all hypotheses of C09_gen_window_bound hold on it and the corollary
   is applied; a request with window size 0 panics and leaves its window data stored *)
Example C09_gen_run_example :
  key_valid ex_a = true /\ g_requests_use ex_a ex_wd ex_h /\ mono (g_instants ex_a ex_h) /\
  nonzero_sizes ex_h /\
  map (fun e => (s_now e, s_verdict e, s_lim e)) (entries_of ex_a (g_trace (gen_run snap [] ex_h))) =
    [(9, Proceed, 2); (10, Proceed, 2); (10, Block, 2); (11, Proceed, 2); (20, Proceed, 2);
     (20, Block, 2); (21, Proceed, 2)] /\
  map (fun e => (s_now e, s_verdict e)) (entries_of ex_b (g_trace (gen_run snap [] ex_h))) =
    [(10, Proceed); (11, Proceed)] /\
  map (fun ks => (Gen.srl_counter (snd ks), Gen.srl_windowEndTime (snd ks)))
      (g_store (gen_run snap [] ex_h)) = [(1, 30); (2, 20)] /\
  g_ok (gen_run snap [] ex_h) = true /\
  g1_trace (gen_run_single snap None (gproject ex_b ex_h)) =
    entries_of ex_b (g_trace (gen_run snap [] ex_h)) /\
  ((forall j, count (in_left 10 j) (entries_of ex_a (g_trace (gen_run snap [] ex_h))) <= 2) \/
   (forall j, count (in_right 10 j) (entries_of ex_a (g_trace (gen_run snap [] ex_h))) <= 2)) /\
  (let r := gen_run snap [] [(5, GInc ex_a ex_wd); (6, GInc ex_a ex_wd0); (7, GInc ex_a ex_wd)] in
   map e_verdict (g_trace r) = [Proceed; Panic; Proceed] /\
   map (fun ks => Gen.srl_counter (snd ks)) (g_store r) = [2]).
Proof.
  assert (HU : g_requests_use ex_a ex_wd ex_h)
    by (unfold g_requests_use, ex_h;
        repeat (apply Forall_cons; [first [exact I | intros _; reflexivity]|]); constructor).
  assert (HM : mono (g_instants ex_a ex_h)) by (cbn; lia).
  split; [reflexivity|]. split; [exact HU|]. split; [exact HM|].
  split; [unfold nonzero_sizes, ex_h; repeat (apply Forall_cons; [first [exact I | discriminate]|]);
          constructor|].
  split; [vm_compute; reflexivity|]. split; [vm_compute; reflexivity|].
  split; [vm_compute; reflexivity|]. split; [vm_compute; reflexivity|].
  split; [vm_compute; reflexivity|].
  split; [|vm_compute; split; reflexivity].
  exact (C09_gen_window_bound snap snap_zero ex_h ex_a ex_wd eq_refl eq_refl eq_refl HU HM).
Qed.
