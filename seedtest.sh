#!/bin/bash
# seedtest.sh <seed dir> <module dir rel. to repo> <demo pkg dir rel. to module> <go test args...> -- <Cxx> [Cyy...]
# 1. scratch worktree of /repo HEAD; 2. demo passes without the patch; 3. patch applies, module builds,
# existing tests of the demo package pass (demo removed), demo fails with the patch; 4. run the named checks
# against the patched worktree. Prints a summary; removes the worktree.
export GOFLAGS=-mod=mod GOPROXY=off GOSUMDB=off GOTOOLCHAIN=local
seed=$1; mod=$2; pkg=$3; shift 3
targs=(); while [ "$1" != "--" ]; do targs+=("$1"); shift; done; shift
wt=/tmp/swt-$$
git -C /repo worktree add -q --detach $wt HEAD || exit 2
demo=$(ls $seed/demo_test.* | head -1)
cp $demo $wt/$mod/$pkg/zz_seed_demo_test.${demo##*.}
echo "== demo without the change"; (cd $wt/$mod && go test -vet=off -count=1 "${targs[@]}" ./$pkg/ 2>&1 | tail -3)
git -C $wt apply $seed/patch.diff || { echo "PATCH DOES NOT APPLY"; git -C /repo worktree remove --force $wt; exit 2; }
echo "== build with the change"; (cd $wt/$mod && go build ./... 2>&1 | grep -v "shared-model" | tail -3)
echo "== demo with the change"; (cd $wt/$mod && go test -vet=off -count=1 "${targs[@]}" ./$pkg/ 2>&1 | grep -E "^(--- FAIL|FAIL|ok|WARNING: DATA RACE|panic)" | sort | uniq -c | head -5)
rm $wt/$mod/$pkg/zz_seed_demo_test.*
echo "== existing tests of the package with the change"; (cd $wt/$mod && go test -vet=off -count=1 ./$pkg/... 2>&1 | tail -3)
for p in "$@"; do
  echo "== ./check $p on the changed tree"
  (cd /verif && VERIF_REPO=$wt ./check $p 2>&1 | grep -E "^(VIOLATION|KNOWN|C[0-9]+ quick|NOT SHOWN)" | cut -c1-400)
done
altid=$(python3 -c "import hashlib,sys;print(hashlib.sha1(sys.argv[1].encode()).hexdigest()[:8])" $wt); rm -rf /verif/build/alt-$altid /verif/replays/alt-$altid
git -C /repo worktree remove --force $wt
