# setup: full Coq build (no -vos), harness binaries warmed
SHELL := /bin/bash
export GOFLAGS := -mod=mod
export GOPROXY := off
export GOSUMDB := off
export GOTOOLCHAIN := local

.PHONY: setup coq harness clean facts
setup: facts coq harness

# C18: the access facts are generated from /repo's current source (also on every check run)
facts:
	mkdir -p build/bin build/run/C18
	cd lockset && go build -o ../build/bin/lockset .
	build/bin/lockset -repo /repo -config lockset/config.json -coq theories/C18/Accesses.v -json build/run/C18/facts.json

coq:
	./theories/gen_coqproject.sh
	$(MAKE) -C theories -f Makefile.coq -j16

harness:
	mkdir -p build/bin
	cd harness && for d in cmd/*/; do n=$$(basename $$d); go build -tags verif -o ../build/bin/$$n ./cmd/$$n || echo "harness $$n does not build yet"; done

clean:
	rm -rf build
	-$(MAKE) -C theories -f Makefile.coq clean
