# setup: full Coq build (no -vos), harness binaries warmed
SHELL := /bin/bash
export GOFLAGS := -mod=mod
export GOPROXY := off
export GOSUMDB := off
export GOTOOLCHAIN := local

.PHONY: setup coq harness clean
setup: coq harness

coq:
	./theories/gen_coqproject.sh
	$(MAKE) -C theories -f Makefile.coq -j16

harness:
	mkdir -p build/bin
	cd harness && for d in cmd/*/; do n=$$(basename $$d); go build -tags verif -o ../build/bin/$$n ./cmd/$$n || exit 1; done

clean:
	rm -rf build
	-$(MAKE) -C theories -f Makefile.coq clean
