# setup: full Coq build (no -vos), harness binaries warmed
SHELL := /bin/bash
export GOFLAGS := -mod=mod
export GOPROXY := off
export GOSUMDB := off
export GOTOOLCHAIN := local

.PHONY: setup clean
setup:
	./setup.sh

clean:
	rm -rf build
	-$(MAKE) -C theories -f Makefile.coq clean
