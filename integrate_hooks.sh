#!/bin/bash
# commits the add-only, tag-guarded verif_<cxx>*.go files of one property in /repo as a hook commit
set -e
p=$(echo $1 | tr A-Z a-z)
cd /repo
files=$(git status --short | grep '^??' | awk '{print $2}' | grep "verif_${p}[^/]*\.go$" || true)
if [ -z "$files" ]; then echo "no untracked verif_${p} files"; exit 0; fi
for f in $files; do head -3 $f | grep -q '//go:build verif' || { echo "NOT TAG GUARDED: $f"; exit 1; }; done
git add $files
git commit -qm "verif hook: export shims for $1 harness (build tag verif, add-only)"
sha=$(git rev-parse --short HEAD)
python3 - "$sha" <<'PY'
import json,sys
p='/verif/hook_commits.json'; l=json.load(open(p)); l.append(sys.argv[1]); json.dump(l,open(p,'w'))
PY
echo "committed $sha: $files"
