// References to the backing store of a slice / map FIELD that leave their owner.
//
// Type-level facts ("pkg.Type.field") see an element store only when it is written on the field
// itself (x.f[i] = v, x.f = append(x.f, v)). A function that hands out the slice it keeps in a
// field (return node.userFlows, return flows[:n] with flows a parameter the caller filled with a
// field) gives its callers a second name for the same backing array: an append onto that value
// writes behind the owner's len into memory every other holder shares (seeded change C18-7), an
// element store through it is a store into the owner's slice / map.
//
// This file computes, flow-insensitively and by type-level field identity,
//   - for every function, which fields / parameters each RESULT may share its backing store with
//     (return x.f, return p, return p[a:b], return append(p, ...), through local variables and
//     calls, interface calls resolved to every implementation);
//   - for every container field, which OTHER fields' backing stores a value stored in it may be
//     (FlowResult{Flow: userFlow}, f.UserFlow.Flow = userFlow, setter parameters);
//   - for every function, which parameters it (or a callee) may write THROUGH
//     (append(p, ...), p[i] = v, copy(p, ...), delete(p, k), clear(p)).
//
// The walker then emits, at every append / element store / call that writes through a value which
// may share the backing store of field F, a WRITE fact on F ("element write through a reference to
// F"), and at every return of such a value a READ fact ("reference escapes the owner via return").
// Only containers (slices, maps) are followed; elements that are themselves containers are not.
package main

import (
	"go/ast"
	"go/token"
	"go/types"
	"sort"
	"strconv"
	"strings"
)

// "F:<field id>"  shares the field's backing store, with whatever spare capacity it has
// "C:<field id>"  shares it with the capacity CAPPED at the length (x.f[a:b:b]): an append onto it
//
//	reallocates, an element store still hits the shared store
//
// "P:<i>"         whatever parameter i shares
// "Q:<i>"         whatever parameter i shares, capped (p[a:b:b])
type aset map[string]bool

type aliasSummary struct {
	ret     []aset
	writes  map[int]bool
	stores  map[int]map[string]bool
	params  map[*types.Var]int
	results []*types.Var // named results (nil entries when unnamed)
	env     map[*types.Var]aset
}

var (
	aliasSum     = map[*fnode]*aliasSummary{}
	fieldAlias   = map[string]map[string]bool{}
	aliasChanged bool
)

func isContainer(t types.Type) bool {
	if t == nil {
		return false
	}
	switch t.Underlying().(type) {
	case *types.Slice, *types.Map:
		return true
	}
	return false
}

func (s aset) add(x string) {
	if !s[x] {
		s[x] = true
		aliasChanged = true
	}
}

func (s aset) addAll(o aset) {
	for x := range o {
		s.add(x)
	}
}

func isFieldSrc(s string) bool { return strings.HasPrefix(s, "F:") || strings.HasPrefix(s, "C:") }

// addFieldAlias: src is a tagged source ("F:x" / "C:x")
func addFieldAlias(field, src string) {
	if field == src[2:] {
		return
	}
	if fieldAlias[field] == nil {
		fieldAlias[field] = map[string]bool{}
	}
	if !fieldAlias[field][src] {
		fieldAlias[field][src] = true
		aliasChanged = true
	}
}

func rootDecl(n *fnode) *fnode {
	for n.parent != nil {
		n = n.parent
	}
	return n
}

// containerPlace: e names a container-typed field or package-level variable: its id
func containerPlace(info *types.Info, e ast.Expr) (string, bool) {
	for {
		p, ok := e.(*ast.ParenExpr)
		if !ok {
			break
		}
		e = p.X
	}
	if id, v, ok := pkgVarOf(info, e); ok {
		return id, isContainer(v.Type())
	}
	if sel, ok := e.(*ast.SelectorExpr); ok {
		if id, v, ok := fieldID(info, sel); ok {
			return id, isContainer(v.Type())
		}
	}
	return "", false
}

type aliasEval struct {
	n    *fnode // top-level declaration
	sum  *aliasSummary
	info *types.Info
	w    *walker // for call resolution only
}

func newAliasEval(n *fnode) *aliasEval {
	root := rootDecl(n)
	return &aliasEval{n: root, sum: aliasSum[root], info: n.pkg.TypesInfo, w: &walker{n: n, info: n.pkg.TypesInfo}}
}

func (ev *aliasEval) eval(e ast.Expr) aset {
	out := aset{}
	if ev.sum == nil {
		return out
	}
	switch x := e.(type) {
	case nil:
	case *ast.ParenExpr:
		return ev.eval(x.X)
	case *ast.Ident:
		if id, ok := containerPlace(ev.info, x); ok {
			out[("F:" + id)] = true
			for f := range fieldAlias[id] {
				out[f] = true
			}
			return out
		}
		if v, ok := ev.info.Uses[x].(*types.Var); ok && isContainer(v.Type()) {
			for s := range ev.sum.env[v] {
				out[s] = true
			}
			if i, isParam := ev.sum.params[v]; isParam {
				out["P:"+strconv.Itoa(i)] = true
			}
		}
	case *ast.SelectorExpr:
		if id, ok := containerPlace(ev.info, x); ok {
			out["F:"+id] = true
			for f := range fieldAlias[id] {
				out[f] = true
			}
		}
	case *ast.SliceExpr:
		in := ev.eval(x.X)
		if x.Slice3 && x.Max != nil && x.High != nil && sameExpr(x.High, x.Max) {
			for s := range in { // x[a:b:b]: len == cap
				switch {
				case strings.HasPrefix(s, "F:"):
					out["C:"+s[2:]] = true
				case strings.HasPrefix(s, "P:"):
					out["Q:"+s[2:]] = true
				default:
					out[s] = true
				}
			}
			return out
		}
		return in
	case *ast.TypeAssertExpr:
		return ev.eval(x.X)
	case *ast.CallExpr:
		return ev.callResult(x, 0)
	}
	return out
}

func builtinName(info *types.Info, c *ast.CallExpr) string {
	if id, ok := c.Fun.(*ast.Ident); ok {
		if _, isB := info.Uses[id].(*types.Builtin); isB {
			return id.Name
		}
	}
	return ""
}

// argFor: the argument expressions bound to parameter i of the callee (variadic tail included)
func argsFor(c *ast.CallExpr, callee *fnode, i int) []ast.Expr {
	fd, ok := callee.decl.(*ast.FuncDecl)
	if !ok {
		return nil
	}
	np := 0
	variadic := false
	if fd.Type.Params != nil {
		for _, f := range fd.Type.Params.List {
			k := len(f.Names)
			if k == 0 {
				k = 1
			}
			np += k
			if _, isEll := f.Type.(*ast.Ellipsis); isEll {
				variadic = true
			}
		}
	}
	if variadic && i == np-1 {
		if c.Ellipsis != token.NoPos && len(c.Args) == np {
			return []ast.Expr{c.Args[i]}
		}
		if i < len(c.Args) {
			return nil // individual elements are copied into a new slice
		}
		return nil
	}
	if i < len(c.Args) {
		return []ast.Expr{c.Args[i]}
	}
	return nil
}

func (ev *aliasEval) callResult(c *ast.CallExpr, idx int) aset {
	out := aset{}
	switch builtinName(ev.info, c) {
	case "append":
		if len(c.Args) > 0 {
			for s := range ev.eval(c.Args[0]) {
				if !(strings.HasPrefix(s, "C:") || strings.HasPrefix(s, "Q:")) || len(c.Args) == 1 { // onto a full slice: a new array
					out[s] = true
				}
			}
		}
		return out
	case "":
	default:
		return out
	}
	if tv, ok := ev.info.Types[c.Fun]; ok && tv.IsType() { // conversion
		if len(c.Args) == 1 {
			return ev.eval(c.Args[0])
		}
		return out
	}
	for _, callee := range ev.w.resolve(c) {
		cs := aliasSum[callee]
		if cs == nil || idx >= len(cs.ret) || matchesDead(callee) {
			continue
		}
		for s := range cs.ret[idx] {
			if isFieldSrc(s) {
				out[s] = true
				continue
			}
			i, _ := strconv.Atoi(s[2:])
			capped := strings.HasPrefix(s, "Q:")
			for _, a := range argsFor(c, callee, i) {
				for t := range ev.eval(a) {
					if capped {
						switch {
						case strings.HasPrefix(t, "F:"):
							t = "C:" + t[2:]
						case strings.HasPrefix(t, "P:"):
							t = "Q:" + t[2:]
						}
					}
					out[t] = true
				}
			}
		}
	}
	return out
}

// store: a value that may share the backing stores in val is stored into place (field / variable)
func (ev *aliasEval) store(place string, val aset) {
	for s := range val {
		if isFieldSrc(s) {
			addFieldAlias(place, s)
		} else {
			i, _ := strconv.Atoi(s[2:])
			if ev.sum.stores[i] == nil {
				ev.sum.stores[i] = map[string]bool{}
			}
			if !ev.sum.stores[i][place] {
				ev.sum.stores[i][place] = true
				aliasChanged = true
			}
		}
	}
}

func (ev *aliasEval) writeThrough(val aset) { ev.writeThroughA(val, false) }

func (ev *aliasEval) writeThroughA(val aset, isAppend bool) {
	for s := range val {
		if strings.HasPrefix(s, "P:") || (strings.HasPrefix(s, "Q:") && !isAppend) {
			i, _ := strconv.Atoi(s[2:])
			if !ev.sum.writes[i] {
				ev.sum.writes[i] = true
				aliasChanged = true
			}
		}
	}
}

// elementBase: e is an element place x[i] (possibly nested parens): the container expression x
func elementBase(e ast.Expr) ast.Expr {
	for {
		switch x := e.(type) {
		case *ast.ParenExpr:
			e = x.X
		case *ast.IndexExpr:
			return x.X
		default:
			return nil
		}
	}
}

func (ev *aliasEval) assign(lhs ast.Expr, val aset) {
	if len(val) == 0 {
		return
	}
	switch l := lhs.(type) {
	case *ast.ParenExpr:
		ev.assign(l.X, val)
		return
	case *ast.Ident:
		if v, ok := ev.info.Defs[l].(*types.Var); ok && v != nil {
			ev.bind(v, val)
			return
		}
		if id, ok := containerPlace(ev.info, l); ok {
			ev.store(id, val)
			return
		}
		if v, ok := ev.info.Uses[l].(*types.Var); ok {
			ev.bind(v, val)
		}
	case *ast.SelectorExpr:
		if id, ok := containerPlace(ev.info, l); ok {
			ev.store(id, val)
		}
	}
}

func (ev *aliasEval) bind(v *types.Var, val aset) {
	if !isContainer(v.Type()) {
		return
	}
	if ev.sum.env[v] == nil {
		ev.sum.env[v] = aset{}
	}
	ev.sum.env[v].addAll(val)
}

func (ev *aliasEval) body(n *fnode) {
	fd := n.decl.(*ast.FuncDecl)
	var lits []ast.Node
	inLit := func() bool { return len(lits) > 0 }
	var visit func(x ast.Node) bool
	var stack []ast.Node
	visit = func(x ast.Node) bool {
		if x == nil {
			top := stack[len(stack)-1]
			stack = stack[:len(stack)-1]
			if len(lits) > 0 && lits[len(lits)-1] == top {
				lits = lits[:len(lits)-1]
			}
			return true
		}
		stack = append(stack, x)
		switch s := x.(type) {
		case *ast.FuncLit:
			lits = append(lits, s)
		case *ast.AssignStmt:
			for i, l := range s.Lhs {
				var val aset
				if len(s.Rhs) == len(s.Lhs) {
					val = ev.eval(s.Rhs[i])
				} else if len(s.Rhs) == 1 {
					if c, ok := s.Rhs[0].(*ast.CallExpr); ok {
						val = ev.callResult(c, i)
					}
				}
				ev.assign(l, val)
				if b := elementBase(l); b != nil {
					ev.writeThrough(ev.eval(b))
				}
			}
		case *ast.IncDecStmt:
			if b := elementBase(s.X); b != nil {
				ev.writeThrough(ev.eval(b))
			}
		case *ast.ValueSpec:
			for i, nm := range s.Names {
				if i < len(s.Values) && len(s.Values) == len(s.Names) {
					ev.assign(nm, ev.eval(s.Values[i]))
				}
			}
		case *ast.CompositeLit:
			tv, ok := ev.info.Types[s]
			if !ok {
				break
			}
			nt := namedOf(tv.Type)
			if nt == nil || nt.Obj().Pkg() == nil || !targets[nt.Obj().Pkg().Path()] {
				break
			}
			st, ok := nt.Underlying().(*types.Struct)
			if !ok {
				break
			}
			for i, el := range s.Elts {
				var fname string
				var val ast.Expr
				if kv, ok := el.(*ast.KeyValueExpr); ok {
					if k, ok := kv.Key.(*ast.Ident); ok {
						fname, val = k.Name, kv.Value
					}
				} else if i < st.NumFields() {
					fname, val = st.Field(i).Name(), el
				}
				if fname == "" {
					continue
				}
				for j := 0; j < st.NumFields(); j++ {
					if st.Field(j).Name() == fname && isContainer(st.Field(j).Type()) {
						ev.store(shortPkg(nt.Obj().Pkg().Path())+"."+nt.Obj().Name()+"."+fname, ev.eval(val))
					}
				}
			}
		case *ast.ReturnStmt:
			if inLit() {
				break
			}
			if len(s.Results) == 0 {
				for i, rv := range ev.sum.results {
					if rv != nil && i < len(ev.sum.ret) {
						ev.sum.ret[i].addAll(ev.sum.env[rv])
					}
				}
				break
			}
			if len(s.Results) == 1 && len(ev.sum.ret) > 1 {
				if c, ok := s.Results[0].(*ast.CallExpr); ok {
					for i := range ev.sum.ret {
						ev.sum.ret[i].addAll(ev.callResult(c, i))
					}
				}
				break
			}
			for i, r := range s.Results {
				if i < len(ev.sum.ret) {
					ev.sum.ret[i].addAll(ev.eval(r))
				}
			}
		case *ast.CallExpr:
			switch builtinName(ev.info, s) {
			case "append", "copy", "delete", "clear":
				if len(s.Args) > 0 {
					ev.writeThroughA(ev.eval(s.Args[0]), builtinName(ev.info, s) == "append")
				}
			case "":
				for _, callee := range ev.w.resolve(s) {
					cs := aliasSum[callee]
					if cs == nil || matchesDead(callee) {
						continue
					}
					for i := range cs.writes {
						for _, a := range argsFor(s, callee, i) {
							ev.writeThrough(ev.eval(a))
						}
					}
					for i, places := range cs.stores {
						for _, a := range argsFor(s, callee, i) {
							val := ev.eval(a)
							for p := range places {
								ev.store(p, val)
							}
						}
					}
				}
			}
		}
		return true
	}
	ast.Inspect(fd.Body, visit)
}

// computeAliases: fixpoint over all function declarations of the analysed packages
func computeAliases() {
	var decls []*fnode
	for _, n := range sortedNodes() {
		fd, ok := n.decl.(*ast.FuncDecl)
		if !ok {
			continue
		}
		info := n.pkg.TypesInfo
		sum := &aliasSummary{writes: map[int]bool{}, stores: map[int]map[string]bool{}, params: map[*types.Var]int{}, env: map[*types.Var]aset{}}
		i := 0
		if fd.Type.Params != nil {
			for _, f := range fd.Type.Params.List {
				if len(f.Names) == 0 {
					i++
				}
				for _, nm := range f.Names {
					if v, ok := info.Defs[nm].(*types.Var); ok && v != nil {
						sum.params[v] = i
					}
					i++
				}
			}
		}
		if fd.Type.Results != nil {
			for _, f := range fd.Type.Results.List {
				if len(f.Names) == 0 {
					sum.ret = append(sum.ret, aset{})
					sum.results = append(sum.results, nil)
				}
				for _, nm := range f.Names {
					v, _ := info.Defs[nm].(*types.Var)
					sum.ret = append(sum.ret, aset{})
					sum.results = append(sum.results, v)
				}
			}
		}
		aliasSum[n] = sum
		decls = append(decls, n)
	}
	for round := 0; round < 30; round++ {
		aliasChanged = false
		for _, n := range decls {
			newAliasEval(n).body(n)
		}
		if !aliasChanged {
			break
		}
	}
}

// aliasReport: what the analysis found (facts.json, for triage)
func aliasReport() map[string]any {
	rets := map[string][]string{}
	writes := map[string][]int{}
	for n, s := range aliasSum {
		var r []string
		for i, a := range s.ret {
			for x := range a {
				if isFieldSrc(x) {
					r = append(r, strconv.Itoa(i)+":"+x)
				}
			}
		}
		if len(r) > 0 {
			sort.Strings(r)
			rets[n.id] = r
		}
		for i := range s.writes {
			writes[n.id] = append(writes[n.id], i)
		}
		sort.Ints(writes[n.id])
	}
	fa := map[string][]string{}
	for f, m := range fieldAlias {
		fa[f] = keys(m)
	}
	return map[string]any{"results_sharing_a_field": rets, "parameters_written_through": writes, "fields_holding_another_fields_store": fa}
}

// ---------------------------------------------------------------- fact emission (walker)

// fieldSources: the fields whose backing store e may share; direct = the field e itself names
func (w *walker) fieldSources(e ast.Expr) (srcs []string, direct string) {
	ev := newAliasEval(w.n)
	ev.info = w.info
	if id, ok := containerPlace(w.info, e); ok {
		direct = id
	}
	for s := range ev.eval(e) {
		if isFieldSrc(s) {
			srcs = append(srcs, s)
		}
	}
	sort.Strings(srcs)
	return srcs, direct
}

func sameExpr(a, b ast.Expr) bool {
	switch x := a.(type) {
	case *ast.Ident:
		y, ok := b.(*ast.Ident)
		return ok && x.Name == y.Name
	case *ast.BasicLit:
		y, ok := b.(*ast.BasicLit)
		return ok && x.Value == y.Value
	case *ast.ParenExpr:
		return sameExpr(x.X, b)
	case *ast.SelectorExpr:
		y, ok := b.(*ast.SelectorExpr)
		return ok && x.Sel.Name == y.Sel.Name && sameExpr(x.X, y.X)
	case *ast.CallExpr: // len(x)
		y, ok := b.(*ast.CallExpr)
		if !ok || len(x.Args) != len(y.Args) || !sameExpr(x.Fun, y.Fun) {
			return false
		}
		for i := range x.Args {
			if !sameExpr(x.Args[i], y.Args[i]) {
				return false
			}
		}
		return true
	case *ast.BinaryExpr:
		y, ok := b.(*ast.BinaryExpr)
		return ok && x.Op == y.Op && sameExpr(x.X, y.X) && sameExpr(x.Y, y.Y)
	}
	return false
}

func (w *walker) aliasAccess(field string, write bool, at token.Pos, what string, unlocked bool) {
	pos := fset.Position(at)
	a := &Access{Field: field, Write: write, Func: w.n.id + " (" + what + ")", File: pos.Filename, Line: pos.Line, pos: at}
	w.n.accesses = append(w.n.accesses, a)
	if unlocked {
		w.n.locksAt[a] = nil
		w.n.escaped = append(w.n.escaped, a)
	} else {
		w.n.locksAt[a] = w.heldList()
	}
	w.n.offRecv = true
}

// writeThroughExpr: an element store / append through e
func (w *walker) writeThroughExpr(e ast.Expr, at token.Pos, includeDirect bool) {
	w.writeThrough2(e, at, includeDirect, false)
}

func (w *walker) writeThrough2(e ast.Expr, at token.Pos, includeDirect, isAppend bool) {
	srcs, direct := w.fieldSources(e)
	done := map[string]bool{}
	for _, t := range srcs {
		f := t[2:]
		if (f == direct && !includeDirect) || done[f] {
			continue // the store on the field itself has its own fact
		}
		if isAppend && strings.HasPrefix(t, "C:") {
			continue // capacity capped at the length: the append reallocates
		}
		done[f] = true
		w.aliasAccess(f, true, at, "element write through a reference to the field", false)
	}
}

// aliasCall: facts for a call expression (builtins that write their first argument; callees that
// write through a parameter)
func (w *walker) aliasCall(c *ast.CallExpr) {
	switch builtinName(w.info, c) {
	case "append", "copy", "delete", "clear":
		if len(c.Args) > 0 {
			w.writeThrough2(c.Args[0], c.Pos(), false, builtinName(w.info, c) == "append")
		}
		return
	case "":
	default:
		return
	}
	for _, callee := range w.resolve(c) {
		cs := aliasSum[callee]
		if cs == nil || matchesDead(callee) {
			continue
		}
		for i := range cs.writes {
			for _, a := range argsFor(c, callee, i) {
				w.writeThroughExpr(a, c.Pos(), true)
			}
		}
	}
}
