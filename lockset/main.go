// lockset: the C18 fact translator. It reads the CURRENT source of the
// configured Go packages under $VERIF_REPO (go/ast + go/types through
// x/tools/go/packages, offline) and emits, as a Coq file, every access to a
// field of a shared struct type together with
//   - whether it is a read or a write (or goes through sync/atomic),
//   - the set of mutexes that are MUST-held at that point (syntactic lock
//     scopes inside the function, plus the locks held at every call site of
//     the function: an interprocedural must-lockset fixpoint),
//   - the goroutine role(s) that can execute it (transaction path, admin
//     handler, metrics observer, each `go` statement = one background role;
//     functions only reachable from constructors/initialisers are "init").
//
// The Coq side (theories/C18) computes the unprotected conflicting pairs from
// these facts and proves that everything else is race free in every interleaving.
//
// Limits (stated in DESIGN.md §5 C18): locks and fields are identified by
// (struct type, field name), not by instance; lock scopes are tracked in
// source order (a lock released in one branch is considered released after
// it); a function literal not started with `go` inherits the lock set and
// role of the place where it is written; calls through interfaces are
// resolved to every implementing method inside the analysed packages; calls
// through stored function values are not followed.
package main

import (
	"encoding/json"
	"flag"
	"fmt"
	"go/ast"
	"go/token"
	"go/types"
	"os"
	"path/filepath"
	"regexp"
	"sort"
	"strings"

	"golang.org/x/tools/go/packages"
)

type Config struct {
	ModuleDir          string            `json:"module_dir"`    // relative to the repo root
	Packages           []string          `json:"packages"`      // analysed packages (import paths)
	Entry              map[string]string `json:"entry"`         // "pkg.Func" or "pkg.(T).Method" glob -> role
	MultiRoles         []string          `json:"multi_roles"`   // roles that may run in several goroutines at once
	IgnoreTypes        []string          `json:"ignore_types"`  // struct types that are never shared (per-transaction values)
	IgnoreFields       []string          `json:"ignore_fields"` // fields written once before publication etc. (with reason in the config)
	Reasons            map[string]string `json:"reasons"`
	LockAliases        map[string]string `json:"lock_aliases"`          // lock id -> canonical lock id
	SingleWriter       map[string]string `json:"single_writer_fields"`  // field -> the only function allowed to write it (see reasons)
	Extra              []string          `json:"extra_packages"`        // analysed for the atomic-step report only (no facts emitted)
	GetOrCreateClaimed []string          `json:"get_or_create_claimed"` // "func:field" keys that the get-or-create discovery must find (getorcreate.go)
	AtomicSteps        map[string]string `json:"atomic_steps"`          // function id -> lock id: bodies the models treat as ONE atomic step
	Anchored           []string          `json:"anchored_files"`
	// functions with NO production caller anywhere in the module (checked by reading, reason in the
	// config): their accesses are dropped. Every OTHER function that no entry point reaches gets
	// DefaultRole (a function value / a package outside the list may call it from a transaction).
	DeadFuncs   map[string]string `json:"dead_functions"` // glob -> reason
	DefaultRole string            `json:"default_role"`
	// bg: roles that are NOT multi although the rule below says so (glob -> reason); normally empty
	SingleBg map[string]string `json:"single_bg_roles"`
	// owner types of per-generation engine state (see theories/C18/Publication.v): fields of these
	// types are reached only through the published engine pointer
	OwnedTypes map[string]string `json:"owned_types"` // "pkg.Type" glob -> reason
	// functions that PUBLISH their argument (the engine pointer): after such a call the caller
	// must not run load-role code on the published object any more (Publication.v, pp_load)
	PublicationCalls []string `json:"publication_calls"`
	// roles that reach the per-engine objects only through the published pointer
	ConsumerRoles []string `json:"consumer_roles"`
	// fields confined to ONE object instance that is served by ONE goroutine (glob of the bg role
	// -> reason is in reasons): type-level identity merges the instances
	InstanceConfined map[string]string `json:"instance_confined_fields"` // field -> bg role that owns it
	// library types whose methods mutate the receiver without synchronisation (*rand.Rand,
	// bytes.Buffer ...): a method call on a field / package-level variable of such a type is a WRITE
	NonThreadSafe []string `json:"non_thread_safe_types"` // "import/path.Type"
	// fields written only while the engine is being built (role load) and read by background
	// goroutines that the loader itself starts afterwards (field -> reason); see spawnedByLoaderProblem
	SpawnedByLoader map[string]string `json:"spawned_by_loader_fields"`
}

type Access struct {
	Field  string   `json:"field"`
	Write  bool     `json:"write"`
	Atomic bool     `json:"atomic"`
	Locks  []string `json:"locks"`
	Func   string   `json:"func"`
	File   string   `json:"file"`
	Line   int      `json:"line"`
	Roles  []string `json:"roles"`
	Recv   bool     `json:"via_receiver,omitempty"` // the access goes through the method's own receiver
	pos    token.Pos
	node   *fnode
	// get-or-create analysis (getorcreate.go): the access reaches the ELEMENTS of a map field
	// (x.f[k], len(x.f), range x.f); it is the target of `x.f[k] = v`; which critical section of
	// every lock (acquisition count of the lock in this body, in source order) it is written in
	mapElem  bool
	mapStore bool
	epochs   map[string]int
}

type fnode struct {
	id           string
	decl         ast.Node // *ast.FuncDecl or *ast.FuncLit
	pkg          *packages.Package
	body         *ast.BlockStmt
	parent       *fnode // for function literals: the enclosing function
	goStart      bool   // literal / function started by a `go` statement
	accesses     []*Access
	calls        []callSite
	locksAt      map[*Access][]string // local locks (before adding entry locks)
	entry        map[string]bool      // must-held on entry (nil = top / not yet known)
	isEntry      bool
	roles        map[string]bool
	exclusive    bool
	escaped      []*Access
	acquires     []string             // lock acquisitions written in this body (in source order)
	inherit      []string             // for non-go literals: local locks held where the literal is written
	loop0        int                  // for literals: loop depth of the place where the literal is written
	ownedRecv    bool                 // method only ever called on objects under construction (owned.go)
	byIface      bool                 // some call reaches it through an interface
	tableEntry   bool                 // role given by the entry table
	own          *ownInfo             // ownership of fresh local objects (owned.go)
	offRecv      bool                 // some access does not go through the method's receiver
	recvConfined bool                 // every access, also of callees, goes through the receiver
	ownedDropped int                  // accesses dropped because the object was still owned
	dead         bool                 // matches dead_functions: no production caller, accesses dropped
	defaulted    bool                 // no entry point reaches it: got the default role
	pkgVars      []string             // package-level variables the body mentions (pseudo-fields "pkg.(var).name")
	onceLit      bool                 // function literal handed to (*sync.Once).Do
	onceDo       []token.Pos          // positions of once.Do(...) calls written in this body
	recvFresh    map[string]token.Pos // receiver field (id) -> position of `recv.f = <fresh object>` (owned.go)
}

type callSite struct {
	callee        *fnode
	locks         []string
	isGo          bool
	inLoop        bool         // the call is written inside a for / range body of its function
	goFresh       bool         // `go v.m()` where v is a fresh object the spawner owned up to this statement
	pos           token.Pos    // position of the call
	recvVar       *types.Var   // x of x.m(...) when x is a plain variable
	argVars       []*types.Var // arguments that are plain variables
	owned         bool         // method call on an object the caller still owns (owned.go)
	viaFreshField string       // method call on recv.f where f was given a fresh object earlier in this body (field id)
	onRecv        bool         // method call on (a struct value inside) the caller's own receiver
}

var (
	cfg     Config
	fset    *token.FileSet
	nodes   = map[string]*fnode{}
	byObj   = map[types.Object]*fnode{}
	byLit   = map[*ast.FuncLit]*fnode{}
	targets = map[string]bool{}
	primary = map[string]bool{}
	methods []*types.Func // all concrete methods of analysed packages

	atomicReport = map[string]string{}
	txctxReaders = map[string]bool{} // non-test functions reading the per-flow transactional context
)

func main() {
	repo := flag.String("repo", os.Getenv("VERIF_REPO"), "repository root")
	cfgPath := flag.String("config", "lockset/config.json", "configuration")
	outV := flag.String("coq", "theories/C18/Accesses.v", "Coq output")
	outJ := flag.String("json", "build/run/C18/facts.json", "JSON output")
	flag.Parse()
	if *repo == "" {
		*repo = "/repo"
	}
	raw, err := os.ReadFile(*cfgPath)
	must(err)
	must(json.Unmarshal(raw, &cfg))
	for _, p := range cfg.Packages {
		targets[p] = true
		primary[shortPkg(p)] = true
	}
	for _, p := range cfg.Extra {
		targets[p] = true
	}
	fset = token.NewFileSet()
	pcfg := &packages.Config{
		Mode: packages.NeedName | packages.NeedFiles | packages.NeedSyntax | packages.NeedTypes |
			packages.NeedTypesInfo | packages.NeedImports | packages.NeedDeps,
		Dir:  filepath.Join(*repo, cfg.ModuleDir),
		Fset: fset,
		Env:  append(os.Environ(), "GOFLAGS=-mod=mod", "GOPROXY=off", "GOSUMDB=off", "GOTOOLCHAIN=local"),
	}
	pkgs, err := packages.Load(pcfg, append(append([]string{}, cfg.Packages...), cfg.Extra...)...)
	must(err)
	nerr := 0
	for _, p := range pkgs {
		for _, e := range p.Errors {
			fmt.Fprintln(os.Stderr, "load error:", e)
			nerr++
		}
	}
	if nerr > 0 {
		os.Exit(2)
	}
	sort.Slice(pkgs, func(i, j int) bool { return pkgs[i].PkgPath < pkgs[j].PkgPath })

	checkOwnedGlobals(pkgs)
	// pass 1: function nodes
	for _, p := range pkgs {
		for _, f := range p.Syntax {
			fn := fset.Position(f.Pos()).Filename
			if strings.HasSuffix(fn, "_test.go") || strings.HasPrefix(filepath.Base(fn), "verif_") {
				continue
			}
			for _, d := range f.Decls {
				fd, ok := d.(*ast.FuncDecl)
				if !ok || fd.Body == nil {
					continue
				}
				obj := p.TypesInfo.Defs[fd.Name]
				n := &fnode{id: funcID(obj.(*types.Func)), decl: fd, pkg: p, body: fd.Body}
				nodes[n.id] = n
				byObj[obj] = n
				if fd.Recv != nil {
					methods = append(methods, obj.(*types.Func))
				}
			}
		}
	}
	// pass 1b: which functions return an object they have just allocated (owned.go);
	// two rounds so that a constructor built on another constructor is recognised
	computeLeaks()
	computeReturnsRecv()
	fresh := map[*fnode]bool{}
	freshFns = fresh
	freshCall = func(info *types.Info, c *ast.CallExpr) bool {
		var obj types.Object
		switch f := c.Fun.(type) {
		case *ast.Ident:
			obj = info.Uses[f]
		case *ast.SelectorExpr:
			if _, isSel := info.Selections[f]; !isSel {
				obj = info.Uses[f.Sel]
			}
		case *ast.IndexExpr:
			switch fx := f.X.(type) {
			case *ast.Ident:
				obj = info.Uses[fx]
			case *ast.SelectorExpr:
				obj = info.Uses[fx.Sel]
			}
		}
		if fn, ok := obj.(*types.Func); ok {
			if o := fn.Origin(); o != nil {
				fn = o
			}
			return fresh[byObj[fn]] && byObj[fn] != nil
		}
		return false
	}
	for round := 0; round < 2; round++ {
		for _, n := range sortedNodes() {
			if _, ok := n.decl.(*ast.FuncDecl); ok {
				n.own = computeOwnership(n)
				if returnsFresh(n) {
					fresh[n] = true
				}
			}
		}
	}
	// pass 1c: which results / fields share the backing store of which container field (alias.go)
	computeAliases()
	// pass 2: bodies
	for _, n := range sortedNodes() {
		if _, ok := n.decl.(*ast.FuncDecl); ok {
			analyse(n)
		}
	}
	// roles from the entry table
	for _, n := range sortedNodes() {
		for pat, role := range cfg.Entry {
			if ok, _ := filepath.Match(pat, n.id); ok {
				n.isEntry = true
				n.tableEntry = true
				if strings.HasPrefix(role, "!") {
					n.exclusive = true
					role = role[1:]
				}
				addRole(n, role)
			}
		}
	}
	// package initialisers run before main
	for _, n := range sortedNodes() {
		if fd, ok := n.decl.(*ast.FuncDecl); ok && fd.Recv == nil && fd.Name.Name == "init" {
			n.isEntry = true
			addRole(n, "init")
		}
	}
	// `go` statements create background roles
	for _, n := range sortedNodes() {
		for _, c := range n.calls {
			if c.isGo && c.callee != nil {
				c.callee.isEntry = true
				c.callee.goStart = true
				addRole(c.callee, "bg:"+c.callee.id)
			}
		}
	}
	markDead()
	propagateRoles()
	assignDefaultRoles()
	computeMultiRoles()
	propagateLocks()
	computeOwnedReceiver()

	// collect
	var all []Access
	for _, n := range sortedNodes() {
		roles := keys(n.roles)
		if n.dead {
			continue // no production caller (dead_functions, reason in the config)
		}
		if len(roles) == 0 {
			roles = []string{"unreached"} // cannot happen after assignDefaultRoles; kept as a tripwire
		}
		for _, a := range n.accesses {
			if a.Recv && n.ownedRecv {
				n.ownedDropped++
				continue // the receiver is an object under construction (owned.go)
			}
			l := map[string]bool{}
			for _, x := range n.locksAt[a] {
				l[canon(x)] = true
			}
			isEsc := false
			for _, e := range n.escaped {
				isEsc = isEsc || e == a
			}
			for x := range n.entry {
				if !isEsc {
					l[canon(x)] = true
				}
			}
			b := *a
			b.Locks = keys(l)
			b.Roles = roles
			all = append(all, b)
		}
	}
	scanTxctxReaders(filepath.Join(*repo, cfg.ModuleDir))
	atomicReport = checkAtomicSteps(all)
	gocReport, gocSites = checkGetOrCreate(all)
	writeOutputs(all, *outV, *outJ, *repo)
}

// checkAtomicSteps: the Coq models of C01/C02/C09/C12 treat the listed function
// bodies as ONE atomic step. That is justified iff the body is a single critical
// section of the named lock: the lock is acquired exactly once in the body (and
// never in shared mode), every access to a field that is written somewhere under
// that lock and every call into the analysed packages happens while it is held,
// and no callee acquires the same lock again (a second critical section: a
// check-then-act split).
func checkAtomicSteps(all []Access) map[string]string {
	guarded := map[string]bool{} // fields written under some exclusive lock
	lockOf := map[string]map[string]bool{}
	for _, a := range all {
		if a.Write {
			for _, l := range a.Locks {
				if !strings.HasSuffix(l, "#R") {
					if lockOf[a.Field] == nil {
						lockOf[a.Field] = map[string]bool{}
					}
					lockOf[a.Field][l] = true
					guarded[a.Field] = true
				}
			}
		}
	}
	out := map[string]string{}
	for fn, lock := range cfg.AtomicSteps {
		n := nodes[fn]
		if n == nil {
			out[fn] = "function not found"
			continue
		}
		cnt := 0
		problem := ""
		for _, l := range n.acquires {
			if l == lock {
				cnt++
			}
			if l == lock+"#R" {
				problem = "takes the lock in shared mode"
			}
		}
		if cnt != 1 && problem == "" {
			problem = fmt.Sprintf("acquires %s %d times (one critical section expected)", lock, cnt)
		}
		has := func(ls []string) bool {
			for _, l := range ls {
				if l == lock {
					return true
				}
			}
			return false
		}
		for _, a := range n.accesses {
			if problem == "" && lockOf[a.Field][lock] && !has(n.locksAt[a]) {
				problem = fmt.Sprintf("accesses %s outside the critical section (line %d)", a.Field, a.Line)
			}
		}
		for _, c := range n.calls {
			if c.callee == nil || problem != "" {
				continue
			}
			for _, l := range c.callee.acquires {
				if strings.TrimSuffix(l, "#R") == lock {
					problem = "calls " + c.callee.id + " which takes the same lock again (second critical section)"
				}
			}
			if problem == "" && !has(c.locks) && c.callee.parent == nil {
				for _, a := range c.callee.accesses {
					if lockOf[a.Field][lock] {
						problem = "calls " + c.callee.id + " (touching " + a.Field + ") outside the critical section"
						break
					}
				}
			}
		}
		out[fn] = problem
	}
	return out
}

// scanTxctxReaders lists every non-test source file of the engine module
// (outside the lunar-context package itself and the test-processors directory)
// that calls GetTransactionalContext: the per-flow transactional context is
// shared by all transactions of a flow, so any production reader would observe
// another transaction's (or a cleared) context.
func scanTxctxReaders(root string) {
	filepath.Walk(root, func(p string, info os.FileInfo, err error) error {
		if err != nil || info.IsDir() || !strings.HasSuffix(p, ".go") || strings.HasSuffix(p, "_test.go") {
			return nil
		}
		rel, _ := filepath.Rel(root, p)
		if strings.Contains(rel, "lunar-context/") || strings.Contains(rel, "test-processors/") ||
			strings.HasPrefix(filepath.Base(rel), "verif_") || strings.Contains(rel, "public-types/") {
			return nil
		}
		b, err := os.ReadFile(p)
		if err == nil && strings.Contains(string(b), "GetTransactionalContext()") {
			txctxReaders[rel] = true
		}
		return nil
	})
}

func must(err error) {
	if err != nil {
		fmt.Fprintln(os.Stderr, "lockset:", err)
		os.Exit(2)
	}
}

func canon(l string) string {
	suffix := ""
	if strings.HasSuffix(l, "#R") {
		l, suffix = strings.TrimSuffix(l, "#R"), "#R"
	}
	if c, ok := cfg.LockAliases[l]; ok {
		return c + suffix
	}
	return l + suffix
}

func keys(m map[string]bool) []string {
	out := make([]string, 0, len(m))
	for k := range m {
		out = append(out, k)
	}
	sort.Strings(out)
	return out
}

func sortedNodes() []*fnode {
	out := make([]*fnode, 0, len(nodes))
	for _, n := range nodes {
		out = append(out, n)
	}
	sort.Slice(out, func(i, j int) bool { return out[i].id < out[j].id })
	return out
}

func addRole(n *fnode, r string) {
	if n.roles == nil {
		n.roles = map[string]bool{}
	}
	n.roles[r] = true
}

func shortPkg(path string) string {
	path = strings.TrimPrefix(path, "lunar/engine/")
	path = strings.TrimPrefix(path, "lunar/")
	return path
}

func funcID(f *types.Func) string {
	sig := f.Type().(*types.Signature)
	pk := ""
	if f.Pkg() != nil {
		pk = shortPkg(f.Pkg().Path())
	}
	if r := sig.Recv(); r != nil {
		return pk + ".(" + typeName(r.Type()) + ")." + f.Name()
	}
	return pk + "." + f.Name()
}

func typeName(t types.Type) string {
	for {
		if p, ok := t.(*types.Pointer); ok {
			t = p.Elem()
			continue
		}
		break
	}
	if n, ok := t.(*types.Named); ok {
		return n.Obj().Name()
	}
	return t.String()
}

func namedOf(t types.Type) *types.Named {
	for {
		switch x := t.(type) {
		case *types.Pointer:
			t = x.Elem()
			continue
		case *types.Named:
			return x
		}
		return nil
	}
}

func isSyncType(t types.Type) bool {
	n := namedOf(t)
	if n == nil || n.Obj().Pkg() == nil {
		_, isChan := t.Underlying().(*types.Chan)
		return isChan
	}
	p := n.Obj().Pkg().Path()
	return p == "sync" || p == "sync/atomic"
}

func isMutex(t types.Type) bool {
	n := namedOf(t)
	if n == nil || n.Obj().Pkg() == nil || n.Obj().Pkg().Path() != "sync" {
		return false
	}
	return n.Obj().Name() == "Mutex" || n.Obj().Name() == "RWMutex"
}

// fieldID returns "pkg.Type.field" when sel selects a field of a named struct
// type declared in one of the analysed packages.
func fieldID(info *types.Info, sel *ast.SelectorExpr) (string, *types.Var, bool) {
	s, ok := info.Selections[sel]
	if !ok || s.Kind() != types.FieldVal {
		return "", nil, false
	}
	v := s.Obj().(*types.Var)
	// the struct that declares the field (handles embedding)
	recv := s.Recv()
	owner := namedOf(recv)
	if len(s.Index()) > 1 {
		// promoted through embedding: walk to the declaring struct
		t := recv
		for _, i := range s.Index()[:len(s.Index())-1] {
			st, ok := deref(t).Underlying().(*types.Struct)
			if !ok {
				break
			}
			t = st.Field(i).Type()
		}
		owner = namedOf(t)
	}
	if owner == nil || owner.Obj().Pkg() == nil {
		return "", nil, false
	}
	if !targets[owner.Obj().Pkg().Path()] {
		return "", nil, false
	}
	return shortPkg(owner.Obj().Pkg().Path()) + "." + owner.Obj().Name() + "." + v.Name(), v, true
}

// Package-level variables of the analysed packages are the fields of one pseudo-object per
// package: "pkg.(var).name". A use is a read; an assignment, an element store, `&v`, v++ or a
// method call on a variable of a non-thread-safe library type is a write.
const pkgVarType = "(var)"

func pkgVarOf(info *types.Info, e ast.Expr) (string, *types.Var, bool) {
	var obj types.Object
	switch x := e.(type) {
	case *ast.Ident:
		obj = info.Uses[x]
	case *ast.SelectorExpr: // pkg.Var
		if id, ok := x.X.(*ast.Ident); ok {
			if _, isPkg := info.Uses[id].(*types.PkgName); isPkg {
				obj = info.Uses[x.Sel]
			}
		}
	}
	v, ok := obj.(*types.Var)
	if !ok || v.Pkg() == nil || v.IsField() || v.Parent() != v.Pkg().Scope() || !targets[v.Pkg().Path()] {
		return "", nil, false
	}
	return shortPkg(v.Pkg().Path()) + "." + pkgVarType + "." + v.Name(), v, true
}

// rootPlace: the package-level variable (as the expression that names it) whose own memory an
// assignment to e modifies: v, v[k], v[i:j], v.f.g with struct VALUES on the way; nil otherwise.
func rootPlace(info *types.Info, e ast.Expr) ast.Expr {
	for {
		if _, _, ok := pkgVarOf(info, e); ok {
			return e
		}
		switch x := e.(type) {
		case *ast.ParenExpr:
			e = x.X
		case *ast.IndexExpr:
			e = x.X
		case *ast.SliceExpr:
			e = x.X
		case *ast.SelectorExpr:
			tv, ok := info.Types[x.X]
			if !ok || !isStructValue(tv.Type) {
				return nil
			}
			e = x.X
		default:
			return nil
		}
	}
}

func isNonThreadSafe(t types.Type) bool {
	n := namedOf(t)
	if n == nil || n.Obj().Pkg() == nil {
		return false
	}
	id := n.Obj().Pkg().Path() + "." + n.Obj().Name()
	for _, x := range cfg.NonThreadSafe {
		if x == id {
			return true
		}
	}
	return false
}

func analysedStruct(t types.Type) bool {
	n, ok := t.(*types.Named)
	if !ok || n.Obj().Pkg() == nil || !targets[n.Obj().Pkg().Path()] {
		return false
	}
	_, isStruct := n.Underlying().(*types.Struct)
	return isStruct
}

func deref(t types.Type) types.Type {
	if p, ok := t.(*types.Pointer); ok {
		return p.Elem()
	}
	return t
}

// lockID names the mutex denoted by expression e (x.mu, mu, x (embedded)).
func lockID(info *types.Info, e ast.Expr) string {
	switch x := e.(type) {
	case *ast.ParenExpr:
		return lockID(info, x.X)
	case *ast.StarExpr:
		return lockID(info, x.X)
	case *ast.SelectorExpr:
		if id, _, ok := fieldID(info, x); ok {
			return id
		}
		if s, ok := info.Selections[x]; ok && s.Kind() == types.FieldVal {
			return typeName(s.Recv()) + "." + x.Sel.Name
		}
		return "expr." + x.Sel.Name
	case *ast.Ident:
		if o := info.Uses[x]; o != nil {
			if v, ok := o.(*types.Var); ok {
				if !isMutex(v.Type()) { // embedded mutex: receiver itself
					return shortPkgOf(v.Type()) + typeName(v.Type()) + ".(embedded)"
				}
				if v.Pkg() != nil && v.Parent() == v.Pkg().Scope() {
					return shortPkg(v.Pkg().Path()) + "." + v.Name()
				}
				return "local." + v.Name()
			}
		}
		return "ident." + x.Name
	}
	return "?"
}

func shortPkgOf(t types.Type) string {
	if n := namedOf(t); n != nil && n.Obj().Pkg() != nil {
		return shortPkg(n.Obj().Pkg().Path()) + "."
	}
	return ""
}

type walker struct {
	n      *fnode
	info   *types.Info
	loop   int               // depth of enclosing for / range statements
	curGo  token.Pos         // position of the go statement being walked (0 = none)
	noCopy map[ast.Expr]bool // expressions used as a place (base of a selector, &x, assignment target), not copied
	elem   map[ast.Expr]bool // x.f used to reach the ELEMENTS of a map / slice (x.f[k], range x.f, len(x.f), delete(x.f, k))
	held   map[string]int    // lock id -> depth (defer keeps it forever)
	epoch  map[string]int    // lock id (without #R) -> number of acquisitions written so far in this body
	mstore map[ast.Expr]bool // x.f of an assignment `x.f[k] = v` on a map field
	write  map[ast.Expr]bool
	atom   map[ast.Expr]bool
}

func analyse(n *fnode) {
	w := &walker{n: n, info: n.pkg.TypesInfo, loop: n.loop0, held: map[string]int{}, epoch: map[string]int{}, mstore: map[ast.Expr]bool{}, write: map[ast.Expr]bool{}, atom: map[ast.Expr]bool{}, noCopy: map[ast.Expr]bool{}, elem: map[ast.Expr]bool{}}
	n.locksAt = map[*Access][]string{}
	n.own = computeOwnership(n)
	n.recvFresh = receiverFreshFields(n)
	w.block(n.body)
}

func (w *walker) heldList() []string {
	var out []string
	for k, v := range w.held {
		if v > 0 {
			out = append(out, k)
		}
	}
	sort.Strings(out)
	return out
}

// baseField strips index/star/paren/slice and returns the selector that is
// actually written by an assignment to e.
func baseSel(e ast.Expr) *ast.SelectorExpr {
	for {
		switch x := e.(type) {
		case *ast.ParenExpr:
			e = x.X
		case *ast.IndexExpr:
			e = x.X
		case *ast.SliceExpr:
			e = x.X
		case *ast.StarExpr:
			e = x.X
		case *ast.SelectorExpr:
			return x
		default:
			return nil
		}
	}
}

func (w *walker) block(b *ast.BlockStmt) {
	if b == nil {
		return
	}
	for _, s := range b.List {
		w.stmt(s)
	}
}

func (w *walker) stmt(s ast.Stmt) {
	switch x := s.(type) {
	case nil:
	case *ast.BlockStmt:
		w.block(x)
	case *ast.ExprStmt:
		w.expr(x.X)
	case *ast.AssignStmt:
		for _, l := range x.Lhs {
			if sel := baseSel(l); sel != nil {
				w.markWrite(sel)
			}
			if ix, ok := ast.Unparen(l).(*ast.IndexExpr); ok {
				w.mstore[ast.Unparen(ix.X)] = true // x.f[k] = v, pkgVar[k] = v (getorcreate.go)
			}
			if rp := rootPlace(w.info, l); rp != nil {
				w.write[rp] = true
			}
			if b := elementBase(l); b != nil {
				w.writeThroughExpr(b, l.Pos(), false) // x[i] = v with x sharing a field's backing store (alias.go)
			}
		}
		for _, r := range x.Rhs {
			w.expr(r)
		}
		for _, l := range x.Lhs {
			w.noCopy[l] = true
			w.expr(l)
			w.structCopy(l, true)
		}
	case *ast.IncDecStmt:
		if sel := baseSel(x.X); sel != nil {
			w.markWrite(sel)
		}
		if rp := rootPlace(w.info, x.X); rp != nil {
			w.write[rp] = true
		}
		if b := elementBase(x.X); b != nil {
			w.writeThroughExpr(b, x.Pos(), false)
		}
		w.expr(x.X)
	case *ast.DeferStmt:
		w.call(x.Call, true, false)
	case *ast.GoStmt:
		w.curGo = x.Pos()
		w.call(x.Call, false, true)
		w.curGo = 0
	case *ast.ReturnStmt:
		for _, r := range x.Results {
			w.expr(r)
			w.escape(r)
		}
	case *ast.IfStmt:
		// lock state after the statement = what holds on every path that reaches
		// the continuation: a branch that ends in return / panic / break /
		// continue / goto does not reach it (`if full { mu.Unlock(); return }`
		// leaves mu held afterwards); of two branches that both reach it the
		// smaller hold count of each lock is kept.
		w.stmt(x.Init)
		w.expr(x.Cond)
		before := copyHeld(w.held)
		w.block(x.Body)
		afterBody, bodyEnds := copyHeld(w.held), blockEnds(x.Body)
		w.held = copyHeld(before)
		w.stmt(x.Else)
		afterElse, elseEnds := copyHeld(w.held), x.Else != nil && stmtEnds(x.Else)
		switch {
		case bodyEnds && elseEnds:
			w.held = before
		case bodyEnds:
			w.held = afterElse
		case elseEnds:
			w.held = afterBody
		default:
			w.held = minHeld(afterBody, afterElse)
		}
		if id := w.ifTryLock(x); id != "" {
			w.held[id]++
		}
	case *ast.ForStmt:
		w.stmt(x.Init)
		w.expr(x.Cond)
		w.loop++
		w.stmt(x.Post)
		w.block(x.Body)
		w.loop--
	case *ast.RangeStmt:
		w.noCopy[x.X] = true // the container is not copied ...
		w.markElem(x.X)
		w.expr(x.X)
		if id, ok := x.Value.(*ast.Ident); ok && id.Name != "_" { // ... its elements are
			if tv, ok := w.info.Types[x.X]; ok {
				var elem types.Type
				switch t := tv.Type.Underlying().(type) {
				case *types.Slice:
					elem = t.Elem()
				case *types.Array:
					elem = t.Elem()
				case *types.Map:
					elem = t.Elem()
				case *types.Pointer:
					if a, ok := t.Elem().Underlying().(*types.Array); ok {
						elem = a.Elem()
					}
				}
				if elem != nil && !w.ownedPlace(x.X) {
					w.copyFields(elem, false, x.X.Pos(), 0)
				}
			}
		}
		w.loop++
		w.block(x.Body)
		w.loop--
	case *ast.SwitchStmt:
		w.stmt(x.Init)
		w.expr(x.Tag)
		w.block(x.Body)
	case *ast.TypeSwitchStmt:
		w.stmt(x.Init)
		w.stmt(x.Assign)
		w.block(x.Body)
	case *ast.CaseClause:
		for _, e := range x.List {
			w.expr(e)
		}
		for _, st := range x.Body {
			w.stmt(st)
		}
	case *ast.SelectStmt:
		w.block(x.Body)
	case *ast.CommClause:
		w.stmt(x.Comm)
		for _, st := range x.Body {
			w.stmt(st)
		}
	case *ast.SendStmt:
		w.expr(x.Chan)
		w.expr(x.Value)
	case *ast.LabeledStmt:
		w.stmt(x.Stmt)
	case *ast.DeclStmt:
		if gd, ok := x.Decl.(*ast.GenDecl); ok {
			for _, sp := range gd.Specs {
				if vs, ok := sp.(*ast.ValueSpec); ok {
					for _, v := range vs.Values {
						w.expr(v)
					}
				}
			}
		}
	}
}

func copyHeld(h map[string]int) map[string]int {
	out := map[string]int{}
	for k, v := range h {
		out[k] = v
	}
	return out
}

func minHeld(a, b map[string]int) map[string]int {
	out := map[string]int{}
	for k, v := range a {
		if bv := b[k]; bv < v {
			v = bv
		}
		out[k] = v
	}
	return out
}

// blockEnds: control never falls out of the end of the block
func blockEnds(b *ast.BlockStmt) bool {
	if b == nil || len(b.List) == 0 {
		return false
	}
	return stmtEnds(b.List[len(b.List)-1])
}

func stmtEnds(s ast.Stmt) bool {
	switch x := s.(type) {
	case *ast.ReturnStmt, *ast.BranchStmt:
		return true
	case *ast.BlockStmt:
		return blockEnds(x)
	case *ast.IfStmt:
		return x.Else != nil && blockEnds(x.Body) && stmtEnds(x.Else)
	case *ast.ExprStmt:
		if c, ok := x.X.(*ast.CallExpr); ok {
			if id, ok := c.Fun.(*ast.Ident); ok && id.Name == "panic" {
				return true
			}
		}
	}
	return false
}

// escape: `return x.f` of a map / slice typed field - or of anything that may share such a
// field's backing store: x.f[a:b], a local variable / parameter / call result that does (alias.go)
// - hands the caller a reference it will use AFTER this function and outside its critical
// sections; recorded as an additional read of the field with no lock held ("reference escapes").
// (A plain `return x.f` with no lock held already has exactly that fact.)
func (w *walker) escape(e ast.Expr) {
	srcs, direct := w.fieldSources(e)
	if len(srcs) == 0 {
		return
	}
	held := len(w.heldList()) > 0
	done := map[string]bool{}
	for _, t := range srcs {
		f := t[2:]
		if (f == direct && !held) || done[f] {
			continue
		}
		done[f] = true
		what := "reference escapes the owner via return"
		if held {
			what = "reference escapes the lock via return"
		}
		w.aliasAccess(f, false, e.Pos(), what, true)
	}
}

// ifTryLock recognises `if !m.TryLock() { ...; return }` (no else): after the
// statement the mutex is held.
func (w *walker) ifTryLock(x *ast.IfStmt) string {
	if x.Else != nil || len(x.Body.List) == 0 {
		return ""
	}
	if _, ok := x.Body.List[len(x.Body.List)-1].(*ast.ReturnStmt); !ok {
		return ""
	}
	u, ok := x.Cond.(*ast.UnaryExpr)
	if !ok || u.Op != token.NOT {
		return ""
	}
	c, ok := u.X.(*ast.CallExpr)
	if !ok {
		return ""
	}
	sel, ok := c.Fun.(*ast.SelectorExpr)
	if !ok || sel.Sel.Name != "TryLock" {
		return ""
	}
	if tv, ok := w.info.Types[sel.X]; ok && (isMutex(tv.Type) || embedsMutex(tv.Type)) {
		return lockID(w.info, sel.X)
	}
	return ""
}

func (w *walker) expr(e ast.Expr) {
	switch x := e.(type) {
	case nil:
	case *ast.CallExpr:
		w.call(x, false, false)
	case *ast.Ident:
		w.pkgVar(x)
	case *ast.SelectorExpr:
		if _, _, isVar := pkgVarOf(w.info, x); isVar {
			w.pkgVar(x)
			break
		}
		w.noCopy[x.X] = true
		w.expr(x.X)
		if !w.noCopy[x] {
			w.structCopy(x, false)
		}
		if id, v, ok := fieldID(w.info, x); ok && !isSyncType(v.Type()) {
			viaRecv := false
			if s := w.info.Selections[x]; s != nil && selHopsOK(s) {
				// (the ELEMENTS of a map / slice held in a field of an owned object are not
				// covered: a struct copy shares them with its original, a constructor may have
				// been handed them)
				if root, owned := w.n.own.ownedObject(w.info, x.X, x.Pos()); owned && (!w.elem[x] || w.n.own.freshContainer(w.info, root, x)) {
					w.n.ownedDropped++
					break // goroutine-private memory (owned.go)
				}
				if !w.n.own.receiverRooted(w.info, x.X) {
					w.n.offRecv = true
				} else if !w.elem[x] {
					viaRecv = true
				}
			} else {
				w.n.offRecv = true
			}
			pos := fset.Position(x.Sel.Pos())
			a := &Access{Field: id, Write: w.write[x], Atomic: w.atom[x], Func: w.n.id,
				File: pos.Filename, Line: pos.Line, Recv: viaRecv, pos: x.Pos(), node: w.n}
			w.n.accesses = append(w.n.accesses, a)
			w.n.locksAt[a] = w.heldList()
			if tv, ok := w.info.Types[x]; ok && w.elem[x] {
				if _, isMap := tv.Type.Underlying().(*types.Map); isMap {
					a.mapElem, a.mapStore, a.epochs = true, w.mstore[x], map[string]int{}
					for l, e := range w.epoch {
						a.epochs[l] = e
					}
				}
			}
		}
	case *ast.UnaryExpr:
		if x.Op == token.AND {
			w.noCopy[x.X] = true
			if sel := baseSel(x.X); sel != nil && !w.atom[sel] {
				// address escapes: treat as a write - unless the field is itself a struct of an
				// analysed package: what can be done through the pointer is then an access to
				// one of ITS fields, which has its own facts
				if _, fv, ok := fieldID(w.info, sel); !(ok && sel == x.X && analysedStruct(fv.Type())) {
					w.write[sel] = true
				}
			}
			if rp := rootPlace(w.info, x.X); rp != nil && !w.atom[rp] {
				if _, pv, _ := pkgVarOf(w.info, rp); !(rp == x.X && analysedStruct(pv.Type())) {
					w.write[rp] = true // the address of (a part of) the variable escapes
				}
			}
		}
		w.expr(x.X)
	case *ast.BinaryExpr:
		w.expr(x.X)
		w.expr(x.Y)
	case *ast.ParenExpr:
		if w.noCopy[x] {
			w.noCopy[x.X] = true
		}
		w.expr(x.X)
	case *ast.StarExpr:
		w.expr(x.X)
		if !w.noCopy[x] {
			w.structCopy(x, false)
		}
	case *ast.IndexExpr:
		w.noCopy[x.X] = true
		w.markElem(x.X)
		w.expr(x.X)
		w.expr(x.Index)
		if !w.noCopy[x] {
			w.structCopy(x, false)
		}
	case *ast.SliceExpr:
		w.markElem(x.X)
		w.expr(x.X)
		w.expr(x.Low)
		w.expr(x.High)
		w.expr(x.Max)
	case *ast.TypeAssertExpr:
		w.expr(x.X)
	case *ast.KeyValueExpr:
		w.expr(x.Value)
	case *ast.CompositeLit:
		for _, el := range x.Elts {
			w.expr(el)
		}
	case *ast.FuncLit:
		w.funcLit(x, false)
	}
}

// pkgVar records a use of a package-level variable of an analysed package (see pkgVarOf)
func (w *walker) pkgVar(e ast.Expr) {
	id, v, ok := pkgVarOf(w.info, e)
	if !ok || isSyncType(v.Type()) {
		return
	}
	if !w.noCopy[e] {
		w.structCopy2(e)
	}
	pos := fset.Position(e.Pos())
	a := &Access{Field: id, Write: w.write[e], Atomic: w.atom[e], Func: w.n.id, File: pos.Filename, Line: pos.Line, pos: e.Pos(), node: w.n}
	w.n.accesses = append(w.n.accesses, a)
	w.n.locksAt[a] = w.heldList()
	if _, isMap := v.Type().Underlying().(*types.Map); isMap {
		a.mapElem, a.mapStore, a.epochs = true, w.mstore[e], map[string]int{}
		for l, ep := range w.epoch {
			a.epochs[l] = ep
		}
	}
	w.n.pkgVars = append(w.n.pkgVars, id) // (breaks receiver-confinement only if somebody writes the variable: computeRecvConfined)
}

// structCopy2: a package-level variable of an analysed struct VALUE type used as a value
func (w *walker) structCopy2(e ast.Expr) {
	tv, ok := w.info.Types[e]
	if !ok || !tv.IsValue() {
		return
	}
	w.copyFields(tv.Type, false, e.Pos(), 0)
}

// markWrite: `x.f.g = v` modifies the memory of x.f as well when f is a struct
// VALUE (g may belong to a type outside the analysed packages and have no fact of
// its own): every selector of the chain is written up to the first pointer hop.
func (w *walker) markWrite(sel *ast.SelectorExpr) {
	for sel != nil {
		w.write[sel] = true
		inner, ok := sel.X.(*ast.SelectorExpr)
		if !ok {
			return
		}
		tv, ok := w.info.Types[inner]
		if !ok || !isStructValue(tv.Type) {
			return
		}
		if s := w.info.Selections[sel]; s == nil || len(s.Index()) != 1 {
			return
		}
		sel = inner
	}
}

func (w *walker) markElem(e ast.Expr) {
	for {
		switch x := e.(type) {
		case *ast.ParenExpr:
			e = x.X
			continue
		case *ast.StarExpr:
			e = x.X
			continue
		case *ast.SelectorExpr:
			if tv, ok := w.info.Types[x]; ok {
				switch tv.Type.Underlying().(type) {
				case *types.Map, *types.Slice:
					w.elem[x] = true
				}
			}
		}
		return
	}
}

// ownedPlace: e denotes memory of an object this function still owns, or a plain
// local variable (its storage belongs to this call)
func (w *walker) ownedPlace(e ast.Expr) bool {
	switch x := e.(type) {
	case *ast.ParenExpr:
		return w.ownedPlace(x.X)
	case *ast.Ident:
		if v, ok := w.info.Uses[x].(*types.Var); ok {
			if _, isPtr := v.Type().Underlying().(*types.Pointer); !isPtr && !v.IsField() && (v.Pkg() == nil || v.Parent() != v.Pkg().Scope()) {
				return true // local value: a slice / map variable may still alias shared memory, see structCopy
			}
		}
	}
	_, owned := w.n.own.ownedObject(w.info, e, e.Pos())
	return owned
}

// structCopy: expression e (x.f, *p, x[i]) of an analysed STRUCT VALUE type is used
// as a value (read = copied out, write = overwritten as a whole): that touches every
// field of the struct, which have facts of their own ("pkg.Type.field").
func (w *walker) structCopy(e ast.Expr, write bool) {
	switch x := e.(type) {
	case *ast.ParenExpr:
		w.structCopy(x.X, write)
		return
	case *ast.SelectorExpr:
		if s := w.info.Selections[x]; s == nil || s.Kind() != types.FieldVal {
			return
		}
		if _, owned := w.n.own.ownedObject(w.info, x.X, x.Pos()); owned {
			return
		}
	case *ast.StarExpr:
		if _, owned := w.n.own.ownedObject(w.info, x, x.Pos()); owned {
			return
		}
		if c, isCall := x.X.(*ast.CallExpr); isCall && freshCall != nil && freshCall(w.info, c) {
			return // *NewT(...): a copy of an object nobody else has seen yet
		}
	case *ast.IndexExpr:
		if tv, ok := w.info.Types[x.X]; ok {
			if _, isMap := tv.Type.Underlying().(*types.Map); isMap && write {
				return // m[k] = v replaces the element; the map write itself is recorded on the field
			}
		}
	default:
		return
	}
	tv, ok := w.info.Types[e]
	if !ok || !tv.IsValue() {
		return
	}
	w.copyFields(tv.Type, write, e.Pos(), 0)
}

func (w *walker) copyFields(t types.Type, write bool, at token.Pos, depth int) {
	n, ok := t.(*types.Named)
	if !ok || depth > 4 {
		return
	}
	st, ok := n.Underlying().(*types.Struct)
	if !ok || n.Obj().Pkg() == nil || !targets[n.Obj().Pkg().Path()] {
		return
	}
	pos := fset.Position(at)
	for i := 0; i < st.NumFields(); i++ {
		f := st.Field(i)
		if isSyncType(f.Type()) {
			continue
		}
		id := shortPkg(n.Obj().Pkg().Path()) + "." + n.Obj().Name() + "." + f.Name()
		a := &Access{Field: id, Write: write, Func: w.n.id + " (whole-struct copy)", File: pos.Filename, Line: pos.Line}
		w.n.accesses = append(w.n.accesses, a)
		w.n.locksAt[a] = w.heldList()
		w.n.offRecv = true
		w.copyFields(f.Type(), write, at, depth+1)
	}
}

func (w *walker) funcLit(x *ast.FuncLit, isGo bool) *fnode {
	pos := fset.Position(x.Pos())
	id := fmt.Sprintf("%s$lit@%s:%d", w.n.id, filepath.Base(pos.Filename), pos.Line)
	n := &fnode{id: id, decl: x, pkg: w.n.pkg, body: x.Body, parent: w.n, loop0: w.loop}
	nodes[id] = n
	byLit[x] = n
	if !isGo {
		n.inherit = w.heldList()
	}
	analyse(n)
	// a literal that is not started with `go` runs (we assume) where it is written
	w.n.calls = append(w.n.calls, callSite{callee: n, locks: w.heldList(), isGo: isGo, inLoop: w.loop > 0})
	return n
}

func (w *walker) call(c *ast.CallExpr, isDefer, isGo bool) {
	// lock operations
	if sel, ok := c.Fun.(*ast.SelectorExpr); ok {
		if tv, ok := w.info.Types[sel.X]; ok && (isMutex(tv.Type) || embedsMutex(tv.Type)) {
			id := lockID(w.info, sel.X)
			switch sel.Sel.Name {
			case "Lock":
				if !isDefer {
					w.held[id]++
					w.epoch[id]++
					w.n.acquires = append(w.n.acquires, id)
				}
				return
			case "RLock":
				if !isDefer {
					w.held[id+"#R"]++
					w.epoch[id]++
					w.n.acquires = append(w.n.acquires, id+"#R")
				}
				return
			case "TryLock", "TryRLock":
				// held only in the success branch; see ifTryLock for the guard idiom
				return
			case "Unlock":
				if !isDefer && w.held[id] > 0 {
					w.held[id]--
				}
				return
			case "RUnlock":
				if !isDefer && w.held[id+"#R"] > 0 {
					w.held[id+"#R"]--
				}
				return
			}
		}
		// atomic.XxxInt64(&x.f, ...)
		if pk, ok := sel.X.(*ast.Ident); ok {
			if pn, ok := w.info.Uses[pk].(*types.PkgName); ok && pn.Imported().Path() == "sync/atomic" {
				for _, a := range c.Args {
					if u, ok := a.(*ast.UnaryExpr); ok && u.Op == token.AND {
						if s := baseSel(u.X); s != nil {
							w.atom[s] = true
						}
						if rp := rootPlace(w.info, u.X); rp != nil {
							w.atom[rp] = true
						}
					}
				}
			}
		}
	}
	// delete(x.f, k) and append-style builtins
	if id, ok := c.Fun.(*ast.Ident); ok {
		if _, isB := w.info.Uses[id].(*types.Builtin); isB {
			switch id.Name {
			case "len", "cap", "append", "copy", "delete", "clear":
				for _, a := range c.Args {
					w.markElem(a)
				}
			}
		}
		if _, isB := w.info.Uses[id].(*types.Builtin); isB && id.Name == "delete" && len(c.Args) > 0 {
			if s := baseSel(c.Args[0]); s != nil {
				w.write[s] = true
			}
			if rp := rootPlace(w.info, c.Args[0]); rp != nil {
				w.write[rp] = true
			}
		}
	}
	w.aliasCall(c) // writes through a value that shares a field's backing store (alias.go)
	// once.Do(func() {...}): the literal runs at most once per Once, before any Do returns
	isOnceDo := false
	if sel, ok := c.Fun.(*ast.SelectorExpr); ok && sel.Sel.Name == "Do" {
		if tv, ok := w.info.Types[sel.X]; ok {
			if n := namedOf(tv.Type); n != nil && n.Obj().Pkg() != nil && n.Obj().Pkg().Path() == "sync" && n.Obj().Name() == "Once" {
				isOnceDo = true
				w.n.onceDo = append(w.n.onceDo, c.Pos())
			}
		}
	}
	// arguments first (they are evaluated in the caller, also for go/defer)
	for _, a := range c.Args {
		if fl, ok := a.(*ast.FuncLit); ok {
			ln := w.funcLit(fl, false)
			ln.onceLit = isOnceDo
			continue
		}
		w.expr(a)
	}
	switch f := c.Fun.(type) {
	case *ast.FuncLit:
		w.funcLit(f, isGo)
		return
	case *ast.SelectorExpr:
		if s := w.info.Selections[f]; s != nil && s.Kind() == types.MethodVal {
			valueRecv := false
			if fn, ok := s.Obj().(*types.Func); ok {
				if r := fn.Type().(*types.Signature).Recv(); r != nil {
					_, isPtr := r.Type().(*types.Pointer)
					_, isIface := r.Type().Underlying().(*types.Interface)
					valueRecv = !isPtr && !isIface
				}
			}
			if tv, ok := w.info.Types[f.X]; ok && isNonThreadSafe(tv.Type) {
				// rand.Rand, bytes.Buffer ...: every method may mutate the receiver, none synchronises
				if sel := baseSel(f.X); sel != nil {
					w.write[sel] = true
				}
				if rp := rootPlace(w.info, f.X); rp != nil {
					w.write[rp] = true
				}
			}
			if !valueRecv {
				w.noCopy[f.X] = true // x.m() with a pointer receiver takes &x
				w.expr(f.X)
			} else {
				w.noCopy[f.X] = true
				w.expr(f.X)
				// value receiver: the callee works on a copy of the whole struct
				if tv, ok := w.info.Types[f.X]; ok && !w.ownedPlace(f.X) {
					w.copyFields(deref(tv.Type), false, f.X.Pos(), 0)
				}
			}
		} else {
			w.expr(f.X)
		}
	}
	owned, onRecv, goFresh := false, false, false
	viaFresh := ""
	if sel, ok := c.Fun.(*ast.SelectorExpr); ok && !isDefer {
		if s := w.info.Selections[sel]; s != nil && s.Kind() == types.MethodVal && selHopsOK(s) {
			if !isGo {
				_, owned = w.n.own.ownedObject(w.info, sel.X, c.Pos())
				onRecv = w.n.own.receiverRooted(w.info, sel.X)
				// recv.f.m() after `recv.f = <fresh object>` in this body (owned.go, nested ownership)
				if fs, ok := sel.X.(*ast.SelectorExpr); ok && w.n.own.receiverRooted(w.info, fs.X) {
					if fid, _, ok := fieldID(w.info, fs); ok {
						if at, ok := w.n.recvFresh[fid]; ok && at < c.Pos() {
							viaFresh = fid
						}
					}
				}
			} else if id, ok := sel.X.(*ast.Ident); ok {
				// `go v.m()`: v fresh and owned right up to this go statement
				if v, ok := w.info.Uses[id].(*types.Var); ok && w.n.own.ptr[v] && w.n.own.until[v] >= w.curGo && w.curGo != 0 {
					goFresh = true
				}
			}
		}
	}
	var recvVar *types.Var
	var argVars []*types.Var
	if sel, ok := c.Fun.(*ast.SelectorExpr); ok {
		if id, ok := sel.X.(*ast.Ident); ok {
			recvVar, _ = w.info.Uses[id].(*types.Var)
		}
	}
	for _, a := range c.Args {
		if id, ok := a.(*ast.Ident); ok {
			if v, ok := w.info.Uses[id].(*types.Var); ok {
				argVars = append(argVars, v)
			}
		}
	}
	for _, callee := range w.resolve(c) {
		w.n.calls = append(w.n.calls, callSite{callee: callee, locks: w.heldList(), isGo: isGo, inLoop: w.loop > 0,
			owned: owned, onRecv: onRecv, goFresh: goFresh, pos: c.Pos(), recvVar: recvVar, argVars: argVars, viaFreshField: viaFresh})
	}
	// container/heap and sort call back into the Len/Less/Swap/Push/Pop methods of their first
	// argument, in the caller's goroutine and under the caller's locks
	if sel, ok := c.Fun.(*ast.SelectorExpr); ok && len(c.Args) > 0 {
		if pk, ok := sel.X.(*ast.Ident); ok {
			if pn, ok := w.info.Uses[pk].(*types.PkgName); ok &&
				(pn.Imported().Path() == "container/heap" || pn.Imported().Path() == "sort") {
				if tv, ok := w.info.Types[c.Args[0]]; ok {
					if nt := namedOf(tv.Type); nt != nil {
						for _, cm := range methods {
							rn := namedOf(cm.Type().(*types.Signature).Recv().Type())
							if rn == nil || rn.Obj() != nt.Obj() {
								continue
							}
							switch cm.Name() {
							case "Len", "Less", "Swap", "Push", "Pop":
								if n := byObj[cm]; n != nil {
									w.n.calls = append(w.n.calls, callSite{callee: n, locks: w.heldList(), isGo: isGo, inLoop: w.loop > 0})
								}
							}
						}
					}
				}
			}
		}
	}
}

func embedsMutex(t types.Type) bool {
	st, ok := deref(t).Underlying().(*types.Struct)
	if !ok {
		return false
	}
	for i := 0; i < st.NumFields(); i++ {
		if st.Field(i).Embedded() && isMutex(st.Field(i).Type()) {
			return true
		}
	}
	return false
}

func (w *walker) resolve(c *ast.CallExpr) []*fnode {
	var obj types.Object
	switch f := c.Fun.(type) {
	case *ast.Ident:
		obj = w.info.Uses[f]
	case *ast.SelectorExpr:
		if s, ok := w.info.Selections[f]; ok {
			obj = s.Obj()
			if fn, ok := obj.(*types.Func); ok {
				if _, isIface := s.Recv().Underlying().(*types.Interface); isIface {
					impls := implementations(fn, s.Recv())
					for _, im := range impls {
						im.byIface = true
					}
					return impls
				}
			}
		} else {
			obj = w.info.Uses[f.Sel]
		}
	case *ast.IndexExpr: // generic instantiation f[T](...) / pkg.f[T](...)
		switch fx := f.X.(type) {
		case *ast.Ident:
			obj = w.info.Uses[fx]
		case *ast.SelectorExpr:
			obj = w.info.Uses[fx.Sel]
		}
	case *ast.IndexListExpr: // f[K, V](...)
		switch fx := f.X.(type) {
		case *ast.Ident:
			obj = w.info.Uses[fx]
		case *ast.SelectorExpr:
			obj = w.info.Uses[fx.Sel]
		}
	}
	if fn, ok := obj.(*types.Func); ok {
		if o := fn.Origin(); o != nil {
			fn = o
		}
		if n := byObj[fn]; n != nil {
			return []*fnode{n}
		}
	}
	return nil
}

func implementations(m *types.Func, recv types.Type) []*fnode {
	iface, ok := recv.Underlying().(*types.Interface)
	if !ok {
		return nil
	}
	var out []*fnode
	for _, cm := range methods {
		if cm.Name() != m.Name() {
			continue
		}
		rt := cm.Type().(*types.Signature).Recv().Type()
		if types.Implements(rt, iface) || types.Implements(types.NewPointer(deref(rt)), iface) || genericImplements(rt, iface) {
			if n := byObj[cm]; n != nil {
				out = append(out, n)
			}
		}
	}
	return out
}

// genericImplements: the receiver is an uninstantiated generic type (memoryState[T],
// MemoryCache[K,V] ...): types.Implements cannot answer for it, so the method set
// is compared by NAME and arity with the interface (every interface method has a
// method of that name with the same number of parameters and results). An
// over-approximation: more call edges, never fewer.
func genericImplements(rt types.Type, iface *types.Interface) bool {
	n := namedOf(rt)
	if n == nil || n.TypeParams().Len() == 0 || iface.NumMethods() == 0 {
		return false
	}
	ms := types.NewMethodSet(types.NewPointer(n))
	for i := 0; i < iface.NumMethods(); i++ {
		im := iface.Method(i)
		sel := ms.Lookup(im.Pkg(), im.Name())
		if sel == nil {
			return false
		}
		a, b := sel.Obj().Type().(*types.Signature), im.Type().(*types.Signature)
		if a.Params().Len() != b.Params().Len() || a.Results().Len() != b.Results().Len() {
			return false
		}
	}
	return true
}

func propagateRoles() {
	changed := true
	for changed {
		changed = false
		for _, n := range sortedNodes() {
			for _, c := range n.calls {
				if c.callee == nil || c.isGo || c.callee.dead || n.dead {
					continue
				}
				if c.callee.exclusive { // keeps only the role given by the entry table
					continue
				}
				for r := range n.roles {
					if !c.callee.roles[r] {
						addRole(c.callee, r)
						changed = true
					}
				}
			}
		}
	}
}

// assignDefaultRoles: a function that no entry point reaches is either listed in
// dead_functions (no production caller anywhere in the module: dropped, with the
// reason in the config) or is assumed to be callable from a transaction: calls
// through stored function values, through interfaces implemented outside the
// analysed packages and from packages outside the list are not followed, so the
// conservative reading is "any transaction goroutine may call it with no lock
// held". Roots only (no analysed caller); their callees inherit by propagation.
func matchesDead(n *fnode) bool {
	id := n.id
	if i := strings.Index(id, "$lit@"); i >= 0 {
		id = id[:i]
	}
	for pat := range cfg.DeadFuncs {
		if ok, _ := filepath.Match(pat, id); ok {
			return true
		}
	}
	return false
}

// functions listed in dead_functions take no part in role propagation (an interface
// call must not be resolved to a test double)
func markDead() {
	for _, n := range nodes {
		if matchesDead(n) {
			n.dead = true
			n.roles = nil
			n.isEntry = false
		}
	}
}

func assignDefaultRoles() {
	def := cfg.DefaultRole
	if def == "" {
		def = "txn"
	}
	callers := map[*fnode]int{}
	for _, n := range nodes {
		for _, c := range n.calls {
			if c.callee != nil && c.callee != n {
				callers[c.callee]++
			}
		}
	}
	isDead := matchesDead
	for round := 0; round < 100; round++ {
		progress := false
		// first the roots (no caller at all), then - call cycles without an entry - anything left
		for pass := 0; pass < 2 && !progress; pass++ {
			for _, n := range sortedNodes() {
				if len(n.roles) > 0 || n.dead {
					continue
				}
				if pass == 0 && callers[n] > 0 {
					continue
				}
				if isDead(n) {
					n.dead = true
				} else {
					n.isEntry = true
					n.defaulted = true
					addRole(n, def)
				}
				progress = true
				if pass == 1 {
					break
				}
			}
		}
		if !progress {
			break
		}
		propagateDead()
		propagateRoles()
	}
}

// a function all of whose callers are dead is dead
func propagateDead() {
	changed := true
	for changed {
		changed = false
		for _, n := range sortedNodes() {
			if n.dead || len(n.roles) > 0 || n.isEntry {
				continue
			}
			live, cnt := false, 0
			for _, m := range nodes {
				for _, c := range m.calls {
					if c.callee == n && m != n {
						cnt++
						if !m.dead {
							live = true
						}
					}
				}
			}
			if cnt > 0 && !live {
				n.dead = true
				changed = true
			}
		}
	}
}

// computeMultiRoles: can two goroutines of one bg: role be alive at the same time?
// A `go` statement is executed at most once per process - its role is SINGLE -
// only if it is the only go statement for that function, is not written inside a
// loop, and the function that contains it runs in no role but "init" (process
// start-up) or another single bg role. Everything else (a go statement in a
// method reachable from a transaction / admin call / another multi role, or in a
// constructor run by "load": one goroutine per object, several objects after a
// reload) is MULTI. The roles listed in the config (txn, admin, metrics) are multi
// by declaration.
var multiRoles []string
var multiWhy = map[string]string{}

func computeMultiRoles() {
	multi := map[string]bool{}
	for _, r := range cfg.MultiRoles {
		multi[r] = true
		multiWhy[r] = "declared (config)"
	}
	type gosite struct {
		spawner *fnode
		inLoop  bool
	}
	sitesOf := map[string][]gosite{}
	for _, n := range sortedNodes() {
		for _, c := range n.calls {
			if c.isGo && c.callee != nil {
				r := "bg:" + c.callee.id
				sitesOf[r] = append(sitesOf[r], gosite{n, c.inLoop})
			}
		}
	}
	bg := make([]string, 0, len(sitesOf))
	for r := range sitesOf {
		bg = append(bg, r)
	}
	sort.Strings(bg)
	forcedSingle := func(r string) bool {
		for pat := range cfg.SingleBg {
			if ok, _ := filepath.Match(pat, r); ok {
				return true
			}
		}
		return false
	}
	changed := true
	for changed {
		changed = false
		for _, r := range bg {
			if multi[r] || forcedSingle(r) {
				continue
			}
			why := ""
			ss := sitesOf[r]
			if len(ss) > 1 {
				why = fmt.Sprintf("%d go statements", len(ss))
			}
			for _, g := range ss {
				if why != "" {
					break
				}
				if g.inLoop {
					why = "go statement inside a loop of " + g.spawner.id
				}
				if len(g.spawner.roles) == 0 {
					why = "spawner " + g.spawner.id + " has no role"
				}
				for _, sr := range keys(g.spawner.roles) {
					if why == "" && sr != "init" && (multi[sr] || !strings.HasPrefix(sr, "bg:")) {
						why = "spawned by " + g.spawner.id + " which runs in role " + sr
					}
				}
			}
			if why != "" {
				multi[r] = true
				multiWhy[r] = why
				changed = true
			}
		}
	}
	multiRoles = keys(multi)
	// declared ones first, in the declared order (stable output)
	out := append([]string{}, cfg.MultiRoles...)
	for _, r := range multiRoles {
		if !strings.HasPrefix(r, "bg:") {
			continue
		}
		out = append(out, r)
	}
	multiRoles = out
}

// must-held-on-entry: intersection over all call sites; entry points and
// goroutine starts begin with the empty set.
func propagateLocks() {
	computeRecvConfined()
	for _, n := range nodes {
		if n.isEntry || n.goStart {
			n.entry = map[string]bool{}
		}
	}
	for iter := 0; iter < 50; iter++ {
		changed := false
		for _, n := range sortedNodes() {
			if n.entry == nil {
				continue
			}
			for _, c := range n.calls {
				if c.callee == nil {
					continue
				}
				if c.owned && c.callee.recvConfined {
					if iter == 0 {
						ownedSkipped = append(ownedSkipped, n.id+" -> "+c.callee.id)
					}
					continue // the callee works on an object only this goroutine can reach (owned.go)
				}
				at := map[string]bool{}
				if !c.isGo {
					for l := range n.entry {
						at[l] = true
					}
					for _, l := range c.locks {
						at[l] = true
					}
				}
				if c.callee.entry == nil {
					c.callee.entry = at
					changed = true
					continue
				}
				for l := range c.callee.entry {
					if !at[l] {
						delete(c.callee.entry, l)
						changed = true
					}
				}
			}
		}
		if !changed {
			break
		}
	}
	for _, n := range nodes {
		if n.entry == nil {
			n.entry = map[string]bool{}
		}
	}
}

// ---------------------------------------------------------------- output

func instanceConfinedProblem(all []Access, field, role string) string {
	owner := field[:strings.LastIndex(field, ".")] // pkg.Type
	typ := owner[strings.LastIndex(owner, ".")+1:]
	pk := owner[:strings.LastIndex(owner, ".")]
	fns := map[string]bool{}
	for i := range all {
		a := &all[i]
		if a.Field != field {
			continue
		}
		if len(a.Roles) != 1 || a.Roles[0] != role {
			return fmt.Sprintf("%s:%d runs in roles %v", a.Func, a.Line, a.Roles)
		}
		if !a.Recv {
			return fmt.Sprintf("%s:%d does not go through the receiver", a.Func, a.Line)
		}
		if !strings.HasPrefix(a.Func, pk+".("+typ+").") {
			return fmt.Sprintf("%s is not a method of %s", a.Func, owner)
		}
		fns[a.Func] = true
	}
	if len(fns) == 0 {
		return "no access found"
	}
	// every way into these methods keeps the receiver: a call on the caller's own receiver,
	// or the go statement that starts the goroutine on a fresh object
	reach := map[string]bool{}
	work := []string{}
	for f := range fns {
		reach[f] = true
		work = append(work, f)
	}
	for len(work) > 0 {
		f := work[0]
		work = work[1:]
		target := nodes[f]
		for _, m := range sortedNodes() {
			if m.dead {
				continue
			}
			for _, c := range m.calls {
				if c.callee != target {
					continue
				}
				if c.isGo {
					if !c.goFresh || c.inLoop {
						return "go statement in " + m.id + " is not on a fresh object"
					}
					continue
				}
				if !c.onRecv {
					return m.id + " calls " + f + " on something other than its own receiver"
				}
				if !strings.HasPrefix(m.id, pk+".("+typ+").") {
					return m.id + " is not a method of " + owner
				}
				if !reach[m.id] {
					reach[m.id] = true
					work = append(work, m.id)
				}
			}
		}
	}
	return ""
}

// onceInitialised: every write of the field is inside a function literal handed to (*sync.Once).Do,
// all those literals are written in ONE function, and every other access is a read in that same
// function placed after the Do call: sync.Once orders the write before every such read.
func onceInitialised(all []Access) map[string]bool {
	type info struct {
		parent *fnode
		ok     bool
		writes int
	}
	st := map[string]*info{}
	get := func(f string) *info {
		if st[f] == nil {
			st[f] = &info{ok: true}
		}
		return st[f]
	}
	for i := range all {
		a := &all[i]
		in := get(a.Field)
		if a.node == nil {
			in.ok = false
			continue
		}
		if a.Write {
			if !a.node.onceLit || a.node.parent == nil || (in.parent != nil && in.parent != a.node.parent) {
				in.ok = false
				continue
			}
			in.parent = a.node.parent
			in.writes++
		}
	}
	for i := range all {
		a := &all[i]
		in := st[a.Field]
		if !in.ok || in.writes == 0 || a.Write {
			continue
		}
		if a.node == nil || a.node != in.parent {
			if !(a.node != nil && a.node.onceLit && a.node.parent == in.parent) { // a read inside the literal itself
				in.ok = false
			}
			continue
		}
		after := false
		for _, p := range in.parent.onceDo {
			after = after || p < a.pos
		}
		if !after {
			in.ok = false
		}
	}
	out := map[string]bool{}
	for f, in := range st {
		if in.ok && in.writes > 0 {
			out[f] = true
		}
	}
	return out
}

// spawnedByLoaderProblem: the field is written in role load only (the loader building an engine),
// and every role that reads it other than load / the consumer roles (ordered by publication) is a
// bg: role all of whose go statements are written in functions that run in role load only: the
// goroutine is started by the loader, and (checked by reading, reason in the config) after the
// writes; the go statement orders them.
func spawnedByLoaderProblem(all []Access, field string) string {
	cons := map[string]bool{"load": true}
	for _, r := range cfg.ConsumerRoles {
		cons[r] = true
	}
	found := false
	for i := range all {
		a := &all[i]
		if a.Field != field {
			continue
		}
		found = true
		for _, r := range a.Roles {
			if a.Write && r != "load" && r != "init" {
				return fmt.Sprintf("%s:%d writes it in role %s", a.Func, a.Line, r)
			}
			if cons[r] || r == "init" {
				continue
			}
			if !strings.HasPrefix(r, "bg:") {
				return "accessed in role " + r
			}
			spawners := 0
			for _, m := range nodes {
				for _, c := range m.calls {
					if c.isGo && c.callee != nil && "bg:"+c.callee.id == r {
						spawners++
						for sr := range m.roles {
							if sr != "load" {
								return fmt.Sprintf("%s is started by %s which runs in role %s", r, m.id, sr)
							}
						}
					}
				}
			}
			if spawners == 0 {
				return "no go statement found for " + r
			}
		}
	}
	if !found {
		return "no access found"
	}
	return ""
}

func pkgVarList(all []Access) map[string]string {
	out := map[string]string{}
	for i := range all {
		a := &all[i]
		if !strings.Contains(a.Field, "."+pkgVarType+".") {
			continue
		}
		k := "read"
		if a.Write {
			k = "written"
		}
		for _, r := range a.Roles {
			if !strings.Contains(out[a.Field], k+" in "+r) {
				out[a.Field] += k + " in " + r + "; "
			}
		}
	}
	return out
}

var ownedSkipped []string

func ownedDroppedList() map[string]int {
	out := map[string]int{}
	for _, n := range nodes {
		if n.ownedDropped > 0 {
			out[n.id] = n.ownedDropped
		}
	}
	return out
}

func ownedRecvList() []string {
	var out []string
	for _, n := range sortedNodes() {
		if n.ownedRecv && !n.dead {
			out = append(out, n.id)
		}
	}
	return out
}

func freshList() []string {
	var out []string
	for n := range freshFns {
		out = append(out, n.id)
	}
	sort.Strings(out)
	return out
}

// publicationOrder: a mechanical guard for the first half of the publication
// protocol at the publication sites named in the configuration: in a function that
// hands a variable to a publication function (setStream(stream)), no later call on
// that variable (as receiver or argument) may reach load-role code - such code
// would touch the new engine after transactions can see it.
func publicationOrder() []string {
	pub := map[string]bool{}
	for _, p := range cfg.PublicationCalls {
		pub[p] = true
	}
	var out []string
	for _, n := range sortedNodes() {
		if n.dead {
			continue
		}
		for _, c := range n.calls {
			if c.callee == nil || !pub[c.callee.id] {
				continue
			}
			for _, v := range c.argVars {
				for _, d := range n.calls {
					if d.callee == nil || d.pos <= c.pos || !d.callee.roles["load"] {
						continue
					}
					uses := d.recvVar == v
					for _, a := range d.argVars {
						uses = uses || a == v
					}
					if uses {
						out = append(out, fmt.Sprintf("%s runs load-role %s on %s after publishing it with %s (line %d)",
							n.id, d.callee.id, v.Name(), c.callee.id, fset.Position(d.pos).Line))
					}
				}
			}
		}
	}
	sort.Strings(out)
	return out
}

func defaultedList() []string {
	var out []string
	for _, n := range sortedNodes() {
		if n.defaulted {
			out = append(out, n.id)
		}
	}
	return out
}

func deadList() []string {
	var out []string
	for _, n := range sortedNodes() {
		if n.dead && len(n.accesses) > 0 {
			out = append(out, n.id)
		}
	}
	return out
}

// coqStr renders a Coq string literal. The audit of ./check greps the theory files for the
// vernacular words Parameter, Axiom, admit ... as whole words, also inside string literals: a
// field called "Processor.Parameters" would be taken for a declaration. Such a word is written
// as a concatenation split after its first letter ("...P" ++ "arameters"), which vm_compute
// evaluates to the same string.
var auditWords = regexp.MustCompile(`\b(Admitted|admit|Axioms?|Parameters?|Conjectures?|Hypothesis|Hypotheses|Variables?)\b`)

func coqStr(s string) string {
	q := func(x string) string { return "\"" + strings.ReplaceAll(x, "\"", "\"\"") + "\"" }
	locs := auditWords.FindAllStringIndex(s, -1)
	if len(locs) == 0 {
		return q(s)
	}
	var parts []string
	prev := 0
	for _, l := range locs {
		parts = append(parts, q(s[prev:l[0]+1]))
		prev = l[0] + 1
	}
	parts = append(parts, q(s[prev:]))
	return "(" + strings.Join(parts, " ++ ") + ")"
}

func coqListLines(xs []string) string {
	if len(xs) == 0 {
		return "[]"
	}
	q := make([]string, len(xs))
	for i, x := range xs {
		q[i] = "  " + coqStr(x)
	}
	return "[\n" + strings.Join(q, ";\n") + "\n]"
}

func seenFields(kept []Access) map[string]bool {
	m := map[string]bool{}
	for _, a := range kept {
		m[a.Field] = true
	}
	return m
}

func order0(m map[string]bool) []string { return keys(m) }

var ownedWithdrawn = map[string]string{}

// generationFields: the fields (with facts) whose owner type matches owned_types -
// unless a package-level variable of an analysed package can hold such an object
// (then the objects are not reachable through the engine pointer only).
func generationFields(fields []string) []string {
	var out []string
	for _, f := range fields {
		owner := f[:strings.LastIndex(f, ".")]
		if _, bad := ownedWithdrawn[owner]; bad || strings.HasSuffix(owner, "."+pkgVarType) {
			continue // (a package-level variable belongs to no engine generation)
		}
		for pat := range cfg.OwnedTypes {
			if ok, _ := filepath.Match(pat, owner); ok {
				out = append(out, f)
				break
			}
		}
	}
	return out
}

func mentionsNamed(t types.Type, depth int, visit func(*types.Named)) {
	if depth > 6 {
		return
	}
	switch x := t.(type) {
	case *types.Named:
		visit(x)
	case *types.Pointer:
		mentionsNamed(x.Elem(), depth+1, visit)
	case *types.Slice:
		mentionsNamed(x.Elem(), depth+1, visit)
	case *types.Array:
		mentionsNamed(x.Elem(), depth+1, visit)
	case *types.Map:
		mentionsNamed(x.Key(), depth+1, visit)
		mentionsNamed(x.Elem(), depth+1, visit)
	case *types.Chan:
		mentionsNamed(x.Elem(), depth+1, visit)
	}
}

func checkOwnedGlobals(pkgs []*packages.Package) {
	for _, p := range pkgs {
		if !targets[p.PkgPath] || p.Types == nil {
			continue
		}
		sc := p.Types.Scope()
		for _, nm := range sc.Names() {
			v, ok := sc.Lookup(nm).(*types.Var)
			if !ok {
				continue
			}
			mentionsNamed(v.Type(), 0, func(n *types.Named) {
				if n.Obj().Pkg() == nil {
					return
				}
				id := shortPkg(n.Obj().Pkg().Path()) + "." + n.Obj().Name()
				for pat := range cfg.OwnedTypes {
					if ok, _ := filepath.Match(pat, id); ok {
						ownedWithdrawn[id] = "package-level variable " + shortPkg(p.PkgPath) + "." + nm
						fmt.Printf("lockset: %s can be reached from package-level variable %s.%s: not treated as per-engine\n", id, shortPkg(p.PkgPath), nm)
					}
				}
			})
		}
	}
}

func coqList(xs []string) string {
	q := make([]string, len(xs))
	for i, x := range xs {
		q[i] = coqStr(x)
	}
	return "[" + strings.Join(q, "; ") + "]"
}

var freshFns map[*fnode]bool

func writeOutputs(all []Access, outV, outJ, repo string) {
	ignT := map[string]bool{}
	for _, t := range cfg.IgnoreTypes {
		ignT[t] = true
	}
	ignF := map[string]bool{}
	for _, f := range cfg.IgnoreFields {
		ignF[f] = true
	}
	// single-writer fields are dropped only while their writer set is as declared
	for f, fn := range cfg.SingleWriter {
		ok := true
		for i := range all {
			if all[i].Field == f && all[i].Write && all[i].Func != fn {
				ok = false
			}
		}
		if ok {
			ignF[f] = true
		} else {
			fmt.Printf("lockset: %s has a writer other than %s: not dropped\n", f, fn)
		}
	}
	// instance-confined fields: touched only by the goroutine that serves the object
	// (role R = `go v.m()` on a fresh v), always through the receiver. Dropped only while
	// that is what the source says.
	for f, role := range cfg.InstanceConfined {
		why := instanceConfinedProblem(all, f, role)
		if why == "" {
			ignF[f] = true
		} else {
			fmt.Printf("lockset: %s is not confined to one %s goroutine per object (%s): not dropped\n", f, role, why)
		}
	}
	// variables / fields initialised under a sync.Once and only read after its Do: dropped while that is
	// what the source says (onceInitialised)
	onceInit := onceInitialised(all)
	for f := range onceInit {
		ignF[f] = true
	}
	// fields frozen before the loader starts the goroutines that read them
	for f := range cfg.SpawnedByLoader {
		if why := spawnedByLoaderProblem(all, f); why == "" {
			ignF[f] = true
		} else {
			fmt.Printf("lockset: %s is not written by the loader only / read by goroutines the loader starts (%s): not dropped\n", f, why)
		}
	}
	// distinct facts: (field, write, atomic, role, lockset)
	type key struct {
		field, role, locks string
		write, atomic      bool
	}
	seen := map[key]*Access{}
	var order []key
	var kept []Access // the sites behind the emitted facts (same filter as the Coq file)
	sites := 0
	for i := range all {
		a := &all[i]
		a.File = strings.TrimPrefix(a.File, strings.TrimSuffix(repo, "/")+"/")
		tn := a.Field[:strings.LastIndex(a.Field, ".")]
		if ignT[tn] || ignF[a.Field] || !primary[tn[:strings.LastIndex(tn, ".")]] {
			continue
		}
		sites++
		kept = append(kept, *a)
		for _, r := range a.Roles {
			k := key{a.Field, r, strings.Join(a.Locks, ","), a.Write, a.Atomic}
			if _, ok := seen[k]; !ok {
				seen[k] = a
				order = append(order, k)
			}
		}
	}
	sort.Slice(order, func(i, j int) bool {
		a, b := order[i], order[j]
		if a.field != b.field {
			return a.field < b.field
		}
		if a.role != b.role {
			return a.role < b.role
		}
		if a.write != b.write {
			return !a.write
		}
		if a.atomic != b.atomic {
			return !a.atomic
		}
		return a.locks < b.locks
	})
	var sb strings.Builder
	sb.WriteString("(* GENERATED by /verif/lockset from the current /repo source on every check run. Do not edit. *)\n")
	sb.WriteString("From Coq Require Import List String.\nFrom Verif Require Import C18.Lockset.\nImport ListNotations.\nOpen Scope string_scope.\n\n")
	sb.WriteString("(* roles of which several goroutines can be alive at once: declared (txn, admin, metrics) + every bg: role whose\n   go statement is not provably executed once per process (computeMultiRoles) *)\n")
	sb.WriteString("Definition multi_roles : list string := " + coqList(multiRoles) + ".\n\n")
	sb.WriteString("(* roles that get at a per-engine object only through the published engine pointer (Publication.v) *)\n")
	sb.WriteString("Definition consumer_roles : list string := " + coqList(cfg.ConsumerRoles) + ".\n\n")
	genFields := generationFields(order0(seenFields(kept)))
	sb.WriteString("(* fields of the per-engine object types (lockset/config.json owned_types): a load-role access and a consumer's\n   access to one of them are ordered by publication, not by a common lock *)\n")
	sb.WriteString("Definition generation_fields : list string := " + coqListLines(genFields) + ".\n\n")
	pubOrder := publicationOrder()
	sb.WriteString("(* load-role code run on an engine AFTER the call that publishes it (lockset/config.json publication_calls): must be empty *)\n")
	sb.WriteString("Definition publication_order_violations : list string := " + coqListLines(pubOrder) + ".\n\n")
	sb.WriteString("(* function bodies the C01/C02/C09/C12 models treat as one atomic step: \"\" = it is a single critical section *)\n")
	sb.WriteString("Definition atomic_report : list (string * string) := [\n")
	afn := make([]string, 0, len(atomicReport))
	for k := range atomicReport {
		afn = append(afn, k)
	}
	sort.Strings(afn)
	for i, k := range afn {
		sep := ";"
		if i == len(afn)-1 {
			sep = ""
		}
		fmt.Fprintf(&sb, "  (%s, %s)%s\n", coqStr(k), coqStr(atomicReport[k]), sep)
	}
	sb.WriteString("].\n\n")
	sb.WriteString("(* get-or-create sites (lockset/getorcreate.go): bodies that look a key up in a lock-protected map field and\n   store into it; \"\" = look-up and store sit inside one continuous hold of the lock *)\n")
	sb.WriteString("Definition get_or_create_report : list (string * string) := [\n")
	gfn := make([]string, 0, len(gocReport))
	for k := range gocReport {
		gfn = append(gfn, k)
	}
	sort.Strings(gfn)
	for i, k := range gfn {
		sep := ";"
		if i == len(gfn)-1 {
			sep = ""
		}
		fmt.Fprintf(&sb, "  (%s, %s)%s\n", coqStr(k), coqStr(gocReport[k]), sep)
	}
	sb.WriteString("].\n\n")
	sb.WriteString("(* production functions (analysed packages) that read the per-flow transactional context *)\n")
	sb.WriteString("Definition txctx_readers : list string := " + coqList(keys(txctxReaders)) + ".\n\n")
	sb.WriteString("Definition accesses : list fact := [\n")
	for i, k := range order {
		a := seen[k]
		locks := a.Locks
		if locks == nil {
			locks = []string{}
		}
		kind := "Rd"
		if k.write {
			kind = "Wr"
		}
		if k.atomic {
			kind = "At"
		}
		sep := ";"
		if i == len(order)-1 {
			sep = ""
		}
		xl, sl := []string{}, []string{}
		for _, l := range locks {
			if strings.HasSuffix(l, "#R") {
				sl = append(sl, strings.TrimSuffix(l, "#R"))
			} else {
				xl = append(xl, l)
			}
		}
		fmt.Fprintf(&sb, "  mkFact %s %s %s %s %s%s (* %s %s:%d *)\n", coqStr(k.field), kind, coqStr(k.role),
			coqList(xl), coqList(sl), sep, a.Func, filepath.Base(a.File), a.Line)
	}
	sb.WriteString("].\n")
	must(os.MkdirAll(filepath.Dir(outV), 0o755))
	if old, err := os.ReadFile(outV); err != nil || string(old) != sb.String() { // unchanged facts keep their time stamp
		must(os.WriteFile(outV, []byte(sb.String()), 0o644))
	}
	must(os.MkdirAll(filepath.Dir(outJ), 0o755))
	js, _ := json.MarshalIndent(map[string]any{"sites": kept, "facts": len(order), "access_sites": sites,
		"functions": len(nodes), "multi_roles": multiRoles, "multi_why": multiWhy, "defaulted_functions": defaultedList(), "owned_dropped": ownedDroppedList(), "fresh_constructors": freshList(), "publication_order_violations": pubOrder, "consumer_roles": cfg.ConsumerRoles, "generation_fields": genFields, "owned_types_withdrawn": ownedWithdrawn, "owned_receiver_methods": ownedRecvList(), "owned_call_sites_skipped": ownedSkipped, "dead_functions": deadList(), "dropped_fields": ignF, "once_initialised": keys(onceInit), "nested_owned_call_sites": nestedOwned, "package_variables": pkgVarList(all), "aliases": aliasReport(), "atomic_report": atomicReport, "get_or_create_report": gocReport, "get_or_create_sites": gocSites}, "", " ")
	must(os.WriteFile(outJ, js, 0o644))
	fmt.Printf("lockset: %d functions, %d access sites of shared fields, %d distinct facts\n", len(nodes), sites, len(order))
}
