// Ownership of freshly allocated local objects (a per-function, syntactic rule).
//
// Type-level identity ("pkg.Type.field") cannot tell an object that is still
// private to the goroutine that allocated it from the published objects of the
// same type. Three situations are recognised, all inside ONE function body and
// all in source order:
//
//	(V) a local variable, parameter, named result or range variable of STRUCT
//	    type (not a pointer): its storage is a copy that belongs to this call;
//	(P) a local variable defined by `v := &T{...}`, `v := new(T)`,
//	    `v := T{...}` / `var v T`: the object is fresh;
//	the variable is OWNED from its definition until its first ESCAPING use:
//	any mention that is not the base of a selector (`v.f`, `v.m(...)`), i.e. an
//	assignment / store of v or &v, passing it to a function of this module,
//	returning it, sending it, any mention inside a `go` / `defer` statement or
//	inside a function literal. (Passing v or &v to a function OUTSIDE this module
//	- json.Unmarshal, heap.Init ... - is not an escape: library code does not hand
//	its argument to another goroutine of ours.) An escape inside a loop that does
//	not contain the definition ends the ownership at the start of that loop.
//
// While v is owned
//   - an access `v.f` (also through embedded struct values, never through a
//     further pointer, slice or map) touches goroutine-private memory: no fact;
//   - a call `v.m(...)` of a RECEIVER-CONFINED method (every access of m, and of
//     everything m calls in the analysed packages, goes through m's receiver in the
//     same sense) is ignored when the locks held on entry of m are intersected
//     over its call sites: the constructor calling dpq.ensureWindowIsUpdated()
//     before `go dpq.process()` does not make the method "sometimes unlocked".
package main

import (
	"go/ast"
	"go/token"
	"go/types"
	"strings"
)

const posInf = token.Pos(1 << 60)

// ownership of one function body
// leaksReceiver: the method hands its receiver to something that outlives the
// call or runs elsewhere: the receiver is mentioned inside a go statement or a
// function literal, stored, sent, or passed to a function of this module - or the
// method calls such a method on its receiver. `return recv` (builder methods) and
// plain selector uses are not leaks. Calling such a method on an owned object ends
// the ownership.
var leaksRecv = map[*types.Func]bool{}

type ownInfo struct {
	until map[*types.Var]token.Pos // owned variable -> position of the first escaping use
	ptr   map[*types.Var]bool      // (P) fresh pointer (true) or struct value (false)
	recv  *types.Var               // the receiver of the method (nil for functions)
	// (F) container fields of an owned object that hold nothing but containers made in this body
	// (see computeFreshContainers): their ELEMENTS are private as well
	lit     map[*types.Var]*ast.CompositeLit // owned variable -> the literal that defines it (nil literal = zero value)
	zero    map[*types.Var]bool              // defined as zero value (`new(T)`, `var v T`)
	tainted map[*types.Var]map[string]bool   // owned variable -> field names that may hold a foreign container
	scanned bool
	body    *ast.BlockStmt
}

func isStructValue(t types.Type) bool {
	if _, isPtr := t.(*types.Pointer); isPtr {
		return false
	}
	_, ok := t.Underlying().(*types.Struct)
	return ok
}

// freshCall: a call of an analysed function every return statement of which hands
// out an object it has just allocated and still owns (`return &T{...}`, `return v`
// with v fresh and never escaped): set by computeReturnsFresh
var freshCall func(info *types.Info, c *ast.CallExpr) bool

func freshExprIn(info *types.Info, e ast.Expr) (ptr bool, ok bool) {
	if p, ok := freshExpr(e); ok {
		return p, true
	}
	if c, isCall := e.(*ast.CallExpr); isCall && freshCall != nil && freshCall(info, c) {
		return true, true
	}
	// NewT(...).WithX(...): a builder method (every return hands back its own receiver, which it
	// does not leak) called on a fresh object
	if c, isCall := e.(*ast.CallExpr); isCall {
		if sel, ok := c.Fun.(*ast.SelectorExpr); ok {
			if s := info.Selections[sel]; s != nil && s.Kind() == types.MethodVal {
				if fn, ok := s.Obj().(*types.Func); ok {
					if o := fn.Origin(); o != nil {
						fn = o
					}
					if returnsRecv[fn] && !leaksRecv[fn] {
						if ptr, fresh := freshExprIn(info, sel.X); fresh && ptr {
							return true, true
						}
					}
				}
			}
		}
	}
	return false, false
}

// returnsRecv: methods with a pointer receiver whose every return statement returns that receiver
var returnsRecv = map[*types.Func]bool{}

func computeReturnsRecv() {
	for _, n := range nodes {
		fd, ok := n.decl.(*ast.FuncDecl)
		if !ok || fd.Recv == nil || len(fd.Recv.List) == 0 || len(fd.Recv.List[0].Names) == 0 ||
			fd.Type.Results == nil || len(fd.Type.Results.List) != 1 {
			continue
		}
		info := n.pkg.TypesInfo
		recv, _ := info.Defs[fd.Recv.List[0].Names[0]].(*types.Var)
		fn, _ := info.Defs[fd.Name].(*types.Func)
		if recv == nil || fn == nil {
			continue
		}
		if _, isPtr := recv.Type().(*types.Pointer); !isPtr {
			continue
		}
		okAll, seen := true, false
		ast.Inspect(n.body, func(x ast.Node) bool {
			switch r := x.(type) {
			case *ast.FuncLit:
				return false
			case *ast.ReturnStmt:
				seen = true
				if len(r.Results) != 1 {
					okAll = false
					return true
				}
				id, isId := r.Results[0].(*ast.Ident)
				if !isId || info.Uses[id] != recv {
					okAll = false
				}
			}
			return true
		})
		if okAll && seen {
			returnsRecv[fn] = true
		}
	}
}

func freshExpr(e ast.Expr) (ptr bool, ok bool) {
	switch x := e.(type) {
	case *ast.ParenExpr:
		return freshExpr(x.X)
	case *ast.UnaryExpr:
		if x.Op == token.AND {
			if _, isLit := x.X.(*ast.CompositeLit); isLit {
				return true, true
			}
		}
	case *ast.CompositeLit:
		return false, true
	case *ast.CallExpr:
		if id, isId := x.Fun.(*ast.Ident); isId && id.Name == "new" && len(x.Args) == 1 {
			return true, true
		}
	}
	return false, false
}

// moduleFunc: does the call expression call a function declared in this module
// (lunar/...)? Calls of function values and interface methods count as "yes".
func moduleCall(info *types.Info, c *ast.CallExpr) bool {
	var obj types.Object
	switch f := c.Fun.(type) {
	case *ast.Ident:
		obj = info.Uses[f]
	case *ast.SelectorExpr:
		if s, ok := info.Selections[f]; ok {
			obj = s.Obj()
			if _, isIface := s.Recv().Underlying().(*types.Interface); isIface {
				return true
			}
		} else {
			obj = info.Uses[f.Sel]
		}
	case *ast.IndexExpr:
		switch fx := f.X.(type) {
		case *ast.Ident:
			obj = info.Uses[fx]
		case *ast.SelectorExpr:
			obj = info.Uses[fx.Sel]
		}
	default:
		return true
	}
	switch o := obj.(type) {
	case *types.Builtin:
		return false
	case *types.Func:
		return o.Pkg() == nil || strings.HasPrefix(o.Pkg().Path(), "lunar/")
	case *types.TypeName: // conversion
		return false
	}
	return true
}

func computeOwnership(n *fnode) *ownInfo {
	info := n.pkg.TypesInfo
	oi := &ownInfo{until: map[*types.Var]token.Pos{}, ptr: map[*types.Var]bool{},
		lit: map[*types.Var]*ast.CompositeLit{}, zero: map[*types.Var]bool{}, tainted: map[*types.Var]map[string]bool{}, body: n.body}
	defPos := map[*types.Var]token.Pos{}
	declare := func(id *ast.Ident, ptr bool) {
		if id == nil || id.Name == "_" {
			return
		}
		if v, ok := info.Defs[id].(*types.Var); ok && v != nil {
			if !ptr && !isStructValue(v.Type()) {
				return
			}
			if ptr {
				if _, isPtr := v.Type().(*types.Pointer); !isPtr {
					return
				}
			}
			oi.until[v] = posInf
			oi.ptr[v] = ptr
			defPos[v] = id.Pos()
		}
	}
	// parameters / receiver / results of struct VALUE type are copies
	var ftype *ast.FuncType
	switch d := n.decl.(type) {
	case *ast.FuncDecl:
		ftype = d.Type
		if d.Recv != nil {
			for _, f := range d.Recv.List {
				for _, nm := range f.Names {
					if v, ok := info.Defs[nm].(*types.Var); ok {
						oi.recv = v
					}
					declare(nm, false)
				}
			}
		}
	case *ast.FuncLit:
		ftype = d.Type
	}
	if ftype != nil {
		for _, fl := range []*ast.FieldList{ftype.Params, ftype.Results} {
			if fl == nil {
				continue
			}
			for _, f := range fl.List {
				for _, nm := range f.Names {
					declare(nm, false)
				}
			}
		}
	}
	// definitions in the body
	ast.Inspect(n.body, func(x ast.Node) bool {
		switch s := x.(type) {
		case *ast.FuncLit:
			return false // its own locals are handled when the literal is analysed
		case *ast.AssignStmt:
			if s.Tok == token.DEFINE {
				for i, l := range s.Lhs {
					id, ok := l.(*ast.Ident)
					if !ok {
						continue
					}
					if len(s.Rhs) == len(s.Lhs) {
						if v, ok := info.Defs[id].(*types.Var); ok && v != nil {
							if cl := literalOf(s.Rhs[i]); cl != nil {
								oi.lit[v] = cl
							} else if c, isCall := s.Rhs[i].(*ast.CallExpr); isCall {
								if fid, isId := c.Fun.(*ast.Ident); isId && fid.Name == "new" {
									oi.zero[v] = true
								}
							}
						}
						if ptr, fresh := freshExprIn(info, s.Rhs[i]); fresh && ptr {
							declare(id, true)
							continue
						}
					} else if i == 0 && len(s.Rhs) == 1 { // v, err := NewT(...)
						if ptr, fresh := freshExprIn(info, s.Rhs[0]); fresh && ptr {
							declare(id, true)
							continue
						}
					}
					declare(id, false) // any initialiser: a struct VALUE is a copy
				}
			}
		case *ast.RangeStmt:
			if s.Tok == token.DEFINE {
				if id, ok := s.Key.(*ast.Ident); ok {
					declare(id, false)
				}
				if id, ok := s.Value.(*ast.Ident); ok {
					declare(id, false)
				}
			}
		case *ast.DeclStmt:
			if gd, ok := s.Decl.(*ast.GenDecl); ok {
				for _, sp := range gd.Specs {
					if vs, ok := sp.(*ast.ValueSpec); ok {
						for _, nm := range vs.Names {
							declare(nm, false)
							if len(vs.Values) == 0 {
								declare(nm, true) // `var v *T`: owned while only fresh objects are assigned to it
								if v, ok := info.Defs[nm].(*types.Var); ok && v != nil && isStructValue(v.Type()) {
									oi.zero[v] = true
								}
							}
						}
					}
				}
			}
		}
		return true
	})
	if len(oi.until) == 0 {
		return oi
	}
	// escaping uses
	var stack []ast.Node
	escape := func(v *types.Var, at token.Pos) {
		// inside a loop that does not contain the definition: owned only up to the loop
		for _, anc := range stack {
			switch anc.(type) {
			case *ast.ForStmt, *ast.RangeStmt:
				if defPos[v] < anc.Pos() && anc.Pos() < at {
					at = anc.Pos()
				}
			}
		}
		if at < oi.until[v] {
			oi.until[v] = at
		}
	}
	var visit func(x ast.Node) bool
	visit = func(x ast.Node) bool {
		if x == nil {
			stack = stack[:len(stack)-1]
			return true
		}
		stack = append(stack, x)
		id, ok := x.(*ast.Ident)
		if !ok {
			return true
		}
		v, isVar := info.Uses[id].(*types.Var)
		if !isVar {
			return true
		}
		if _, tracked := oi.until[v]; !tracked {
			return true
		}
		// classify the use by its ancestors
		inGoDeferLit := false
		for _, anc := range stack[:len(stack)-1] {
			switch anc.(type) {
			case *ast.GoStmt, *ast.DeferStmt, *ast.FuncLit:
				inGoDeferLit = true
			}
		}
		if inGoDeferLit {
			// position of the outermost go/defer/literal
			for _, anc := range stack {
				switch anc.(type) {
				case *ast.GoStmt, *ast.DeferStmt, *ast.FuncLit:
					escape(v, anc.Pos())
					return true
				}
			}
		}
		parent := stack[len(stack)-2]
		switch p := parent.(type) {
		case *ast.SelectorExpr:
			if p.X == id {
				if s := info.Selections[p]; s != nil && s.Kind() == types.MethodVal {
					if fn, ok := s.Obj().(*types.Func); ok {
						if o := fn.Origin(); o != nil {
							fn = o
						}
						if _, isIface := s.Recv().Underlying().(*types.Interface); isIface || leaksRecv[fn] {
							escape(v, id.Pos()) // the method hands its receiver on
						}
					}
				}
				return true // v.f / v.m(...)
			}
		case *ast.UnaryExpr:
			if p.Op == token.AND && len(stack) >= 3 {
				if c, ok := stack[len(stack)-3].(*ast.CallExpr); ok && !moduleCall(info, c) {
					for _, a := range c.Args {
						if a == p {
							return true // &v handed to library code
						}
					}
				}
			}
		case *ast.CallExpr:
			if !moduleCall(info, p) {
				for _, a := range p.Args {
					if a == id {
						return true // v handed to library code / builtin (len, append source ...)
					}
				}
			}
		case *ast.AssignStmt:
			// `v = ...` / `v := ...` re-definition of the variable itself is not a use of the object
			for li, l := range p.Lhs {
				if l == id {
					if oi.ptr[v] && p.Tok != token.DEFINE {
						fresh := false
						if len(p.Rhs) == len(p.Lhs) {
							_, fresh = freshExprIn(info, p.Rhs[li])
						} else if li == 0 && len(p.Rhs) == 1 {
							_, fresh = freshExprIn(info, p.Rhs[0])
						}
						if !fresh {
							escape(v, id.Pos()) // the pointer variable now names something else
						}
					}
					return true
				}
			}
		case *ast.StarExpr:
			if len(stack) >= 3 {
				if s, ok := stack[len(stack)-3].(*ast.SelectorExpr); ok && s.X == p {
					return true // (*v).f
				}
			}
		case *ast.ReturnStmt:
			// `return v`: this call is over; code later in the source is on a path that
			// has not returned (what the CALLER does with the value is the caller's business)
			return true
		}
		if u, ok := parent.(*ast.UnaryExpr); ok && u.Op == token.AND && len(stack) >= 3 {
			if _, isRet := stack[len(stack)-3].(*ast.ReturnStmt); isRet {
				return true // return &v
			}
		}
		escape(v, id.Pos())
		return true
	}
	ast.Inspect(n.body, visit)
	return oi
}

// ownedObject: does expression e (the X of an access X.f) denote memory that
// belongs to a variable owned at position pos? root = that variable.
func (oi *ownInfo) ownedObject(info *types.Info, e ast.Expr, pos token.Pos) (*types.Var, bool) {
	switch x := e.(type) {
	case *ast.ParenExpr:
		return oi.ownedObject(info, x.X, pos)
	case *ast.StarExpr:
		if id, ok := x.X.(*ast.Ident); ok {
			if v, ok := info.Uses[id].(*types.Var); ok && oi.ptr[v] {
				if until, tracked := oi.until[v]; tracked && pos < until {
					return v, true
				}
			}
		}
		return nil, false
	case *ast.Ident:
		v, ok := info.Uses[x].(*types.Var)
		if !ok {
			return nil, false
		}
		until, tracked := oi.until[v]
		if !tracked || pos >= until {
			return nil, false
		}
		return v, true
	case *ast.SelectorExpr:
		// an embedded / nested struct VALUE is part of the same object
		s, ok := info.Selections[x]
		if !ok || s.Kind() != types.FieldVal || !selHopsOK(s) || !isStructValue(s.Obj().Type()) {
			return nil, false
		}
		return oi.ownedObject(info, x.X, pos)
	}
	return nil, false
}

// selHopsOK: the selection reaches its field without following a pointer, except
// possibly the one at its root (x.f with x a pointer): every embedded field on the
// promotion path is a struct value.
func selHopsOK(s *types.Selection) bool {
	t := s.Recv()
	if p, ok := t.(*types.Pointer); ok {
		t = p.Elem()
	}
	idx := s.Index()
	for _, i := range idx[:len(idx)-1] {
		st, ok := t.Underlying().(*types.Struct)
		if !ok {
			return false
		}
		t = st.Field(i).Type()
		if !isStructValue(t) {
			return false
		}
	}
	return true
}

// receiverRooted: X of an access X.f goes through the method's receiver without
// a further pointer hop (recv.f, recv.inner.f with inner a struct value).
func (oi *ownInfo) receiverRooted(info *types.Info, e ast.Expr) bool {
	if oi.recv == nil {
		return false
	}
	switch x := e.(type) {
	case *ast.ParenExpr:
		return oi.receiverRooted(info, x.X)
	case *ast.StarExpr:
		return oi.receiverRooted(info, x.X)
	case *ast.Ident:
		return info.Uses[x] == oi.recv
	case *ast.SelectorExpr:
		s, ok := info.Selections[x]
		if !ok || s.Kind() != types.FieldVal || !selHopsOK(s) || !isStructValue(s.Obj().Type()) {
			return false
		}
		return oi.receiverRooted(info, x.X)
	}
	return false
}

// receiver-confined methods (see the head comment): fixpoint over the call graph
func computeRecvConfined() {
	// a package-level variable nobody writes after start-up is a constant: reading it does not
	// take the method off its receiver
	written := map[string]bool{}
	for _, n := range nodes {
		if n.dead || (len(n.roles) == 1 && n.roles["init"]) {
			continue
		}
		for _, a := range n.accesses {
			if a.Write && strings.Contains(a.Field, "."+pkgVarType+".") {
				written[a.Field] = true
			}
		}
	}
	for _, n := range nodes {
		n.recvConfined = n.own != nil && n.own.recv != nil && !n.offRecv
		for _, v := range n.pkgVars {
			if written[v] {
				n.recvConfined = false
			}
		}
	}
	changed := true
	for changed {
		changed = false
		for _, n := range nodes {
			if !n.recvConfined {
				continue
			}
			for _, c := range n.calls {
				if c.callee == nil {
					continue
				}
				if c.isGo || !c.onRecv || !c.callee.recvConfined {
					n.recvConfined = false
					changed = true
					break
				}
			}
		}
	}
}

// returnsFresh: every return statement's first result is a freshly allocated
// object that the function still owns at that point; the function has exactly one
// pointer-typed first result.
func returnsFresh(n *fnode) bool {
	fd, ok := n.decl.(*ast.FuncDecl)
	if !ok || fd.Type.Results == nil || len(fd.Type.Results.List) == 0 || n.own == nil {
		return false
	}
	info := n.pkg.TypesInfo
	if tv, ok := info.Types[fd.Type.Results.List[0].Type]; !ok {
		return false
	} else if _, isPtr := tv.Type.(*types.Pointer); !isPtr {
		return false
	}
	okAll, seen := true, false
	ast.Inspect(n.body, func(x ast.Node) bool {
		switch r := x.(type) {
		case *ast.FuncLit:
			return false
		case *ast.ReturnStmt:
			if len(r.Results) == 0 {
				okAll = false
				return true
			}
			seen = true
			e := r.Results[0]
			if id, isId := e.(*ast.Ident); isId {
				if id.Name == "nil" {
					return true
				}
				if v, isVar := info.Uses[id].(*types.Var); isVar && n.own.ptr[v] && n.own.until[v] >= r.Pos() {
					return true
				}
			}
			if ptr, fresh := freshExprIn(info, e); fresh && ptr {
				return true
			}
			// return &v with v a struct VALUE local of this call, never handed out before
			if u, isU := e.(*ast.UnaryExpr); isU && u.Op == token.AND {
				if id, isId := u.X.(*ast.Ident); isId {
					if v, isVar := info.Uses[id].(*types.Var); isVar && !n.own.ptr[v] {
						if until, tracked := n.own.until[v]; tracked && until >= r.Pos() {
							return true
						}
					}
				}
			}
			okAll = false
		}
		return true
	})
	return okAll && seen
}

// ownedReceiver methods: EVERY call site of the method (at least one, none of them
// through an interface, a function value or a go / defer statement) is on an object
// its caller still owns - or on the caller's own receiver inside another such
// method. What such a method reaches through its receiver is an object under
// construction: no other goroutine has it yet (queueProcessor.init called by
// NewProcessor before `go proc.process()`).
func computeOwnedReceiver() {
	type site struct {
		caller *fnode
		c      callSite
	}
	sites := map[*fnode][]site{}
	for _, m := range nodes {
		if m.dead {
			continue
		}
		for _, c := range m.calls {
			if c.callee != nil {
				sites[c.callee] = append(sites[c.callee], site{m, c})
			}
		}
	}
	for _, n := range nodes {
		fd, ok := n.decl.(*ast.FuncDecl)
		// (an entry-table row with "!" only pins the role of a function whose callers are
		// all in the analysed packages; any other entry may be called from outside)
		n.ownedRecv = ok && fd.Recv != nil && len(sites[n]) > 0 && !n.byIface && !n.goStart &&
			(!n.isEntry || (n.tableEntry && n.exclusive))
	}
	changed := true
	for changed {
		changed = false
		for _, n := range nodes {
			if !n.ownedRecv {
				continue
			}
			for _, s := range sites[n] {
				nested := s.c.viaFreshField != "" && s.caller.ownedRecv && fieldOnlyIn(s.c.viaFreshField, s.caller)
				if nested {
					nestedOwned[s.caller.id+" -> "+n.id] = s.c.viaFreshField
				}
				if s.c.isGo || !(s.c.owned || nested || (s.c.onRecv && s.caller.ownedRecv)) {
					n.ownedRecv = false
					changed = true
					break
				}
			}
		}
	}
}

var nestedOwned = map[string]string{}

// fieldOnlyIn: every access to the field (anywhere in the analysed packages) is written in m
func fieldOnlyIn(field string, m *fnode) bool {
	for _, n := range nodes {
		if n == m || n.dead {
			continue
		}
		for _, a := range n.accesses {
			if a.Field == field {
				return false
			}
		}
	}
	return true
}

func receiverLeaks(n *fnode) (direct bool, recvCalls []*types.Func) {
	fd, ok := n.decl.(*ast.FuncDecl)
	if !ok || fd.Recv == nil || len(fd.Recv.List) == 0 || len(fd.Recv.List[0].Names) == 0 {
		return false, nil
	}
	info := n.pkg.TypesInfo
	recv, _ := info.Defs[fd.Recv.List[0].Names[0]].(*types.Var)
	if recv == nil {
		return false, nil
	}
	if _, isPtr := recv.Type().(*types.Pointer); !isPtr {
		return false, nil // a value receiver is a copy
	}
	var stack []ast.Node
	ast.Inspect(n.body, func(x ast.Node) bool {
		if x == nil {
			stack = stack[:len(stack)-1]
			return true
		}
		stack = append(stack, x)
		id, ok := x.(*ast.Ident)
		if !ok || info.Uses[id] != recv {
			return true
		}
		for _, anc := range stack[:len(stack)-1] {
			switch anc.(type) {
			case *ast.GoStmt, *ast.FuncLit:
				direct = true
				return true
			}
		}
		parent := stack[len(stack)-2]
		switch p := parent.(type) {
		case *ast.SelectorExpr:
			if p.X == id {
				// recv.m(...): remember the callee
				if len(stack) >= 3 {
					if c, isCall := stack[len(stack)-3].(*ast.CallExpr); isCall && c.Fun == p {
						if s := info.Selections[p]; s != nil && s.Kind() == types.MethodVal {
							if fn, ok := s.Obj().(*types.Func); ok {
								if o := fn.Origin(); o != nil {
									fn = o
								}
								recvCalls = append(recvCalls, fn)
							}
						}
					}
				}
				return true
			}
		case *ast.ReturnStmt:
			return true
		case *ast.StarExpr:
			return true
		case *ast.CallExpr:
			if !moduleCall(info, p) {
				return true
			}
		case *ast.BinaryExpr: // recv == nil
			return true
		}
		direct = true
		return true
	})
	return direct, recvCalls
}

func computeLeaks() {
	calls := map[*types.Func][]*types.Func{}
	for _, n := range nodes {
		fd, ok := n.decl.(*ast.FuncDecl)
		if !ok || fd.Recv == nil {
			continue
		}
		fn, _ := n.pkg.TypesInfo.Defs[fd.Name].(*types.Func)
		if fn == nil {
			continue
		}
		d, rc := receiverLeaks(n)
		if d {
			leaksRecv[fn] = true
		}
		calls[fn] = rc
	}
	changed := true
	for changed {
		changed = false
		for fn, rc := range calls {
			if leaksRecv[fn] {
				continue
			}
			for _, c := range rc {
				if leaksRecv[c] {
					leaksRecv[fn] = true
					changed = true
					break
				}
			}
		}
	}
}

func literalOf(e ast.Expr) *ast.CompositeLit {
	switch x := e.(type) {
	case *ast.ParenExpr:
		return literalOf(x.X)
	case *ast.UnaryExpr:
		if x.Op == token.AND {
			return literalOf(x.X)
		}
	case *ast.CompositeLit:
		return x
	}
	return nil
}

// freshContainerExpr: the expression makes a new container (or none): make(...), a composite
// literal, nil, or append(v.f, ...) onto the very field it is assigned to.
func freshContainerExpr(info *types.Info, e ast.Expr, v *types.Var, field string) bool {
	switch x := e.(type) {
	case *ast.ParenExpr:
		return freshContainerExpr(info, x.X, v, field)
	case *ast.CompositeLit:
		return true
	case *ast.Ident:
		return x.Name == "nil" && info.Uses[x] == types.Universe.Lookup("nil")
	case *ast.CallExpr:
		id, ok := x.Fun.(*ast.Ident)
		if !ok {
			return false
		}
		if _, isB := info.Uses[id].(*types.Builtin); !isB {
			return false
		}
		switch id.Name {
		case "make":
			return true
		case "append":
			if len(x.Args) == 0 {
				return false
			}
			if s, ok := x.Args[0].(*ast.SelectorExpr); ok && s.Sel.Name == field {
				if b, ok := s.X.(*ast.Ident); ok && info.Uses[b] == v {
					return true
				}
			}
			return freshContainerExpr(info, x.Args[0], v, field)
		}
	}
	return false
}

// computeFreshContainers (lazily, once per body): for every owned variable v that is DEFINED by a
// composite literal / new / var (so its fields start as what the literal says, or zero), field f is
// tainted when the literal initialises it with anything but a fresh container, when some
// assignment `v.f = e` has a non-fresh e, or when v.f is mentioned in any way other than as the
// base of an element access, the argument of len/cap/append/copy/delete/clear, a range operand or
// an assignment target (it may then have been handed to somebody who keeps it).
func (oi *ownInfo) scan(info *types.Info) {
	oi.scanned = true
	taint := func(v *types.Var, f string) {
		if oi.tainted[v] == nil {
			oi.tainted[v] = map[string]bool{}
		}
		oi.tainted[v][f] = true
	}
	for v, cl := range oi.lit {
		for _, el := range cl.Elts {
			kv, ok := el.(*ast.KeyValueExpr)
			if !ok {
				taint(v, "*") // positional literal: not looked into
				continue
			}
			if k, ok := kv.Key.(*ast.Ident); ok && !freshContainerExpr(info, kv.Value, v, k.Name) {
				taint(v, k.Name)
			}
		}
	}
	var stack []ast.Node
	ast.Inspect(oi.body, func(x ast.Node) bool {
		if x == nil {
			stack = stack[:len(stack)-1]
			return true
		}
		stack = append(stack, x)
		sel, ok := x.(*ast.SelectorExpr)
		if !ok {
			return true
		}
		id, ok := sel.X.(*ast.Ident)
		if !ok {
			return true
		}
		v, ok := info.Uses[id].(*types.Var)
		if !ok {
			return true
		}
		if _, tracked := oi.until[v]; !tracked {
			return true
		}
		if tv, ok := info.Types[sel]; ok {
			switch tv.Type.Underlying().(type) {
			case *types.Map, *types.Slice:
			default:
				return true
			}
		} else {
			return true
		}
		parent := stack[len(stack)-2]
		switch p := parent.(type) {
		case *ast.IndexExpr:
			if p.X == sel {
				return true
			}
		case *ast.RangeStmt:
			if p.X == sel {
				return true
			}
		case *ast.CallExpr:
			if fid, ok := p.Fun.(*ast.Ident); ok {
				if _, isB := info.Uses[fid].(*types.Builtin); isB {
					switch fid.Name {
					case "len", "cap", "delete", "clear":
						return true
					case "copy":
						return true
					case "append":
						if len(p.Args) > 0 && p.Args[0] == sel {
							// fine when the result goes back into v.f (checked at the assignment)
							if len(stack) >= 3 {
								if as, ok := stack[len(stack)-3].(*ast.AssignStmt); ok && len(as.Lhs) == 1 {
									if ls, ok := as.Lhs[0].(*ast.SelectorExpr); ok && ls.Sel.Name == sel.Sel.Name {
										if b, ok := ls.X.(*ast.Ident); ok && info.Uses[b] == v {
											return true
										}
									}
								}
							}
						}
					}
				}
			}
		case *ast.AssignStmt:
			for i, l := range p.Lhs {
				if l == sel {
					if len(p.Rhs) != len(p.Lhs) || !freshContainerExpr(info, p.Rhs[i], v, sel.Sel.Name) {
						taint(v, sel.Sel.Name)
					}
					return true
				}
			}
		}
		taint(v, sel.Sel.Name)
		return true
	})
}

// freshContainer: x = v.f with v the owned root: the container in v.f was made in this body
func (oi *ownInfo) freshContainer(info *types.Info, root *types.Var, x *ast.SelectorExpr) bool {
	id, ok := x.X.(*ast.Ident)
	if !ok || info.Uses[id] != root {
		return false
	}
	if _, isLit := oi.lit[root]; !isLit && !oi.zero[root] {
		return false // a copy / a constructor's result: its containers may be shared
	}
	if !oi.scanned {
		oi.scan(info)
	}
	return !oi.tainted[root]["*"] && !oi.tainted[root][x.Sel.Name]
}

// receiverFreshFields: `recv.f = <fresh object>` / `recv.f, err = NewT(...)` in a method body, for
// fields that get nothing else in this body: field id -> position of the (first) assignment.
// A call recv.f.m() after it is a call on an object this method has just made; it is treated as
// a call on an owned object when the method's own receiver is an object under construction and
// nothing outside this method touches the field (computeOwnedReceiver).
func receiverFreshFields(n *fnode) map[string]token.Pos {
	out := map[string]token.Pos{}
	if n.own == nil || n.own.recv == nil {
		return out
	}
	info := n.pkg.TypesInfo
	bad := map[string]bool{}
	ast.Inspect(n.body, func(x ast.Node) bool {
		as, ok := x.(*ast.AssignStmt)
		if !ok {
			return true
		}
		for i, l := range as.Lhs {
			sel, ok := l.(*ast.SelectorExpr)
			if !ok || !n.own.receiverRooted(info, sel.X) {
				continue
			}
			fid, _, ok := fieldID(info, sel)
			if !ok {
				continue
			}
			var rhs ast.Expr
			if len(as.Rhs) == len(as.Lhs) {
				rhs = as.Rhs[i]
			} else if i == 0 && len(as.Rhs) == 1 {
				rhs = as.Rhs[0]
			}
			if rhs != nil {
				if ptr, fresh := freshExprIn(info, rhs); fresh && ptr {
					if _, seen := out[fid]; !seen {
						out[fid] = as.End()
					}
					continue
				}
			}
			bad[fid] = true
		}
		return true
	})
	for f := range bad {
		delete(out, f)
	}
	return out
}
