package main

// Get-or-create sites (seeded change C18-12).
//
// A function body that looks a key up in a map FIELD and later stores into the
// same map field is a check-then-act sequence: the store is justified by what
// the look-up saw. When the map is protected by a lock, the two must sit inside
// ONE continuous hold of that lock (exclusive at the store); otherwise two
// goroutines that are both "the first" of a key each miss, each build an object
// and the later store replaces the earlier object while its creator still uses
// it. No data race is involved (every map access is locked), so the lock-set
// discipline is silent; this report is the static claim
//
//	"look-up of m[k] and store into m[k] happen under one continuous hold of the
//	 same lock"
//
// for EVERY such site of the analysed packages, discovered mechanically (nothing
// to list by hand; config get_or_create_claimed names the sites that must be
// found, so that a refactoring that hides a claimed site from the discovery is
// noticed). theories/C18/GetOrCreate.v proves what the claim buys: get-or-create
// as one step gives every caller of a key the same object in every schedule
// (refuted for look-up / unlock / lock / store).
//
// Rule, per body and map field F with at least one exclusive lock under which F
// is written somewhere (guards of F): for every store `x.F[k] = v` written while
// a guard L is held, that has an element read of F (x.F[k], len, range) earlier
// in the body: OK iff L is held on entry of the function (caller's critical
// section), or some earlier read of F is written in the SAME critical section of
// L as the store (L held at the read, same acquisition count of L in the body;
// the store's hold is exclusive, so the look-up's is too). A read of F under a
// shared hold, or in an earlier acquisition, does not count. A read-locked fast
// path followed by
// lock + re-check + store is therefore accepted (the re-check is the look-up
// that decides); a fast path followed by lock + store is not.
//
// Not covered: look-up and store in different functions (helper that stores),
// maps reached through local aliases, sync.Map (LoadOrStore is atomic by
// contract; Load followed by Store is not discovered).

import (
	"fmt"
	"sort"
	"strings"
)

type gocSite struct {
	Func    string `json:"func"`
	Field   string `json:"field"`
	Lock    string `json:"lock"`
	File    string `json:"file"`
	Lookup  int    `json:"lookup_line"`
	Store   int    `json:"store_line"`
	Problem string `json:"problem"`
}

var (
	gocReport = map[string]string{}
	gocSites  []gocSite
)

func checkGetOrCreate(all []Access) (map[string]string, []gocSite) {
	guards := map[string]map[string]bool{} // field -> exclusive locks it is written under somewhere
	for _, a := range all {
		if a.Write {
			for _, l := range a.Locks {
				if !strings.HasSuffix(l, "#R") {
					if guards[a.Field] == nil {
						guards[a.Field] = map[string]bool{}
					}
					guards[a.Field][l] = true
				}
			}
		}
	}
	out := map[string]string{}
	var sites []gocSite
	ids := make([]string, 0, len(nodes))
	for id := range nodes {
		ids = append(ids, id)
	}
	sort.Strings(ids)
	for _, id := range ids {
		n := nodes[id]
		if n.dead {
			continue
		}
		for _, w := range n.accesses {
			if !w.mapStore || !w.Write || len(guards[w.Field]) == 0 {
				continue
			}
			var reads []*Access
			for _, r := range n.accesses {
				if r.Field == w.Field && r.mapElem && !r.Write && r.pos < w.pos {
					reads = append(reads, r)
				}
			}
			if len(reads) == 0 {
				continue // a plain store, no look-up decides it
			}
			heldAtW := map[string]bool{}
			for _, l := range n.locksAt[w] {
				heldAtW[canon(l)] = true
			}
			var gl []string
			for l := range guards[w.Field] {
				gl = append(gl, l)
			}
			sort.Strings(gl)
			lockName, ok, locked := "", false, false
			for _, l := range gl {
				if n.entry[l] {
					lockName, ok, locked = l, true, true
					break
				}
				if !heldAtW[l] {
					continue
				}
				locked = true
				if lockName == "" {
					lockName = l
				}
				for _, r := range reads {
					same := false
					for _, rl := range n.locksAt[r] {
						if canon(rl) == l {
							same = true
						}
					}
					if same && epochOf(r, l) == epochOf(w, l) {
						lockName, ok = l, true
					}
				}
				if ok {
					break
				}
			}
			if !locked {
				continue // the store holds none of the field's guards: judged by the lock-set discipline
			}
			key := n.id + ":" + w.Field
			problem := ""
			if !ok {
				last := reads[len(reads)-1]
				problem = fmt.Sprintf("stores into the map (line %d, under %s) outside the critical section of the look-up that decided it (line %d): look-up / unlock / lock / store without a re-check",
					w.Line, lockName, last.Line)
			}
			if old, seen := out[key]; seen && (old != "" || problem == "") {
				continue
			}
			out[key] = problem
			sites = append(sites, gocSite{Func: n.id, Field: w.Field, Lock: lockName, File: w.File, Lookup: reads[len(reads)-1].Line, Store: w.Line, Problem: problem})
		}
	}
	for _, c := range cfg.GetOrCreateClaimed {
		if _, found := out[c]; !found {
			out[c] = "claimed get-or-create site not found by the translator (look-up and store no longer in this body?)"
		}
	}
	return out, sites
}

// epochOf: the acquisition count of lock l (canonical id) at access a
func epochOf(a *Access, l string) int {
	e := 0
	for k, v := range a.epochs {
		if canon(k) == l && v > e {
			e = v
		}
	}
	return e
}
