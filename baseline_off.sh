#!/bin/bash
# runs the repository's own test suite with the verif guard OFF (no -tags verif)
export GOFLAGS=-mod=mod GOPROXY=off GOSUMDB=off GOTOOLCHAIN=local
rc=0
for m in proxy/src/libs/shared-model proxy/src/libs/toolkit-core proxy/src/services/aggregation-output-plugin proxy/src/services/async-service proxy/src/services/flows-validator proxy/src/services/lunar-engine; do
  (cd /repo/$m && go test -vet=off -count=1 -timeout 25m ./...) || rc=1
done
exit $rc
