#!/usr/bin/env python3
"""Rewrites the region between <!-- SEEDS:BEGIN --> and <!-- SEEDS:END --> of DESIGN.md
from seeded/*/meta.json (one row per confirmed seeded change)."""
import glob, json, os, re
rows = []
for d in sorted(glob.glob('/verif/seeded/*')):
    mp = os.path.join(d, 'meta.json')
    if not os.path.exists(mp):
        continue
    m = json.load(open(mp))
    rows.append("| `%s` | %s | %s | %s |" % (m['id'], m['breaks_property'], m['needs_to_manifest'].replace('|', '/'),
                                             m['detected_by'].replace('|', '/')))
table = "| seeded change (`seeded/<id>/`) | property | needs, to manifest | reported by |\n|---|---|---|---|\n" + "\n".join(rows) + "\n"
p = '/verif/DESIGN.md'
s = open(p).read()
s2 = re.sub(r"(<!-- SEEDS:BEGIN -->\n).*?(<!-- SEEDS:END -->)", lambda mo: mo.group(1) + table + mo.group(2), s, flags=re.S)
kf = json.load(open('/verif/known_findings.json'))
for f in sorted(glob.glob('/verif/known_findings.d/*.json')):
    kf += json.load(open(f))
kf.sort(key=lambda k: (k['property'], k['id']))
frows = []
for k in kf:
    what = k['what_fails']
    what = re.sub(r"^fixed: property=\S+ \S+ ", "", what)
    if len(what) > 330:
        what = what[:330].rsplit(' ', 1)[0] + " …"
    st = ("fixed `%s`" % k.get('commit')) if k['status'] == 'fixed' else "**open** (KNOWN-FINDING, signature `%s`)" % k['signature']
    frows.append("| %s | %s | %s | %s |" % (k['id'], k['property'], st, what.replace('|', '/').replace('\n', ' ')))
ftable = "| id | property | status | what fails / failed |\n|---|---|---|---|\n" + "\n".join(frows) + "\n"
s2 = re.sub(r"(<!-- FINDINGS:BEGIN -->\n).*?(<!-- FINDINGS:END -->)", lambda mo: mo.group(1) + ftable + mo.group(2), s2, flags=re.S)
open(p, 'w').write(s2)
print(len(rows), "seed rows,", len(frows), "finding rows")
