#!/bin/bash
# Offline setup after a fresh restore: C18 facts, full .vo build of every claimed
# property's Coq modules (never -vos), harness binaries warmed.
set -e
cd "$(dirname "$0")"
export GOFLAGS=-mod=mod GOPROXY=off GOSUMDB=off GOTOOLCHAIN=local
mkdir -p build/bin build/run/C18
(cd lockset && go build -o ../build/bin/lockset .)
build/bin/lockset -repo /repo -config lockset/config.json -coq theories/C18/Accesses.v -json build/run/C18/facts.json
targets=$(python3 - <<'PY'
import json
for p in [l.strip() for l in open('claimed.txt') if l.strip() and not l.startswith('#')]:
    for m in json.load(open('props/%s.json' % p))['coq_modules']:
        print(m.replace('.', '/') + '.vo')
PY
)
(cd theories && ./gen_coqproject.sh && make -f Makefile.coq -j16 $targets Lib/Corr.vo)
for p in $(grep -v '^#' claimed.txt); do
  n=$(echo $p | tr A-Z a-z)
  if [ -d harness/cmd/$n ]; then
    flags=""; [ "$n" = c18 ] && flags="-race"
    (cd harness && go build $flags -tags verif -o ../build/bin/$n ./cmd/$n) || echo "warning: harness $n did not build"
  fi
done
echo setup done
