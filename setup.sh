#!/bin/bash
# Offline setup after a fresh restore: generated Coq files (pre_build of every claimed
# property), full .vo build of every claimed
# property's Coq modules (never -vos), harness binaries warmed.
set -e
cd "$(dirname "$0")"
export GOFLAGS=-mod=mod GOPROXY=off GOSUMDB=off GOTOOLCHAIN=local
mkdir -p build/bin build/run
# files regenerated from the source: the pre_build of every claimed property that has one
# (C18 access facts by /verif/lockset, theories/Cxx/Gen*.v by /verif/gotocoq) - the same
# commands ./check runs before every Coq build
python3 - > build/prebuild.sh <<'PY'
import json
print('set -e')
for p in [l.strip() for l in open('claimed.txt') if l.strip() and not l.startswith('#')]:
    pre = json.load(open('props/%s.json' % p)).get('pre_build')
    if pre:
        print('echo "pre_build %s"' % p)
        print('( %s )' % pre)
PY
VERIF_REPO=/repo VERIF_DIR="$PWD" VERIF_BUILD="$PWD/build" VERIF_TIER=quick sh build/prebuild.sh
targets=$(python3 - <<'PY'
import json
for p in [l.strip() for l in open('claimed.txt') if l.strip() and not l.startswith('#')]:
    for m in json.load(open('props/%s.json' % p))['coq_modules']:
        print(m.replace('.', '/') + '.vo')
PY
)
(cd theories && ./gen_coqproject.sh && make -f Makefile.coq -j16 $targets Lib/Corr.vo)
for p in $(grep -v '^#' claimed.txt); do
  n=$(echo $p | tr A-Z a-z)
  if [ -d harness/cmd/$n ]; then
    flags=""; [ "$n" = c18 ] && flags="-race"
    (cd harness && go build $flags -tags verif -o ../build/bin/$n ./cmd/$n) || echo "warning: harness $n did not build"
  fi
done
echo setup done
