#!/bin/bash
# Runs the repository's pinned test suite with the verif guard OFF and compares with the
# stable_pass list of /root/.vp/BASELINE.json. usage: baseline_json.sh [outdir]
export GOFLAGS=-mod=mod GOPROXY=off GOSUMDB=off GOTOOLCHAIN=local
out=${1:-/tmp/bl}; mkdir -p $out; : > $out/run.json
for m in proxy/src/libs/shared-model proxy/src/libs/toolkit-core proxy/src/services/aggregation-output-plugin proxy/src/services/async-service proxy/src/services/flows-validator proxy/src/services/lunar-engine; do
  (cd /repo/$m && go test -json -vet=off -count=1 -timeout 25m ./... >> $out/run.json 2>>$out/err.txt)
done
find /repo -name policies.yaml -newer $out/err.txt -path '*streams*' 2>/dev/null
git -C /repo checkout -- proxy/src/services/lunar-engine/streams/validation/policies.yaml proxy/src/services/lunar-engine/routing/policies.yaml 2>/dev/null; rm -f /repo/proxy/src/services/lunar-engine/streams/policies.yaml
git -C /repo status --short | head
python3 - $out/run.json <<'PY'
import json,sys
st={}
for l in open(sys.argv[1]):
    try: e=json.loads(l)
    except Exception: continue
    if e.get('Test') and e.get('Action') in('pass','fail','skip'):
        st[e['Package']+'::'+e['Test']]=e['Action']
want=json.load(open('/root/.vp/BASELINE.json'))['stable_pass']
bad=[t for t in want if st.get(t)!='pass']
print('stable_pass',len(want),'passing now',len(want)-len(bad))
for t in bad: print('NOT PASSING',t,st.get(t))
PY
