package main

// Property monitor of suite "plugin": the property restated over what
// StrategyBasedQueuePlugin.OnRequest did, per remedy.  It looks only at
// outcomes the property speaks about — who was let through and when, who
// waited, who was refused and when — never at how many queues the plugin
// constructed.  "A strategy-based queue" = the requests made with one remedy
// configuration (remedy name + quota + window; a remedy whose strategy is
// changed by a policy reload starts a new queue, as the plugin's QueueKey says).
//
//   - per remedy and aligned window: #requests let through (NoOpAction)  <= quota
//        plugin:over-release:per-remedy-window
//     Histories contain metrics collections (event "scrape": the plugin's
//     requests_in_queue gauge callback ran).  The property says nothing about
//     them, so they are no event of any rule: every bound holds across them
//     unchanged (the last collection before an over-release is named in the hit
//     for the reader).
//   - per remedy: a request is admitted to wait only while fewer than its queue
//     size wait                                             plugin:size-bound
//   - immediate refusal only when >= queue size requests of the remedy wait
//        plugin:reject-not-full  (plugin:cross-remedy-interference when the
//        queue would be full only if other remedies' waiters were counted)
//   - delayed refusal only when the configured TTL has elapsed   plugin:ttl-early
//   - a waiter whose turn had come is not left to expire.  Evaluated where free
//     quota is disposed of, as in monitor.go: after a roll-over of the remedy
//     (best waiter left although quota is free / a worse one was served), when a
//     newcomer is let through at once while somebody waits, and when a request
//     has to wait although, at its arrival, its remedy had quota free in the
//     current window and nobody waited.                      plugin:strand:<why>
//     (plugin:cross-remedy-interference when the quota is used up only if the
//     releases of other remedies with the same strategy are counted)
//   - the action: NoOpAction (nil error) iff the queue answered true, else the
//     early response with the configured status; NoOpAction + ErrMissingConfig
//     for a remedy without configuration; OnResponse is a no-op
//        plugin:wrong-verdict-action
//
// The lost hand-off / barging schedules (F-C10, F-C10b) are not produced by this
// suite: every waiter parks within its `enq` operation and after a boundary the
// roll-over passes run before the next arrival.

import (
	"fmt"

	c "verifharness/common"
)

const (
	sigOverRelease = "plugin:over-release:per-remedy-window"
	sigCross       = "plugin:cross-remedy-interference"
	sigVerdict     = "plugin:wrong-verdict-action"
)

type pmreq struct {
	id, prio    int
	ts, at, ttl int64
	qsize       int64
	mark        string
	cross       bool
}

type pgroup struct {
	key     [3]int64
	quota   int64
	w       int64
	waiting []*pmreq
	rel     map[int64]int64
	pend    *ppass
}

type ppass struct {
	at       int64
	released []*pmreq
}

// priority as documented: configured priority of the header's group, 0 (the
// highest) when there is no prioritization, no such header or no such group
func mprio(r PRemedy, hdrs map[string]string) int {
	if r.Prz == nil {
		return 0
	}
	return r.Prz.Groups[hdrs[r.Prz.Header]]
}

func pbetter(a, b *pmreq) bool {
	if a.prio != b.prio {
		return a.prio < b.prio
	}
	return a.ts < b.ts
}

func pmonitor(k *PCase) []c.Hit {
	var hits []c.Hit
	add := func(sig, dem, obs string) {
		hits = append(hits, c.Hit{Signature: sig, Demanded: dem, Observed: obs, Case: k})
	}
	groups := map[[3]int64]*pgroup{}
	var gorder []*pgroup
	group := func(rem int) *pgroup {
		key := k.key(rem)
		g := groups[key]
		if g == nil {
			r := k.Remedies[rem]
			g = &pgroup{key: key, quota: r.Quota, w: r.WSec * sec, rel: map[int64]int64{}}
			groups[key] = g
			gorder = append(gorder, g)
		}
		return g
	}
	reqs := map[int]*pmreq{}
	reqGroup := map[int]*pgroup{}
	lastScrape := int64(-1)

	best := func(g *pgroup) *pmreq {
		var b *pmreq
		for _, w := range g.waiting {
			if b == nil || pbetter(w, b) {
				b = w
			}
		}
		return b
	}
	grant := func(g *pgroup, rem, id int, at int64) {
		win := at / g.w
		g.rel[win]++
		if g.rel[win] > g.quota {
			add(sigOverRelease,
				fmt.Sprintf("remedy %q (quota %d per %d s): at most %d requests are let through in the window [%d,%d)",
					k.Remedies[rem].Name, g.quota, g.w/sec, g.quota, win*g.w, (win+1)*g.w),
				fmt.Sprintf("request %d is #%d let through in that window (at %d)%s", id, g.rel[win], at, scrapeNote(lastScrape, win*g.w)))
		}
	}
	closePass := func(g *pgroup) {
		if g.pend == nil {
			return
		}
		p := g.pend
		g.pend = nil
		b := best(g)
		if b == nil {
			return
		}
		if g.rel[p.at/g.w] < g.quota && b.mark == "" {
			b.mark = fmt.Sprintf("quota-free-after-pass@%d", p.at)
		}
		for _, r := range p.released {
			if pbetter(b, r) && b.mark == "" {
				b.mark = fmt.Sprintf("worse-served-first@%d(by %d)", p.at, r.id)
			}
		}
	}
	closeAll := func() {
		for _, g := range gorder {
			closePass(g)
		}
	}
	// action returned vs. what the queue answered
	verdict := func(e PEv, rem int) (released bool) {
		r := k.Remedies[rem]
		switch {
		case e.QAnswer == nil:
			add(sigVerdict, fmt.Sprintf("request %d: OnRequest returns what the remedy's queue answered", e.ID),
				fmt.Sprintf("it returned %s/%d at %d without an answer of the queue", e.Kind, e.Status, e.At))
		case *e.QAnswer && e.Kind != "noop":
			add(sigVerdict, fmt.Sprintf("request %d was let through by its queue: NoOpAction, nil", e.ID),
				fmt.Sprintf("%s status=%d %s", e.Kind, e.Status, e.Body))
		case !*e.QAnswer && (e.Kind != "early" || e.Status != r.Status):
			add(sigVerdict, fmt.Sprintf("request %d was refused by its queue: early response with the configured status %d", e.ID, r.Status),
				fmt.Sprintf("%s status=%d %s", e.Kind, e.Status, e.Body))
		}
		return e.Kind == "noop"
	}
	// releases of all remedies with the same strategy in the window of `at`
	sameStrategyReleases := func(g *pgroup, at int64) (n int64) {
		for _, o := range gorder {
			if o.quota == g.quota && o.w == g.w {
				n += o.rel[at/g.w]
			}
		}
		return n
	}
	allWaiting := func() (n int64) {
		for _, o := range gorder {
			n += int64(len(o.waiting))
		}
		return n
	}

	for _, e := range k.Events {
		if e.K != "ret" {
			closeAll()
		}
		switch e.K {
		case "noconf":
			r := k.Remedies[e.Rem]
			if r.NoConfig && e.Kind != "missing-config" {
				add(sigVerdict, fmt.Sprintf("request %d of remedy %q without strategy_based_queue configuration: NoOpAction, ErrMissingConfig", e.ID, r.Name),
					fmt.Sprintf("%s status=%d %s", e.Kind, e.Status, e.Body))
			}
			if !r.NoConfig {
				add(sigVerdict, fmt.Sprintf("request %d of remedy %q goes through the remedy's queue", e.ID, r.Name),
					fmt.Sprintf("OnRequest returned %s/%d at once, before queue.NewRequest", e.Kind, e.Status))
			}
		case "scrape":
			lastScrape = e.At
		case "resp":
			if e.Kind != "noop" {
				add(sigVerdict, "OnResponse returns NoOpAction, nil", "it returned something else")
			}
		case "arrive":
			g := group(e.Rem)
			rc := k.Remedies[e.Rem]
			r := &pmreq{id: e.ID, prio: mprio(rc, e.Hdrs), ts: e.Ts, at: e.At, ttl: rc.TTL8 * (sec / 8), qsize: rc.QSize}
			reqs[e.ID], reqGroup[e.ID] = r, g
			if e.Immediate {
				if verdict(e, e.Rem) {
					grant(g, e.Rem, e.ID, e.At)
					if b := best(g); b != nil && b.mark == "" {
						b.mark = fmt.Sprintf("slot-to-newcomer@%d(%d)", e.At, e.ID)
					}
				} else if int64(len(g.waiting)) < r.qsize {
					sig := "plugin:reject-not-full"
					if allWaiting() >= r.qsize {
						sig = sigCross
					}
					add(sig, fmt.Sprintf("remedy %q: a request is refused at once only when %d requests of the remedy wait", rc.Name, r.qsize),
						fmt.Sprintf("request %d refused at %d with %d waiting", e.ID, e.At, len(g.waiting)))
				}
				continue
			}
			if len(g.waiting) == 0 && g.rel[e.At/g.w] < g.quota {
				r.mark = fmt.Sprintf("slot-free-at-arrival@%d", e.At)
				r.cross = sameStrategyReleases(g, e.At) >= g.quota
			}
			g.waiting = append(g.waiting, r)
			if int64(len(g.waiting)) > r.qsize {
				add("plugin:size-bound", fmt.Sprintf("remedy %q: at most %d waiters when request %d is admitted", rc.Name, r.qsize, e.ID),
					fmt.Sprintf("%d wait at %d", len(g.waiting), e.At))
			}
		case "pass":
			if g := groups[e.Key]; g != nil {
				closePass(g)
				g.pend = &ppass{at: e.At}
			}
		case "ret":
			r, g := reqs[e.ID], reqGroup[e.ID]
			if r == nil {
				continue
			}
			for i, w := range g.waiting {
				if w.id == e.ID {
					g.waiting = append(g.waiting[:i:i], g.waiting[i+1:]...)
					break
				}
			}
			if verdict(e, e.Rem) {
				grant(g, e.Rem, e.ID, e.At)
				if g.pend != nil {
					g.pend.released = append(g.pend.released, r)
				}
				continue
			}
			if e.At-r.at < r.ttl {
				add("plugin:ttl-early", fmt.Sprintf("request %d may be refused for its TTL only %d ns after it started to wait at %d", r.id, r.ttl, r.at),
					fmt.Sprintf("refused at %d", e.At))
			}
			if r.mark != "" {
				sig := "plugin:strand:" + r.mark[:indexAt(r.mark)]
				if r.cross {
					sig = sigCross
				}
				add(sig, fmt.Sprintf("request %d of remedy %q (priority %d, arrival %d), whose turn had come (%s), is let through, not left to expire",
					r.id, k.Remedies[e.Rem].Name, r.prio, r.ts, r.mark),
					fmt.Sprintf("it was refused at %d", e.At))
			}
		}
	}
	closeAll()
	return hits
}

func scrapeNote(last, winStart int64) string {
	if last < winStart {
		return ""
	}
	return fmt.Sprintf("; a metrics collection (requests_in_queue gauge callback) ran in that window at %d", last)
}
