package main

// Executor: runs a list of fine-grained scheduling operations on the REAL
// DelayedPriorityQueue (or on StrategyBasedQueuePlugin.OnRequest) and records
//   - the model-level action list the operations amounted to (correspondence),
//   - the observables (Counts() after each operation, result and return
//     instant of every Enqueue),
//   - an event trace for the monitor.
//
// Goroutines of the code under test are steered through the two yield hooks
// (verifhook.Yield("dpq.unlocked") / ("dpq.tick_before_lock")) and through the
// controlled clock; after every operation the executor waits until every
// goroutine is provably blocked (held in a hook, parked in its select, or the
// roll-over goroutine waiting for its re-armed timer).

import (
	"context"
	"fmt"
	"os"
	"runtime"
	"sort"
	"strconv"
	"sync"
	"sync/atomic"
	"time"

	"lunar/engine/actions"
	"lunar/engine/config"
	messages "lunar/engine/messages"
	"lunar/engine/services/remedies"
	"lunar/engine/utils/queue"
	"lunar/engine/verifhook"
	sharedConfig "lunar/shared-model/config"
	"lunar/toolkit-core/logging"

	"go.opentelemetry.io/otel/metric/noop"
)

type Op struct {
	K    string `json:"k"` // new | enq | set | firetick | runtick | park | firettl | probe
	ID   int    `json:"id,omitempty"`
	Prio int    `json:"prio,omitempty"`
	TTL  int64  `json:"ttl_ns,omitempty"`
	Hold bool   `json:"hold,omitempty"` // enq: stop at dpq.unlocked; firetick: stop at dpq.tick_before_lock
	To   int64  `json:"to_ns,omitempty"`
	// probe (suite atomic): Enqueue of ID as "enq"; when it stands on the trace
	// line logged between its admission decision and its push, the Inner
	// operations are started one by one (see atomic.go)
	Inner []Op `json:"inner,omitempty"`
}

// Act is one atomic action of the model (theories/C10/Model.v, [action]).
type Act struct {
	K    string `json:"k"` // EnqLocked | Park | Tick | Ttl | Return | Decide | Push (the last two: suite atomic, Split.v)
	ID   int    `json:"id,omitempty"`
	Prio int    `json:"prio,omitempty"`
	Ts   int64  `json:"ts_ns,omitempty"`
	TTL  int64  `json:"ttl_ns,omitempty"`
	Now  int64  `json:"now_ns"`
}

type Res struct {
	ID       int   `json:"id"`
	Returned bool  `json:"returned"`
	Result   bool  `json:"result"`
	At       int64 `json:"at_ns"`
}

// Ev is what the monitor sees.
type Ev struct {
	K         string `json:"k"` // arrive | parked | pass | ttlfire | ret
	ID        int    `json:"id,omitempty"`
	Prio      int    `json:"prio,omitempty"`
	Ts        int64  `json:"ts_ns,omitempty"`
	TTL       int64  `json:"ttl_ns,omitempty"`
	At        int64  `json:"at_ns"`
	Immediate bool   `json:"immediate,omitempty"` // arrive: Enqueue returned without waiting
	Result    bool   `json:"result,omitempty"`    // arrive(immediate) / ret
	Unparked  []int  `json:"unparked,omitempty"`  // pass: waiters held between Unlock and select during the pass
	TickHeld  bool   `json:"tick_held,omitempty"` // arrive: the woken roll-over goroutine was held before its Lock
	NextTick  int64  `json:"next_tick_ns,omitempty"`
	// arrive of a probed request: operations (other arrivals, roll-over passes) that
	// COMPLETED while it stood between its admission decision and its push, and
	// whether a roll-over pass was among them
	RanInside  int  `json:"ran_inside,omitempty"`
	PassInside bool `json:"pass_inside,omitempty"`
	Count     int64  `json:"count"` // sum of Counts() after the operation
}

type Case struct {
	Quota  int64 `json:"quota"`
	W      int64 `json:"window_ns"`
	QSize  int64 `json:"queue_size"`
	T0     int64 `json:"t0_ns"`
	Plugin bool  `json:"plugin,omitempty"`
	Trace  bool  `json:"trace,omitempty"` // suite atomic: the queue logs at trace level into the harness's writer
	Ops    []Op  `json:"ops"`

	QueueT0 int64    `json:"queue_t0_ns"` // clock reading when the queue was constructed
	Actions []Act    `json:"actions"`
	Counts  []*int64 `json:"counts"`
	Results []Res    `json:"results"`
	Events  []Ev     `json:"events"`
	Probes  []Probe  `json:"probes,omitempty"`
}

type waiter struct {
	id, prio int
	ts, ttl  int64
	hold     bool
	req      *queue.Request
	gid      int64
	atYield  bool
	release  chan struct{}
	probe    bool          // stop on the trace line between decision and push
	atLog    bool          // standing there
	logGo    chan struct{} // closed to let it go on
	blocked  bool          // seen waiting for dpq.mutex while another request stands on that line
	armed    *timer
	started  bool
	done     bool
	queued   bool
	parkedEv bool
	reported bool
	result   bool
	retAt    int64
}

type runner struct {
	k   *Case
	clk *ctlClock
	mu  sync.Mutex

	dpq    *queue.DelayedPriorityQueue
	plugin *remedies.StrategyBasedQueuePlugin
	remedy config.ScopedRemedy

	ws       map[int]*waiter
	order    []int // creation order
	enqOrder []int // order of the Enqueue calls
	byGid    map[int64]*waiter

	queueMade   bool
	tickGid     int64
	tickTimer   *timer
	tickAtYield bool
	holdTick    bool
	tickRelease chan struct{}
	tickExited  bool
	dead        bool

	probing     *waiter // the request standing between its decision and its push
	tickBlocked bool    // the woken roll-over goroutine was seen waiting for dpq.mutex meanwhile

	firstAct int // index of the first action emitted by the current op
}

var cur atomic.Pointer[runner]

func init() {
	verifhook.SetYield(func(p string) {
		if r := cur.Load(); r != nil {
			r.yield(p)
		}
	})
}

func (x *runner) yield(point string) {
	gid := curGID()
	x.mu.Lock()
	switch point {
	case "dpq.unlocked":
		if w := x.byGid[gid]; w != nil && w.hold && !x.dead {
			w.atYield = true
			ch := w.release
			x.mu.Unlock()
			<-ch
			return
		}
	case "dpq.tick_before_lock":
		if x.holdTick && !x.dead && x.byGid[gid] == nil {
			x.holdTick = false
			x.tickAtYield = true
			ch := x.tickRelease
			x.mu.Unlock()
			<-ch
			return
		}
	}
	x.mu.Unlock()
}

func (x *runner) onAfter(gid int64, t *timer, d time.Duration) {
	x.mu.Lock()
	if w := x.byGid[gid]; w != nil {
		w.armed = t
		if x.dead {
			t.fired = true
			t.ch <- time.Unix(0, t.deadline)
		}
		x.mu.Unlock()
		return
	}
	// the roll-over goroutine
	x.tickGid = gid
	if x.dead {
		x.tickExited = true
		x.mu.Unlock()
		runtime.Goexit()
	}
	x.tickTimer = t
	x.mu.Unlock()
}

func newRunner(k *Case) *runner {
	x := &runner{k: k, ws: map[int]*waiter{}, byGid: map[int64]*waiter{}}
	x.clk = &ctlClock{now: k.T0}
	x.clk.onAfter = x.onAfter
	k.Actions, k.Counts, k.Results, k.Events, k.Probes = nil, nil, nil, nil, nil
	k.QueueT0 = k.T0
	cur.Store(x)
	mk := func(key queue.QueueKey) *queue.DelayedPriorityQueue {
		q := queue.NewInMemoryDelayedPriorityQueue(key, x.clk, x.logger())
		x.mu.Lock()
		x.dpq = q
		x.queueMade = true
		x.k.QueueT0 = x.clk.nowNs()
		x.mu.Unlock()
		return q
	}
	if k.Plugin {
		x.plugin = remedies.NewStrategyBasedQueuePlugin(context.Background(), x.clk,
			logging.ContextLogger{}, noop.NewMeterProvider().Meter("verif"),
			func(key queue.QueueKey) queue.DelayedPriorityQueueable { return mk(key) })
		groups := map[string]sharedConfig.Prioritization{}
		for p := 0; p < 8; p++ {
			groups["g"+strconv.Itoa(p)] = sharedConfig.Prioritization{Priority: float64(p)}
		}
		x.remedy = config.ScopedRemedy{Remedy: &sharedConfig.Remedy{
			Enabled: true, Name: "verif-queue",
			Config: sharedConfig.RemedyConfig{StrategyBasedQueue: &sharedConfig.StrategyBasedQueueConfig{
				AllowedRequestCount: k.Quota,
				WindowSizeInSeconds: int(k.W / int64(time.Second)),
				ResponseStatusCode:  429,
				TTLSeconds:          0, // set per request below (the config is copied per call)
				QueueSize:           k.QSize,
				Prioritization: &sharedConfig.GroupPrioritization{
					GroupBy: sharedConfig.GroupBy{HeaderName: "x-group"},
					Groups:  groups,
				},
			}},
		}}
	} else {
		mk(queue.QueueKey{RemedyName: "verif", Strategy: queue.Strategy{WindowQuota: k.Quota, WindowSize: time.Duration(k.W)}})
		x.settle()
	}
	return x
}

// ---------------------------------------------------------------- quiescence

func (x *runner) stable() bool {
	type need struct {
		gid   int64
		state string
	}
	var needs []need
	var lockW []*waiter
	lockT := false
	x.mu.Lock()
	ok := true
	for _, id := range x.order {
		w := x.ws[id]
		if !w.started || w.done {
			continue
		}
		switch {
		case w.gid == 0:
			ok = false
		case w.atYield, w.atLog:
		case w.armed != nil && !w.armed.fired:
			needs = append(needs, need{w.gid, "select"})
		case x.probing != nil && !w.probe:
			// may only be waiting for dpq.mutex, which the probed request keeps
			needs = append(needs, need{w.gid, lockWait})
			lockW = append(lockW, w)
		default:
			ok = false
		}
	}
	if x.queueMade && !x.tickExited {
		switch {
		case x.tickAtYield:
		case x.holdTick: // woken, must reach the hook
			ok = false
		case x.tickTimer != nil && !x.tickTimer.fired && x.tickGid != 0:
			needs = append(needs, need{x.tickGid, "chan receive"})
		case x.probing != nil && x.tickGid != 0:
			needs = append(needs, need{x.tickGid, lockWait})
			lockT = true
		default:
			ok = false
		}
	}
	x.mu.Unlock()
	if !ok {
		return false
	}
	if len(lockW) > 0 || lockT {
		st := gstacks()
		for _, n := range needs {
			g := st[n.gid]
			if n.state == lockWait {
				if !waitsForQueueMutex(g) {
					return false
				}
			} else if g.state != n.state {
				return false
			}
		}
	} else {
		st := gstates()
		for _, n := range needs {
			if st[n.gid] != n.state {
				return false
			}
		}
	}
	x.mu.Lock()
	for _, id := range x.order {
		x.ws[id].blocked = false
	}
	for _, w := range lockW {
		w.blocked = true
	}
	x.tickBlocked = lockT
	x.mu.Unlock()
	return true
}

func (x *runner) anyBlocked() bool {
	x.mu.Lock()
	defer x.mu.Unlock()
	if x.tickBlocked {
		return true
	}
	for _, id := range x.order {
		if x.ws[id].blocked {
			return true
		}
	}
	return false
}

func (x *runner) settle() {
	deadline := time.Now().Add(20 * time.Second)
	for i := 0; ; i++ {
		if x.stable() {
			// a goroutine seen waiting for the mutex must still be there a moment
			// later (it could have been between two lock attempts)
			if !x.anyBlocked() {
				return
			}
			time.Sleep(200 * time.Microsecond)
			if x.stable() {
				return
			}
		}
		if i < 200 {
			runtime.Gosched()
		} else {
			time.Sleep(20 * time.Microsecond)
		}
		if i%1000 == 999 && time.Now().After(deadline) {
			buf := make([]byte, 1<<16)
			n := runtime.Stack(buf, true)
			panic(fmt.Sprintf("C10 harness: the code under test did not become quiescent\nops=%+v\n%s", x.k.Ops, buf[:n]))
		}
	}
}

// ---------------------------------------------------------------- recording

func (x *runner) emit(a Act) {
	x.k.Actions = append(x.k.Actions, a)
	x.k.Counts = append(x.k.Counts, nil)
}

func (x *runner) count() int64 {
	x.mu.Lock()
	q := x.dpq
	x.mu.Unlock()
	if q == nil {
		return 0
	}
	var n int64
	for _, v := range q.Counts() {
		n += v
	}
	return n
}

// endOp: returns of queued waiters that happened during this operation, then
// the Counts() observation attached to the last action of the operation.
func (x *runner) endOp(evFrom int) {
	now := x.clk.nowNs()
	x.mu.Lock()
	var rets []*waiter
	for _, id := range x.order {
		w := x.ws[id]
		if w.queued && w.done && !w.reported {
			w.reported = true
			rets = append(rets, w)
		}
	}
	x.mu.Unlock()
	for _, w := range rets {
		x.emit(Act{K: "Return", ID: w.id, Now: now})
		x.k.Events = append(x.k.Events, Ev{K: "ret", ID: w.id, At: w.retAt, Result: w.result})
	}
	c := x.count()
	if len(x.k.Actions) > x.firstAct {
		x.k.Counts[len(x.k.Counts)-1] = &c
	}
	for i := evFrom; i < len(x.k.Events); i++ {
		x.k.Events[i].Count = c
	}
}

// ---------------------------------------------------------------- operations

// do executes one operation; false = not enabled in the current state (skipped).
func (x *runner) do(op Op) bool {
	x.firstAct = len(x.k.Actions)
	evFrom := len(x.k.Events)
	now := x.clk.nowNs()
	switch op.K {
	case "new":
		if x.ws[op.ID] != nil || x.k.Plugin {
			return false
		}
		w := &waiter{id: op.ID, prio: op.Prio, ts: now}
		w.req = queue.NewRequest(strconv.Itoa(op.ID), float64(op.Prio), x.clk)
		x.ws[op.ID] = w
		x.order = append(x.order, op.ID)
		return true

	case "enq":
		w := x.startEnq(op, now)
		if w == nil {
			return false
		}
		x.mu.Lock()
		tickHeld := x.tickAtYield
		x.mu.Unlock()
		x.settle()
		x.finishEnq(w, op.Hold, tickHeld, "EnqLocked")

	case "probe":
		if !x.doProbe(op, now, evFrom) {
			return false
		}
		return true

	case "set":
		if op.To < now {
			return false
		}
		x.clk.set(op.To)
		return true

	case "firetick":
		x.mu.Lock()
		t := x.tickTimer
		if t == nil || t.fired || t.deadline > now || x.tickAtYield {
			x.mu.Unlock()
			return false
		}
		t.fired = true
		if op.Hold {
			x.holdTick = true
			x.tickRelease = make(chan struct{})
		}
		x.mu.Unlock()
		t.ch <- time.Unix(0, now)
		x.settle()
		if op.Hold {
			return true
		}
		x.pass(now)

	case "runtick":
		x.mu.Lock()
		if !x.tickAtYield {
			x.mu.Unlock()
			return false
		}
		x.tickAtYield = false
		ch := x.tickRelease
		x.mu.Unlock()
		// waiters held between Unlock and select right now are unparked during this pass
		close(ch)
		x.settle()
		x.pass(now)

	case "park":
		w := x.ws[op.ID]
		x.mu.Lock()
		if w == nil || !w.atYield {
			x.mu.Unlock()
			return false
		}
		w.atYield, w.hold = false, false
		x.mu.Unlock()
		close(w.release)
		x.settle()
		w.parkedEv = true
		x.emit(Act{K: "Park", ID: w.id, Now: now})
		x.k.Events = append(x.k.Events, Ev{K: "parked", ID: w.id, At: now})

	case "firettl":
		w := x.ws[op.ID]
		x.mu.Lock()
		if w == nil || w.done || w.armed == nil || w.armed.fired || w.armed.deadline > now {
			x.mu.Unlock()
			return false
		}
		w.armed.fired = true
		t := w.armed
		x.mu.Unlock()
		t.ch <- time.Unix(0, now)
		x.settle()
		x.emit(Act{K: "Ttl", ID: w.id, Now: now})
		x.k.Events = append(x.k.Events, Ev{K: "ttlfire", ID: w.id, At: now})

	default:
		panic("unknown op " + op.K)
	}
	x.endOp(evFrom)
	return true
}

// startEnq starts the Enqueue call of op.ID in its own goroutine (nil = not enabled).
func (x *runner) startEnq(op Op, now int64) *waiter {
	w := x.ws[op.ID]
	if x.k.Plugin {
		if w != nil {
			return nil
		}
		w = &waiter{id: op.ID, prio: op.Prio, ts: now}
		x.ws[op.ID] = w
		x.order = append(x.order, op.ID)
	}
	if w == nil || w.started {
		return nil
	}
	w.ttl, w.hold, w.release, w.started = op.TTL, op.Hold, make(chan struct{}), true
	if op.K == "probe" {
		w.probe, w.logGo = true, make(chan struct{})
	}
	x.enqOrder = append(x.enqOrder, w.id)
	go func() {
		gid := curGID()
		x.mu.Lock()
		w.gid = gid
		x.byGid[gid] = w
		x.mu.Unlock()
		var res bool
		if x.k.Plugin {
			rem := *x.remedy.Remedy
			cfgCopy := *rem.Config.StrategyBasedQueue
			cfgCopy.TTLSeconds = float32(w.ttl / int64(time.Second))
			rem.Config.StrategyBasedQueue = &cfgCopy
			sr := x.remedy
			sr.Remedy = &rem
			act, err := x.plugin.OnRequest(messages.OnRequest{
				ID: strconv.Itoa(w.id), Headers: map[string]string{"x-group": "g" + strconv.Itoa(w.prio)},
			}, sr)
			_, noop := act.(*actions.NoOpAction)
			res = noop && err == nil
		} else {
			res, _ = x.dpq.Enqueue(w.req, time.Duration(w.ttl), x.k.QSize)
		}
		at := x.clk.nowNs()
		x.mu.Lock()
		w.done, w.result, w.retAt = true, res, at
		x.mu.Unlock()
	}()
	return w
}

// finishEnq records what a quiescent Enqueue call amounted to: the action
// (kind = "EnqLocked", or "Push" for a probed request whose "Decide" has been
// emitted), the arrive event and, if it reached its select, the Park.
// The clock reading is the current one (the clock is moved by the harness only).
func (x *runner) finishEnq(w *waiter, hold, tickHeld bool, kind string) *Ev {
	now := x.clk.nowNs()
	if kind == "Push" {
		x.emit(Act{K: "Push", ID: w.id})
	} else {
		x.emit(Act{K: kind, ID: w.id, Prio: w.prio, Ts: w.ts, TTL: w.ttl, Now: now})
	}
	x.mu.Lock()
	done, armed := w.done, w.armed != nil
	x.mu.Unlock()
	ev := Ev{K: "arrive", ID: w.id, Prio: w.prio, Ts: w.ts, TTL: w.ttl, At: now, TickHeld: tickHeld}
	if done {
		w.reported = true
		ev.Immediate, ev.Result = true, w.result
		x.k.Events = append(x.k.Events, ev)
		return &x.k.Events[len(x.k.Events)-1]
	}
	w.queued = true
	x.k.Events = append(x.k.Events, ev)
	at := len(x.k.Events) - 1
	if armed && hold {
		panic("C10 harness: a waiter asked to stop at verifhook.Yield(\"dpq.unlocked\") reached its select: " +
			"patches/C10/hook-dpq-yield.patch is not applied to the tree under test (" + os.Getenv("VERIF_REPO") + ")")
	}
	if armed {
		w.parkedEv = true
		x.emit(Act{K: "Park", ID: w.id, Now: now})
		x.k.Events = append(x.k.Events, Ev{K: "parked", ID: w.id, At: now})
	}
	return &x.k.Events[at]
}

// pass records a completed processing pass of the roll-over goroutine.
func (x *runner) pass(now int64) {
	x.emit(Act{K: "Tick", Now: now})
	ev := Ev{K: "pass", At: now}
	x.mu.Lock()
	for _, id := range x.order {
		if w := x.ws[id]; w.atYield {
			ev.Unparked = append(ev.Unparked, id)
		}
	}
	if x.tickTimer != nil {
		ev.NextTick = x.tickTimer.deadline
	}
	x.mu.Unlock()
	x.k.Events = append(x.k.Events, ev)
}

// dueTimers: what the harness may fire now (tick first in the list, then waiters by id).
type due struct {
	tick     bool
	id       int
	deadline int64
}

func (x *runner) pending() []due {
	x.mu.Lock()
	defer x.mu.Unlock()
	var out []due
	if t := x.tickTimer; t != nil && !t.fired && !x.tickAtYield {
		out = append(out, due{tick: true, deadline: t.deadline})
	}
	for _, id := range x.order {
		w := x.ws[id]
		if w.started && !w.done && w.armed != nil && !w.armed.fired {
			out = append(out, due{id: id, deadline: w.armed.deadline})
		}
	}
	sort.SliceStable(out, func(i, j int) bool { return out[i].deadline < out[j].deadline })
	return out
}

func (x *runner) heldWaiters() []int {
	x.mu.Lock()
	defer x.mu.Unlock()
	var out []int
	for _, id := range x.order {
		if x.ws[id].atYield {
			out = append(out, id)
		}
	}
	return out
}

func (x *runner) tickHeld() bool {
	x.mu.Lock()
	defer x.mu.Unlock()
	return x.tickAtYield
}

// finish: snapshot of the results, then retire every goroutine of this case.
func (x *runner) finish() {
	x.mu.Lock()
	for _, id := range x.enqOrder {
		w := x.ws[id]
		x.k.Results = append(x.k.Results, Res{ID: id, Returned: w.done, Result: w.done && w.result, At: w.retAt})
	}
	x.dead = true
	for _, id := range x.order {
		if w := x.ws[id]; w.atYield {
			w.atYield = false
			close(w.release)
		}
	}
	x.mu.Unlock()
	deadline := time.Now().Add(20 * time.Second)
	for {
		all := true
		x.mu.Lock()
		for _, id := range x.order {
			w := x.ws[id]
			if !w.started || w.done {
				continue
			}
			all = false
			if w.armed != nil && !w.armed.fired {
				w.armed.fired = true
				w.armed.ch <- time.Unix(0, w.armed.deadline)
			}
		}
		if all && x.queueMade && !x.tickExited {
			all = false
			if x.tickAtYield {
				x.tickAtYield = false
				close(x.tickRelease)
			} else if t := x.tickTimer; t != nil && !t.fired {
				t.fired = true
				t.ch <- time.Unix(0, t.deadline)
			}
		}
		x.mu.Unlock()
		if all {
			break
		}
		if time.Now().After(deadline) {
			panic("C10 harness: could not retire the goroutines of a case")
		}
		time.Sleep(20 * time.Microsecond)
	}
	cur.Store(nil)
}

// execCase runs the recorded operations (replay / scripted cases).
func execCase(k *Case) {
	x := newRunner(k)
	ops := k.Ops
	k.Ops = nil
	for _, op := range ops {
		if x.do(op) {
			k.Ops = append(k.Ops, op)
		}
	}
	x.finish()
}
