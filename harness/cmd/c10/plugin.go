package main

// Suite "plugin": executor for the REAL remedies.StrategyBasedQueuePlugin.
//
// The plugin is built as services.initializeServices builds it
// (remedies.NewStrategyBasedQueuePlugin(ctx, clock, contextLogger, meter,
// factory), factory = queue.NewInMemoryDelayedPriorityQueue(key, clock, logger)
// as in services/initialize_services.go) with the harness-controlled clock and a
// no-op meter.  The factory is wrapped:
//   - it is the yield point of the forced interleavings: a request whose `start`
//     operation says hold stops inside the factory BEFORE the queue is
//     constructed (at HEAD it holds queuesMutex there) until a `build` operation;
//   - the queue it returns is the real queue behind a recording proxy (the
//     monitor sees what Enqueue answered independently of the action OnRequest
//     returned).
// The second yield point is the clock: queue.NewRequest's clock.Now() is the
// first clock reading of a request goroutine outside the factory; every request
// stops there (after the reading, which becomes its timestamp) until its `enq`
// operation.  So the harness orders lookups and enqueues of concurrent requests
// at will; nothing is added to /repo.
//
// After every operation the executor waits until every goroutine is provably
// blocked: request goroutines held in the factory / at NewRequest, parked in
// the select of Enqueue with the TTL timer armed, or blocked on a mutex while
// somebody is held in the factory; every roll-over goroutine waiting for its
// re-armed timer.

import (
	"context"
	"errors"
	"fmt"
	"runtime"
	"sort"
	"strconv"
	"sync"
	"time"

	"lunar/engine/actions"
	"lunar/engine/config"
	messages "lunar/engine/messages"
	"lunar/engine/services/remedies"
	"lunar/engine/utils/queue"
	sharedConfig "lunar/shared-model/config"
	"lunar/toolkit-core/logging"

	"go.opentelemetry.io/otel/metric"
	"go.opentelemetry.io/otel/metric/noop"
)

type PPrz struct {
	Header string         `json:"header"`
	Groups map[string]int `json:"groups"`
}

// PRemedy is the configuration one OnRequest call is made with.
type PRemedy struct {
	Name     string `json:"name"`
	NoConfig bool   `json:"no_config,omitempty"` // Remedy.Config.StrategyBasedQueue == nil
	Quota    int64  `json:"quota"`
	WSec     int64  `json:"window_s"`
	TTL8     int64  `json:"ttl_eighth_s"` // TTLSeconds = float32(TTL8) / 8 (exactly representable)
	QSize    int64  `json:"queue_size"`
	Status   int    `json:"status"`
	Prz      *PPrz  `json:"prioritization,omitempty"`
}

type POp struct {
	K    string            `json:"k"` // start | build | enq | set | firetick | firettl | resp | scrape
	ID   int               `json:"id,omitempty"`
	Rem  int               `json:"rem,omitempty"`
	Hdrs map[string]string `json:"hdrs,omitempty"`
	Hold bool              `json:"hold,omitempty"` // start: stop inside the queue factory if this request constructs
	Inst int               `json:"inst,omitempty"` // firetick: queue instance (construction order)
	To   int64             `json:"to_ns,omitempty"`
}

// PAct is one action of theories/C10/Plugin.v ([paction]).
type PAct struct {
	K    string            `json:"k"` // KLookup | KEnq | KPark | KTtl | KReturn | KTick | NoConfig | Scrape
	Key  [3]int64          `json:"key"`
	ID   int               `json:"id,omitempty"`
	Rem  int               `json:"rem,omitempty"`
	Hdrs map[string]string `json:"hdrs,omitempty"`
	Ts   int64             `json:"ts_ns,omitempty"`
	Inst int               `json:"inst,omitempty"` // KTick: index among the queues constructed for the key
	Now  int64             `json:"now_ns"`
}

type PRes struct {
	ID       int    `json:"id"`
	Rem      int    `json:"rem"`
	Returned bool   `json:"returned"`
	Kind     string `json:"kind,omitempty"` // noop | early | missing-config | other
	Status   int    `json:"status,omitempty"`
	At       int64  `json:"at_ns"`
}

// PGauge is one value reported by the requests_in_queue gauge callback.
type PGauge struct {
	Remedy   string  `json:"remedy"`
	Priority float64 `json:"priority"`
	N        int64   `json:"n"`
}

// PEv is what the plugin monitor sees.
type PEv struct {
	K         string            `json:"k"` // arrive | ret | pass | noconf | resp | scrape
	Gauge     []PGauge          `json:"gauge,omitempty"`        // scrape: what the callback reported
	Asked     []int             `json:"queues_read,omitempty"`  // scrape: queues (construction order) whose Counts() it read
	ID        int               `json:"id,omitempty"`
	Rem       int               `json:"rem,omitempty"`
	Hdrs      map[string]string `json:"hdrs,omitempty"`
	Ts        int64             `json:"ts_ns,omitempty"`
	At        int64             `json:"at_ns"`
	Immediate bool              `json:"immediate,omitempty"`
	Kind      string            `json:"kind,omitempty"`
	Status    int               `json:"status,omitempty"`
	Body      string            `json:"body,omitempty"`
	QAnswer   *bool             `json:"queue_answer,omitempty"` // what Enqueue returned (recording proxy)
	Key       [3]int64          `json:"key,omitempty"`          // pass: key of the queue whose roll-over ran
	Racing    []int             `json:"racing,omitempty"`       // arrive: requests of the same remedy between lookup and enqueue
}

type PCase struct {
	T0       int64     `json:"t0_ns"`
	Remedies []PRemedy `json:"remedies"`
	Ops      []POp     `json:"ops"`
	Forced   bool      `json:"forced,omitempty"`

	Actions []PAct   `json:"actions"`
	Counts  []*int64 `json:"counts"`
	Results []PRes   `json:"results"`
	Events  []PEv    `json:"events"`
	// not compared, for the reader of a replay file
	Constructed int      `json:"queues_constructed"`
	NoGauge     bool     `json:"no_gauge_callback,omitempty"` // the plugin registered no observable-gauge callback: scrape ops are skipped
	Notes       []string `json:"notes,omitempty"`
}

func (k *PCase) nameID(name string) int64 {
	id := int64(1)
	seen := map[string]int64{}
	for _, r := range k.Remedies {
		if _, ok := seen[r.Name]; !ok {
			seen[r.Name] = id
			id++
		}
	}
	return seen[name]
}

func (k *PCase) key(rem int) [3]int64 {
	r := k.Remedies[rem]
	return [3]int64{k.nameID(r.Name), r.Quota, r.WSec}
}

type preq struct {
	id, rem  int
	hdrs     map[string]string
	hold     bool
	gid      int64
	started  bool
	done     bool
	noconf   bool
	inFact   bool // inside the factory wrapper
	atFact   bool // held there
	relFact  chan struct{}
	atPre    bool // held at NewRequest's clock.Now()
	passed   bool // went through that yield point
	relPre   chan struct{}
	ts       int64
	armed    *timer
	looked   bool // KLookup emitted
	enqd     bool
	queued   bool
	reported bool
	blocked  bool // last seen blocked on a mutex
	kind     string
	status   int
	body     string
	retAt    int64
	qans     *bool
}

type pinst struct {
	idx        int
	keyIdx     int  // position among the USED queues of its key (order of first Enqueue)
	used       bool // some Enqueue was called on it
	key        [3]int64
	qkey       queue.QueueKey
	q          *queue.DelayedPriorityQueue
	tickGid    int64
	tickTimer  *timer
	tickExited bool
}

type prunner struct {
	k   *PCase
	clk *ctlClock
	mu  sync.Mutex

	plugin *remedies.StrategyBasedQueuePlugin
	rs     map[int]*preq
	order  []int
	byGid  map[int64]*preq
	insts  []*pinst
	constr *pinst // being constructed
	factMu sync.Mutex
	dead   bool

	firstAct int

	gaugeCbs []metric.Int64Callback // callbacks the plugin registered for its observable gauges
	asked    []int                  // queues whose Counts() was read (reset per scrape)
}

// pmeter is a minimal metrics reader: it remembers the callbacks of the
// observable int64 gauges registered on it (the plugin registers
// observeRequestsInQueue) so that the harness can run them the way a metrics SDK
// does on every scrape / export.  Everything else is a no-op.
type pmeter struct {
	noop.Meter
	x *prunner
}

func (m *pmeter) Int64ObservableGauge(name string, opts ...metric.Int64ObservableGaugeOption,
) (metric.Int64ObservableGauge, error) {
	cfg := metric.NewInt64ObservableGaugeConfig(opts...)
	m.x.gaugeCbs = append(m.x.gaugeCbs, cfg.Callbacks()...)
	return noop.Int64ObservableGauge{}, nil
}

type pobserver struct {
	noop.Int64Observer
	mu  sync.Mutex
	out []PGauge
}

func (o *pobserver) Observe(v int64, opts ...metric.ObserveOption) {
	attrs := metric.NewObserveConfig(opts).Attributes()
	r, _ := attrs.Value("remedy")
	p, _ := attrs.Value("priority")
	g := PGauge{N: v}
	g.Remedy = r.AsString()
	g.Priority = p.AsFloat64()
	o.mu.Lock()
	o.out = append(o.out, g)
	o.mu.Unlock()
}

// recording proxy around the real queue
type recQueue struct {
	x    *prunner
	inst *pinst
	q    *queue.DelayedPriorityQueue
}

func (r *recQueue) Enqueue(req *queue.Request, ttl time.Duration, size int64) (bool, error) {
	r.x.mu.Lock()
	if !r.inst.used {
		// Queues are numbered for the model by their first use, and the roll-over
		// passes of a queue nobody ever enqueued into are not reported to it (they
		// cannot change any verdict): an implementation that constructs a spare
		// queue and discards it is not distinguished from one that does not.
		r.inst.used = true
		for _, o := range r.x.insts {
			if o != r.inst && o.used && o.qkey == r.inst.qkey {
				r.inst.keyIdx++
			}
		}
	}
	r.x.mu.Unlock()
	ok, err := r.q.Enqueue(req, ttl, size)
	id, _ := strconv.Atoi(req.ID)
	r.x.mu.Lock()
	if w := r.x.rs[id]; w != nil {
		b := ok && err == nil
		w.qans = &b
	}
	r.x.mu.Unlock()
	return ok, err
}

func (r *recQueue) Counts() map[float64]int64 {
	r.x.mu.Lock()
	r.x.asked = append(r.x.asked, r.inst.idx)
	r.x.mu.Unlock()
	return r.q.Counts()
}

func newPRunner(k *PCase) *prunner {
	x := &prunner{k: k, rs: map[int]*preq{}, byGid: map[int64]*preq{}}
	x.clk = &ctlClock{now: k.T0}
	x.clk.onAfter = x.onAfter
	x.clk.onNow = x.onNow
	k.Actions, k.Counts, k.Results, k.Events, k.Notes = nil, nil, nil, nil, nil
	cur.Store(nil) // the dpq.* yield hooks are not used by this suite
	contextLogger := logging.ContextLogger{}
	factory := func(key queue.QueueKey) queue.DelayedPriorityQueueable {
		return x.factory(key, contextLogger)
	}
	x.plugin = remedies.NewStrategyBasedQueuePlugin(context.Background(), x.clk,
		contextLogger, &pmeter{x: x}, factory)
	k.NoGauge = len(x.gaugeCbs) == 0
	return x
}

func (x *prunner) factory(key queue.QueueKey, cl logging.ContextLogger) queue.DelayedPriorityQueueable {
	gid := curGID()
	x.mu.Lock()
	w := x.byGid[gid]
	if w != nil {
		w.inFact = true
		if w.hold && !x.dead {
			w.atFact = true
			ch := w.relFact
			x.mu.Unlock()
			<-ch
			x.mu.Lock()
		}
	}
	x.mu.Unlock()

	x.factMu.Lock() // one construction at a time: the new roll-over goroutine is attributed to it
	defer x.factMu.Unlock()
	inst := &pinst{qkey: key}
	x.mu.Lock()
	inst.idx = len(x.insts)
	inst.key = [3]int64{x.k.nameID(key.RemedyName), key.Strategy.WindowQuota, int64(key.Strategy.WindowSize / time.Second)}
	x.constr = inst
	x.mu.Unlock()
	// exactly what services.Initialize's factory does
	inst.q = queue.NewInMemoryDelayedPriorityQueue(key, x.clk, cl)
	deadline := time.Now().Add(20 * time.Second)
	for i := 0; ; i++ {
		x.mu.Lock()
		ready := inst.tickGid != 0 || inst.tickExited
		x.mu.Unlock()
		if ready {
			break
		}
		if i < 200 {
			runtime.Gosched()
		} else {
			time.Sleep(20 * time.Microsecond)
		}
		if i%1000 == 999 && time.Now().After(deadline) {
			panic("C10 harness (plugin): the roll-over goroutine of a new queue never armed its timer")
		}
	}
	x.mu.Lock()
	x.insts = append(x.insts, inst)
	x.constr = nil
	if w != nil {
		w.inFact = false
	}
	x.mu.Unlock()
	return &recQueue{x: x, inst: inst, q: inst.q}
}

// yield point at queue.NewRequest: first clock reading of a request goroutine outside the factory
func (x *prunner) onNow(t int64) {
	gid := curGID()
	x.mu.Lock()
	w := x.byGid[gid]
	if w == nil || w.inFact || w.passed || x.dead {
		x.mu.Unlock()
		return
	}
	w.passed, w.atPre, w.ts = true, true, t
	ch := w.relPre
	x.mu.Unlock()
	<-ch
}

func (x *prunner) onAfter(gid int64, t *timer, d time.Duration) {
	x.mu.Lock()
	if w := x.byGid[gid]; w != nil {
		w.armed = t
		if x.dead {
			t.fired = true
			t.ch <- time.Unix(0, t.deadline)
		}
		x.mu.Unlock()
		return
	}
	// a roll-over goroutine
	var inst *pinst
	for _, i := range x.insts {
		if i.tickGid == gid {
			inst = i
		}
	}
	if inst == nil && x.constr != nil && (x.constr.tickGid == 0 || x.constr.tickGid == gid) {
		inst = x.constr
	}
	if inst == nil {
		x.mu.Unlock()
		panic("C10 harness (plugin): clock.After from an unknown goroutine")
	}
	inst.tickGid = gid
	if x.dead {
		inst.tickExited = true
		x.mu.Unlock()
		runtime.Goexit()
	}
	inst.tickTimer = t
	x.mu.Unlock()
}

// ---------------------------------------------------------------- quiescence

var lockStates = map[string]bool{
	"sync.Mutex.Lock": true, "sync.RWMutex.Lock": true, "sync.RWMutex.RLock": true,
	"semacquire": true,
}

func (x *prunner) stable() bool {
	type need struct {
		gid    int64
		states map[string]bool
		w      *preq
	}
	var needs []need
	x.mu.Lock()
	ok := x.constr == nil
	held := false
	for _, id := range x.order {
		if x.rs[id].atFact {
			held = true
		}
	}
	for _, id := range x.order {
		w := x.rs[id]
		if !w.started || w.done {
			continue
		}
		switch {
		case w.gid == 0:
			ok = false
		case w.atFact || w.atPre:
		case w.armed != nil && !w.armed.fired:
			needs = append(needs, need{w.gid, map[string]bool{"select": true}, nil})
		case held && !w.inFact && !w.passed:
			// may only be waiting for a lock that the held request keeps
			needs = append(needs, need{w.gid, lockStates, w})
		default:
			ok = false
		}
	}
	for _, i := range x.insts {
		if i.tickExited {
			continue
		}
		if i.tickTimer != nil && !i.tickTimer.fired && i.tickGid != 0 {
			needs = append(needs, need{i.tickGid, map[string]bool{"chan receive": true}, nil})
		} else {
			ok = false
		}
	}
	x.mu.Unlock()
	if !ok {
		return false
	}
	st := gstates()
	for _, n := range needs {
		if !n.states[st[n.gid]] {
			return false
		}
	}
	x.mu.Lock()
	for _, id := range x.order {
		x.rs[id].blocked = false
	}
	for _, n := range needs {
		if n.w != nil {
			n.w.blocked = true
		}
	}
	x.mu.Unlock()
	return true
}

func (x *prunner) settle() {
	deadline := time.Now().Add(20 * time.Second)
	for i := 0; ; i++ {
		if x.stable() {
			// a goroutine seen blocked on a mutex must still be there a moment later
			// (it could have been between two lock attempts)
			x.mu.Lock()
			anyBlocked := false
			for _, id := range x.order {
				if x.rs[id].blocked {
					anyBlocked = true
				}
			}
			x.mu.Unlock()
			if !anyBlocked {
				return
			}
			time.Sleep(200 * time.Microsecond)
			if x.stable() {
				return
			}
		}
		if i < 200 {
			runtime.Gosched()
		} else {
			time.Sleep(20 * time.Microsecond)
		}
		if i%1000 == 999 && time.Now().After(deadline) {
			buf := make([]byte, 1<<16)
			n := runtime.Stack(buf, true)
			panic(fmt.Sprintf("C10 harness (plugin): the code under test did not become quiescent\nops=%+v\n%s", x.k.Ops, buf[:n]))
		}
	}
}

// ---------------------------------------------------------------- recording

func (x *prunner) emit(a PAct) {
	x.k.Actions = append(x.k.Actions, a)
	x.k.Counts = append(x.k.Counts, nil)
}

func (x *prunner) count() int64 {
	x.mu.Lock()
	insts := append([]*pinst(nil), x.insts...)
	x.mu.Unlock()
	var n int64
	for _, i := range insts {
		for _, v := range i.q.Counts() {
			n += v
		}
	}
	return n
}

// after an operation: lookups that completed, returns that happened, Counts()
func (x *prunner) endOp(first int, now int64) {
	x.mu.Lock()
	var looked, rets []*preq
	ids := append([]int(nil), x.order...)
	sort.SliceStable(ids, func(i, j int) bool { // the request of the operation first, then by id
		if (ids[i] == first) != (ids[j] == first) {
			return ids[i] == first
		}
		return ids[i] < ids[j]
	})
	for _, id := range ids {
		w := x.rs[id]
		if w.started && !w.noconf && !w.looked && (w.atPre || w.passed) {
			w.looked = true
			looked = append(looked, w)
		}
		if w.queued && w.done && !w.reported {
			w.reported = true
			rets = append(rets, w)
		}
	}
	x.mu.Unlock()
	for _, w := range looked {
		x.emit(PAct{K: "KLookup", Key: x.k.key(w.rem), ID: w.id, Rem: w.rem, Now: now})
	}
	for _, w := range rets {
		x.emit(PAct{K: "KReturn", Key: x.k.key(w.rem), ID: w.id, Rem: w.rem, Now: now})
		x.k.Events = append(x.k.Events, PEv{K: "ret", ID: w.id, Rem: w.rem, At: w.retAt,
			Kind: w.kind, Status: w.status, Body: w.body, QAnswer: w.qans})
	}
	c := x.count()
	if len(x.k.Actions) > x.firstAct {
		x.k.Counts[len(x.k.Counts)-1] = &c
	}
}

func classify(act actions.ReqLunarAction, err error) (kind string, status int, body string) {
	switch a := act.(type) {
	case *actions.NoOpAction:
		switch {
		case err == nil:
			return "noop", 0, ""
		case errors.Is(err, remedies.ErrMissingConfig):
			return "missing-config", 0, ""
		}
		return "other", 0, "error: " + err.Error()
	case *actions.EarlyResponseAction:
		if err != nil {
			return "other", a.Status, "error: " + err.Error()
		}
		return "early", a.Status, a.Body
	}
	return "other", 0, fmt.Sprintf("%T", act)
}

func (x *prunner) scoped(rem int) config.ScopedRemedy {
	r := x.k.Remedies[rem]
	rc := sharedConfig.RemedyConfig{}
	if !r.NoConfig {
		c := &sharedConfig.StrategyBasedQueueConfig{
			AllowedRequestCount: r.Quota,
			WindowSizeInSeconds: int(r.WSec),
			ResponseStatusCode:  r.Status,
			TTLSeconds:          float32(r.TTL8) / 8,
			QueueSize:           r.QSize,
		}
		if r.Prz != nil {
			groups := map[string]sharedConfig.Prioritization{}
			for g, p := range r.Prz.Groups {
				groups[g] = sharedConfig.Prioritization{Priority: float64(p)}
			}
			c.Prioritization = &sharedConfig.GroupPrioritization{
				GroupBy: sharedConfig.GroupBy{HeaderName: r.Prz.Header}, Groups: groups,
			}
		}
		rc.StrategyBasedQueue = c
	}
	return config.ScopedRemedy{Method: "GET", NormalizedURL: "verif.example/" + r.Name,
		Remedy: &sharedConfig.Remedy{Enabled: true, Name: r.Name, Config: rc}}
}

// ---------------------------------------------------------------- operations

func (x *prunner) do(op POp) bool {
	x.firstAct = len(x.k.Actions)
	now := x.clk.nowNs()
	first := -1
	switch op.K {
	case "start":
		if x.rs[op.ID] != nil || op.Rem < 0 || op.Rem >= len(x.k.Remedies) || op.ID <= 0 {
			return false
		}
		w := &preq{id: op.ID, rem: op.Rem, hdrs: op.Hdrs, hold: op.Hold, started: true,
			relFact: make(chan struct{}), relPre: make(chan struct{}), noconf: x.k.Remedies[op.Rem].NoConfig}
		x.mu.Lock()
		x.rs[op.ID] = w
		x.order = append(x.order, op.ID)
		x.mu.Unlock()
		sr := x.scoped(op.Rem)
		hdrs := map[string]string{}
		for h, v := range op.Hdrs {
			hdrs[h] = v
		}
		go func() {
			gid := curGID()
			x.mu.Lock()
			w.gid = gid
			x.byGid[gid] = w
			x.mu.Unlock()
			act, err := x.plugin.OnRequest(messages.OnRequest{
				ID: strconv.Itoa(w.id), Method: "GET", Scheme: "https", URL: "verif.example/" + x.k.Remedies[w.rem].Name,
				Headers: hdrs, Time: time.Unix(0, now),
			}, sr)
			kind, status, body := classify(act, err)
			at := x.clk.nowNs()
			x.mu.Lock()
			w.done, w.kind, w.status, w.body, w.retAt = true, kind, status, body, at
			x.mu.Unlock()
		}()
		x.settle()
		first = w.id
		x.mu.Lock()
		done := w.done
		x.mu.Unlock()
		if done { // never reached the queue
			w.reported = true
			if w.noconf {
				x.emit(PAct{K: "NoConfig", ID: w.id, Rem: w.rem, Now: now})
			}
			x.k.Events = append(x.k.Events, PEv{K: "noconf", ID: w.id, Rem: w.rem, At: now, Kind: w.kind, Status: w.status, Body: w.body})
		}

	case "build":
		w := x.rs[op.ID]
		x.mu.Lock()
		if w == nil || !w.atFact {
			x.mu.Unlock()
			return false
		}
		w.hold, w.atFact = false, false
		x.mu.Unlock()
		close(w.relFact)
		x.settle()
		first = w.id

	case "enq":
		w := x.rs[op.ID]
		x.mu.Lock()
		if w == nil || !w.atPre || w.enqd {
			x.mu.Unlock()
			return false
		}
		w.atPre, w.enqd = false, true
		var racing []int
		for _, id := range x.order {
			if o := x.rs[id]; o != w && o.started && !o.done && !o.enqd && !o.noconf &&
				x.k.Remedies[o.rem].Name == x.k.Remedies[w.rem].Name {
				racing = append(racing, id)
			}
		}
		x.mu.Unlock()
		close(w.relPre)
		x.settle()
		x.emit(PAct{K: "KEnq", Key: x.k.key(w.rem), ID: w.id, Rem: w.rem, Hdrs: w.hdrs, Ts: w.ts, Now: now})
		x.mu.Lock()
		done, armed := w.done, w.armed != nil
		x.mu.Unlock()
		ev := PEv{K: "arrive", ID: w.id, Rem: w.rem, Hdrs: w.hdrs, Ts: w.ts, At: now, Racing: racing}
		if done {
			w.reported = true
			ev.Immediate, ev.Kind, ev.Status, ev.Body, ev.QAnswer = true, w.kind, w.status, w.body, w.qans
		} else {
			w.queued = true
			if armed {
				x.emit(PAct{K: "KPark", Key: x.k.key(w.rem), ID: w.id, Rem: w.rem, Now: now})
			}
		}
		x.k.Events = append(x.k.Events, ev)

	case "set":
		if op.To < now {
			return false
		}
		x.clk.set(op.To)
		return true

	case "firetick":
		x.mu.Lock()
		if op.Inst < 0 || op.Inst >= len(x.insts) {
			x.mu.Unlock()
			return false
		}
		inst := x.insts[op.Inst]
		t := inst.tickTimer
		if t == nil || t.fired || t.deadline > now {
			x.mu.Unlock()
			return false
		}
		t.fired = true
		x.mu.Unlock()
		t.ch <- time.Unix(0, now)
		x.settle()
		x.mu.Lock()
		used := inst.used
		x.mu.Unlock()
		if used {
			x.emit(PAct{K: "KTick", Key: inst.key, Inst: inst.keyIdx, Now: now})
			x.k.Events = append(x.k.Events, PEv{K: "pass", At: now, Key: inst.key})
		}

	case "firettl":
		w := x.rs[op.ID]
		x.mu.Lock()
		if w == nil || w.done || w.armed == nil || w.armed.fired || w.armed.deadline > now {
			x.mu.Unlock()
			return false
		}
		w.armed.fired = true
		t := w.armed
		x.mu.Unlock()
		t.ch <- time.Unix(0, now)
		x.settle()
		x.emit(PAct{K: "KTtl", Key: x.k.key(w.rem), ID: w.id, Rem: w.rem, Now: now})

	case "resp":
		if op.Rem < 0 || op.Rem >= len(x.k.Remedies) {
			return false
		}
		act, err := x.plugin.OnResponse(messages.OnResponse{ID: strconv.Itoa(op.ID), Status: 200}, x.scoped(op.Rem))
		kind := "other"
		if _, ok := act.(*actions.NoOpAction); ok && err == nil {
			kind = "noop"
		}
		x.k.Events = append(x.k.Events, PEv{K: "resp", ID: op.ID, Rem: op.Rem, At: now, Kind: kind})
		x.settle()

	case "scrape":
		// one metrics collection: run the gauge callback(s) the plugin registered, on
		// a goroutine of its own (as a metrics SDK does).  Not started while a
		// request is held inside the queue factory: at HEAD it keeps queuesMutex
		// there and the callback would (correctly) wait for it.
		x.mu.Lock()
		busy := x.constr != nil
		for _, id := range x.order {
			if w := x.rs[id]; w.started && !w.done && (w.atFact || w.inFact || w.blocked) {
				busy = true
			}
		}
		x.asked = nil
		x.mu.Unlock()
		if busy || len(x.gaugeCbs) == 0 {
			return false
		}
		obs := &pobserver{}
		fin := make(chan error, 1)
		go func() {
			var err error
			for _, cb := range x.gaugeCbs {
				if e := cb(context.Background(), obs); e != nil {
					err = e
				}
			}
			fin <- err
		}()
		var cbErr error
		select {
		case cbErr = <-fin:
		case <-time.After(20 * time.Second):
			buf := make([]byte, 1<<16)
			n := runtime.Stack(buf, true)
			panic(fmt.Sprintf("C10 harness (plugin): the requests_in_queue gauge callback did not return although no request "+
				"was inside OnRequest's locked section\nops=%+v\n%s", x.k.Ops, buf[:n]))
		}
		x.settle()
		obs.mu.Lock()
		gauge := append([]PGauge(nil), obs.out...)
		obs.mu.Unlock()
		sort.Slice(gauge, func(i, j int) bool {
			if gauge[i].Remedy != gauge[j].Remedy {
				return gauge[i].Remedy < gauge[j].Remedy
			}
			if gauge[i].Priority != gauge[j].Priority {
				return gauge[i].Priority < gauge[j].Priority
			}
			return gauge[i].N < gauge[j].N
		})
		var total int64
		for _, g := range gauge {
			total += g.N
		}
		x.mu.Lock()
		asked := append([]int(nil), x.asked...)
		x.mu.Unlock()
		sort.Ints(asked)
		ev := PEv{K: "scrape", At: now, Gauge: gauge, Asked: asked}
		if cbErr != nil {
			ev.Body = "error: " + cbErr.Error()
		}
		x.k.Events = append(x.k.Events, ev)
		// lookups / returns a collection may have caused are reported first, the
		// read itself last: its observable is what the callback reported
		x.endOp(first, now)
		x.emit(PAct{K: "Scrape", Now: now})
		x.k.Counts[len(x.k.Counts)-1] = &total
		return true

	default:
		panic("unknown plugin op " + op.K)
	}
	x.endOp(first, now)
	return true
}

type pdue struct {
	tick     bool
	inst, id int
	deadline int64
}

func (x *prunner) pending() []pdue {
	x.mu.Lock()
	defer x.mu.Unlock()
	var out []pdue
	for _, i := range x.insts {
		if t := i.tickTimer; t != nil && !t.fired && !i.tickExited {
			out = append(out, pdue{tick: true, inst: i.idx, deadline: t.deadline})
		}
	}
	for _, id := range x.order {
		w := x.rs[id]
		if w.started && !w.done && w.armed != nil && !w.armed.fired {
			out = append(out, pdue{id: id, deadline: w.armed.deadline})
		}
	}
	sort.SliceStable(out, func(i, j int) bool { return out[i].deadline < out[j].deadline })
	return out
}

func (x *prunner) inFactory() []int {
	x.mu.Lock()
	defer x.mu.Unlock()
	var out []int
	for _, id := range x.order {
		if x.rs[id].atFact {
			out = append(out, id)
		}
	}
	return out
}

func (x *prunner) atNewRequest() []int {
	x.mu.Lock()
	defer x.mu.Unlock()
	var out []int
	for _, id := range x.order {
		if x.rs[id].atPre {
			out = append(out, id)
		}
	}
	return out
}

func (x *prunner) blockedOnLock() []int {
	x.mu.Lock()
	defer x.mu.Unlock()
	var out []int
	for _, id := range x.order {
		if w := x.rs[id]; w.blocked && !w.done {
			out = append(out, id)
		}
	}
	return out
}

func (x *prunner) finish() {
	x.mu.Lock()
	for _, id := range x.order {
		w := x.rs[id]
		x.k.Results = append(x.k.Results, PRes{ID: id, Rem: w.rem, Returned: w.done, Kind: w.kind, Status: w.status, At: w.retAt})
	}
	x.k.Constructed = len(x.insts)
	x.dead = true
	for _, id := range x.order {
		w := x.rs[id]
		if w.atFact {
			w.atFact = false
			close(w.relFact)
		}
		if w.atPre {
			w.atPre = false
			close(w.relPre)
		}
	}
	x.mu.Unlock()
	deadline := time.Now().Add(20 * time.Second)
	for {
		all := true
		x.mu.Lock()
		for _, id := range x.order {
			w := x.rs[id]
			if !w.started || w.done {
				continue
			}
			all = false
			if w.armed != nil && !w.armed.fired {
				w.armed.fired = true
				w.armed.ch <- time.Unix(0, w.armed.deadline)
			}
		}
		if all {
			if x.constr != nil {
				all = false
			}
			for _, i := range x.insts {
				if i.tickExited {
					continue
				}
				all = false
				if t := i.tickTimer; t != nil && !t.fired {
					t.fired = true
					t.ch <- time.Unix(0, t.deadline)
				}
			}
		}
		x.mu.Unlock()
		if all {
			break
		}
		if time.Now().After(deadline) {
			panic("C10 harness (plugin): could not retire the goroutines of a case")
		}
		time.Sleep(20 * time.Microsecond)
	}
}

func execPCase(k *PCase) {
	x := newPRunner(k)
	ops := k.Ops
	k.Ops = nil
	for _, op := range ops {
		if x.do(op) {
			k.Ops = append(k.Ops, op)
		}
	}
	x.finish()
}
