// C10 harness: drives the real utils/queue.DelayedPriorityQueue (and
// services/remedies.StrategyBasedQueuePlugin.OnRequest) with a controlled clock.
//
//	suite seq     sequential mock-clock histories as in queue_harness_test.go:
//	              arrivals with priorities/TTLs, window roll-overs, queue-full
//	              rejections; timers fire in deadline order, every goroutine runs
//	              to its next blocking point before the next event.
//	suite forced  schedules forced through the yield hooks dpq.unlocked /
//	              dpq.tick_before_lock (needs patches/C10/hook-dpq-yield.patch):
//	              waiters held between Unlock and the select, the woken roll-over
//	              goroutine held before its Lock, delayed timer wake-ups.
//
// Both suites hand the model the action list (EnqLocked/Park/Tick/Ttl/Return)
// the executed operations amounted to; observables = Counts() after each
// operation, result and return instant of every Enqueue.
package main

import (
	"encoding/json"
	"fmt"
	"time"

	c "verifharness/common"
)

const sec = int64(time.Second)

func coqAct(a Act) string {
	switch a.K {
	case "EnqLocked":
		return fmt.Sprintf("EnqLocked %s %s %s %s %s", c.Z(int64(a.ID)), c.Z(int64(a.Prio)), c.Z(a.Ts), c.Z(a.TTL), c.Z(a.Now))
	case "Park":
		return fmt.Sprintf("Park %s %s", c.Z(int64(a.ID)), c.Z(a.Now))
	case "Tick":
		return "Tick " + c.Z(a.Now)
	case "Ttl":
		return fmt.Sprintf("Ttl %s %s", c.Z(int64(a.ID)), c.Z(a.Now))
	case "Return":
		return fmt.Sprintf("Return %s %s", c.Z(int64(a.ID)), c.Z(a.Now))
	}
	panic("bad action " + a.K)
}

func coq(k *Case) string {
	return c.Tuple(
		c.Tuple(c.Z(k.Quota), c.Z(k.W), c.Z(k.QSize)),
		c.Z(k.QueueT0),
		c.MapList(k.Actions, coqAct),
		c.MapList(k.Counts, c.OptZ),
		c.MapList(k.Results, func(r Res) string {
			if !r.Returned {
				return c.Tuple(c.Z(int64(r.ID)), "None")
			}
			return c.Tuple(c.Z(int64(r.ID)), c.Some(c.Tuple(c.B(r.Result), c.Z(r.At))))
		}),
	)
}

// suite timer: the deadline of the timer the roll-over goroutine re-arms after
// each pass, against the model's next_tick (= window end after the Tick)
func coqTimer(k *Case) string {
	var nexts []string
	for _, e := range k.Events {
		if e.K == "pass" {
			if e.NextTick == 0 {
				nexts = append(nexts, "None")
			} else {
				nexts = append(nexts, c.Some(c.Z(e.NextTick)))
			}
		}
	}
	return c.Tuple(
		c.Tuple(c.Z(k.Quota), c.Z(k.W), c.Z(k.QSize)),
		c.Z(k.QueueT0),
		c.MapList(k.Actions, coqAct),
		c.List(nexts),
	)
}

var timerSeen int

func record(o *c.Out, suite string, k *Case) {
	passWithWaiter, refusal, unparked, rolled := false, false, false, false
	waiting := 0
	for _, e := range k.Events {
		switch e.K {
		case "arrive":
			if !e.Immediate {
				waiting++
			} else if !e.Result {
				refusal = true
			}
		case "ret":
			waiting--
			if !e.Result {
				refusal = true
			}
		case "pass":
			rolled = true
			if waiting > 0 {
				passWithWaiter = true
			}
			if len(e.Unparked) > 0 {
				unparked = true
			}
		}
	}
	nontrivial := passWithWaiter && refusal
	term := ""
	if suite == "atomic" {
		term = coqAtomic(k)
		nontrivial = false
		for _, p := range k.Probes {
			if !p.Reached {
				o.Count("atomic:probe-not-in-slow-path")
			}
			for _, in := range p.Inner {
				o.Count("atomic:inside:" + in.K + ":" + in.Outcome)
				if p.Reached && (in.Outcome == "blocked" || in.Outcome == "ran") {
					nontrivial = true
				}
			}
		}
	} else if suite == "timer" {
		term = coqTimer(k)
		nontrivial = rolled
	} else {
		term = coq(k)
	}
	o.Count(fmt.Sprintf("%s:requests=%02d", suite, len(k.Results)))
	o.Count(fmt.Sprintf("%s:quota=%d", suite, k.Quota))
	if rolled {
		o.Count(suite + ":with-rollover-pass")
	}
	if refusal {
		o.Count(suite + ":with-refusal")
	}
	if unparked {
		o.Count(suite + ":pass-with-unparked-waiter")
	}
	if k.Plugin {
		o.Count(suite + ":plugin-level")
	}
	for _, r := range k.Results {
		switch {
		case !r.Returned:
			o.Count("outcome:pending")
		case r.Result:
			o.Count("outcome:true")
		default:
			o.Count("outcome:false")
		}
	}
	idx := o.Case(suite, term, k, nontrivial)
	o.MonitorChecked(1)
	for _, h := range monitor(k) {
		h.Suite, h.Index = suite, idx
		o.Count("hit:" + h.Signature)
		hitsSeen[h.Signature]++
		if h.Signature != sigLost && h.Signature != sigBarging {
			unknownHits++
		}
		if hitsSeen[h.Signature] <= 40 { // the smallest of these becomes the replay; totals are in the distribution
			o.Hit(h)
		}
	}
	// every third history with a pass is also handed to the timer tie
	if (suite == "seq" || suite == "forced") && rolled {
		timerSeen++
		if timerSeen%3 == 0 {
			o.Count("timer:from-" + suite)
			o.Case("timer", coqTimer(k), k, true)
		}
	}
}

var (
	hitsSeen    = map[string]int{}
	unknownHits int
)

// enough: so many violations outside the known findings that generating more
// histories adds nothing (keeps a badly broken tree from taking minutes)
func enough() bool { return unknownHits >= 400 }

// ---------------------------------------------------------------- generators

type gen struct {
	r    *c.Rng
	x    *runner
	k    *Case
	next int
	used map[[2]int64]bool // (priority, timestamp) pairs taken
	ttls []int64
	nops int
}

// opBudget bounds one history (a broken roll-over goroutine may re-arm its
// timer in the past for ever; the monitor reports that, the generator stops).
const opBudget = 160

func (g *gen) over() bool { return g.nops >= opBudget }

func (g *gen) do(op Op) bool {
	if g.over() {
		return false
	}
	g.nops++
	if g.x.do(op) {
		g.k.Ops = append(g.k.Ops, op)
		return true
	}
	return false
}

func (g *gen) now() int64 { return g.x.clk.nowNs() }

// advance to T firing every due timer in deadline order (ties in random order)
func (g *gen) adv(to int64) {
	for i := 0; i < 64 && !g.over(); i++ {
		p := g.x.pending()
		if len(p) == 0 || p[0].deadline > to {
			break
		}
		n := 1
		for n < len(p) && p[n].deadline == p[0].deadline {
			n++
		}
		d := p[g.r.Intn(n)]
		if d.deadline > g.now() {
			g.do(Op{K: "set", To: d.deadline})
		}
		if d.tick {
			g.do(Op{K: "firetick"})
		} else {
			g.do(Op{K: "firettl", ID: d.id})
		}
	}
	if to > g.now() {
		g.do(Op{K: "set", To: to})
	}
}

func (g *gen) pickPrio() int {
	if g.r.Chance(1, 2) {
		return 0
	}
	return g.r.Intn(3)
}

func (g *gen) pickTTL() int64 { return c.Pick(g.r, g.ttls) }

// arrive: NewRequest + Enqueue at the current instant
func (g *gen) arrive(hold bool, seq bool) int {
	prio := g.pickPrio()
	for g.used[[2]int64{int64(prio), g.now()}] && !g.over() { // (priority, timestamp) ties are not fixed by the code
		if seq {
			g.adv(g.now() + 1)
		} else {
			g.do(Op{K: "set", To: g.now() + 1})
		}
	}
	g.used[[2]int64{int64(prio), g.now()}] = true
	id := g.next
	g.next++
	if !g.k.Plugin {
		g.do(Op{K: "new", ID: id, Prio: prio})
	}
	g.do(Op{K: "enq", ID: id, Prio: prio, TTL: g.pickTTL(), Hold: hold})
	return id
}

// an interesting instant at or after now
func (g *gen) instant() int64 {
	now, w := g.now(), g.k.W
	b := (now/w + 1) * w
	cands := []int64{now, now + 1, b - 1, b, b + 1, b + w - 1, b + w, b + w/2, now + w/3}
	for _, d := range g.x.pending() {
		cands = append(cands, d.deadline-1, d.deadline, d.deadline+1)
	}
	t := c.Pick(g.r, cands)
	if t < now {
		t = now
	}
	return t
}

func newGen(o *c.Out, plugin bool) *gen {
	r := o.Rng
	k := &Case{Plugin: plugin}
	k.Quota = int64(r.Range(1, 3))
	k.QSize = int64(r.Range(1, 4))
	unit := int64(1)
	if plugin {
		k.W = int64(r.Range(1, 2)) * sec
		unit = sec
	} else {
		k.W = c.Pick(r, []int64{1000, 250 * int64(time.Millisecond), sec})
	}
	base := int64(1_700_000_000) * sec
	base -= base % k.W
	k.T0 = base + c.Pick(r, []int64{0, 1, k.W / 2, k.W - 1})
	if plugin {
		k.T0 = base + c.Pick(r, []int64{0, sec / 2})
	}
	g := &gen{r: r, k: k, used: map[[2]int64]bool{}, next: 1}
	if plugin {
		g.ttls = []int64{unit, 2 * unit, 3 * unit}
	} else {
		w := k.W
		g.ttls = []int64{w / 2, w - 1, w, w + 1, 2 * w, 3*w + 1}
	}
	g.x = newRunner(k)
	return g
}

// drain: park everybody, let the held roll-over goroutine go, then let time
// pass (in order) until every waiter has returned or three more windows elapsed.
func (g *gen) drain() {
	for _, id := range g.x.heldWaiters() {
		g.do(Op{K: "park", ID: id})
	}
	if g.x.tickHeld() {
		g.do(Op{K: "runtick"})
	}
	end := g.now() + 4*g.k.W + 2
	for i := 0; i < 40 && g.now() < end && !g.over(); i++ {
		p := g.x.pending()
		wait := false
		for _, d := range p {
			if !d.tick {
				wait = true
			}
		}
		if !wait {
			break
		}
		g.adv(p[0].deadline)
	}
}

func genSeq(o *c.Out, plugin bool) *Case {
	g := newGen(o, plugin)
	r := g.r
	// sometimes a batch of requests is created first (timestamps 1 ns .. 1 ms apart)
	// and enqueued later in another order, as PrepareQueueRequests/DispatchRequests do
	var batch []int
	if !plugin && r.Chance(1, 4) {
		for i, n := 0, r.Range(2, 4); i < n; i++ {
			prio := g.pickPrio()
			g.used[[2]int64{int64(prio), g.now()}] = true
			g.do(Op{K: "new", ID: g.next, Prio: prio})
			batch = append(batch, g.next)
			g.next++
			g.adv(g.now() + c.Pick(r, []int64{1, g.k.W/4 + 1, g.k.W}))
		}
	}
	for i, n := 0, r.Range(3, 14); i < n; i++ {
		switch {
		case len(batch) > 0 && r.Chance(1, 2):
			j := r.Intn(len(batch))
			g.do(Op{K: "enq", ID: batch[j], TTL: g.pickTTL()})
			batch = append(batch[:j], batch[j+1:]...)
		case r.Chance(3, 5):
			g.arrive(false, true)
		default:
			g.adv(g.instant())
		}
	}
	g.drain()
	g.x.finish()
	return g.k
}

func genForced(o *c.Out, plugin bool) *Case {
	g := newGen(o, plugin)
	r := g.r
	for i, n := 0, r.Range(4, 16); i < n; i++ {
		switch r.Intn(10) {
		case 0, 1, 2:
			g.arrive(r.Chance(1, 2), false)
		case 3, 4:
			g.do(Op{K: "set", To: g.instant()})
		case 5, 6:
			// fire a due timer, possibly holding the roll-over goroutine before its Lock
			var duel []due
			for _, d := range g.x.pending() {
				if d.deadline <= g.now() {
					duel = append(duel, d)
				}
			}
			if len(duel) == 0 {
				g.do(Op{K: "set", To: g.instant()})
				continue
			}
			d := c.Pick(r, duel)
			if d.tick {
				g.do(Op{K: "firetick", Hold: r.Chance(1, 2)})
			} else {
				g.do(Op{K: "firettl", ID: d.id})
			}
		case 7:
			if h := g.x.heldWaiters(); len(h) > 0 {
				g.do(Op{K: "park", ID: c.Pick(r, h)})
			}
		case 8:
			g.do(Op{K: "runtick"})
		default:
			g.adv(g.instant())
		}
	}
	g.drain()
	g.x.finish()
	return g.k
}

// ---------------------------------------------------------------- scripted schedules

// the two witnesses of C10_full_refuted, on the real queue
func scripted(plugin bool) []*Case {
	w := sec
	t0 := int64(1_700_000_000) * sec
	mk := func(ops ...Op) *Case {
		return &Case{Quota: 1, W: w, QSize: 10, T0: t0, Plugin: plugin, Ops: ops}
	}
	nw := func(id int) []Op {
		if plugin {
			return nil
		}
		return []Op{{K: "new", ID: id}}
	}
	cat := func(xs ...[]Op) []Op {
		var out []Op
		for _, x := range xs {
			out = append(out, x...)
		}
		return out
	}
	lost := mk(cat(
		nw(1), []Op{{K: "enq", ID: 1, TTL: 2 * w}}, // takes the slot of window 0
		[]Op{{K: "set", To: t0 + 1}},
		nw(2), []Op{{K: "enq", ID: 2, TTL: 2 * w, Hold: true}}, // queued, held between Unlock and select
		[]Op{{K: "set", To: t0 + w}, {K: "firetick"}}, // roll-over: pops 2, the send finds no receiver
		[]Op{{K: "park", ID: 2}},                      // now it parks
		[]Op{{K: "set", To: t0 + 2*w}, {K: "firetick"}},
		[]Op{{K: "set", To: t0 + 3*w}, {K: "firetick"}, {K: "firettl", ID: 2}},
	)...)
	barging := mk(cat(
		nw(1), []Op{{K: "enq", ID: 1, TTL: 2 * w}},
		[]Op{{K: "set", To: t0 + 1}},
		nw(2), []Op{{K: "enq", ID: 2, TTL: w}}, // queued and parked; expires before the next boundary
		[]Op{{K: "set", To: t0 + w}, {K: "firetick", Hold: true}}, // roll-over goroutine woken, held before Lock
		nw(3), []Op{{K: "enq", ID: 3, TTL: 2 * w}}, // the new arrival takes the fresh slot
		[]Op{{K: "runtick"}}, // quota used: 2 is not released
		[]Op{{K: "set", To: t0 + 1 + w}, {K: "firettl", ID: 2}},
	)...)
	return []*Case{lost, barging}
}

// all orders of the events around one roll-over for up to n waiters
func enumerate(o *c.Out, maxWaiters int) {
	w := int64(1000)
	t0 := int64(1_700_000_000) * sec
	for quota := int64(1); quota <= 2; quota++ {
		for n := 1; n <= maxWaiters; n++ {
			for holds := 0; holds < 1<<n; holds++ {
				for prios := 0; prios < 1<<n; prios++ {
					if prios != 0 && n > 2 && prios != (1<<n)-2 {
						continue
					}
					// events after the boundary: tick (T), park of each held waiter (Pi), one newcomer (N)
					evs := []string{"T", "N"}
					for i := 0; i < n; i++ {
						if holds>>i&1 == 1 {
							evs = append(evs, fmt.Sprintf("P%d", i))
						}
					}
					permute(evs, func(p []string) {
						if enough() {
							return
						}
						var ops []Op
						id := 1
						for q := int64(0); q < quota; q++ { // fill the quota of window 0
							ops = append(ops, Op{K: "new", ID: id}, Op{K: "enq", ID: id, TTL: w})
							id++
						}
						first := id
						for i := 0; i < n; i++ {
							ops = append(ops, Op{K: "set", To: t0 + int64(i) + 1},
								Op{K: "new", ID: id, Prio: prios >> i & 1},
								Op{K: "enq", ID: id, Prio: prios >> i & 1, TTL: w + w/2, Hold: holds>>i&1 == 1})
							id++
						}
						ops = append(ops, Op{K: "set", To: t0 + w}, Op{K: "firetick", Hold: true})
						for _, e := range p {
							switch e[0] {
							case 'T':
								ops = append(ops, Op{K: "runtick"})
							case 'N':
								ops = append(ops, Op{K: "new", ID: id}, Op{K: "enq", ID: id, TTL: w})
								id++
							case 'P':
								ops = append(ops, Op{K: "park", ID: first + int(e[1]-'0')})
							}
						}
						k := &Case{Quota: quota, W: w, QSize: 3, T0: t0, Ops: ops}
						x := newRunner(k)
						k.Ops = nil
						g := &gen{r: o.Rng, x: x, k: k}
						for _, op := range ops {
							g.do(op)
						}
						g.drain()
						x.finish()
						record(o, "forced", k)
					})
				}
			}
		}
	}
}

func permute(xs []string, f func([]string)) {
	var rec func(int)
	rec = func(i int) {
		if i == len(xs) {
			f(append([]string(nil), xs...))
			return
		}
		for j := i; j < len(xs); j++ {
			xs[i], xs[j] = xs[j], xs[i]
			rec(i + 1)
			xs[i], xs[j] = xs[j], xs[i]
		}
	}
	rec(0)
}

func main() {
	o := c.NewOut("C10")
	o.ShardSize = 120 // plugin cases are big terms: smaller shards evaluate in parallel
	o.DeclareSuite("seq", "From Verif Require Import C10.Model.", "case", "run_case")
	o.DeclareSuite("forced", "From Verif Require Import C10.Model.", "case", "run_case")
	o.DeclareSuite("plugin", "From Verif Require Import C10.Model C10.Plugin C10.Scrape.", "case_mplugin", "run_mplugin")
	o.DeclareSuite("plugin_outside", "From Verif Require Import C10.Model C10.Plugin C10.Scrape C10.PluginCheck.", "case_mplugin", "run_plugin_outside")
	o.DeclareSuite("atomic", "From Verif Require Import C10.Model C10.Split.", "case_atomic", "run_atomic")
	o.DeclareSuite("timer", "From Verif Require Import C10.Model.", "case_timer", "run_timer")
	o.Rule("seq: random sequential mock-clock histories (quota 1-3, queue size 1-4, windows 1 us/250 ms/1 s, " +
		"arrivals with priorities 0-2 and TTLs around the window size, instants on boundary-1/boundary/boundary+1 and " +
		"TTL deadline +-1, timers fired in deadline order), a quarter of them through StrategyBasedQueuePlugin.OnRequest; " +
		"forced: the two refutation witnesses, every order of {roll-over pass, parks of held waiters, one new arrival} " +
		"around one roll-over for up to N waiters, and random schedules using the yield hooks; distinct = distinct " +
		"(settings, action list, observables); non-trivial = a roll-over pass ran while somebody waited and at least " +
		"one Enqueue returned false; plugin: the real StrategyBasedQueuePlugin.OnRequest/OnResponse over 1-3 remedies " +
		"(quota 1-3, windows 1-3 s, TTL 1-4 s in eighths of a second, queue size 1-3, three prioritization tables incl. a group for the missing " +
		"header, equal strategies under different names, one name with a changed strategy, one key with changed per-call " +
		"parameters, a remedy without configuration): online histories with bursts, clock advances to boundary-1/boundary/" +
		"boundary+1 and TTL deadline +-1, and forced interleavings in which the first request of a remedy is held inside " +
		"the queue factory while others arrive (every order of build/enqueue steps for 2-3 first requests, plus random ones); " +
		"two thirds of the random plugin histories contain metrics reads (the plugin's requests_in_queue gauge callback, registered " +
		"through a recording meter, run at arbitrary points: between the arrivals of a burst, while waiters are parked, around " +
		"roll-over passes and TTL expiries), plus 128 scripted histories with a read at every subset of six positions; " +
		"timer: every third seq/forced history with a roll-over pass again, observable = the deadline of the timer the " +
		"roll-over goroutine re-arms after each pass (model: next_tick = window end after the Tick); " +
		"non-trivial (plugin) = somebody waited, somebody was released by a roll-over and somebody was refused, or a " +
		"request really was blocked behind / concurrent with a queue construction; plugin_outside: the plugin cases in which " +
		"a roll-over pass released somebody or a waiter expired (quick: the first 120), evaluated by PluginCheck.run_plugin_outside = " +
		"the decidable side condition outsideb of C10_plugin_holds_outside_findings_decidable holds for every remedy key of the " +
		"executed history (no F-C10 / F-C10b event in any queue instance)")
	var raw json.RawMessage
	if suite, ok := o.ReplayCase(&raw); ok {
		if suite == "plugin" || suite == "plugin_outside" {
			var pk PCase
			if err := json.Unmarshal(raw, &pk); err != nil {
				panic(err)
			}
			execPCase(&pk)
			recordP(o, &pk)
		} else {
			var k Case
			if err := json.Unmarshal(raw, &k); err != nil {
				panic(err)
			}
			if k.Trace {
				withTrace(func() { execCase(&k) })
			} else {
				execCase(&k)
			}
			record(o, suite, &k)
		}
		o.Finish()
		return
	}
	for _, plugin := range []bool{false, true} {
		for _, k := range scripted(plugin) {
			execCase(k)
			record(o, "forced", k)
		}
	}
	enumerate(o, o.Scale(2, 3, 3))
	for i, n := 0, o.Scale(1500, 20000, 12000); i < n && !enough(); i++ {
		record(o, "seq", genSeq(o, i%4 == 3))
	}
	for i, n := 0, o.Scale(1500, 20000, 12000); i < n && !enough(); i++ {
		record(o, "forced", genForced(o, i%5 == 4))
	}
	withTrace(func() {
		scriptedAtomic(o, o.Scale(0, 1, 1) == 1)
		for i, n := 0, o.Scale(400, 6000, 4000); i < n && !enough(); i++ {
			record(o, "atomic", genAtomic(o))
		}
	})
	scriptedPlugin(o, o.Scale(2, 3, 3))
	scriptedScrapes(o)
	for i, n := 0, o.Scale(700, 8000, 5000); i < n && !enough(); i++ {
		recordP(o, genPluginSeq(o))
	}
	for i, n := 0, o.Scale(500, 6000, 5000); i < n && !enough(); i++ {
		recordP(o, genPluginForced(o))
	}
	if enough() {
		o.Note("generation stopped early: more than 400 monitor hits outside the known findings")
	}
	if probeMissed > 0 {
		// no silent degradation of suite atomic to plain Enqueues
		panic(fmt.Sprintf("C10 harness: suite atomic can no longer probe the locked part of Enqueue: %d probed request(s) "+
			"went to the queue without standing on the trace line %q between the admission decision and heap.Push "+
			"(the line was removed, moved behind the push or is no longer logged through the injected logger); "+
			"the atomicity of EnqLocked is then an unchecked modelling assumption", probeMissed, pushLine))
	}
	o.Finish()
}
