package main

// Suite "plugin": Coq rendering, generators (sequential / online histories over
// 1-3 remedies, forced interleavings of the first requests of a remedy) and
// recording.

import (
	"fmt"
	"sort"

	c "verifharness/common"
)

// ---------------------------------------------------------------- Coq terms

func coqKey(k [3]int64) string { return c.Tuple(c.Z(k[0]), c.Z(k[1]), c.Z(k[2])) }

func coqHdrs(h map[string]string) string {
	names := make([]string, 0, len(h))
	for n := range h {
		names = append(names, n)
	}
	sort.Strings(names)
	return c.MapList(names, func(n string) string { return c.Tuple(c.Bytes(n), c.Bytes(h[n])) })
}

func coqPar(r PRemedy) string {
	prz := "None"
	if r.Prz != nil {
		names := make([]string, 0, len(r.Prz.Groups))
		for n := range r.Prz.Groups {
			names = append(names, n)
		}
		sort.Strings(names)
		prz = c.Some(fmt.Sprintf("{| hname := %s; groups := %s |}", c.Bytes(r.Prz.Header),
			c.MapList(names, func(n string) string { return c.Tuple(c.Bytes(n), c.Z(int64(r.Prz.Groups[n]))) })))
	}
	return fmt.Sprintf("{| p_ttl_e := %s; p_qsize := %s; p_status := %s; p_prz := %s |}",
		c.Z(r.TTL8), c.Z(r.QSize), c.Z(int64(r.Status)), prz)
}

// remedy index of a queue key (KTick): any remedy of the case with that key;
// len(Remedies) (not in the table: the model rejects the case) when there is none
func (k *PCase) remOfKey(key [3]int64) int {
	for i, r := range k.Remedies {
		if !r.NoConfig && k.key(i) == key {
			return i
		}
	}
	return len(k.Remedies)
}

// an action of Scrape.v ([mcact]): an action of Plugin.v or a metrics read
func coqMAct(k *PCase, a PAct) string {
	if a.K == "Scrape" {
		return "MCScrape " + c.Z(a.Now)
	}
	return "MC (" + coqPAct(k, a) + ")"
}

func coqPAct(k *PCase, a PAct) string {
	id, now, rem := c.Z(int64(a.ID)), c.Z(a.Now), c.Nat(a.Rem)
	switch a.K {
	case "KLookup":
		return fmt.Sprintf("CLookup %s %s %s", rem, id, now)
	case "KEnq":
		return fmt.Sprintf("CEnq %s %s %s %s %s", rem, id, coqHdrs(a.Hdrs), c.Z(a.Ts), now)
	case "KPark":
		return fmt.Sprintf("CR %s %s RPark %s", rem, id, now)
	case "KTtl":
		return fmt.Sprintf("CR %s %s RTtl %s", rem, id, now)
	case "KReturn":
		return fmt.Sprintf("CR %s %s RReturn %s", rem, id, now)
	case "KTick":
		return fmt.Sprintf("CTick %s %s %s", c.Nat(k.remOfKey(a.Key)), c.Nat(a.Inst), now)
	case "NoConfig":
		return fmt.Sprintf("CNoConfig %s %s", id, now)
	}
	panic("bad plugin action " + a.K)
}

func coqPCase(k *PCase) string {
	return c.Tuple(
		c.MapList(k.Remedies, func(r PRemedy) string {
			if r.NoConfig { // never referred to by an action of the model
				return c.Tuple(c.Tuple("0", "0", "0"), "{| p_ttl_e := 0; p_qsize := 0; p_status := 0; p_prz := None |}")
			}
			return c.Tuple(coqKey([3]int64{k.nameID(r.Name), r.Quota, r.WSec}), coqPar(r))
		}),
		c.MapList(k.Actions, func(a PAct) string { return coqMAct(k, a) }),
		c.MapList(k.Counts, c.OptZ),
		c.MapList(k.Results, func(r PRes) string {
			rem := "None"
			if !k.Remedies[r.Rem].NoConfig {
				rem = c.Some(c.Nat(r.Rem))
			}
			v := "None"
			if r.Returned {
				var vd string
				switch r.Kind {
				case "noop":
					vd = "VNoOp"
				case "early":
					vd = "VEarly " + c.Z(int64(r.Status))
				case "missing-config":
					vd = "VMissingConfig"
				default:
					vd = "VOther"
				}
				v = c.Some(c.Tuple(vd, c.Z(r.At)))
			}
			return c.Tuple(rem, c.Z(int64(r.ID)), v)
		}),
	)
}

// ---------------------------------------------------------------- recording

var outsideEmitted int

func recordP(o *c.Out, k *PCase) {
	rolled, refusedFull, refusedTTL, waited, prio := false, false, false, false, false
	for _, e := range k.Events {
		switch e.K {
		case "arrive":
			if !e.Immediate {
				waited = true
			} else if e.Kind != "noop" {
				refusedFull = true
			}
			if mprio(k.Remedies[e.Rem], e.Hdrs) != 0 {
				prio = true
			}
		case "ret":
			if e.Kind == "noop" {
				rolled = true
			} else {
				refusedTTL = true
			}
		}
	}
	// metrics reads: where in the history they fell
	scrapes, waitingNow := 0, 0
	granted := map[[3]int64]map[int64]int64{} // per remedy key and aligned window: requests let through so far
	for _, e := range k.Events {
		switch e.K {
		case "arrive":
			if !e.Immediate {
				waitingNow++
			}
			if e.Immediate && e.Kind == "noop" {
				noteGrant(k, granted, e.Rem, e.At)
			}
		case "ret":
			waitingNow--
			if e.Kind == "noop" {
				noteGrant(k, granted, e.Rem, e.At)
			}
		case "scrape":
			scrapes++
			switch {
			case waitingNow > 0:
				o.Count("plugin:scrape:while-somebody-waits")
			case quotaTouched(k, granted, e.At):
				o.Count("plugin:scrape:idle-after-quota-was-consumed-in-the-window")
			default:
				o.Count("plugin:scrape:idle-window-untouched")
			}
		}
	}
	if scrapes > 0 {
		o.Count("plugin:histories-with-metrics-reads")
	}
	if k.NoGauge {
		o.Count("plugin:no-gauge-callback-registered")
	}
	keys := map[[3]int64]bool{}
	for _, r := range k.Results {
		if !k.Remedies[r.Rem].NoConfig {
			keys[k.key(r.Rem)] = true
		}
	}
	nontrivial := rolled && (refusedFull || refusedTTL) && waited
	kind := "plugin-seq"
	if k.Forced {
		kind = "plugin-forced"
		// a forced case is non-trivial when a request really waited behind a construction
		for _, n := range k.Notes {
			if n == "blocked-behind-construction" || n == "concurrent-construction" {
				nontrivial = true
				o.Count("plugin:" + n)
			}
		}
	}
	o.Count(fmt.Sprintf("%s:remedy-keys=%d", kind, len(keys)))
	o.Count(fmt.Sprintf("%s:requests=%02d", kind, len(k.Results)))
	if rolled {
		o.Count(kind + ":released-at-rollover")
	}
	if refusedFull {
		o.Count(kind + ":refused-at-once")
	}
	if refusedTTL {
		o.Count(kind + ":refused-after-ttl")
	}
	if prio {
		o.Count(kind + ":non-default-priority")
	}
	o.Count(fmt.Sprintf("plugin:queues-constructed=%d", k.Constructed))
	for _, r := range k.Results {
		switch {
		case !r.Returned:
			o.Count("plugin-outcome:pending")
		default:
			o.Count("plugin-outcome:" + r.Kind)
		}
	}
	idx := o.Case("plugin", coqPCase(k), k, nontrivial)
	o.MonitorChecked(1)
	// the same case again, evaluated by run_plugin_outside: the side condition
	// of C10_plugin_holds_outside_findings_decidable on the executed history
	if (rolled || refusedTTL) && outsideEmitted < o.Scale(120, 1000000, 0) {
		outsideEmitted++
		o.Case("plugin_outside", coqPCase(k), k, nontrivial)
		o.Count("plugin_outside:evaluated")
	}
	for _, h := range pmonitor(k) {
		h.Suite, h.Index = "plugin", idx
		o.Count("hit:" + h.Signature)
		hitsSeen[h.Signature]++
		unknownHits++
		if hitsSeen[h.Signature] <= 40 {
			o.Hit(h)
		}
	}
}

func noteGrant(k *PCase, granted map[[3]int64]map[int64]int64, rem int, at int64) {
	key := k.key(rem)
	if granted[key] == nil {
		granted[key] = map[int64]int64{}
	}
	granted[key][at/(k.Remedies[rem].WSec*sec)]++
}

// some remedy has let a request through in its aligned window containing `at`
func quotaTouched(k *PCase, granted map[[3]int64]map[int64]int64, at int64) bool {
	for key, m := range granted {
		if key[2] > 0 && m[at/(key[2]*sec)] > 0 {
			return true
		}
	}
	return false
}

// ---------------------------------------------------------------- generators

type pgen struct {
	r    *c.Rng
	x    *prunner
	k    *PCase
	next int
	nops int
	maxW int64

	scrapes bool // this history contains metrics reads
}

func (g *pgen) over() bool { return g.nops >= opBudget }

func (g *pgen) do(op POp) bool {
	if g.over() {
		return false
	}
	g.nops++
	if g.x.do(op) {
		g.k.Ops = append(g.k.Ops, op)
		return true
	}
	return false
}

func (g *pgen) now() int64 { return g.x.clk.nowNs() }

// a metrics collection may fall anywhere: between two arrivals of a burst
// (quota consumed, nobody waits), while waiters are parked, right before / after
// a roll-over pass or a TTL expiry, across window ends
func (g *pgen) maybeScrape(num, den int) {
	if g.scrapes && g.r.Chance(num, den) {
		g.do(POp{K: "scrape"})
	}
}

// advance to `to` firing every due timer in deadline order: roll-over passes
// before TTLs of the same instant would hide nothing the property speaks about,
// so ties are fired in random order
func (g *pgen) adv(to int64) {
	for i := 0; i < 96 && !g.over(); i++ {
		p := g.x.pending()
		if len(p) == 0 || p[0].deadline > to {
			break
		}
		n := 1
		for n < len(p) && p[n].deadline == p[0].deadline {
			n++
		}
		d := p[g.r.Intn(n)]
		if d.deadline > g.now() {
			g.do(POp{K: "set", To: d.deadline})
		}
		g.maybeScrape(1, 6)
		if d.tick {
			g.do(POp{K: "firetick", Inst: d.inst})
		} else {
			g.do(POp{K: "firettl", ID: d.id})
		}
		g.maybeScrape(1, 6)
	}
	if to > g.now() {
		g.do(POp{K: "set", To: to})
	}
}

var (
	// short strings keep the Coq shards small; names differ in case only on purpose
	przFull  = &PPrz{Header: "x-g", Groups: map[string]int{"au": 0, "ag": 1, "cu": 2}}
	przEmpty = &PPrz{Header: "x-t", Groups: map[string]int{"": 2, "vip": 0, "std": 1}} // "" = a request without the header
	przOne   = &PPrz{Header: "X-G", Groups: map[string]int{"low": 3}}
)

func (g *pgen) hdrsFor(rem int) map[string]string {
	r := g.k.Remedies[rem]
	if r.Prz == nil {
		if g.r.Chance(1, 3) {
			return map[string]string{"x-g": "au"}
		}
		return nil
	}
	var vals []string
	for v := range r.Prz.Groups {
		vals = append(vals, v)
	}
	sort.Strings(vals)
	switch g.r.Intn(8) {
	case 0:
		return nil // header missing
	case 1:
		return map[string]string{r.Prz.Header: "zz"}
	case 2:
		return map[string]string{"x-o": c.Pick(g.r, vals)} // another header only
	default:
		if g.r.Chance(1, 6) {
			return map[string]string{r.Prz.Header: c.Pick(g.r, vals), "x-o": "au"}
		}
		return map[string]string{r.Prz.Header: c.Pick(g.r, vals)}
	}
}

// pick headers whose priority differs from the given ones (requests that will get the same timestamp)
func (g *pgen) hdrsAvoiding(rem int, taken map[int]bool) (map[string]string, bool) {
	for i := 0; i < 12; i++ {
		h := g.hdrsFor(rem)
		if !taken[mprio(g.k.Remedies[rem], h)] {
			return h, true
		}
	}
	return nil, false
}

// ttl_seconds in eighths of a second: whole seconds and fractions (1.125 s ... 3.875 s);
// multiples of 1/8 are exact in float32, float64 and as a Duration (see Plugin.v, ttl_ns)
var ttl8s = []int64{8, 8, 9, 12, 13, 15, 16, 16, 17, 20, 23, 24, 28, 31, 32}

func randomRemedies(r *c.Rng) []PRemedy {
	mk := func(name string) PRemedy {
		rem := PRemedy{Name: name, Quota: int64(r.Range(1, 3)), WSec: int64(r.Range(1, 3)),
			TTL8: c.Pick(r, ttl8s), QSize: int64(r.Range(1, 3)), Status: c.Pick(r, []int{429, 503, 400})}
		switch r.Intn(5) {
		case 0, 1:
			rem.Prz = przFull
		case 2:
			rem.Prz = przEmpty
		case 3:
			rem.Prz = przOne
		}
		return rem
	}
	rems := []PRemedy{mk("queue-a")}
	if r.Chance(2, 3) {
		b := mk("queue-b")
		if r.Chance(1, 2) { // same strategy under another name: own queue, own quota
			b.Quota, b.WSec = rems[0].Quota, rems[0].WSec
		}
		rems = append(rems, b)
	}
	if r.Chance(1, 3) {
		rems = append(rems, mk("queue-c"))
	}
	if r.Chance(1, 5) { // the remedy's strategy changed (policy reload): another key, another queue
		x := rems[0]
		if r.Bool() {
			x.Quota = x.Quota%3 + 1
		} else {
			x.WSec = x.WSec%3 + 1
		}
		rems = append(rems, x)
	}
	if r.Chance(1, 5) { // same key, other per-call parameters
		x := rems[r.Intn(len(rems))]
		x.QSize = x.QSize%3 + 1
		x.TTL8 = c.Pick(r, ttl8s)
		x.Status = c.Pick(r, []int{429, 503, 418})
		rems = append(rems, x)
	}
	if r.Chance(1, 6) {
		rems = append(rems, PRemedy{Name: "no-config", NoConfig: true})
	}
	return rems
}

func newPGen(o *c.Out, rems []PRemedy, forced bool) *pgen {
	r := o.Rng
	k := &PCase{Remedies: rems, Forced: forced}
	base := int64(1_700_000_000) * sec
	base -= base % (6 * sec) // a boundary of every window size used
	k.T0 = base + c.Pick(r, []int64{0, 1, sec / 2, sec - 1, sec, 2*sec + 7})
	g := &pgen{r: r, k: k, next: 1, scrapes: r.Chance(2, 3)}
	for _, rem := range rems {
		if rem.WSec*sec > g.maxW {
			g.maxW = rem.WSec * sec
		}
	}
	g.x = newPRunner(k)
	return g
}

func (g *pgen) instant() int64 {
	now := g.now()
	rem := c.Pick(g.r, g.k.Remedies)
	w := rem.WSec * sec
	if w == 0 {
		w = sec
	}
	b := (now/w + 1) * w
	cands := []int64{now + 1, now + 1, b - 1, b, b + 1, b + w - 1, b + w, now + w/3, now + sec/2}
	for _, d := range g.x.pending() {
		cands = append(cands, d.deadline-1, d.deadline, d.deadline+1)
	}
	t := c.Pick(g.r, cands)
	if t <= now {
		t = now + 1
	}
	return t
}

// start a request; the clock moves by at least 1 ns first, so no two requests
// that are started (or let out of the factory) by different operations get the
// same timestamp
func (g *pgen) start(rem int, hold bool, hdrs map[string]string) int {
	g.maybeScrape(1, 4)
	g.adv(g.now() + 1)
	g.maybeScrape(1, 8)
	id := g.next
	g.next++
	g.do(POp{K: "start", ID: id, Rem: rem, Hdrs: hdrs, Hold: hold})
	return id
}

func (g *pgen) arrive(rem int) {
	id := g.start(rem, false, g.hdrsFor(rem))
	g.do(POp{K: "enq", ID: id})
	g.maybeScrape(1, 5)
}

func (g *pgen) drain() {
	for i := 0; i < 8 && !g.over(); i++ { // let everybody out of the factory and into the queue
		f, p := g.x.inFactory(), g.x.atNewRequest()
		if len(f) == 0 && len(p) == 0 {
			break
		}
		if len(f) > 0 {
			g.adv(g.now() + 1)
			g.do(POp{K: "build", ID: f[0]})
		}
		for _, id := range g.x.atNewRequest() {
			g.do(POp{K: "enq", ID: id})
		}
	}
	end := g.now() + 4*g.maxW + 2
	for i := 0; i < 60 && g.now() < end && !g.over(); i++ {
		p := g.x.pending()
		wait := false
		for _, d := range p {
			if !d.tick {
				wait = true
			}
		}
		if !wait {
			break
		}
		g.adv(p[0].deadline)
	}
}

// (i) sequential / online histories
func genPluginSeq(o *c.Out) *PCase {
	g := newPGen(o, randomRemedies(o.Rng), false)
	r := g.r
	for i, n := 0, r.Range(4, 16); i < n && !g.over(); i++ {
		switch {
		case r.Chance(1, 14):
			g.do(POp{K: "resp", ID: r.Range(1, g.next), Rem: r.Intn(len(g.k.Remedies))})
		case r.Chance(1, 10):
			g.maybeScrape(1, 1)
			if r.Chance(1, 3) { // two collections in a row (two readers)
				g.maybeScrape(1, 1)
			}
		case r.Chance(1, 8):
			// two requests take their timestamps in one order and enter the queue in the other
			rem := r.Intn(len(g.k.Remedies))
			a := g.start(rem, false, g.hdrsFor(rem))
			b := g.start(r.Intn(len(g.k.Remedies)), false, nil)
			if r.Chance(1, 2) {
				g.adv(g.instant())
			}
			g.do(POp{K: "enq", ID: b})
			g.do(POp{K: "enq", ID: a})
		case r.Chance(3, 5):
			g.arrive(r.Intn(len(g.k.Remedies)))
			if r.Chance(1, 3) { // a burst
				g.arrive(r.Intn(len(g.k.Remedies)))
			}
		default:
			g.adv(g.instant())
		}
	}
	g.drain()
	g.x.finish()
	return g.k
}

// (ii) forced interleavings: the first request(s) of a remedy are held inside
// the queue factory while other requests of the same / another remedy arrive
func genPluginForced(o *c.Out) *PCase {
	rems := randomRemedies(o.Rng)
	g := newPGen(o, rems, true)
	r := g.r
	if r.Chance(1, 3) { // some history first (other remedies, or the same one: then nothing is constructed later)
		for i, n := 0, r.Range(1, 4); i < n; i++ {
			g.arrive(r.Intn(len(g.k.Remedies)))
		}
	}
	for round, rounds := 0, r.Range(1, 2); round < rounds && !g.over(); round++ {
		rem := r.Intn(len(g.k.Remedies))
		if g.k.Remedies[rem].NoConfig {
			rem = 0
		}
		// requests blocked behind one construction leave it at the same instant and
		// get the same timestamp: within one remedy name they get distinct priorities
		taken := map[string]map[int]bool{}
		take := func(rm int, h map[string]string) {
			n := g.k.Remedies[rm].Name
			if taken[n] == nil {
				taken[n] = map[int]bool{}
			}
			taken[n][mprio(g.k.Remedies[rm], h)] = true
		}
		h1 := g.hdrsFor(rem)
		take(rem, h1)
		g.start(rem, true, h1)
		if r.Chance(1, 3) {
			g.adv(g.instant())
		}
		// companions: mostly the same remedy, sometimes another one
		var comp []int
		for j, n := 0, r.Range(1, 2); j < n; j++ {
			crem := rem
			if r.Chance(1, 4) {
				crem = r.Intn(len(g.k.Remedies))
			}
			var h map[string]string
			if !g.k.Remedies[crem].NoConfig {
				var ok bool
				if h, ok = g.hdrsAvoiding(crem, taken[g.k.Remedies[crem].Name]); !ok {
					continue
				}
				take(crem, h)
			}
			comp = append(comp, g.start(crem, r.Chance(1, 3), h))
		}
		if len(g.x.blockedOnLock()) > 0 {
			g.k.Notes = append(g.k.Notes, "blocked-behind-construction")
		}
		if len(g.x.inFactory()) > 1 {
			g.k.Notes = append(g.k.Notes, "concurrent-construction")
		}
		if r.Chance(1, 3) {
			g.adv(g.instant())
		}
		// let them go in a random order; whoever can run, runs
		for step := 0; step < 12 && !g.over(); step++ {
			f, p := g.x.inFactory(), g.x.atNewRequest()
			if len(f) == 0 && len(p) == 0 {
				break
			}
			var ops []POp
			for _, id := range f {
				ops = append(ops, POp{K: "build", ID: id})
			}
			for _, id := range p {
				ops = append(ops, POp{K: "enq", ID: id})
			}
			op := c.Pick(r, ops)
			if op.K == "build" {
				g.adv(g.now() + 1)
			}
			g.do(op)
			if len(g.x.inFactory()) > 1 {
				g.k.Notes = append(g.k.Notes, "concurrent-construction")
			}
		}
		if r.Chance(1, 2) {
			g.arrive(rem)
		}
		if r.Chance(1, 2) {
			g.adv(g.instant())
		}
	}
	g.drain()
	g.x.finish()
	return g.k
}

// scripted forced interleavings: n first requests of ONE remedy (quota q), the
// first held in the factory, every order of the remaining steps
func scriptedPlugin(o *c.Out, maxN int) {
	t0 := int64(1_700_000_000)*sec - (int64(1_700_000_000)*sec)%(6*sec)
	groups := []string{"au", "ag", "cu"}
	for quota := int64(1); quota <= 2; quota++ {
		for n := 2; n <= maxN; n++ {
			for holdSecond := 0; holdSecond < 2; holdSecond++ {
				for other := 0; other < 2; other++ {
					evs := []string{"B1"}
					for i := 1; i <= n; i++ {
						evs = append(evs, fmt.Sprintf("E%d", i))
					}
					if holdSecond == 1 {
						evs = append(evs, "B2")
					}
					permute(evs, func(p []string) {
						if enough() {
							return
						}
						rems := []PRemedy{{Name: "queue-a", Quota: quota, WSec: 2, TTL8: 21, QSize: 2, Status: 429, Prz: przFull}}
						if other == 1 {
							rems = append(rems, PRemedy{Name: "queue-b", Quota: quota, WSec: 2, TTL8: 9, QSize: 1, Status: 503})
						}
						k := &PCase{T0: t0 + sec/2, Remedies: rems, Forced: true}
						x := newPRunner(k)
						g := &pgen{r: o.Rng, x: x, k: k, maxW: 2 * sec}
						for i := 1; i <= n; i++ {
							g.do(POp{K: "set", To: g.now() + 1})
							g.do(POp{K: "start", ID: i, Rem: 0, Hdrs: map[string]string{"x-g": groups[i-1]},
								Hold: i == 1 || (i == 2 && holdSecond == 1)})
						}
						if other == 1 { // a request of another remedy with the same strategy arrives meanwhile
							g.do(POp{K: "set", To: g.now() + 1})
							g.do(POp{K: "start", ID: n + 1, Rem: 1})
						}
						if len(x.blockedOnLock()) > 0 {
							k.Notes = append(k.Notes, "blocked-behind-construction")
						}
						if len(x.inFactory()) > 1 {
							k.Notes = append(k.Notes, "concurrent-construction")
						}
						for _, e := range p {
							id := int(e[1] - '0')
							if e[0] == 'B' {
								g.do(POp{K: "set", To: g.now() + 1})
								g.do(POp{K: "build", ID: id})
							} else {
								g.do(POp{K: "enq", ID: id})
							}
						}
						g.drain()
						x.finish()
						recordP(o, k)
					})
				}
			}
		}
	}
}

// scripted histories with metrics reads: one remedy (quota q per 2 s, TTL 1.5 s,
// queue size 2) and a second one with the same strategy; a metrics collection at
// every subset of six positions: before anything, after the quota of the window
// was consumed and nobody waits, while a waiter is parked, after the roll-over
// pass that released it (next window, partly consumed), while the next waiter is
// parked, and at the end (after its TTL expiry)
func scriptedScrapes(o *c.Out) {
	t0 := int64(1_700_000_000)*sec - (int64(1_700_000_000)*sec)%(6*sec)
	for quota := int64(1); quota <= 2; quota++ {
		for mask := 0; mask < 64; mask++ {
			if enough() {
				return
			}
			rems := []PRemedy{
				{Name: "queue-a", Quota: quota, WSec: 2, TTL8: 12, QSize: 2, Status: 429},
				{Name: "queue-b", Quota: quota, WSec: 2, TTL8: 12, QSize: 1, Status: 503},
			}
			k := &PCase{T0: t0 + sec/2, Remedies: rems}
			x := newPRunner(k)
			g := &pgen{r: o.Rng, x: x, k: k, maxW: 2 * sec, next: 1}
			at := func(i int) {
				if mask>>i&1 == 1 {
					g.do(POp{K: "scrape"})
				}
			}
			come := func(rem int) {
				id := g.start(rem, false, nil)
				g.do(POp{K: "enq", ID: id})
			}
			at(0)
			for i := int64(0); i < quota; i++ {
				come(0)
			}
			come(1)
			at(1)
			come(0) // has to wait
			at(2)
			g.adv(t0 + 2*sec) // the pass of the boundary lets it through
			at(3)
			for i := int64(0); i < quota; i++ {
				come(0) // the last one has to wait and expires inside the window
			}
			at(4)
			g.drain()
			at(5)
			x.finish()
			recordP(o, k)
		}
	}
}
