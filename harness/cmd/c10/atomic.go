package main

// Suite atomic: is the locked part of Enqueue (ensureWindowIsUpdated, quota
// test, queue-size test, heap.Push + requestCounts++) really ONE step?
//
// No hook in /repo is needed: the queue takes an injectable ContextLogger and,
// with trace level enabled, logs "Sending request to be processed in queue"
// after the admission decision and before heap.Push.  The harness's log writer
// stops the goroutine of a probed request A on that line; the harness then
// starts scripted operations (another Enqueue, the roll-over pass through the
// timer / the dpq.tick_before_lock yield) and waits until each has either
// completed ("ran") or is provably waiting for dpq.mutex ("blocked": goroutine
// in a lock wait state inside sync.(*RWMutex).Lock called from a
// DelayedPriorityQueue method, still there 200 us later); then A is let go.
//
// The schedule is reported in the vocabulary of theories/C10/Split.v in the
// order observed: Decide A, what ran, Push A, what had been blocked.  The model
// (run_atomic) accepts a case only when nothing ran in between, i.e. when the
// schedule is one of the atomic model, and then compares the observables.
//
// Determinism: at most one operation that takes dpq.mutex is started inside one
// probe (two goroutines released together by A's Unlock would race with each
// other and with the returns they cause); when it is the roll-over pass, A is
// made to stop at dpq.unlocked afterwards (otherwise A's way to its select
// races with the pass that was waiting for the mutex: F-C10's race).

import (
	"bytes"
	"fmt"
	"runtime"
	"strconv"
	"strings"
	"sync"
	"time"

	"lunar/engine/utils/queue"
	"lunar/toolkit-core/logging"

	"github.com/rs/zerolog"
	"github.com/rs/zerolog/log"

	c "verifharness/common"
)

// probes whose request queued without reaching the probe point (see main)
var probeMissed int

const (
	pushLine = "Sending request to be processed in queue"
	lockWait = "<waiting for dpq.mutex>"

	sigNotAtomicSize   = "size-bound:enqueue-not-atomic"
	sigNotAtomicStrand = "strand:enqueue-not-atomic"
)

// Probe: what was observed for one probed request.
type Probe struct {
	ID      int        `json:"id"`
	Reached bool       `json:"reached"` // it stood on the trace line between decision and push
	Queued  bool       `json:"queued,omitempty"` // not reached although its Enqueue took the queueing branch: the probe point is gone
	Mutex   string     `json:"mutex,omitempty"` // while it stood there a reader of Counts(): "held" = blocked, "free" = got through
	Inner   []ProbeObs `json:"inner,omitempty"`
}

type ProbeObs struct {
	K       string `json:"k"`
	ID      int    `json:"id,omitempty"`
	Outcome string `json:"outcome"` // blocked | ran | free (takes no lock) | skipped
}

// ---------------------------------------------------------------- log writer

type logWriter struct{ x *runner }

func (l logWriter) Write(p []byte) (int, error) {
	if bytes.Contains(p, []byte(pushLine)) {
		l.x.atLogLine(curGID())
	}
	return len(p), nil
}

func (x *runner) logger() logging.ContextLogger {
	if !x.k.Trace {
		return logging.ContextLogger{}
	}
	return logging.ContextLogger{Logger: zerolog.New(logWriter{x}).Level(zerolog.TraceLevel)}
}

func (x *runner) atLogLine(gid int64) {
	x.mu.Lock()
	w := x.byGid[gid]
	if w == nil || !w.probe || w.atLog || x.dead {
		x.mu.Unlock()
		return
	}
	w.probe = false // once
	w.atLog = true
	ch := w.logGo
	x.mu.Unlock()
	<-ch
}

// trace level for the queue's own lines; the global logger is silenced meanwhile
var traceMu sync.Mutex

func withTrace(f func()) {
	traceMu.Lock()
	defer traceMu.Unlock()
	lvl, lg := zerolog.GlobalLevel(), log.Logger
	zerolog.SetGlobalLevel(zerolog.TraceLevel)
	log.Logger = zerolog.Nop()
	defer func() {
		zerolog.SetGlobalLevel(lvl)
		log.Logger = lg
	}()
	f()
}

// ---------------------------------------------------------------- goroutine stacks

type ginfo struct {
	state string
	text  string
}

func gstacks() map[int64]ginfo {
	for {
		n := runtime.Stack(stackBuf, true)
		if n < len(stackBuf) {
			out := map[int64]ginfo{}
			for _, g := range strings.Split(string(stackBuf[:n]), "\n\n") {
				m := gLine.FindStringSubmatch(g)
				if m == nil {
					continue
				}
				id, _ := strconv.ParseInt(m[1], 10, 64)
				out[id] = ginfo{state: m[2], text: g}
			}
			return out
		}
		stackBuf = make([]byte, 2*len(stackBuf))
	}
}

// waiting in dpq.mutex.Lock() called from a method of DelayedPriorityQueue
func waitsForQueueMutex(g ginfo) bool {
	return lockStates[g.state] &&
		strings.Contains(g.text, "sync.(*RWMutex).Lock") &&
		strings.Contains(g.text, "utils/queue.(*DelayedPriorityQueue).")
}

// ---------------------------------------------------------------- the probe operation

func takesLock(op Op) bool {
	return op.K == "enq" || op.K == "runtick" || (op.K == "firetick" && !op.Hold)
}

func (x *runner) doProbe(op Op, now int64, evFrom int) bool {
	hasPass := false
	for _, in := range op.Inner {
		if in.K == "runtick" || (in.K == "firetick" && !in.Hold) {
			hasPass = true
		}
	}
	if hasPass {
		op.Hold = true // see "Determinism" above
	}
	before := x.count()
	w := x.startEnq(op, now)
	if w == nil {
		return false
	}
	x.mu.Lock()
	tickHeld := x.tickAtYield
	x.mu.Unlock()
	x.settle()
	x.mu.Lock()
	reached := w.atLog
	x.mu.Unlock()
	pr := Probe{ID: w.id, Reached: reached}
	if reached {
		// where does A stand?  A reader of Counts() either blocks (A keeps the
		// mutex: HEAD) or tells whether A has pushed already
		pr.Mutex = "held"
		if n, ok := x.tryCount(); ok {
			pr.Mutex = "free"
			if n > before { // the line is logged after the push: nothing to probe
				pr.Mutex = "free-after-push"
				reached = false
				pr.Reached = false
				x.mu.Lock()
				w.atLog = false
				x.mu.Unlock()
				close(w.logGo)
				x.settle()
			}
		}
	}

	if !reached {
		// no slow path (slot / refusal), or the line is not logged before the
		// push: a plain Enqueue; the inner operations follow as ordinary ones
		w.probe = false
		if ev := x.finishEnq(w, op.Hold, tickHeld, "EnqLocked"); !ev.Immediate {
			// it went to the queue without standing on the line between decision and
			// push: the line is gone or logged elsewhere, the suite cannot probe
			pr.Queued = true
			probeMissed++
		}
		x.endOp(evFrom)
		for _, in := range op.Inner {
			o := ProbeObs{K: in.K, ID: in.ID, Outcome: "skipped"}
			if x.do(in) {
				o.Outcome = "after"
			}
			pr.Inner = append(pr.Inner, o)
		}
		x.k.Probes = append(x.k.Probes, pr)
		return true
	}

	// A has decided to queue (the line is logged on that branch only)
	x.emit(Act{K: "Decide", ID: w.id, Prio: w.prio, Ts: w.ts, TTL: w.ttl, Now: now})
	x.mu.Lock()
	x.probing = w
	x.mu.Unlock()

	type late struct {
		w    *waiter
		hold bool
		tick bool
	}
	var blocked []late
	ran, passInside, locks := 0, false, 0
	for _, in := range op.Inner {
		o := ProbeObs{K: in.K, ID: in.ID, Outcome: "skipped"}
		if takesLock(in) {
			if locks > 0 {
				pr.Inner = append(pr.Inner, o)
				continue
			}
		}
		inNow := x.clk.nowNs()
		switch in.K {
		case "new":
			if x.ws[in.ID] == nil && !x.k.Plugin {
				nw := &waiter{id: in.ID, prio: in.Prio, ts: inNow}
				nw.req = queue.NewRequest(strconv.Itoa(in.ID), float64(in.Prio), x.clk)
				x.ws[in.ID] = nw
				x.order = append(x.order, in.ID)
				o.Outcome = "free"
			}
		case "set":
			if in.To >= inNow {
				x.clk.set(in.To)
				o.Outcome = "free"
			}
		case "enq":
			b := x.startEnq(in, inNow)
			if b == nil {
				break
			}
			locks++
			x.settle()
			x.mu.Lock()
			isBlocked := b.blocked
			x.mu.Unlock()
			if isBlocked {
				o.Outcome = "blocked"
				blocked = append(blocked, late{w: b, hold: in.Hold})
			} else {
				o.Outcome = "ran"
				ran++
				x.finishEnq(b, in.Hold, false, "EnqLocked")
			}
		case "firetick":
			x.mu.Lock()
			t := x.tickTimer
			if t == nil || t.fired || t.deadline > inNow || x.tickAtYield {
				x.mu.Unlock()
				break
			}
			t.fired = true
			if in.Hold {
				x.holdTick = true
				x.tickRelease = make(chan struct{})
			}
			x.mu.Unlock()
			t.ch <- time.Unix(0, inNow)
			if in.Hold {
				x.settle()
				o.Outcome = "free"
				break
			}
			locks++
			x.settle()
			if x.isTickBlocked() {
				o.Outcome = "blocked"
				blocked = append(blocked, late{tick: true})
			} else {
				o.Outcome = "ran"
				ran++
				passInside = true
				x.pass(inNow)
			}
		case "runtick":
			x.mu.Lock()
			if !x.tickAtYield {
				x.mu.Unlock()
				break
			}
			x.tickAtYield = false
			ch := x.tickRelease
			x.mu.Unlock()
			locks++
			close(ch)
			x.settle()
			if x.isTickBlocked() {
				o.Outcome = "blocked"
				blocked = append(blocked, late{tick: true})
			} else {
				o.Outcome = "ran"
				ran++
				passInside = true
				x.pass(inNow)
			}
		default:
			panic("operation " + in.K + " cannot be started inside a probe")
		}
		pr.Inner = append(pr.Inner, o)
	}

	// let A go: it pushes; then whatever was waiting for the mutex runs
	x.mu.Lock()
	x.probing = nil
	w.atLog = false
	x.mu.Unlock()
	close(w.logGo)
	x.settle()
	ev := x.finishEnq(w, op.Hold, tickHeld, "Push")
	ev.At = now // the instant of its call (its decision); the clock may have been moved since
	ev.RanInside, ev.PassInside = ran, passInside
	for _, l := range blocked {
		if l.tick {
			x.pass(x.clk.nowNs())
		} else {
			x.finishEnq(l.w, l.hold, false, "EnqLocked")
		}
	}
	x.k.Probes = append(x.k.Probes, pr)
	x.endOp(evFrom)
	return true
}

// tryCount reads Counts() from a goroutine of its own: (sum, true) when it got
// through, (0, false) when it is provably waiting for dpq.mutex (it then ends
// when the probed request releases the mutex).
func (x *runner) tryCount() (int64, bool) {
	start, done := make(chan int64, 1), make(chan int64, 1)
	go func() {
		start <- curGID()
		done <- x.count()
	}()
	gid := <-start
	deadline := time.Now().Add(20 * time.Second)
	seen := 0
	for {
		select {
		case n := <-done:
			return n, true
		default:
		}
		g := gstacks()[gid]
		if lockStates[g.state] && strings.Contains(g.text, "sync.(*RWMutex).RLock") &&
			strings.Contains(g.text, "utils/queue.(*DelayedPriorityQueue).Counts") {
			seen++
			if seen >= 2 {
				return 0, false
			}
			time.Sleep(200 * time.Microsecond)
			continue
		}
		seen = 0
		runtime.Gosched()
		if time.Now().After(deadline) {
			panic("C10 harness: a reader of Counts() neither returned nor blocked")
		}
	}
}

func (x *runner) isTickBlocked() bool {
	x.mu.Lock()
	defer x.mu.Unlock()
	return x.tickBlocked
}

// ---------------------------------------------------------------- Coq term

func coqSActs(k *Case) (acts []string, counts []string) {
	for i, a := range k.Actions {
		switch a.K {
		case "EnqLocked":
			acts = append(acts,
				fmt.Sprintf("SDecide %s %s %s %s %s", c.Z(int64(a.ID)), c.Z(int64(a.Prio)), c.Z(a.Ts), c.Z(a.TTL), c.Z(a.Now)),
				"SPush "+c.Z(int64(a.ID)))
			counts = append(counts, "None", c.OptZ(k.Counts[i]))
		case "Decide":
			acts = append(acts, fmt.Sprintf("SDecide %s %s %s %s %s", c.Z(int64(a.ID)), c.Z(int64(a.Prio)), c.Z(a.Ts), c.Z(a.TTL), c.Z(a.Now)))
			counts = append(counts, c.OptZ(k.Counts[i]))
		case "Push":
			acts = append(acts, "SPush "+c.Z(int64(a.ID)))
			counts = append(counts, c.OptZ(k.Counts[i]))
		default:
			acts = append(acts, "SA ("+coqAct(a)+")")
			counts = append(counts, c.OptZ(k.Counts[i]))
		}
	}
	return
}

func coqAtomic(k *Case) string {
	acts, counts := coqSActs(k)
	return c.Tuple(
		c.Tuple(c.Z(k.Quota), c.Z(k.W), c.Z(k.QSize)),
		c.Z(k.QueueT0),
		c.List(acts),
		c.List(counts),
		c.MapList(k.Results, func(r Res) string {
			if !r.Returned {
				return c.Tuple(c.Z(int64(r.ID)), "None")
			}
			return c.Tuple(c.Z(int64(r.ID)), c.Some(c.Tuple(c.B(r.Result), c.Z(r.At))))
		}),
	)
}

// ---------------------------------------------------------------- generators

func runOps(o *c.Out, k *Case, ops []Op) *Case {
	k.Trace = true
	x := newRunner(k)
	k.Ops = nil
	g := &gen{r: o.Rng, x: x, k: k}
	for _, op := range ops {
		g.do(op)
	}
	g.drain()
	x.finish()
	return k
}

// forced schedules around one probed arrival A (W = 1 us)
func scriptedAtomic(o *c.Out, thorough bool) {
	w := int64(1000)
	t0 := int64(1_700_000_000) * sec
	maxSize := int64(2)
	if thorough {
		maxSize = 3
	}
	ttls := []int64{w / 2, 3 * w}
	for quota := int64(1); quota <= 2; quota++ {
		for qsize := int64(1); qsize <= maxSize; qsize++ {
			for room := int64(1); room <= 2 && room <= qsize; room++ { // free places in the queue when A arrives
				for _, ttl := range ttls {
					for variant := 0; variant < 4; variant++ {
						aHold, bHold := variant&1 == 1, variant&2 == 2
						for prios := 0; prios < 2; prios++ {
							// prefix: the quota of window 0 is used up, qsize-room requests wait (parked)
							var pre []Op
							id := 1
							for q := int64(0); q < quota; q++ {
								pre = append(pre, Op{K: "new", ID: id}, Op{K: "enq", ID: id, TTL: w})
								id++
							}
							for i := int64(0); i < qsize-room; i++ {
								pre = append(pre, Op{K: "set", To: t0 + int64(id)},
									Op{K: "new", ID: id, Prio: 1}, Op{K: "enq", ID: id, Prio: 1, TTL: 3 * w})
								id++
							}
							a, b := id, id+1
							pa, pb := prios, 1-prios
							mk := func(ops ...Op) {
								if enough() {
									return
								}
								k := &Case{Quota: quota, W: w, QSize: qsize, T0: t0}
								record(o, "atomic", runOps(o, k, append(append([]Op(nil), pre...), ops...)))
							}
							newAB := []Op{{K: "set", To: t0 + 100}, {K: "new", ID: a, Prio: pa},
								{K: "set", To: t0 + 101}, {K: "new", ID: b, Prio: pb}, {K: "set", To: t0 + w - 1}}
							enqB := Op{K: "enq", ID: b, Prio: pb, TTL: ttl, Hold: bHold}
							probe := func(inner ...Op) Op {
								return Op{K: "probe", ID: a, Prio: pa, TTL: ttl, Hold: aHold, Inner: inner}
							}
							boundary := []Op{{K: "set", To: t0 + w}, {K: "firetick"}}
							// (1) B arrives inside A's slow path
							mk(append(newAB, probe(enqB))...)
							// (2) the roll-over pass of the next boundary inside A's slow path
							if variant < 2 {
								mk(append(newAB, probe(boundary...))...)
								mk(append(newAB, probe(boundary...), Op{K: "park", ID: a}, enqB)...)
							}
							// (3) two arrivals and the pass: one of B / pass inside, the other before or after
							mk(append(newAB, probe(enqB), boundary[0], boundary[1])...)
							mk(append(newAB, enqB, probe(boundary...))...)
							if variant < 2 {
								mk(append(newAB, probe(boundary...), enqB)...)
							}
							// (4) the woken roll-over goroutine is held before its Lock, a newcomer takes
							// the slot of the new window (F-C10b's schedule), then A; the pass / B inside
							c3 := id + 2
							barge := []Op{{K: "set", To: t0 + w}, {K: "firetick", Hold: true}}
							for q := int64(0); q < quota; q++ {
								barge = append(barge, Op{K: "new", ID: c3 + int(q)}, Op{K: "enq", ID: c3 + int(q), TTL: w})
							}
							if variant < 2 {
								mk(append(append(append([]Op(nil), newAB[:4]...), barge...), probe(Op{K: "runtick"}), enqB)...)
							}
							mk(append(append(append([]Op(nil), newAB[:4]...), barge...), probe(enqB), Op{K: "runtick"})...)
						}
					}
				}
			}
		}
	}
}

// random forced schedules with probed arrivals
func genAtomic(o *c.Out) *Case {
	k := &Case{Trace: true}
	r := o.Rng
	k.Quota = int64(r.Range(1, 2))
	k.QSize = int64(r.Range(1, 3))
	k.W = c.Pick(r, []int64{1000, 250 * int64(time.Millisecond)})
	base := int64(1_700_000_000) * sec
	base -= base % k.W
	k.T0 = base + c.Pick(r, []int64{0, 1, k.W / 2, k.W - 1})
	g := &gen{r: r, k: k, used: map[[2]int64]bool{}, next: 1}
	g.ttls = []int64{k.W / 2, k.W - 1, k.W, k.W + 1, 2 * k.W, 3*k.W + 1}
	g.x = newRunner(k)
	fresh := func() (int, int) { // NewRequest at a fresh (priority, timestamp)
		prio := g.pickPrio()
		for g.used[[2]int64{int64(prio), g.now()}] && !g.over() {
			g.do(Op{K: "set", To: g.now() + 1})
		}
		g.used[[2]int64{int64(prio), g.now()}] = true
		id := g.next
		g.next++
		g.do(Op{K: "new", ID: id, Prio: prio})
		return id, prio
	}
	if r.Chance(3, 4) { // the slow path needs the quota of the window used up
		for q := int64(0); q < k.Quota; q++ {
			g.arrive(false, false)
		}
	}
	for i, n := 0, r.Range(4, 12); i < n; i++ {
		switch r.Intn(10) {
		case 0, 1:
			g.arrive(r.Chance(1, 3), false)
		case 2, 3, 4, 5:
			a, pa := fresh()
			var inner []Op
			switch r.Intn(5) {
			case 0, 1: // another arrival inside
				b, pb := fresh()
				inner = []Op{{K: "enq", ID: b, Prio: pb, TTL: g.pickTTL(), Hold: r.Chance(1, 3)}}
			case 2: // the clock passes an interesting instant, the due pass inside
				inner = []Op{{K: "set", To: g.instant()}, {K: "firetick"}}
			case 3:
				if g.x.tickHeld() {
					inner = []Op{{K: "runtick"}}
				} else {
					inner = []Op{{K: "set", To: g.instant()}, {K: "firetick", Hold: true}}
				}
			default: // both: only the first one that takes the mutex is started
				b, pb := fresh()
				inner = []Op{{K: "set", To: g.instant()}, {K: "firetick"},
					{K: "enq", ID: b, Prio: pb, TTL: g.pickTTL(), Hold: true}}
				if r.Bool() {
					inner[1], inner[2] = inner[2], inner[1]
				}
			}
			g.do(Op{K: "probe", ID: a, Prio: pa, TTL: g.pickTTL(), Hold: r.Chance(1, 3), Inner: inner})
		case 6:
			g.do(Op{K: "set", To: g.instant()})
		case 7:
			var duel []due
			for _, d := range g.x.pending() {
				if d.deadline <= g.now() {
					duel = append(duel, d)
				}
			}
			if len(duel) == 0 {
				g.do(Op{K: "set", To: g.instant()})
				continue
			}
			d := c.Pick(r, duel)
			if d.tick {
				g.do(Op{K: "firetick", Hold: r.Chance(1, 2)})
			} else {
				g.do(Op{K: "firettl", ID: d.id})
			}
		case 8:
			if h := g.x.heldWaiters(); len(h) > 0 {
				g.do(Op{K: "park", ID: c.Pick(r, h)})
			} else {
				g.do(Op{K: "runtick"})
			}
		default:
			g.adv(g.instant())
		}
	}
	g.drain()
	g.x.finish()
	return g.k
}
