package main

// A fully harness-controlled clock implementing lunar/toolkit-core/clock.Clock
// (same role as clock.MockClock in queue_harness_test.go, but timers are fired
// one by one by the harness, so that every history is deterministic), plus the
// goroutine-state inspection used to know when the code under test is quiescent.

import (
	"bytes"
	"regexp"
	"runtime"
	"strconv"
	"sync"
	"time"
)

type timer struct {
	deadline int64
	ch       chan time.Time
	gid      int64
	fired    bool
}

type ctlClock struct {
	mu      sync.Mutex
	now     int64
	onAfter func(gid int64, t *timer, d time.Duration) // called with mu released
	// onNow (plugin suite only): called with mu released AFTER the clock was read;
	// it may block the calling goroutine (yield point at queue.NewRequest's
	// clock.Now()); the value read before is what Now returns.
	onNow func(t int64)
}

func (c *ctlClock) Now() time.Time {
	c.mu.Lock()
	t := c.now
	c.mu.Unlock()
	if c.onNow != nil {
		c.onNow(t)
	}
	return time.Unix(0, t)
}
func (c *ctlClock) nowNs() int64 {
	c.mu.Lock()
	defer c.mu.Unlock()
	return c.now
}
func (c *ctlClock) set(t int64) {
	c.mu.Lock()
	if t > c.now {
		c.now = t
	}
	c.mu.Unlock()
}
func (c *ctlClock) Sleep(d time.Duration)           { <-c.After(d) }
func (c *ctlClock) Since(t time.Time) time.Duration { return c.Now().Sub(t) }
func (c *ctlClock) Until(t time.Time) time.Duration { return t.Sub(c.Now()) }
func (c *ctlClock) After(d time.Duration) <-chan time.Time {
	c.mu.Lock()
	t := &timer{deadline: c.now + int64(d), ch: make(chan time.Time, 1), gid: curGID()}
	c.mu.Unlock()
	c.onAfter(t.gid, t, d) // may not return (runtime.Goexit for a retired roll-over goroutine)
	return t.ch
}

func curGID() int64 {
	var b [64]byte
	n := runtime.Stack(b[:], false)
	s := b[len("goroutine "):n]
	i := bytes.IndexByte(s, ' ')
	id, _ := strconv.ParseInt(string(s[:i]), 10, 64)
	return id
}

var (
	stackBuf = make([]byte, 1<<20)
	gLine    = regexp.MustCompile(`(?m)^goroutine (\d+) \[([^\],]+)`)
)

// gstates: state of every goroutine at one instant (runtime.Stack(all) stops the world).
func gstates() map[int64]string {
	for {
		n := runtime.Stack(stackBuf, true)
		if n < len(stackBuf) {
			out := map[int64]string{}
			for _, m := range gLine.FindAllSubmatch(stackBuf[:n], -1) {
				id, _ := strconv.ParseInt(string(m[1]), 10, 64)
				out[id] = string(m[2])
			}
			return out
		}
		stackBuf = make([]byte, 2*len(stackBuf))
	}
}
