package main

// Property monitor for C10, written over the event trace only (arrivals,
// processing passes, returns with their instants); it does not use the model
// or any internal state of the queue.
//
//   - releases (Enqueue returning true) per aligned window  <= quota
//   - waiters (Enqueue calls blocked)                      <= queue size
//   - immediate refusal only when the queue is full; delayed refusal only after
//     the TTL really elapsed
//   - a waiter whose turn had come must not be left to expire.  "Turn had come"
//     is evaluated at the two places where the implementation disposes of free
//     quota: (1) after a processing pass, the best waiter left although quota of
//     the current window is still free, or although a waiter of worse
//     (priority, arrival) was served by that pass; (2) a new arrival is given a
//     slot immediately while somebody waits (the best waiter is passed over).
//     A hit is raised only when that waiter later expires.
//
// Classifier = the side conditions of C10_holds_outside_findings /
// C10_no_pass_over_before_first_finding (theories/C10/Property.v), evaluated
// EVENT BY EVENT on the executed schedule:
//   no_lost_handoff violated at a pass: the pass popped the heap entry of a
//       waiter that was between Unlock and the select (seen from outside: the
//       waiter was held at dpq.unlocked during the pass, and after the pass
//       quota of the window is still free or a waiter of worse (priority,
//       arrival) was released by it — a pass pops in order until its slots are
//       gone, so exactly then it went past that entry)              -> F-C10 event
//   no_barging violated at an arrival: it ran its locked part on a stale window
//       (after a boundary, before the roll-over pass) AND was given a slot
//       while somebody waited                                        -> F-C10b event
// A stranded waiter is filed under a known finding only if such an event
// happened at or before the step at which it was passed over (its own entry
// lost -> F-C10; else a barging event -> F-C10b; else a lost hand-off of another
// waiter -> F-C10).  A pass that runs while somebody is unparked but pops
// nothing, or a stale arrival on an idle queue, is no such event: a strand next
// to those keeps its own signature and is a VIOLATION.
// Suite atomic (atomic.go) adds nothing to the rules; it only refines the
// signature: a size-bound hit in a history in which some operation completed
// between an admission decision and its push is "size-bound:enqueue-not-atomic",
// a waiter that called Enqueue before a pass, started to wait only after it and
// is then left to expire with quota free is "strand:enqueue-not-atomic".

import (
	"fmt"

	c "verifharness/common"
)

const (
	sigLost    = "strand:lost-handoff:dpq.unlocked"
	sigBarging = "strand:barging:dpq.tick_before_lock"
)

type mreq struct {
	id, prio       int
	ts, ttl, at    int64
	mark           string
	known          string // signature of the known finding that explains the mark ("" = none), fixed when marked
	unparkedAtPass bool   // informative: held at dpq.unlocked during some pass
	lost           bool   // its heap entry was popped by a pass while it was unparked (exact F-C10 event)
	passInside     bool   // a roll-over pass completed between its admission decision and its push
}

func better(a, b *mreq) bool { // a strictly before b in (priority, arrival) order
	if a.prio != b.prio {
		return a.prio < b.prio
	}
	return a.ts < b.ts
}

func monitor(k *Case) []c.Hit {
	var hits []c.Hit
	add := func(sig, dem, obs string) {
		hits = append(hits, c.Hit{Signature: sig, Demanded: dem, Observed: obs, Case: k})
	}
	win := func(t int64) int64 { return t / k.W } // instants are >= 0
	reqs := map[int]*mreq{}
	var waiting []*mreq
	rel := map[int64]int64{}
	lastRefresh := k.QueueT0
	lostEvents, bargeEvents, notAtomic := 0, 0, false
	for _, e := range k.Events {
		if e.K == "arrive" && e.RanInside > 0 {
			notAtomic = true
		}
	}
	sizeSig := func() string {
		if notAtomic { // some operation completed between an admission decision and the push it admitted
			return sigNotAtomicSize
		}
		return "size-bound"
	}

	best := func() *mreq {
		var b *mreq
		for _, w := range waiting {
			if b == nil || better(w, b) {
				b = w
			}
		}
		return b
	}
	isWaiting := func(id int) bool {
		for _, w := range waiting {
			if w.id == id {
				return true
			}
		}
		return false
	}
	remove := func(id int) {
		for i, w := range waiting {
			if w.id == id {
				waiting = append(waiting[:i:i], waiting[i+1:]...)
				return
			}
		}
	}
	grant := func(id int, at int64) {
		rel[win(at)]++
		if rel[win(at)] > k.Quota {
			add("release-bound", fmt.Sprintf("at most %d releases in the window [%d,%d)", k.Quota, win(at)*k.W, (win(at)+1)*k.W),
				fmt.Sprintf("request %d is release #%d of that window (at %d)", id, rel[win(at)], at))
		}
	}

	// setMark: the first step at which the waiter is passed over, and whether a
	// known-finding event at or before that step explains it
	setMark := func(b *mreq, why string, bargingHere bool) {
		if b.mark != "" {
			return
		}
		b.mark = why
		switch {
		case b.lost:
			b.known = sigLost
		case bargingHere, bargeEvents > 0:
			b.known = sigBarging
		case lostEvents > 0:
			b.known = sigLost
		}
	}

	// a pass is judged once the returns it caused have been seen
	type passInfo struct {
		at, next int64
		released []*mreq
		unparked []*mreq
	}
	var pend *passInfo
	closePass := func() {
		if pend == nil {
			return
		}
		p := pend
		pend = nil
		if want := (win(p.at) + 1) * k.W; p.next != 0 && p.next != want {
			add("tick-not-at-boundary", fmt.Sprintf("after the pass at %d the roll-over goroutine sleeps until the window end %d", p.at, want),
				fmt.Sprintf("it sleeps until %d", p.next))
		}
		// exact F-C10 events of this pass: an unparked waiter whose entry the pass went past
		for _, u := range p.unparked {
			if u.lost || !isWaiting(u.id) {
				continue
			}
			popped := rel[win(p.at)] < k.Quota
			for _, r := range p.released {
				if better(u, r) {
					popped = true
				}
			}
			if popped {
				u.lost = true
				lostEvents++
			}
		}
		b := best()
		if b == nil {
			return
		}
		if rel[win(p.at)] < k.Quota {
			setMark(b, fmt.Sprintf("quota-free-after-pass@%d", p.at), false)
		}
		for _, r := range p.released {
			if better(b, r) {
				setMark(b, fmt.Sprintf("worse-served-first@%d(by %d)", p.at, r.id), false)
			}
		}
	}

	for _, e := range k.Events {
		// a request that called Enqueue before a pass and started to wait only
		// after it is judged as a waiter of that pass: the arrival first, then the pass
		late := e.K == "arrive" && e.PassInside && !e.Immediate
		if e.K != "ret" && !late {
			closePass()
		}
		switch e.K {
		case "arrive":
			stale := win(e.At) > win(lastRefresh)
			if e.At > lastRefresh {
				lastRefresh = e.At
			}
			r := &mreq{id: e.ID, prio: e.Prio, ts: e.Ts, ttl: e.TTL, at: e.At, passInside: late}
			reqs[e.ID] = r
			switch {
			case e.Immediate && e.Result:
				grant(e.ID, e.At)
				barging := stale && len(waiting) > 0 // exact F-C10b event
				if barging {
					bargeEvents++
				}
				if b := best(); b != nil {
					setMark(b, fmt.Sprintf("slot-to-newcomer@%d(%d)", e.At, e.ID), barging)
				}
			case e.Immediate:
				if int64(len(waiting)) < k.QSize {
					add("reject-not-full", fmt.Sprintf("immediate refusal only when %d requests wait", k.QSize),
						fmt.Sprintf("request %d refused at %d with %d waiting", e.ID, e.At, len(waiting)))
				}
			default:
				waiting = append(waiting, r)
				if int64(len(waiting)) > k.QSize {
					add(sizeSig(), fmt.Sprintf("at most %d waiters", k.QSize),
						fmt.Sprintf("%d waiters after request %d at %d", len(waiting), e.ID, e.At))
				}
			}
			if e.Count > k.QSize && k.QSize >= 0 {
				add(sizeSig(), fmt.Sprintf("Counts() total <= %d", k.QSize), fmt.Sprintf("%d at %d", e.Count, e.At))
			}
			if late {
				closePass()
			}
		case "pass":
			lastRefresh = e.At
			pend = &passInfo{at: e.At, next: e.NextTick}
			for _, id := range e.Unparked {
				if r := reqs[id]; r != nil {
					r.unparkedAtPass = true
					pend.unparked = append(pend.unparked, r)
				}
			}
		case "ret":
			r := reqs[e.ID]
			remove(e.ID)
			if e.Result {
				grant(e.ID, e.At)
				if pend != nil {
					pend.released = append(pend.released, r)
				}
				continue
			}
			if e.At-r.at < r.ttl {
				add("ttl-early", fmt.Sprintf("request %d may expire only %d ns after its arrival at %d", r.id, r.ttl, r.at),
					fmt.Sprintf("expired at %d", e.At))
			}
			if r.mark != "" {
				sig := "strand:" + r.mark[:indexAt(r.mark)]
				switch {
				case r.passInside:
					sig = sigNotAtomicStrand
				case r.known != "":
					sig = r.known
				}
				add(sig, fmt.Sprintf("request %d (priority %d, arrival %d), whose turn had come (%s), is released, not left to expire", r.id, r.prio, r.ts, r.mark),
					fmt.Sprintf("it expired at %d", e.At))
			}
		}
	}
	closePass()
	return hits
}

func indexAt(s string) int {
	for i := 0; i < len(s); i++ {
		if s[i] == '@' {
			return i
		}
	}
	return len(s)
}
