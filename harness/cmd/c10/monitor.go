package main

// Property monitor for C10, written over the event trace only (arrivals,
// processing passes, returns with their instants); it does not use the model
// or any internal state of the queue.
//
//   - releases (Enqueue returning true) per aligned window  <= quota
//   - waiters (Enqueue calls blocked)                      <= queue size
//   - immediate refusal only when the queue is full; delayed refusal only after
//     the TTL really elapsed
//   - a waiter whose turn had come must not be left to expire.  "Turn had come"
//     is evaluated at the two places where the implementation disposes of free
//     quota: (1) after a processing pass, the best waiter left although quota of
//     the current window is still free, or although a waiter of worse
//     (priority, arrival) was served by that pass; (2) a new arrival is given a
//     slot immediately while somebody waits (the best waiter is passed over).
//     A hit is raised only when that waiter later expires.
//
// Classifier = side conditions of C10_holds_outside_findings:
//   okP violated (a pass ran while a waiter was between Unlock and select)  -> F-C10
//   okQ violated (an arrival ran its locked part on a stale window, i.e.
//                 after a boundary and before the roll-over pass)          -> F-C10b
//   neither: not a known finding.
// Suite atomic (atomic.go) adds nothing to the rules; it only refines the
// signature: a size-bound hit in a history in which some operation completed
// between an admission decision and its push is "size-bound:enqueue-not-atomic",
// a waiter that called Enqueue before a pass, started to wait only after it and
// is then left to expire with quota free is "strand:enqueue-not-atomic".

import (
	"fmt"

	c "verifharness/common"
)

const (
	sigLost    = "strand:lost-handoff:dpq.unlocked"
	sigBarging = "strand:barging:dpq.tick_before_lock"
)

type mreq struct {
	id, prio       int
	ts, ttl, at    int64
	mark           string
	unparkedAtPass bool
	passInside     bool // a roll-over pass completed between its admission decision and its push
}

func better(a, b *mreq) bool { // a strictly before b in (priority, arrival) order
	if a.prio != b.prio {
		return a.prio < b.prio
	}
	return a.ts < b.ts
}

func monitor(k *Case) []c.Hit {
	var hits []c.Hit
	add := func(sig, dem, obs string) {
		hits = append(hits, c.Hit{Signature: sig, Demanded: dem, Observed: obs, Case: k})
	}
	win := func(t int64) int64 { return t / k.W } // instants are >= 0
	reqs := map[int]*mreq{}
	var waiting []*mreq
	rel := map[int64]int64{}
	lastRefresh := k.QueueT0
	anyStale, anyUnparked, notAtomic := false, false, false
	for _, e := range k.Events {
		if e.K == "arrive" && e.RanInside > 0 {
			notAtomic = true
		}
	}
	sizeSig := func() string {
		if notAtomic { // some operation completed between an admission decision and the push it admitted
			return sigNotAtomicSize
		}
		return "size-bound"
	}

	best := func() *mreq {
		var b *mreq
		for _, w := range waiting {
			if b == nil || better(w, b) {
				b = w
			}
		}
		return b
	}
	remove := func(id int) {
		for i, w := range waiting {
			if w.id == id {
				waiting = append(waiting[:i:i], waiting[i+1:]...)
				return
			}
		}
	}
	grant := func(id int, at int64) {
		rel[win(at)]++
		if rel[win(at)] > k.Quota {
			add("release-bound", fmt.Sprintf("at most %d releases in the window [%d,%d)", k.Quota, win(at)*k.W, (win(at)+1)*k.W),
				fmt.Sprintf("request %d is release #%d of that window (at %d)", id, rel[win(at)], at))
		}
	}

	// a pass is judged once the returns it caused have been seen
	type passInfo struct {
		at, next int64
		released []*mreq
	}
	var pend *passInfo
	closePass := func() {
		if pend == nil {
			return
		}
		p := pend
		pend = nil
		if want := (win(p.at) + 1) * k.W; p.next != 0 && p.next != want {
			add("tick-not-at-boundary", fmt.Sprintf("after the pass at %d the roll-over goroutine sleeps until the window end %d", p.at, want),
				fmt.Sprintf("it sleeps until %d", p.next))
		}
		b := best()
		if b == nil {
			return
		}
		if rel[win(p.at)] < k.Quota && b.mark == "" {
			b.mark = fmt.Sprintf("quota-free-after-pass@%d", p.at)
		}
		for _, r := range p.released {
			if better(b, r) && b.mark == "" {
				b.mark = fmt.Sprintf("worse-served-first@%d(by %d)", p.at, r.id)
			}
		}
	}

	for _, e := range k.Events {
		// a request that called Enqueue before a pass and started to wait only
		// after it is judged as a waiter of that pass: the arrival first, then the pass
		late := e.K == "arrive" && e.PassInside && !e.Immediate
		if e.K != "ret" && !late {
			closePass()
		}
		switch e.K {
		case "arrive":
			stale := win(e.At) > win(lastRefresh)
			if stale {
				anyStale = true
			}
			if e.At > lastRefresh {
				lastRefresh = e.At
			}
			r := &mreq{id: e.ID, prio: e.Prio, ts: e.Ts, ttl: e.TTL, at: e.At, passInside: late}
			reqs[e.ID] = r
			switch {
			case e.Immediate && e.Result:
				grant(e.ID, e.At)
				if b := best(); b != nil && b.mark == "" {
					b.mark = fmt.Sprintf("slot-to-newcomer@%d(%d)", e.At, e.ID)
				}
			case e.Immediate:
				if int64(len(waiting)) < k.QSize {
					add("reject-not-full", fmt.Sprintf("immediate refusal only when %d requests wait", k.QSize),
						fmt.Sprintf("request %d refused at %d with %d waiting", e.ID, e.At, len(waiting)))
				}
			default:
				waiting = append(waiting, r)
				if int64(len(waiting)) > k.QSize {
					add(sizeSig(), fmt.Sprintf("at most %d waiters", k.QSize),
						fmt.Sprintf("%d waiters after request %d at %d", len(waiting), e.ID, e.At))
				}
			}
			if e.Count > k.QSize && k.QSize >= 0 {
				add(sizeSig(), fmt.Sprintf("Counts() total <= %d", k.QSize), fmt.Sprintf("%d at %d", e.Count, e.At))
			}
			if late {
				closePass()
			}
		case "pass":
			lastRefresh = e.At
			for _, id := range e.Unparked {
				anyUnparked = true
				if r := reqs[id]; r != nil {
					r.unparkedAtPass = true
				}
			}
			pend = &passInfo{at: e.At, next: e.NextTick}
		case "ret":
			r := reqs[e.ID]
			remove(e.ID)
			if e.Result {
				grant(e.ID, e.At)
				if pend != nil {
					pend.released = append(pend.released, r)
				}
				continue
			}
			if e.At-r.at < r.ttl {
				add("ttl-early", fmt.Sprintf("request %d may expire only %d ns after its arrival at %d", r.id, r.ttl, r.at),
					fmt.Sprintf("expired at %d", e.At))
			}
			if r.mark != "" {
				sig := "strand:" + r.mark[:indexAt(r.mark)]
				switch {
				case r.passInside:
					sig = sigNotAtomicStrand
				case r.unparkedAtPass:
					sig = sigLost
				case anyStale:
					sig = sigBarging
				case anyUnparked:
					sig = sigLost
				}
				add(sig, fmt.Sprintf("request %d (priority %d, arrival %d), whose turn had come (%s), is released, not left to expire", r.id, r.prio, r.ts, r.mark),
					fmt.Sprintf("it expired at %d", e.At))
			}
		}
	}
	closePass()
	return hits
}

func indexAt(s string) int {
	for i := 0; i < len(s); i++ {
		if s[i] == '@' {
			return i
		}
	}
	return len(s)
}
