// Suite failsafe: the watcher as the engine builds it.
//
// failsafe.NewDiagnosisFailsafeStateChangeWatcher (settings from the
// DIAGNOSIS_FAILSAFE_* environment, whole seconds) on a real
// config.TxnPoliciesAccessor whose persisted policies live in files under the
// harness' scratch directory; the reactions are the real ones
// (RevertToDiagnosisFree / RevertToLastLoaded); HAProxy's management endpoint is
// an in-process stub (as in harness/cmd/c11).  Only the health predicate is
// replaced by the script, and the two reactions are wrapped so that their
// invocation is seen; the Config value inside the watcher is reached by its
// type (reflect), so no file has to be added to the tree under test.
//
// A reaction is made to FAIL at scripted checks: the persisted file it reads is
// corrupt (fault 1) or HAProxy refuses the update (fault 2).  Observed per
// reaction: kind, instant, whether a new policies version was installed and
// whether the policies in force afterwards are the diagnosis-free ones.
package main

import (
	"fmt"
	"io"
	"net/http"
	"os"
	"path/filepath"
	"reflect"
	"strconv"
	"strings"
	"sync/atomic"
	"unsafe"

	"lunar/engine/config"
	"lunar/engine/failsafe"
	sharedConfig "lunar/shared-model/config"
	contextmanager "lunar/toolkit-core/context-manager"

	c "verifharness/common"
)

var faultCoq = []string{"NoFault", "CorruptFile", "ProxyRefuses"}

type haproxyStub struct {
	down  atomic.Bool
	calls atomic.Int64
}

func (s *haproxyStub) RoundTrip(r *http.Request) (*http.Response, error) {
	s.calls.Add(1)
	if s.down.Load() {
		return nil, fmt.Errorf("haproxy stub: refusing")
	}
	return &http.Response{StatusCode: http.StatusOK, Status: "200 OK", Proto: "HTTP/1.1", ProtoMajor: 1, ProtoMinor: 1,
		Header: http.Header{}, Body: io.NopCloser(strings.NewReader("")), Request: r}, nil
}

type world struct {
	acc   *config.TxnPoliciesAccessor
	stub  *haproxyStub
	paths [2]string // persisted policies: [0] last loaded, [1] diagnosis-free
	good  [2][]byte
}

var theWorld *world

func diagnosisFree(p *config.PoliciesData) bool {
	if len(p.Config.Global.Diagnosis) > 0 {
		return false
	}
	for _, e := range p.Config.Endpoints {
		if len(e.Diagnosis) > 0 {
			return false
		}
	}
	return true
}

// getWorld: one accessor for the whole run (its vacuum goroutines live on a mock
// clock that never moves).  The persisted files are produced by the real loading
// path (ReloadFromFile -> persistLoaded) from a policies.yaml with an enabled
// global diagnosis and an endpoint that has a diagnosis and a remedy.
func getWorld() *world {
	if theWorld != nil {
		return theWorld
	}
	w := &world{stub: &haproxyStub{}}
	http.DefaultClient.Transport = w.stub
	dir, err := filepath.Abs("failsafe-config")
	must(err)
	must(os.MkdirAll(dir, 0o755))
	must(os.Setenv("LUNAR_PROXY_CONFIG_DIR", dir))
	policies := filepath.Join(dir, "policies.yaml")
	must(os.Setenv("LUNAR_PROXY_POLICIES_CONFIG", policies))
	diag := func(name string) sharedConfig.Diagnosis {
		return sharedConfig.Diagnosis{Enabled: true, Name: name, Export: "file",
			Config: sharedConfig.DiagnosisConfig{Void: &sharedConfig.VoidConfig{}}}
	}
	full := &sharedConfig.PoliciesConfig{
		Global: sharedConfig.Global{Diagnosis: []sharedConfig.Diagnosis{diag("global-diagnosis")}},
		Endpoints: []sharedConfig.EndpointConfig{{
			URL: "api.example.com/v1/items", Method: "GET",
			Diagnosis: []sharedConfig.Diagnosis{diag("endpoint-diagnosis")},
			Remedies: []sharedConfig.Remedy{{Enabled: true, Name: "endpoint-remedy",
				Config: sharedConfig.RemedyConfig{FixedResponse: &sharedConfig.FixedResponseConfig{StatusCode: 418}}}},
		}},
		Exporters: sharedConfig.Exporters{File: &sharedConfig.FileExporterConfig{FileDir: dir, FileName: "out.log"}},
	}
	must(config.WritePoliciesConfig(policies, full))
	contextmanager.Get().SetMockClock()
	empty, err := config.BuildPolicyData(&sharedConfig.PoliciesConfig{}, false)
	must(err)
	acc := config.NewTxnPoliciesAccessor(empty)
	w.acc = &acc
	must(w.acc.ReloadFromFile())
	w.paths = [2]string{filepath.Join(dir, "loaded-policies.yaml"), filepath.Join(dir, "loaded-policies-diagnosis-free.yaml")}
	for i, p := range w.paths {
		w.good[i], err = os.ReadFile(p)
		must(err)
	}
	if diagnosisFree(w.acc.GetCurrentPoliciesData()) {
		panic("failsafe suite: the loaded policies have no diagnosis")
	}
	// the two real reverts do what their names say on this set-up
	must(w.acc.RevertToDiagnosisFree())
	if !diagnosisFree(w.acc.GetCurrentPoliciesData()) {
		panic("failsafe suite: RevertToDiagnosisFree left a diagnosis in force")
	}
	must(w.acc.RevertToLastLoaded())
	if diagnosisFree(w.acc.GetCurrentPoliciesData()) {
		panic("failsafe suite: RevertToLastLoaded did not bring the diagnosis back")
	}
	theWorld = w
	return w
}

func must(err error) {
	if err != nil {
		panic(err)
	}
}

// reset: no fault left over, the last loaded policies in force
func (w *world) reset() {
	w.stub.down.Store(false)
	for i, p := range w.paths {
		if b, err := os.ReadFile(p); err != nil || string(b) != string(w.good[i]) {
			must(os.WriteFile(p, w.good[i], 0o644))
		}
	}
	if diagnosisFree(w.acc.GetCurrentPoliciesData()) {
		must(w.acc.RevertToLastLoaded())
	}
}

// invoke runs the real reaction under the scripted fault
func (w *world) invoke(kind bool, fault int, real func()) (effect, diagFree bool) {
	before := w.acc.GetCurrentPoliciesData()
	file := 1 // 'unhealthy' reads the diagnosis-free file
	if kind {
		file = 0
	}
	switch fault {
	case 1:
		must(os.WriteFile(w.paths[file], []byte("endpoints: [ {\n\tbroken"), 0o644))
	case 2:
		w.stub.down.Store(true)
	}
	real()
	switch fault {
	case 1:
		must(os.WriteFile(w.paths[file], w.good[file], 0o644))
	case 2:
		w.stub.down.Store(false)
	}
	after := w.acc.GetCurrentPoliciesData()
	return after != before, diagnosisFree(after)
}

// configOf finds the failsafe.Config held by the watcher (by type, not by name)
func configOf(scw *failsafe.StateChangeWatcher) *failsafe.Config {
	v := reflect.ValueOf(scw).Elem()
	want := reflect.TypeOf(failsafe.Config{})
	for i := 0; i < v.NumField(); i++ {
		f := v.Field(i)
		if f.Type() == want {
			return (*failsafe.Config)(unsafe.Pointer(f.UnsafeAddr()))
		}
		if f.Kind() == reflect.Ptr && f.Type().Elem() == want && !f.IsNil() {
			return (*failsafe.Config)(unsafe.Pointer(f.Pointer()))
		}
	}
	panic("failsafe suite: no failsafe.Config inside StateChangeWatcher")
}

func buildFailsafe(r *runner) *failsafe.StateChangeWatcher {
	k := r.k
	w := getWorld()
	w.reset()
	must(os.Setenv("DIAGNOSIS_FAILSAFE_CONSECUTIVE_N", strconv.Itoa(k.N)))
	must(os.Setenv("DIAGNOSIS_FAILSAFE_MIN_SEC_BETWEEN_CALLS", strconv.FormatInt(k.I/sec, 10)))
	must(os.Setenv("DIAGNOSIS_FAILSAFE_MIN_STABLE_SEC", strconv.FormatInt(k.P/sec, 10)))
	must(os.Setenv("DIAGNOSIS_FAILSAFE_COOLDOWN_SEC", strconv.FormatInt(k.C/sec, 10)))
	scw, err := failsafe.NewDiagnosisFailsafeStateChangeWatcher(w.acc, r.clk)
	must(err)
	cfg := configOf(scw)
	if cfg.ConsecutiveN != k.N || int64(cfg.MinTimeBetweenCalls) != k.I || int64(cfg.MinStablePeriod) != k.P ||
		int64(cfg.CooldownPeriod) != k.C {
		panic(fmt.Sprintf("failsafe suite: the constructor did not take the settings from the environment: %+v", *cfg))
	}
	realTrue, realFalse := cfg.OnChangeToTrue, cfg.OnChangeToFalse
	cfg.ObtainPredicate = r.pred
	cfg.OnChangeToTrue = func() { r.react(true, realTrue) }
	cfg.OnChangeToFalse = func() { r.react(false, realFalse) }
	r.invoke = w.invoke
	return scw
}

// genFailsafe: whole-second settings (the environment variables are seconds),
// long stable outages and recoveries so that reactions are due, a fault at a
// third of the checks.
func genFailsafe(o *c.Out, r *c.Rng, t0 int64) {
	slack := []int64{0, 0, 1, sec / 2, sec}
	for i := 0; i < o.Scale(1200, 8000, 6000); i++ {
		k := Case{Kind: "failsafe", N: r.Range(0, 4), T0: t0 + int64(r.Intn(1000))}
		k.P = c.Pick(r, []int64{0, sec, 2 * sec, 3 * sec})
		k.I = c.Pick(r, []int64{0, sec, sec, 2 * sec})
		k.C = c.Pick(r, []int64{-sec, 0, sec, 3 * sec, 10 * sec})
		l := r.Range(3, 20)
		cur := r.Chance(1, 3)
		flip := r.Range(3, 8) // a change of the state every `flip` checks on average
		slow := r.Chance(1, 3)
		for j := 0; j < l; j++ {
			if r.Chance(1, flip) {
				cur = !cur
			}
			s := Step{Obs: cur, Delay: c.Pick(r, []int64{0, sec / 2, sec})}
			if slow {
				s.Pre, s.Post = c.Pick(r, slack), c.Pick(r, slack)
			}
			if r.Chance(1, 3) {
				s.Fault = r.Range(1, 2)
			}
			k.Script = append(k.Script, s)
		}
		if !run(o, "failsafe", k) {
			return
		}
	}
}
