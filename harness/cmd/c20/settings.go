// Suite settings: from the TEXT of the environment settings to the watcher.
//
// The production path: os.Setenv(DIAGNOSIS_FAILSAFE_*) -> the getters of
// utils/environment -> failsafe.NewDiagnosisFailsafeStateChangeWatcher.  The
// four texts are of varied shape: plain ("10"), zero-padded ("010", "0300",
// "007", "08"), with a sign ("+10", "-3"), with surrounding spaces, hex- /
// binary- / octal-looking ("0x10", "0b101", "0o17"), with an underscore, empty,
// non-numeric, out of range.  The watcher that comes out (if any) is driven
// like the bare one: scripted predicate, recording callbacks (the real
// reactions are not needed here: nil accessor), virtual clock.
//
// Observed: was a watcher built; the instant of every answer; the reactions
// with their instants.  The model (theories/C20/Settings.v, run_scase) reads
// the texts as strconv.Atoi does and runs the watcher model with the decoded
// periods; a text Atoi rejects = no watcher.
//
// Monitor: the statement of the property for the CONFIGURED periods, the
// configured period being what the text says read as a decimal number (sign,
// digits; surrounding blanks ignored).  Where the text says no number the
// monitor demands nothing for that setting.
package main

import (
	"fmt"
	"math"
	"os"
	"strings"

	"lunar/engine/failsafe"

	c "verifharness/common"
)

type Texts struct {
	I string `json:"DIAGNOSIS_FAILSAFE_MIN_SEC_BETWEEN_CALLS"`
	N string `json:"DIAGNOSIS_FAILSAFE_CONSECUTIVE_N"`
	P string `json:"DIAGNOSIS_FAILSAFE_MIN_STABLE_SEC"`
	C string `json:"DIAGNOSIS_FAILSAFE_COOLDOWN_SEC"`
}

// says: the number a text says, read as a decimal number by a human (blanks
// around it ignored, optional sign, decimal digits only, at most 9 of them
// significant so that seconds fit a Duration).  Independent of strconv.
func says(s string) (int64, bool) {
	s = strings.Trim(s, " \t")
	neg := false
	if len(s) > 0 && (s[0] == '+' || s[0] == '-') {
		neg = s[0] == '-'
		s = s[1:]
	}
	if len(s) == 0 {
		return 0, false
	}
	var v int64
	for i := 0; i < len(s); i++ {
		if s[i] < '0' || s[i] > '9' {
			return 0, false
		}
		v = v*10 + int64(s[i]-'0')
		if v > 999_999_999 {
			return 0, false
		}
	}
	if neg {
		v = -v
	}
	return v, true
}

func canonical(s string) bool {
	v, ok := says(s)
	return ok && s == fmt.Sprint(v)
}

// configured fills the numeric settings of the case with what the texts say
// (used by the monitor only); a text that says no number demands nothing
func configured(k *Case) {
	t := k.Texts
	k.N, k.P, k.I, k.C = 1, math.MinInt64, 0, 0
	if v, ok := says(t.N); ok && v < 1<<31 && v > -(1<<31) {
		k.N = int(v)
	}
	if v, ok := says(t.P); ok {
		k.P = v * sec
	}
	if v, ok := says(t.I); ok {
		k.I = v * sec
	}
	if v, ok := says(t.C); ok {
		k.C = v * sec
	}
}

// buildSettings: nil = the constructor gave no watcher (k.BuildErr says why)
func buildSettings(r *runner) (scw *failsafe.StateChangeWatcher) {
	k := r.k
	t := k.Texts
	must(os.Setenv("DIAGNOSIS_FAILSAFE_MIN_SEC_BETWEEN_CALLS", t.I))
	must(os.Setenv("DIAGNOSIS_FAILSAFE_CONSECUTIVE_N", t.N))
	must(os.Setenv("DIAGNOSIS_FAILSAFE_MIN_STABLE_SEC", t.P))
	must(os.Setenv("DIAGNOSIS_FAILSAFE_COOLDOWN_SEC", t.C))
	k.Built, k.BuildErr = false, ""
	defer func() {
		if p := recover(); p != nil {
			scw, k.Built, k.BuildErr = nil, false, fmt.Sprint("panic: ", p)
		}
	}()
	w, err := failsafe.NewDiagnosisFailsafeStateChangeWatcher(nil, r.clk)
	if err != nil || w == nil {
		k.BuildErr = fmt.Sprint(err)
		return nil
	}
	cfg := configOf(w)
	cfg.ObtainPredicate = r.pred
	cfg.OnChangeToTrue = func() { r.react(true, nil) }
	cfg.OnChangeToFalse = func() { r.react(false, nil) }
	k.Built = true
	return w
}

func coqSettings(k *Case) string {
	t := k.Texts
	return "(SCase (Texts " + c.Bytes(t.I) + " " + c.Bytes(t.N) + " " + c.Bytes(t.P) + " " + c.Bytes(t.C) + ") " +
		c.Z(k.T0) + " " + c.MapList(k.Script, coqItem) + " " + c.B(k.Built) + " " +
		c.MapList(k.ObsAt, func(t int64) string { return c.Z(t - k.T0) }) + " " +
		c.MapList(k.Observed, func(r Rx) string { return c.Tuple(c.B(r.Kind), c.Z(r.At-k.T0)) }) + ")"
}

// monitorSettings: the monitor of the bare watcher for the configured periods;
// a hit on a case whose texts are not all in plain form is marked as such
func monitorSettings(k *Case) []c.Hit {
	hits := monitor(k)
	t := k.Texts
	if !(canonical(t.I) && canonical(t.N) && canonical(t.P) && canonical(t.C)) {
		for i := range hits {
			hits[i].Signature += ":setting-text"
			hits[i].Demanded += fmt.Sprintf(" (settings as written: interval %q s, N %q, stable %q s, cool-down %q s)", t.I, t.N, t.P, t.C)
		}
	}
	return hits
}

// shape: a way of writing the value v; ok = false: a text that is no decimal
// number at all (v is ignored)
func shape(r *c.Rng, v int64) string {
	plain := fmt.Sprint(v)
	pick := r.Intn(26)
	if pick >= 11 && pick <= 21 && r.Chance(3, 5) { // the shapes HEAD rejects (no watcher): fewer of them
		pick = r.Intn(11)
	}
	switch pick {
	case 0, 1, 2:
		return fmt.Sprintf("%03d", v)
	case 3, 4:
		return fmt.Sprintf("%04d", v)
	case 5, 6:
		return "0" + strings.TrimPrefix(plain, "-")
	case 7:
		return "00" + strings.TrimPrefix(plain, "-")
	case 8, 9:
		if v >= 0 {
			return "+" + plain
		}
		return plain
	case 10:
		if v >= 0 {
			return fmt.Sprintf("+%03d", v)
		}
		return fmt.Sprintf("-%03d", -v)
	case 11:
		return " " + plain
	case 12:
		return plain + " "
	case 13:
		return " " + plain + " "
	case 14:
		return fmt.Sprintf("0x%x", max64(v, 0))
	case 15:
		return "0x" + strings.TrimPrefix(plain, "-") // hex-looking, decimal digits
	case 16:
		return fmt.Sprintf("0b%b", max64(v, 0))
	case 17:
		return fmt.Sprintf("0o%o", max64(v, 0))
	case 18:
		if len(plain) > 1 {
			return plain[:1] + "_" + plain[1:]
		}
		return plain + "_0"
	case 19:
		return ""
	case 20:
		return c.Pick(r, []string{"abc", plain + "s", plain + ".5", "1e1", "ten", "٣", "0x", "-", "+", "1 0"})
	case 21:
		return c.Pick(r, []string{"99999999999999999999", "-99999999999999999999", "9223372036854775808"})
	case 22:
		return fmt.Sprint(-v)
	case 23:
		return "-0"
	default:
		return plain
	}
}

func max64(a, b int64) int64 {
	if a > b {
		return a
	}
	return b
}

// genSettings: mostly plain texts with one or two settings written in another
// shape (zero-padded most often), values around the places where an octal and a
// decimal reading differ (8, 9, 10, 12, 17, 100, 300), outages and recoveries
// long enough for reactions to be due under either reading, a time scale per
// case so that the script spans the cool-down.
func genSettings(o *c.Out, r *c.Rng, t0 int64) {
	vals := func(xs ...int64) []int64 { return xs }
	for i := 0; i < o.Scale(900, 8000, 6000); i++ {
		k := Case{Kind: "settings", T0: t0 + int64(r.Intn(1000)), Texts: &Texts{}}
		iv := c.Pick(r, vals(0, 1, 1, 1, 2, 5, 10, 10, 30))
		n := int64(r.Range(0, 4))
		if r.Chance(1, 8) {
			n = c.Pick(r, vals(8, 10, 12))
		}
		p := c.Pick(r, vals(0, 1, 2, 3, 7, 8, 9, 10, 10, 10, 12, 17, 20, 100))
		cd := c.Pick(r, vals(0, 1, 3, 10, 10, 12, 30, 100, 100, 300, 300))
		t := k.Texts
		t.I, t.N, t.P, t.C = fmt.Sprint(iv), fmt.Sprint(n), fmt.Sprint(p), fmt.Sprint(cd)
		for j, m := 0, c.Pick(r, []int{0, 1, 1, 1, 1, 1, 2, 3}); j < m; j++ {
			switch r.Intn(7) { // the two periods of the statement most often
			case 0:
				t.I = shape(r, iv)
			case 1:
				t.N = shape(r, n)
			case 2, 3, 4:
				t.P = shape(r, p)
			default:
				t.C = shape(r, cd)
			}
		}
		if r.Chance(1, 4) {
			// aimed: one of the two periods of the statement zero-padded, a value whose octal reading is
			// smaller, everything else plain
			t.I, t.N = fmt.Sprint(iv), fmt.Sprint(n%4)
			if r.Bool() {
				p = c.Pick(r, vals(8, 9, 10, 10, 12, 17, 20, 100))
				t.P, t.C = c.Pick(r, []string{"0%d", "%03d", "%04d", "+0%d"}), fmt.Sprint(cd)
				t.P = fmt.Sprintf(t.P, p)
			} else {
				cd = c.Pick(r, vals(10, 10, 12, 30, 100, 300, 300))
				t.P, t.C = fmt.Sprint(p), c.Pick(r, []string{"0%d", "%04d", "%05d"})
				t.C = fmt.Sprintf(t.C, cd)
			}
		}
		if r.Chance(1, 20) {
			// seconds that do not fit a Duration: time.Second * time.Duration(raw) wraps (Settings.seconds).
			// The stable period takes any of them (a wrapped one is negative, ~0.29 s or ~292 years); the
			// cool-down only those that wrap to a short or negative sleep (the virtual clock adds it to now).
			// says() knows no number of more than 9 digits: the monitor demands nothing for that setting.
			if r.Bool() {
				t.P = c.Pick(r, []string{"9223372036", "9223372037", "-9223372037", "18446744074", "+09223372037"})
			} else {
				t.C = c.Pick(r, []string{"9223372037", "18446744074", "09223372037"})
			}
		}
		if v, ok := says(t.I); ok && v < 0 {
			// (a negative interval wraps Go's int64 subtraction on the first iteration: notes/C20.md
			// "unbounded integers"; the differential suites leave it out)
			t.I = "-0"
		}
		// the time a check takes, so that the script reaches beyond the periods
		scale := c.Pick(r, vals(0, sec, sec, sec, 5*sec, 20*sec, 50*sec))
		if iv == 0 && scale == 0 {
			scale = sec
		}
		cur := true
		left := r.Range(1, 3)
		l := r.Range(8, 30)
		slow := r.Chance(1, 4)
		for j := 0; j < l; j++ {
			if left == 0 {
				cur = !cur
				left = c.Pick(r, []int{1, 2, 3, 6, 9, 10, 11, 12, 14, 16})
			}
			left--
			s := Step{Obs: cur, Delay: scale}
			if r.Chance(1, 6) {
				s.Delay = c.Pick(r, vals(0, 1, sec/2, sec, 3*sec))
			}
			if slow {
				s.Pre, s.Post = c.Pick(r, vals(0, 0, 1, sec)), c.Pick(r, vals(0, 0, 1, sec))
			}
			k.Script = append(k.Script, s)
		}
		if !run(o, "settings", k) {
			return
		}
	}
}
