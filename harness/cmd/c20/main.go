// C20 harness: drives the real failsafe.StateChangeWatcher with a deterministic
// clock and a scripted predicate; observables = the instant of every observation
// and the ordered (reaction, instant) list.
package main

import (
	"fmt"
	"runtime"
	"time"

	"lunar/engine/failsafe"

	"github.com/rs/zerolog"

	c "verifharness/common"
)

// fakeClock: a deterministic clock.Clock.  Blocking waits return exactly when they
// are due (a non-positive wait returns at once, as time.Sleep / time.After do);
// extra time passes only where the script says so:
//
//	Pre   before the reading at the top of the loop (recognised as the first clock
//	      call ever, or a Since() that directly follows a Now(): the loop ends with
//	      lastRunAt = Now() and starts with Since(lastRunAt))
//	Delay inside the predicate
//	Post  inside the callback (a reaction that takes time, e.g. a policy reload)
type fakeClock struct {
	now     time.Time
	calls   int
	lastNow bool // the previous clock call was Now()
	pre     func() time.Duration
}

func (f *fakeClock) tick(isNow bool) { f.calls++; f.lastNow = isNow }
func (f *fakeClock) Now() time.Time  { f.tick(true); return f.now }
func (f *fakeClock) Sleep(d time.Duration) {
	f.tick(false)
	if d > 0 {
		f.now = f.now.Add(d)
	}
}
func (f *fakeClock) After(d time.Duration) <-chan time.Time {
	f.tick(false)
	if d > 0 {
		f.now = f.now.Add(d)
	}
	ch := make(chan time.Time, 1)
	ch <- f.now
	return ch
}
func (f *fakeClock) Since(t time.Time) time.Duration {
	if f.calls == 0 || f.lastNow {
		f.now = f.now.Add(f.pre())
	}
	f.tick(false)
	return f.now.Sub(t)
}
func (f *fakeClock) Until(t time.Time) time.Duration { f.tick(false); return t.Sub(f.now) }

type Step struct {
	Obs   bool  `json:"obs"`
	Pre   int64 `json:"pre_ns"`   // scheduling slack before the top-of-loop reading
	Delay int64 `json:"delay_ns"` // time spent inside the predicate
	Post  int64 `json:"post_ns"`  // time spent inside the callback (0 when none was called)
}
type Rx struct {
	Kind     bool  `json:"healthy"`
	At       int64 `json:"at_ns"`
	AfterObs int   `json:"after_observation"` // index of the observation it followed
}
type Case struct {
	N        int     `json:"consecutive_n"`
	P        int64   `json:"stable_ns"`
	I        int64   `json:"interval_ns"`
	C        int64   `json:"cooldown_ns"`
	T0       int64   `json:"t0_ns"`
	Script   []Step  `json:"script"`
	ObsAt    []int64 `json:"observed_at_ns"`
	Observed []Rx    `json:"reactions"`
}

func exec(k *Case) {
	clk := &fakeClock{now: time.Unix(0, k.T0)}
	done := make(chan struct{})
	i := 0
	k.Observed = nil
	k.ObsAt = nil
	clk.pre = func() time.Duration {
		if i < len(k.Script) {
			return time.Duration(k.Script[i].Pre)
		}
		return 0
	}
	called := make([]bool, len(k.Script))
	react := func(kind bool) {
		k.Observed = append(k.Observed, Rx{kind, clk.now.UnixNano(), i - 1})
		if i >= 1 && i <= len(k.Script) {
			called[i-1] = true
			clk.now = clk.now.Add(time.Duration(k.Script[i-1].Post))
		}
	}
	cfg := failsafe.Config{
		ObtainPredicate: func() bool {
			if i >= len(k.Script) {
				close(done)
				runtime.Goexit()
			}
			s := k.Script[i]
			i++
			clk.now = clk.now.Add(time.Duration(s.Delay))
			k.ObsAt = append(k.ObsAt, clk.now.UnixNano())
			return s.Obs
		},
		OnChangeToTrue:      func() { react(true) },
		OnChangeToFalse:     func() { react(false) },
		MinTimeBetweenCalls: time.Duration(k.I),
		ConsecutiveN:        k.N,
		MinStablePeriod:     time.Duration(k.P),
		CooldownPeriod:      time.Duration(k.C),
	}
	w := failsafe.NewStateChangeWatcher("verif", cfg, clk, zerolog.Nop())
	w.RunInBackground()
	<-done
	// the callback slack was consumed only where a callback ran
	for j := range k.Script {
		if !called[j] {
			k.Script[j].Post = 0
		}
	}
}

func coq(k *Case) string {
	return "(Case " + c.Z(int64(k.N)) + " " + c.Z(k.P) + " " + c.Z(k.I) + " " + c.Z(k.C) + " " + c.Z(k.T0) + " " +
		c.MapList(k.Script, func(s Step) string {
			return "It " + c.B(s.Obs) + " " + c.Z(s.Pre) + " " + c.Z(s.Delay) + " " + c.Z(s.Post)
		}) + " " +
		c.MapList(k.ObsAt, func(t int64) string { return c.Z(t - k.T0) }) + " " + // offsets from t0
		c.MapList(k.Observed, func(r Rx) string { return c.Tuple(c.B(r.Kind), c.Z(r.At-k.T0)) }) + ")"
}

// monitor restates the property over what the implementation did
// (observations with their instants, reactions with theirs).
func monitor(k *Case) []c.Hit {
	var hits []c.Hit
	add := func(sig, dem, obs string) {
		hits = append(hits, c.Hit{Signature: sig, Demanded: dem, Observed: obs, Case: k})
	}
	need := k.N
	if need < 1 {
		need = 1
	}
	prev := true // reactions must alternate starting with unhealthy
	for ri, r := range k.Observed {
		if r.Kind == prev {
			add("alternation", "reactions alternate, first is unhealthy",
				fmt.Sprintf("reaction #%d is healthy=%v again", ri, r.Kind))
		}
		prev = r.Kind
		// the reaction follows the last observation made at or before r.At
		last := r.AfterObs
		if last < 0 || last >= len(k.ObsAt) {
			add("stability", "a reaction follows an observation", "reaction before any observation")
			continue
		}
		first := last
		for first >= 0 && k.Script[first].Obs == r.Kind {
			first--
		}
		first++
		runLen := last - first + 1
		if runLen < need {
			add("stability-count", fmt.Sprintf(">= %d consecutive observations of %v", need, r.Kind),
				fmt.Sprintf("only %d before the reaction at %d", runLen, r.At))
		} else if r.At-k.ObsAt[first] < k.P {
			add("stability-period", fmt.Sprintf("state observed for >= %d ns", k.P),
				fmt.Sprintf("only %d ns", r.At-k.ObsAt[first]))
		}
		if !r.Kind {
			for _, t := range k.ObsAt {
				if t > r.At && t < r.At+k.C {
					add("cooldown", fmt.Sprintf("no check within %d ns after the unhealthy reaction at %d", k.C, r.At),
						fmt.Sprintf("check at %d", t))
					break
				}
			}
		}
	}
	return hits
}

func main() {
	o := c.NewOut("C20")
	// two suites over the same case type and run function: the exhaustive small-scope scripts and
	// the random long ones (separate so that each gets its own <= 32 coqc shards: a shard of 4 000
	// long random cases needs ~2 GB)
	o.DeclareSuite("watcher", "From Verif Require Import C20.Model.", "case", "run_case")
	o.DeclareSuite("watcher_rnd", "From Verif Require Import C20.Model.", "case", "run_case")
	o.Rule("exhaustive boolean observation scripts up to a length bound x a grid of settings " +
		"(N, stable period, interval, cool-down, fixed per-check delay), then random scripts with " +
		"random settings (negative stable period / cool-down, interval -1 ns included) and random " +
		"per-check slacks of the clock (before the top-of-loop reading, inside the predicate, inside " +
		"the callback); compared: the instant of every observation and the (reaction, instant) list; " +
		"distinct = distinct (settings, script, observation instants, observed reactions); " +
		"non-trivial = at least one reaction fired")
	var k Case
	if suite, ok := o.ReplayCase(&k); ok {
		if suite != "watcher_rnd" {
			suite = "watcher"
		}
		run(o, suite, k)
		o.Finish()
		return
	}
	const sec = int64(time.Second)
	t0 := int64(1_700_000_000) * sec
	// thorough: every length up to 9 (98 112 cases) + 30 000 random ones = ~128 000 cases
	// (lengths up to 11 were 393 000 cases: 25 min and > 1.5 GB per coqc shard)
	maxLen := o.Scale(7, 9, 9)
	for _, n := range []int{0, 1, 2, 3} {
		for _, p := range []int64{0, 2 * sec, 2*sec + 1} {
			for _, iv := range []int64{0, sec} {
				for _, cd := range []int64{0, 3 * sec} {
					for _, d := range []int64{0, sec} {
						if !o.Thorough() && d == 0 && iv == 0 && p > 0 {
							continue // time never advances: nothing can fire
						}
						for l := 1; l <= maxLen; l++ {
							if !o.Thorough() && l < maxLen && l > 4 {
								continue
							}
							for bits := 0; bits < 1<<l; bits++ {
								k := Case{N: n, P: p, I: iv, C: cd, T0: t0}
								for j := 0; j < l; j++ {
									k.Script = append(k.Script, Step{Obs: bits>>j&1 == 1, Delay: d})
								}
								run(o, "watcher", k)
							}
						}
					}
				}
			}
		}
	}
	r := o.Rng
	delays := []int64{0, 1, sec / 2, sec - 1, sec, sec + 1, 3 * sec}
	slack := []int64{0, 0, 0, 1, sec / 2, sec - 1, sec, sec + 1, 2 * sec}
	for i := 0; i < o.Scale(3000, 30000, 20000); i++ {
		k := Case{N: r.Range(-1, 5), T0: t0 + int64(r.Intn(1000))}
		k.P = c.Pick(r, []int64{-sec, 0, 1, sec, 2 * sec, 2*sec + 1, 5 * sec})
		// (an interval below -1 ns is left out: Go's int64 subtraction wraps on the first
		// iteration, see notes/C20.md "unbounded integers")
		k.I = c.Pick(r, []int64{-1, 0, 1, sec, sec, 2 * sec})
		k.C = c.Pick(r, []int64{-3 * sec, -1, 0, 1, sec, 3 * sec, 10 * sec})
		l := r.Range(1, 24)
		cur := r.Bool()
		slow := r.Chance(1, 2) // half of the cases: an otherwise idle clock
		for j := 0; j < l; j++ {
			if r.Chance(1, 4) {
				cur = !cur
			}
			s := Step{Obs: cur, Delay: c.Pick(r, delays)}
			if slow {
				s.Pre, s.Post = c.Pick(r, slack), c.Pick(r, slack)
			}
			k.Script = append(k.Script, s)
		}
		run(o, "watcher_rnd", k)
	}
	o.Finish()
}

func run(o *c.Out, suite string, k Case) {
	exec(&k)
	o.Count(fmt.Sprintf("len=%02d", len(k.Script)))
	o.Count(fmt.Sprintf("reactions=%d", len(k.Observed)))
	idx := o.Case(suite, coq(&k), k, len(k.Observed) > 0)
	o.MonitorChecked(1)
	for _, h := range monitor(&k) {
		h.Suite, h.Index = suite, idx
		o.Hit(h)
	}
}
