// C20 harness: drives the real failsafe.StateChangeWatcher with a deterministic
// virtual clock (vclock.go) and a scripted predicate; observables = the instant
// of every answer of the predicate and the ordered (reaction, instant) list.
//
// Suites
//
//	watcher, watcher_rnd  the bare watcher (failsafe.NewStateChangeWatcher), exhaustive
//	                      small scripts / random long ones
//	hang                  the bare watcher with a predicate that hangs for long virtual
//	                      durations (seconds to an hour) at scripted checks
//	failsafe              the watcher built by the REAL constructor
//	                      NewDiagnosisFailsafeStateChangeWatcher with the real reactions
//	                      on a real TxnPoliciesAccessor (failsafe.go); reactions are
//	                      made to fail at scripted checks
//
// Nothing is assumed about the implementation's threading: the predicate and the
// reactions may be called from any goroutine, checks may overlap, the loop may
// wait on timers of its own.  What the harness cannot drive to the end of the
// script is recorded (Case.Stall) and reported, the harness itself goes on.
package main

import (
	"fmt"
	"runtime"
	"time"

	"lunar/engine/failsafe"

	"github.com/rs/zerolog"

	c "verifharness/common"
)

type Step struct {
	Obs   bool  `json:"obs"`
	Pre   int64 `json:"pre_ns"`   // scheduling slack before the top-of-loop reading
	Delay int64 `json:"delay_ns"` // virtual time the predicate takes to answer (a hang = a long one)
	Post  int64 `json:"post_ns"`  // time spent inside the callback (0 when none was called)
	// suite failsafe: what goes wrong when a reaction is invoked at this check
	// (0 nothing, 1 the persisted policies file is corrupt, 2 HAProxy refuses); 0 when none was invoked
	Fault int `json:"fault,omitempty"`
}

// Rx: a reaction as INVOKED (whether or not it succeeds)
type Rx struct {
	Kind     bool  `json:"healthy"`
	At       int64 `json:"at_ns"`
	AfterObs int   `json:"after_observation"` // index of the latest check started before it
	Answered int   `json:"answers_before"`    // number of answers the predicate had given before it
	// suite failsafe: did it take effect, and which policies are in force after it
	Effect   bool `json:"took_effect,omitempty"`
	DiagFree bool `json:"diagnosis_free_in_force_after,omitempty"`
	seq      int
}

// Ans: an answer of the predicate (a REAL observation of the state)
type Ans struct {
	Call  int   `json:"check"`
	Obs   bool  `json:"obs"`
	At    int64 `json:"at_ns"`
	Stale bool  `json:"stale,omitempty"` // the implementation had not waited for it (see pred)
	seq   int
}

type Case struct {
	Kind string `json:"kind,omitempty"` // "" = bare watcher, "failsafe" = real constructor + real reactions, "settings" = real constructor from setting TEXTS
	// suite settings: the texts of the environment settings (the numeric settings below are then
	// what the texts say, for the monitor), was a watcher built, the constructor's error
	Texts    *Texts  `json:"setting_texts,omitempty"`
	Built    bool    `json:"watcher_built,omitempty"`
	BuildErr string  `json:"constructor_error,omitempty"`
	N        int     `json:"consecutive_n"`
	P        int64   `json:"stable_ns"`
	I        int64   `json:"interval_ns"`
	C        int64   `json:"cooldown_ns"`
	T0       int64   `json:"t0_ns"`
	Script   []Step  `json:"script"`
	ObsAt    []int64 `json:"observed_at_ns"`
	Answers  []Ans   `json:"answers"`
	Observed []Rx    `json:"reactions"`
	Stall    string  `json:"stall,omitempty"` // why the run could not be driven to the end of the script
}

// runner: one execution of a case
type runner struct {
	k        *Case
	clk      *vclock
	i        int // checks started so far
	finished bool
	called   []bool
	// the real reaction behind a callback (suite failsafe), run between the
	// recording of the invocation and the callback slack
	invoke func(kind bool, fault int, real func()) (effect, diagFree bool)
}

func (r *runner) pred() bool {
	cl := r.clk
	cl.lockLive()
	j := r.i
	if j >= len(r.k.Script) { // the check after the last scripted one ends the case
		r.finished = true
		cl.mu.Unlock()
		runtime.Goexit()
	}
	r.i++
	s := r.k.Script[j]
	served := cl.fired
	cl.mu.Unlock()
	cl.block(time.Duration(s.Delay), kAnswer)
	cl.lockLive()
	cl.seq++
	// stale: the implementation did not wait for this answer — it started a later check, or it
	// was handed another wait (a time-out, say) while this check was pending
	own := 0
	if s.Delay > 0 {
		own = 1
	}
	stale := r.i > j+1 || cl.fired-served > own
	r.k.Answers = append(r.k.Answers, Ans{Call: j, Obs: s.Obs, At: cl.now.UnixNano(), Stale: stale, seq: cl.seq})
	cl.mu.Unlock()
	return s.Obs
}

func (r *runner) react(kind bool, real func()) {
	cl := r.clk
	cl.lockLive()
	cl.seq++
	step := r.i - 1
	idx := len(r.k.Observed)
	r.k.Observed = append(r.k.Observed, Rx{Kind: kind, At: cl.now.UnixNano(), AfterObs: step,
		Answered: len(r.k.Answers), seq: cl.seq})
	var post int64
	fault := 0
	if step >= 0 && step < len(r.k.Script) {
		r.called[step] = true
		post = r.k.Script[step].Post
		fault = r.k.Script[step].Fault
	}
	cl.mu.Unlock()
	if r.invoke != nil {
		eff, df := r.invoke(kind, fault, real)
		cl.lockLive()
		r.k.Observed[idx].Effect, r.k.Observed[idx].DiagFree = eff, df
		cl.mu.Unlock()
	}
	cl.block(time.Duration(post), kTimer)
}

func exec(k *Case) {
	k.Observed, k.ObsAt, k.Answers, k.Stall = nil, nil, nil, ""
	clk := newVClock(k.T0)
	r := &runner{k: k, clk: clk, called: make([]bool, len(k.Script))}
	clk.pre = func() time.Duration {
		if r.i < len(k.Script) {
			return time.Duration(k.Script[r.i].Pre)
		}
		return 0
	}
	var w *failsafe.StateChangeWatcher
	if k.Kind == "settings" {
		if k.Texts == nil {
			k.Texts = &Texts{}
		}
		configured(k)
		if w = buildSettings(r); w == nil { // no watcher: nothing runs, nothing is observed
			clk.kill()
			return
		}
	} else if k.Kind == "failsafe" {
		w = buildFailsafe(r)
	} else {
		w = failsafe.NewStateChangeWatcher("verif", failsafe.Config{
			ObtainPredicate:     r.pred,
			OnChangeToTrue:      func() { r.react(true, nil) },
			OnChangeToFalse:     func() { r.react(false, nil) },
			MinTimeBetweenCalls: time.Duration(k.I),
			ConsecutiveN:        k.N,
			MinStablePeriod:     time.Duration(k.P),
			CooldownPeriod:      time.Duration(k.C),
		}, clk, zerolog.Nop())
	}
	w.RunInBackground()
	k.Stall = clk.drive(func() bool {
		clk.mu.Lock()
		defer clk.mu.Unlock()
		return r.finished
	}, 16*(len(k.Script)+2))
	clk.kill()
	clk.mu.Lock()
	defer clk.mu.Unlock()
	for _, a := range k.Answers {
		k.ObsAt = append(k.ObsAt, a.At)
	}
	// the callback slack / the fault were consumed only where a callback ran
	for j := range k.Script {
		if !r.called[j] {
			k.Script[j].Post = 0
			k.Script[j].Fault = 0
		}
	}
}

func coqItem(s Step) string {
	return "It " + c.B(s.Obs) + " " + c.Z(s.Pre) + " " + c.Z(s.Delay) + " " + c.Z(s.Post)
}

func coq(k *Case) string {
	head := c.Z(int64(k.N)) + " " + c.Z(k.P) + " " + c.Z(k.I) + " " + c.Z(k.C) + " " + c.Z(k.T0) + " "
	obsAt := c.MapList(k.ObsAt, func(t int64) string { return c.Z(t - k.T0) }) // offsets from t0
	if k.Kind == "settings" {
		return coqSettings(k)
	}
	if k.Kind == "failsafe" {
		return "(FCase " + head +
			c.MapList(k.Script, func(s Step) string { return "(FIt (" + coqItem(s) + ") " + faultCoq[s.Fault] + ")" }) + " " +
			obsAt + " " +
			c.MapList(k.Observed, func(r Rx) string {
				return "(FRx " + c.B(r.Kind) + " " + c.Z(r.At-k.T0) + " " + c.B(r.Effect) + " " + c.B(r.DiagFree) + ")"
			}) + ")"
	}
	return "(Case " + head +
		c.MapList(k.Script, coqItem) + " " + obsAt + " " +
		c.MapList(k.Observed, func(r Rx) string { return c.Tuple(c.B(r.Kind), c.Z(r.At-k.T0)) }) + ")"
}

// monitor restates the property over what the implementation did: the answers
// the predicate really gave (with their instants) and the reactions as invoked
// (with theirs), both in the order in which they happened.
//
//	alternation       reactions alternate, the first is 'unhealthy'
//	stability-count   the answers given before a reaction end with >= max(N,1)
//	                  consecutive answers of the new state
//	stability-period  the first answer of that stretch is >= the stable period old
//	cooldown          no reaction within the cool-down after an 'unhealthy' reaction
//	reaction-kind     (suite failsafe) a reaction that took effect left the policies of its
//	                  kind in force: diagnosis-free after 'unhealthy', with diagnosis after 'healthy again'
//
// An answer the implementation did not wait for (stale: a later check had been
// started, or another wait had been served to the implementation, while the check
// was pending) never breaks a stretch; it counts for the stretch when it agrees.  Loop iterations, time-outs or carried-over
// readings of the implementation are not observations: only answers count.
func monitor(k *Case) []c.Hit {
	var hits []c.Hit
	add := func(sig, dem, obs string) {
		hits = append(hits, c.Hit{Signature: sig, Demanded: dem, Observed: obs, Case: k})
	}
	need := k.N
	if need < 1 {
		need = 1
	}
	prev := true // reactions must alternate starting with unhealthy
	for ri, r := range k.Observed {
		if r.Kind == prev {
			add("alternation", "reactions alternate, first is unhealthy",
				fmt.Sprintf("reaction #%d at %d ns is healthy=%v again", ri, r.At-k.T0, r.Kind))
		}
		prev = r.Kind
		runLen, firstAt := 0, int64(0)
		for j := r.Answered - 1; j >= 0 && j < len(k.Answers); j-- {
			a := k.Answers[j]
			if a.Obs != r.Kind {
				if a.Stale {
					continue
				}
				break
			}
			runLen++
			firstAt = a.At
		}
		if runLen < need {
			add("stability-count", fmt.Sprintf(">= %d consecutive answers of the predicate saying healthy=%v before the reaction", need, r.Kind),
				fmt.Sprintf("only %d before the reaction at %d ns", runLen, r.At-k.T0))
		} else if r.At-firstAt < k.P {
			add("stability-period", fmt.Sprintf("state observed for >= %d ns", k.P),
				fmt.Sprintf("only %d ns", r.At-firstAt))
		}
		if k.Kind == "failsafe" && r.Effect && r.DiagFree == r.Kind {
			add("reaction-kind", "the 'unhealthy' reaction drops the diagnosis plugins, the 'healthy again' reaction brings the loaded policies back",
				fmt.Sprintf("after the reaction healthy=%v at %d ns took effect: diagnosis-free policies in force = %v", r.Kind, r.At-k.T0, r.DiagFree))
		}
		if !r.Kind {
			for _, r2 := range k.Observed[ri+1:] {
				if r2.At < r.At+k.C {
					add("cooldown", fmt.Sprintf("no reaction within %d ns after the unhealthy reaction at %d ns", k.C, r.At-k.T0),
						fmt.Sprintf("reaction healthy=%v at %d ns", r2.Kind, r2.At-k.T0))
					break
				}
			}
		}
	}
	return hits
}

const sec = int64(time.Second)

func main() {
	zerolog.SetGlobalLevel(zerolog.Disabled)
	o := c.NewOut("C20")
	// watcher / watcher_rnd / hang share the case type and the run function: the exhaustive
	// small-scope scripts, the random long ones (separate so that each gets its own <= 32 coqc
	// shards: a shard of 4 000 long random cases needs ~2 GB) and the hanging predicate
	o.DeclareSuite("watcher", "From Verif Require Import C20.Model.", "case", "run_case")
	o.DeclareSuite("watcher_rnd", "From Verif Require Import C20.Model.", "case", "run_case")
	o.DeclareSuite("hang", "From Verif Require Import C20.Model.", "case", "run_case")
	o.DeclareSuite("failsafe", "From Verif Require Import C20.Model C20.Outcome.", "fcase", "run_fcase")
	o.DeclareSuite("settings", "From Verif Require Import C20.Model C20.Settings.", "scase", "run_scase")
	o.Rule("exhaustive boolean observation scripts up to a length bound x a grid of settings " +
		"(N, stable period, interval, cool-down, fixed per-check delay), then random scripts with " +
		"random settings (negative stable period / cool-down, interval -1 ns included) and random " +
		"per-check slacks of the clock (before the top-of-loop reading, inside the predicate, inside " +
		"the callback); suite hang: random scripts in which the predicate hangs for 5 s .. 1 h of virtual " +
		"time at a third of the checks (blip followed by hangs included); suite failsafe: the watcher built by the " +
		"real constructor with the real reactions on a real policies accessor over files, whole-second settings, " +
		"a fault (corrupt persisted file / HAProxy refusing) at a third of the checks; compared: the instant of every " +
		"answer of the predicate and the (reaction, instant) list, for failsafe also whether each reaction took effect " +
		"and which policies are in force after it; suite settings: the watcher built by the real constructor from the TEXTS of the " +
		"four DIAGNOSIS_FAILSAFE_* settings (plain, zero-padded, signed, blanks around, 0x/0b/0o-looking, underscore, empty, " +
		"non-numeric, out of range; values where an octal and a decimal reading differ), scripts with outages and recoveries " +
		"reaching beyond the stable period and the cool-down; compared: was a watcher built, answer instants, reactions; " +
		"distinct = distinct (settings, script, observation instants, observed reactions); " +
		"non-trivial = at least one reaction fired (hang: and a check hung >= 5 s; failsafe: and a reaction failed; " +
		"settings: and a setting is not written in plain form)")
	var k Case
	if suite, ok := o.ReplayCase(&k); ok {
		switch {
		case k.Kind == "failsafe":
			suite = "failsafe"
		case k.Kind == "settings":
			suite = "settings"
		case suite != "watcher_rnd" && suite != "hang":
			suite = "watcher"
		}
		run(o, suite, k)
		o.Finish()
		return
	}
	t0 := int64(1_700_000_000) * sec
	r := o.Rng
	rFail, rHang := r.Fork(7), r.Fork(8)
	rSet := c.NewRng(o.Seed ^ 0x5e771465) // not forked from r: the other suites keep their cases
	// the two new suites first: on a tree whose watcher misbehaves they are the ones that
	// produce the failing input, and they are cheap
	genFailsafe(o, rFail, t0)
	if stopped {
		return
	}
	genHang(o, rHang, t0)
	if stopped {
		return
	}
	genSettings(o, rSet, t0)
	if stopped {
		return
	}
	// thorough: every length up to 9 (98 112 cases) + 30 000 random ones = ~128 000 cases
	// (lengths up to 11 were 393 000 cases: 25 min and > 1.5 GB per coqc shard)
	maxLen := o.Scale(7, 9, 9)
	for _, n := range []int{0, 1, 2, 3} {
		for _, p := range []int64{0, 2 * sec, 2*sec + 1} {
			for _, iv := range []int64{0, sec} {
				for _, cd := range []int64{0, 3 * sec} {
					for _, d := range []int64{0, sec} {
						if !o.Thorough() && d == 0 && iv == 0 && p > 0 {
							continue // time never advances: nothing can fire
						}
						for l := 1; l <= maxLen; l++ {
							if !o.Thorough() && l < maxLen && l > 4 {
								continue
							}
							for bits := 0; bits < 1<<l; bits++ {
								k := Case{N: n, P: p, I: iv, C: cd, T0: t0}
								for j := 0; j < l; j++ {
									k.Script = append(k.Script, Step{Obs: bits>>j&1 == 1, Delay: d})
								}
								if !run(o, "watcher", k) {
									return
								}
							}
						}
					}
				}
			}
		}
	}
	delays := []int64{0, 1, sec / 2, sec - 1, sec, sec + 1, 3 * sec}
	slack := []int64{0, 0, 0, 1, sec / 2, sec - 1, sec, sec + 1, 2 * sec}
	for i := 0; i < o.Scale(3000, 30000, 20000); i++ {
		k := Case{N: r.Range(-1, 5), T0: t0 + int64(r.Intn(1000))}
		k.P = c.Pick(r, []int64{-sec, 0, 1, sec, 2 * sec, 2*sec + 1, 5 * sec})
		// (an interval below -1 ns is left out: Go's int64 subtraction wraps on the first
		// iteration, see notes/C20.md "unbounded integers")
		k.I = c.Pick(r, []int64{-1, 0, 1, sec, sec, 2 * sec})
		k.C = c.Pick(r, []int64{-3 * sec, -1, 0, 1, sec, 3 * sec, 10 * sec})
		l := r.Range(1, 24)
		cur := r.Bool()
		slow := r.Chance(1, 2) // half of the cases: an otherwise idle clock
		for j := 0; j < l; j++ {
			if r.Chance(1, 4) {
				cur = !cur
			}
			s := Step{Obs: cur, Delay: c.Pick(r, delays)}
			if slow {
				s.Pre, s.Post = c.Pick(r, slack), c.Pick(r, slack)
			}
			k.Script = append(k.Script, s)
		}
		if !run(o, "watcher_rnd", k) {
			return
		}
	}
	finish(o)
}

// genHang: the bare watcher with a health source that stops answering: at a
// third of the checks the predicate hangs for 5 s .. 1 h of virtual time (then
// answers).  Half of the scripts are "a reading that differs from the stable
// state, then hangs" (what an implementation that bounds the evaluation and
// falls back on some reading would turn into a confirmation).
func genHang(o *c.Out, r *c.Rng, t0 int64) {
	hangs := []int64{5 * sec, 5*sec + 1, 6 * sec, 11 * sec, 31 * sec, 61 * sec, 10 * 60 * sec, 3600 * sec}
	quickAns := []int64{0, 1, sec / 2, sec}
	for i := 0; i < o.Scale(600, 4000, 3000); i++ {
		k := Case{N: r.Range(1, 4), T0: t0 + int64(r.Intn(1000))}
		k.P = c.Pick(r, []int64{0, sec, 2 * sec, 5 * sec})
		k.I = c.Pick(r, []int64{0, sec, sec, 2 * sec})
		k.C = c.Pick(r, []int64{0, sec, 10 * sec, 60 * sec})
		l := r.Range(2, 16)
		blip := r.Chance(1, 2)
		blipAt := r.Intn(3)
		cur := true
		for j := 0; j < l; j++ {
			s := Step{Delay: c.Pick(r, quickAns)}
			switch {
			case blip && j < blipAt:
				s.Obs = true
			case blip && j == blipAt:
				s.Obs = false
			case blip && j <= blipAt+4:
				// the source hangs; when it finally answers the blip is over
				s.Obs, s.Delay = true, c.Pick(r, hangs)
			default:
				if r.Chance(1, 4) {
					cur = !cur
				}
				s.Obs = cur
				if r.Chance(1, 3) {
					s.Delay = c.Pick(r, hangs)
				}
			}
			k.Script = append(k.Script, s)
		}
		if !run(o, "hang", k) {
			return
		}
	}
}

// stalls: after a few cases that could not be driven to their end the
// generators stop (every further case would only wait for a guard to expire)
var (
	stalls  int
	stopped bool
)

func finish(o *c.Out) {
	if stalls > 0 {
		o.Note(fmt.Sprintf("%d case(s) could not be driven to the end of their script (see the stall hits); generation stopped after 3", stalls))
	}
	o.Finish()
}

// run executes one case; false = stop generating
func run(o *c.Out, suite string, k Case) bool {
	exec(&k)
	o.Count(fmt.Sprintf("%s:len=%02d", suite, len(k.Script)))
	o.Count(fmt.Sprintf("%s:reactions=%d", suite, len(k.Observed)))
	nontrivial := len(k.Observed) > 0
	switch suite {
	case "hang":
		hung := false
		for _, s := range k.Script {
			hung = hung || s.Delay >= 5*sec
		}
		nontrivial = nontrivial && hung
	case "failsafe":
		failed := false
		for _, rx := range k.Observed {
			failed = failed || !rx.Effect
		}
		if failed {
			o.Count("failsafe:has_failed_reaction")
		}
		nontrivial = nontrivial && failed
	case "settings":
		t := k.Texts
		plain := canonical(t.I) && canonical(t.N) && canonical(t.P) && canonical(t.C)
		if !k.Built {
			o.Count("settings:no_watcher")
		}
		if !plain {
			o.Count("settings:not_plain")
		}
		nontrivial = nontrivial && !plain
	}
	idx := o.Case(suite, coq(&k), k, nontrivial)
	o.MonitorChecked(1)
	mon := monitor
	if suite == "settings" {
		mon = monitorSettings
	}
	for _, h := range mon(&k) {
		h.Suite, h.Index = suite, idx
		o.Hit(h)
	}
	if k.Stall != "" {
		// not a statement about the property: the harness could not drive this tree through
		// the script (the model comparison of the case says what is missing)
		o.Count(suite + ":stalled")
		o.Note("stall in " + suite + fmt.Sprintf(" #%d: ", idx) + k.Stall)
		stalls++
		if stalls >= 3 && o.Replay == "" {
			finish(o)
			stopped = true
			return false
		}
	}
	return true
}
