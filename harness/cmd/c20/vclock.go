// A deterministic virtual clock (clock.Clock) that serves the waits of ANY
// goroutine, in the order of their virtual deadlines.
//
// Nothing is assumed about how the implementation under test uses it: waits may
// be registered by several goroutines (a predicate evaluated on its own
// goroutine next to a time-out timer), timers may be abandoned, a goroutine may
// select over several channels.  Virtual time moves only when every goroutine
// that came into being during the case is blocked (quiescence); it then jumps
// to the earliest pending deadline and exactly that one wait is released.
// Ties: the answer of the scripted predicate before a timer, then registration
// order.
//
// Quiescence is established, cheapest first, by
//
//	(a) counting: every goroutine created since the case began is inside a
//	    blocking call of the harness (Sleep, the predicate's delay, a slack);
//	(b) probing: all but one are, the earliest pending wait is an After()
//	    channel, and a non-blocking send on it (unbuffered) succeeds — the one
//	    goroutine was parked on exactly that channel;
//	(c) the runtime's goroutine table (runtime.Stack): all of them are in a
//	    blocked state.
//
// Real time is used only for guards: a goroutine that neither blocks nor
// finishes (busy), a state in which everything is blocked with nothing pending
// (idle) and an endless sequence of timers (runaway) end the case with an
// observation (Case.Stall) instead of hanging or crashing the harness.
package main

import (
	"bytes"
	"runtime"
	"strconv"
	"sync"
	"sync/atomic"
	"time"
)

const (
	kAnswer = 0 // the scripted predicate's answer becomes available
	kTimer  = 1 // After / Sleep of the implementation, slack of the script
)

type vwait struct {
	at       time.Time
	kind     int
	seq      int
	ch       chan time.Time
	external bool // an After() channel: the waiting goroutine parks in the implementation's code
}

type vclock struct {
	mu   sync.Mutex
	now  time.Time
	seq  int // one sequence for waits, answers and reactions (order of events)
	pend []*vwait
	dead bool // the case is over: every further use of the clock ends its goroutine
	gone chan struct{}

	// recognition of the reading at the top of the loop (see Step.Pre)
	calls   int
	lastNow bool
	pre     func() time.Duration // called with mu held

	inHarness int          // goroutines inside (or committed to) a blocking call of the harness; mu
	holders   atomic.Int32 // goroutines of the harness that hold the value of an abandoned After()
	base      int          // runtime.NumGoroutine() when the case began
	fired     int
	dumps     int
	ignore    map[uint64]bool // goroutines that existed before the case
}

var dumpBuf = make([]byte, 1<<16)

func newVClock(t0 int64) *vclock {
	c := &vclock{now: time.Unix(0, t0), gone: make(chan struct{})}
	c.base = runtime.NumGoroutine()
	c.ignore = map[uint64]bool{}
	scan(func(id uint64, state []byte) bool { c.ignore[id] = true; return true })
	return c
}

// ---- clock.Clock

func (c *vclock) lockLive() {
	c.mu.Lock()
	if c.dead {
		c.mu.Unlock()
		runtime.Goexit()
	}
}

func (c *vclock) tick(isNow bool) { c.calls++; c.lastNow = isNow }

func (c *vclock) Now() time.Time {
	c.lockLive()
	defer c.mu.Unlock()
	c.tick(true)
	return c.now
}

func (c *vclock) Until(t time.Time) time.Duration {
	c.lockLive()
	defer c.mu.Unlock()
	c.tick(false)
	return t.Sub(c.now)
}

func (c *vclock) Since(t time.Time) time.Duration {
	c.lockLive()
	var d time.Duration
	if (c.calls == 0 || c.lastNow) && c.pre != nil {
		d = c.pre()
	}
	c.tick(false)
	c.mu.Unlock()
	c.block(d, kTimer)
	c.lockLive()
	defer c.mu.Unlock()
	return c.now.Sub(t)
}

func (c *vclock) After(d time.Duration) <-chan time.Time {
	c.lockLive()
	defer c.mu.Unlock()
	c.tick(false)
	if d <= 0 { // time.After: a non-positive duration fires at once
		ch := make(chan time.Time, 1)
		ch <- c.now
		return ch
	}
	c.seq++
	w := &vwait{at: c.now.Add(d), kind: kTimer, seq: c.seq, ch: make(chan time.Time), external: true}
	c.pend = append(c.pend, w)
	return w.ch
}

func (c *vclock) Sleep(d time.Duration) {
	c.lockLive()
	c.tick(false)
	c.mu.Unlock()
	c.block(d, kTimer)
}

// block: the calling goroutine waits d of virtual time (d <= 0: not at all)
func (c *vclock) block(d time.Duration, kind int) {
	if d <= 0 {
		return
	}
	c.lockLive()
	c.seq++
	w := &vwait{at: c.now.Add(d), kind: kind, seq: c.seq, ch: make(chan time.Time, 1)}
	c.pend = append(c.pend, w)
	c.inHarness++ // from here on this goroutine does nothing but park on w.ch
	c.mu.Unlock()
	<-w.ch
	c.lockLive()
	c.mu.Unlock()
}

// kill: the case is over.  Pending waits are released; whoever touches the
// clock (or the script) from now on ends (runtime.Goexit).
func (c *vclock) kill() {
	c.mu.Lock()
	c.dead = true
	p := c.pend
	c.pend = nil
	now := c.now
	c.mu.Unlock()
	close(c.gone)
	for _, w := range p {
		if w.external {
			close(w.ch)
		} else {
			w.ch <- now
		}
	}
	// let the goroutines of this case go away (bounded): the next case counts goroutines
	// (goroutines that stay must at least be parked: then the count stays what it is)
	for i := 0; i < 3000 && runtime.NumGoroutine() > c.base; i++ {
		if i >= 100 && i%50 == 0 && c.quiescent() {
			break
		}
		if i < 100 {
			runtime.Gosched()
		} else {
			time.Sleep(10 * time.Microsecond)
		}
	}
}

// ---- the scheduler (runs on the harness goroutine)

const (
	busyBound = 8 * time.Second        // a goroutine runs that long without blocking
	idleBound = 300 * time.Millisecond // everything blocked, nothing pending, case not finished
)

// earliest: mu held
func (c *vclock) earliest() int {
	best := -1
	for i, w := range c.pend {
		if best < 0 {
			best = i
			continue
		}
		b := c.pend[best]
		switch {
		case !w.at.Equal(b.at):
			if w.at.Before(b.at) {
				best = i
			}
		case w.kind != b.kind:
			if w.kind < b.kind {
				best = i
			}
		case w.seq < b.seq:
			best = i
		}
	}
	return best
}

// release the earliest pending wait; mu held.  probe: only if a goroutine is
// parked on its (external) channel right now.
func (c *vclock) release(probe bool) bool {
	i := c.earliest()
	if i < 0 {
		return false
	}
	w := c.pend[i]
	old := c.now
	if w.at.After(c.now) {
		c.now = w.at
	}
	if w.external {
		select {
		case w.ch <- c.now:
		default:
			if probe {
				c.now = old
				return false
			}
			// nobody is waiting on it (yet): its value is held until somebody asks, as the
			// buffer of a time.After channel would
			c.holders.Add(1)
			now := c.now
			go func() {
				select {
				case w.ch <- now:
				case <-c.gone:
				}
				c.holders.Add(-1)
			}()
		}
	} else {
		if probe {
			c.now = old
			return false
		}
		c.inHarness--
		w.ch <- c.now
	}
	c.pend = append(c.pend[:i], c.pend[i+1:]...)
	c.fired++
	return true
}

// drive releases the pending waits one at a time until finished() says so.
// It returns "" or the reason why the case was given up.
func (c *vclock) drive(finished func() bool, maxFired int) string {
	progress := time.Now()
	spins := 0
	for {
		if finished() {
			return ""
		}
		ok, quiet := false, false
		c.mu.Lock()
		newG := runtime.NumGoroutine() - c.base - int(c.holders.Load())
		switch {
		case newG <= c.inHarness: // (a)
			quiet = true
		case newG == c.inHarness+1: // (b)
			ok = c.release(true)
		}
		c.mu.Unlock()
		if !ok && !quiet && spins >= 8 && spins%8 == 0 { // (c)
			quiet = c.quiescent()
		}
		if !ok && !quiet {
			spins++
			if spins < 64 {
				runtime.Gosched()
			} else {
				time.Sleep(20 * time.Microsecond)
			}
			if time.Since(progress) > busyBound {
				return "busy: a goroutine of the implementation neither blocked nor finished within " + busyBound.String()
			}
			continue
		}
		if !ok {
			if finished() {
				return ""
			}
			c.mu.Lock()
			ok = c.release(false)
			c.mu.Unlock()
			if !ok {
				if time.Since(progress) > idleBound {
					return "idle: every goroutine is blocked, no wait is pending on the clock and the predicate is not being asked"
				}
				time.Sleep(50 * time.Microsecond)
				continue
			}
		}
		progress = time.Now()
		spins = 0
		if c.fired > maxFired {
			return "runaway: " + strconv.Itoa(c.fired) + " waits were served without the script coming to its end"
		}
	}
}

// scan calls f for every goroutine but the calling one (first in the dump)
func scan(f func(id uint64, state []byte) bool) {
	var n int
	for {
		n = runtime.Stack(dumpBuf, true)
		if n < len(dumpBuf) {
			break
		}
		dumpBuf = make([]byte, 2*len(dumpBuf))
	}
	s := dumpBuf[:n]
	first := true
	for len(s) > 0 {
		// header: "goroutine 12 [chan receive, 2 minutes]:"
		end := bytes.IndexByte(s, '\n')
		if end < 0 {
			end = len(s)
		}
		line := s[:end]
		if bytes.HasPrefix(line, []byte("goroutine ")) {
			rest := line[len("goroutine "):]
			sp := bytes.IndexByte(rest, ' ')
			lb := bytes.IndexByte(rest, '[')
			rb := bytes.LastIndexByte(rest, ']')
			if sp > 0 && lb > 0 && rb > lb {
				id, _ := strconv.ParseUint(string(rest[:sp]), 10, 64)
				if first {
					first = false
				} else if !f(id, rest[lb+1:rb]) {
					return
				}
			}
		}
		nb := bytes.Index(s, []byte("\n\n"))
		if nb < 0 {
			return
		}
		s = s[nb+2:]
	}
}

var blockedStates = [][]byte{
	[]byte("chan receive"), []byte("chan send"), []byte("select"),
	[]byte("sync.Cond.Wait"), []byte("sync.Mutex.Lock"), []byte("sync.RWMutex"),
	[]byte("sync.WaitGroup.Wait"), []byte("semacquire"), []byte("sleep"),
	[]byte("IO wait"), []byte("finalizer wait"), []byte("debug call"),
}

// quiescent: every goroutine that came into being during the case is blocked
func (c *vclock) quiescent() bool {
	c.dumps++
	ok := true
	scan(func(id uint64, state []byte) bool {
		if c.ignore[id] {
			return true
		}
		for _, b := range blockedStates {
			if bytes.HasPrefix(state, b) {
				return true
			}
		}
		ok = false
		return false
	})
	return ok
}
