// UpdatePoliciesData is not one step: it calls HAProxy's management endpoint
// over HTTP (no accessor lock held) and only then setNextVersion. The
// in-process HAProxy stub is a yield point: an update started by a "begin" op
// runs on its own goroutine and parks inside its first round trip; the harness
// goes on executing the ops that follow (look-ups, SPOE handlers, vacuum passes,
// clock advances, other updates — atomic ones or further "begin"s) and a later
// "commit" / "fail" op lets the call succeed / fail. At most one update
// goroutine is running at any time (the others are parked in the stub), so a
// history is still a deterministic sequence of actions.
package main

import (
	"fmt"
	"io"
	"net/http"
	"strings"
	"sync/atomic"
	"time"

	c "verifharness/common"
)

type inflight struct {
	u, obj, tag int
	release     chan bool // verdict: true = the call fails
	done        chan error
	entered     bool
	fail        bool
}

// HAProxy's management endpoint, in process. Calls of an atomic update (ops
// update / revert / refuse, cur == nil) are answered at once: 200, or an error
// while haproxyDown is set. The first call of a split update (cur != nil)
// reports "entered" and waits for the verdict, which then holds for all calls
// of that update.
type haproxyStub struct {
	cur     atomic.Pointer[inflight]
	entered chan *inflight
}

var (
	stub        = &haproxyStub{entered: make(chan *inflight)}
	haproxyDown atomic.Bool
)

func (s *haproxyStub) RoundTrip(r *http.Request) (*http.Response, error) {
	fail := haproxyDown.Load()
	if th := fineThread(); th != nil && th.kind == "upd" { // suite fine: the first round trip is a call-out
		if !th.called {
			th.called = true
			_, th.callFail = fineYield("call")
		}
		fail = th.callFail
	} else if f := s.cur.Load(); f != nil {
		if !f.entered {
			f.entered = true
			s.entered <- f
			f.fail = <-f.release
		}
		fail = f.fail
	}
	if fail {
		return nil, fmt.Errorf("haproxy stub: down")
	}
	return &http.Response{StatusCode: http.StatusOK, Status: "200 OK", Proto: "HTTP/1.1", ProtoMajor: 1, ProtoMinor: 1,
		Header: http.Header{}, Body: io.NopCloser(strings.NewReader("")), Request: r}, nil
}

const (
	blockBound = 400 * time.Millisecond // an operation inside a call window that takes longer is "blocked"
	longWait   = 30 * time.Second
)

// blockedSeen counts operations that did not complete inside a call window
// (over the run). Once updates are known to hold a lock across the call the
// window generators stop: every further case would only wait for blockBound.
var blockedSeen int

func (h *hist) inFlightIDs() []int {
	h.flMu.Lock()
	defer h.flMu.Unlock()
	var ids []int
	for _, f := range h.fl {
		ids = append(ids, f.u)
	}
	return ids
}

func (h *hist) inFlight() int {
	h.flMu.Lock()
	defer h.flMu.Unlock()
	return len(h.fl)
}

// begin: update op.U (a fresh object with an enabled global remedy, so that the
// update does call HAProxy) runs until it is inside its HAProxy call.
func (h *hist) begin(op Op) {
	for _, u := range h.inFlightIDs() {
		if u == op.U {
			return // this id is inside its call already: the op is ignored
		}
	}
	call, obj := h.prepare(op.Via, op.Tag, true, op.Rev)
	f := &inflight{u: op.U, obj: obj, tag: op.Tag, release: make(chan bool, 1), done: make(chan error, 1)}
	stub.cur.Store(f)
	go func() { f.done <- call() }()
	select {
	case <-stub.entered:
		stub.cur.Store(nil)
		h.flMu.Lock()
		h.fl = append(h.fl, f)
		h.flMu.Unlock()
		e := h.ev("updbegin", 0, obj, op.Tag, false)
		e.U = op.U
	case err := <-f.done: // the update made no HAProxy call at all: it was atomic
		stub.cur.Store(nil)
		if err != nil {
			noteEntryError(op.Via, err, false)
			h.ev("refused", 0, obj, op.Tag, false)
			return
		}
		h.ev("update", 0, obj, op.Tag, false)
		h.loopStarted(1)
	case <-time.After(longWait):
		panic("a split update neither reached its HAProxy call nor returned")
	}
}

// end: the HAProxy call of update u succeeds / fails; the update runs to its end.
func (h *hist) end(u int, fail bool, in []Op) {
	h.flMu.Lock()
	var f *inflight
	for i, g := range h.fl {
		if g.u == u {
			f = g
			h.fl = append(h.fl[:i:i], h.fl[i+1:]...)
			break
		}
	}
	h.flMu.Unlock()
	if f == nil {
		return // not inside a call (never begun, already ended)
	}
	stub.cur.Store(f)
	var fired *bool
	if len(in) > 0 && !fail {
		fired = h.armCommit("updcommit", u, f.obj, f.tag, in)
	}
	f.release <- fail
	var err error
	select {
	case err = <-f.done:
	case <-time.After(longWait):
		panic("a released update did not return")
	}
	stub.cur.Store(nil)
	h.disarm()
	if err != nil {
		e := h.ev("updfail", 0, f.obj, f.tag, false)
		e.U = u
		return
	}
	if fired == nil || !*fired {
		e := h.ev("updcommit", 0, f.obj, f.tag, false)
		e.U = u
		h.runPlain(in) // the commit read no clock: the arrivals come after it
	}
	h.loopStarted(1)
}

// armCommit: setNextVersion makes exactly one call-out, the clock reading of
// VacuumKey(previous version). At HEAD that reading comes after the single
// critical section that bumps the version counter and stores the data, so the
// commit has taken effect: the harness records the commit event there (with the
// versions retained at that instant) and then runs the scripted look-ups `in`,
// on the goroutine that reads the clock, i.e. INSIDE setNextVersion. Should that
// goroutine hold a lock the look-ups need they are recorded as blocked and
// complete after the update has returned.
func (h *hist) armCommit(kind string, u, obj, tag int, in []Op) *bool {
	fired := new(bool)
	fn := func() {
		*fired = true
		done := make(chan struct{})
		go func() {
			defer close(done)
			h.preEnq = true
			e := h.ev(kind, 0, obj, tag, false)
			e.U = u
			h.inCommit = true
			for _, op := range in {
				if op.K == "get" || op.K == "req" || op.K == "resp" {
					h.do(op)
				}
			}
			h.inCommit = false
			h.preEnq = false
		}()
		select {
		case <-done:
		case <-time.After(blockBound):
			now := h.clk.ns()
			h.evMu.Lock()
			h.k.Events = append(h.k.Events, Ev{A: "blocked", What: "inside " + kind, Now: now, Rel: rel(now - h.k.T0)})
			h.evMu.Unlock()
			h.k.Blocked++
			blockedSeen++
			h.pending = done
		}
	}
	h.clk.hook.Store(&fn)
	return fired
}

func (h *hist) disarm() {
	h.clk.hook.Store(nil)
	if h.pending != nil {
		select {
		case <-h.pending:
		case <-time.After(longWait):
			panic("an operation started inside a commit never completed")
		}
		h.pending = nil
	}
}

func (h *hist) runPlain(in []Op) {
	for _, op := range in {
		if op.K == "get" || op.K == "req" || op.K == "resp" {
			h.do(op)
		}
	}
}

// guarded runs fn; while an update is inside its HAProxy call (or fn starts
// one) it runs on a helper goroutine under a bounded wait. An operation that
// does not complete in time waits for a lock the update holds: event "blocked";
// all calls are then released (they succeed) so that it can complete.
func (h *hist) guarded(op Op, fn func()) {
	if h.inFlight() == 0 && op.K != "begin" {
		fn()
		return
	}
	done := make(chan struct{})
	go func() { defer close(done); fn() }()
	select {
	case <-done:
		return
	case <-time.After(blockBound):
	}
	now := h.clk.ns()
	h.evMu.Lock()
	h.k.Events = append(h.k.Events, Ev{A: "blocked", What: op.K, Txn: op.Txn, Now: now, Rel: rel(now - h.k.T0),
		InFlight: h.inFlightIDs()})
	h.evMu.Unlock()
	h.k.Blocked++
	blockedSeen++
	h.flMu.Lock()
	fl := h.fl
	h.fl = nil
	h.flMu.Unlock()
	for _, f := range fl {
		f.release <- false
	}
	select {
	case <-done:
	case <-time.After(longWait):
		panic("operation " + op.K + " did not complete even after all HAProxy calls were released")
	}
	for _, f := range fl {
		select {
		case err := <-f.done:
			a := "updcommit"
			if err != nil {
				a = "updfail"
			}
			e := h.ev(a, 0, f.obj, f.tag, false)
			e.U = f.u
		case <-time.After(longWait):
			panic("a released update did not return")
		}
	}
	if len(fl) > 0 && !h.started[1] {
		h.loopStarted(1)
	}
}

// finish: updates still inside their call when the history ends fail (recorded).
func (h *hist) finish() {
	for _, u := range h.inFlightIDs() {
		u := u
		h.guarded(Op{K: "fail", U: u}, func() { h.end(u, true, nil) })
	}
	stub.cur.Store(nil)
}

// ------------------------------------------------------------------ generators

// windowGrid (suite hist): [pre] begin 1; every sequence up to a length bound
// over {look-up of an old / a fresh transaction, +1 ns, pass of either vacuum,
// atomic update, begin / commit / fail of a second update}; commit 1 | fail 1;
// nothing | commit 2 | fail 2; then probes: the same transactions again, a new
// one, one more (committed) update — a version number that was handed out and
// taken back would be re-used by it —, the same again; or: to 30 s after the
// begin, passes, probes, +1 ns, passes, probes.
func windowGrid(o *c.Out) {
	alpha := []Op{
		{K: "get", Txn: 1}, {K: "get", Txn: 2}, {K: "adv", D: 1}, {K: "ticktxn"}, {K: "tickver"},
		{K: "update", Tag: 2}, {K: "begin", U: 2, Tag: 3}, {K: "commit", U: 2}, {K: "fail", U: 2},
	}
	posts := [][]Op{
		{{K: "get", Txn: 1}, {K: "get", Txn: 2}, {K: "get", Txn: 3}, {K: "update", Tag: 1},
			{K: "get", Txn: 1}, {K: "get", Txn: 2}, {K: "get", Txn: 3}, {K: "get", Txn: 4}},
		{{K: "adv", D: ttl - 1}, {K: "ticktxn"}, {K: "tickver"}, {K: "get", Txn: 1}, {K: "get", Txn: 2}, {K: "get", Txn: 3},
			{K: "adv", D: 2}, {K: "tickver"}, {K: "ticktxn"}, {K: "get", Txn: 1}, {K: "get", Txn: 2}, {K: "get", Txn: 5}},
	}
	var mids [][]Op
	var rec func(prefix []Op, left int)
	rec = func(prefix []Op, left int) {
		mids = append(mids, append([]Op(nil), prefix...))
		if left == 0 {
			return
		}
		for _, a := range alpha {
			rec(append(prefix, a), left-1)
		}
	}
	rec(nil, o.Scale(2, 3, 0))
	pres := [][]Op{{}, {{K: "get", Txn: 1}, {K: "update", Tag: 1}, {K: "adv", D: tick}}}
	if o.Thorough() {
		pres = append(pres, []Op{{K: "get", Txn: 1}})
	}
	for _, pre := range pres {
		for _, mid := range mids {
			for _, end1 := range []string{"commit", "fail"} {
				for _, end2 := range []string{"", "commit", "fail"} {
					has2 := false
					for _, m := range mid {
						has2 = has2 || m.K == "begin"
					}
					if end2 != "" && !has2 {
						continue
					}
					for _, post := range posts {
						if blockedSeen >= 8 {
							return
						}
						ops := append([]Op(nil), pre...)
						ops = append(ops, Op{K: "begin", U: 1, Tag: 1, Rev: len(mid)%2 == 1})
						ops = append(ops, mid...)
						ops = append(ops, Op{K: end1, U: 1})
						if end2 != "" {
							ops = append(ops, Op{K: end2, U: 2})
						}
						ops = append(ops, post...)
						run(o, Case{Ops: ops})
					}
				}
			}
		}
	}
}

// commitArrivals (suite hist): look-ups that arrive inside setNextVersion (at
// its only call-out, the clock reading of VacuumKey) — of a fresh transaction,
// of an anchored one, twice —, for a whole update, a revert and the commit of a
// split update; then the same transactions again, a new one, one more update.
func commitArrivals(o *c.Out) {
	ins := [][]Op{
		{{K: "get", Txn: 9}},
		{{K: "get", Txn: 1}, {K: "get", Txn: 9}},
		{{K: "get", Txn: 9}, {K: "get", Txn: 9}, {K: "get", Txn: 7}},
	}
	post := []Op{{K: "get", Txn: 9}, {K: "get", Txn: 1}, {K: "get", Txn: 8}, {K: "update", Tag: 2},
		{K: "get", Txn: 9}, {K: "get", Txn: 7}, {K: "get", Txn: 6}}
	for _, pre := range [][]Op{{}, {{K: "get", Txn: 1}}, {{K: "get", Txn: 1}, {K: "update", Tag: 1}, {K: "get", Txn: 2}}} {
		for _, in := range ins {
			for _, kind := range []string{"update", "revert", "split", "split-second"} {
				for _, late := range []bool{false, true} {
					ops := append([]Op(nil), pre...)
					switch kind {
					case "split":
						ops = append(ops, Op{K: "begin", U: 1, Tag: 3}, Op{K: "get", Txn: 5}, Op{K: "commit", U: 1, In: in})
					case "split-second":
						ops = append(ops, Op{K: "begin", U: 1, Tag: 3}, Op{K: "begin", U: 2, Tag: 2}, Op{K: "commit", U: 2, In: in},
							Op{K: "fail", U: 1})
					default:
						ops = append(ops, Op{K: kind, Tag: 3, In: in})
					}
					if late {
						ops = append(ops, Op{K: "adv", D: ttl - 1}, Op{K: "tickver"}, Op{K: "ticktxn"})
					}
					ops = append(ops, post...)
					run(o, Case{Ops: ops})
				}
			}
		}
	}
}

// randomWindows (suite hist): random histories as in random(), with updates
// that are split at their HAProxy call (up to two inside their calls at once),
// look-ups, passes and advances inside the windows, calls that fail.
func randomWindows(o *c.Out) {
	r := o.Rng
	deltas := []int64{0, 1, tick - 1, tick, tick + 1, 2 * tick, 25 * sec, ttl - 1, ttl, ttl + 1, ttl + tick}
	for i := 0; i < o.Scale(500, 5000, 30000); i++ {
		if blockedSeen >= 8 {
			return
		}
		k := Case{Auto: r.Chance(1, 3)}
		n := r.Range(6, 26)
		now := int64(0)
		var marks []int64 // instants of look-ups, begins and commits: deadlines are 30 s later
		ntx := r.Range(2, 5)
		var fl []int
		nextU := 1
		for j := 0; j < n; j++ {
			x := r.Intn(100)
			switch {
			case x < 34:
				k.Ops = append(k.Ops, Op{K: "get", Txn: r.Range(1, ntx)})
				marks = append(marks, now)
			case x < 40:
				up := Op{K: c.Pick(r, []string{"update", "update", "revert", "refuse"}), Tag: r.Intn(4), Via: pickVia(r, 45)}
				if up.K != "refuse" && r.Chance(1, 3) {
					up.In = []Op{{K: "get", Txn: r.Range(1, ntx+1)}}
				}
				k.Ops = append(k.Ops, up)
				marks = append(marks, now)
			case x < 52:
				if len(fl) >= 2 {
					continue
				}
				k.Ops = append(k.Ops, Op{K: "begin", U: nextU, Tag: r.Intn(4), Rev: r.Chance(1, 4), Via: pickVia(r, 45)})
				fl = append(fl, nextU)
				nextU++
				marks = append(marks, now)
			case x < 66:
				if len(fl) == 0 {
					continue
				}
				w := r.Intn(len(fl))
				end := Op{K: c.Pick(r, []string{"commit", "commit", "fail"}), U: fl[w]}
				if end.K == "commit" && r.Chance(1, 3) { // a look-up arrives inside setNextVersion
					end.In = []Op{{K: "get", Txn: r.Range(1, ntx+1)}}
				}
				k.Ops = append(k.Ops, end)
				fl = append(fl[:w], fl[w+1:]...)
				marks = append(marks, now)
			case x < 76:
				d := c.Pick(r, deltas)
				k.Ops = append(k.Ops, Op{K: "adv", D: d})
				now += d
			case x < 86:
				if len(marks) == 0 {
					continue
				}
				target := c.Pick(r, marks) + ttl + int64(r.Range(-1, 2))
				if target <= now {
					continue
				}
				k.Ops = append(k.Ops, Op{K: "adv", D: target - now})
				now = target
			case x < 93:
				k.Ops = append(k.Ops, Op{K: "tickver"})
			default:
				k.Ops = append(k.Ops, Op{K: "ticktxn"})
			}
		}
		for _, u := range fl {
			if r.Bool() {
				k.Ops = append(k.Ops, Op{K: c.Pick(r, []string{"commit", "fail"}), U: u})
			}
		}
		for t := 1; t <= ntx && r.Bool(); t++ {
			k.Ops = append(k.Ops, Op{K: "get", Txn: t})
		}
		run(o, k)
	}
}

// commitArrivalsRouting (suite routing): the request of transaction 2 (attempt
// of sequence 1, or ordinary) arrives inside setNextVersion of the update that
// installs object 1 (whole update / commit of a split one); its response comes
// later with the marker status of object 0 or 1; then a fresh transaction.
func commitArrivalsRouting(o *c.Out) {
	for _, foreign := range []bool{true, false} {
		for _, split := range []bool{false, true} {
			for _, d := range []int64{0, tick, ttl - 1} {
				for st := 0; st <= 1; st++ {
					seq := 1
					if !foreign {
						seq = 2
					}
					in := []Op{{K: "req", Txn: 2, Seq: seq}}
					ops := []Op{{K: "req", Txn: 1, Seq: 1}, {K: "resp", Txn: 1, Seq: 1, Status: 500}}
					if split {
						ops = append(ops, Op{K: "begin", U: 1, Tag: 1}, Op{K: "commit", U: 1, In: in})
					} else {
						ops = append(ops, Op{K: "update", Tag: 1, In: in})
					}
					ops = append(ops, Op{K: "adv", D: d}, Op{K: "resp", Txn: 2, Seq: seq, Status: 500 + st},
						Op{K: "req", Txn: 3, Seq: 3}, Op{K: "resp", Txn: 3, Seq: 3, Status: 501})
					runRouting(o, Case{Ops: ops})
				}
			}
		}
	}
}

// windowGridRouting (suite routing): sequence 1 opened by transaction 1 under
// object 0; update 1 (object 1) enters its HAProxy call; the request of
// transaction 2 (attempt of sequence 1, or ordinary) is seen inside / before the
// window; the call succeeds / fails; possibly one more committed update (object
// 2); the response of transaction 2 inside the window / after it, with the
// marker status of object 0, 1 or 2; then a fresh transaction.
func windowGridRouting(o *c.Out) {
	for _, foreign := range []bool{true, false} {
		for _, reqInside := range []bool{true, false} {
			for _, end := range []string{"commit", "fail"} {
				for _, third := range []bool{false, true} {
					for _, respInside := range []bool{false, true} {
						for _, d := range []int64{0, ttl - 1} {
							for st := 0; st <= 2; st++ {
								if blockedSeen >= 8 {
									return
								}
								if respInside && (third || !reqInside) {
									continue
								}
								if st == 2 && !third {
									continue
								}
								seq := 1
								if !foreign {
									seq = 2
								}
								ops := []Op{{K: "req", Txn: 1, Seq: 1}, {K: "resp", Txn: 1, Seq: 1, Status: 500}}
								if !reqInside {
									ops = append(ops, Op{K: "req", Txn: 2, Seq: seq})
								}
								ops = append(ops, Op{K: "begin", U: 1, Tag: 1})
								if reqInside {
									ops = append(ops, Op{K: "req", Txn: 2, Seq: seq})
								}
								if respInside {
									ops = append(ops, Op{K: "resp", Txn: 2, Seq: seq, Status: 500 + st})
								}
								ops = append(ops, Op{K: end, U: 1})
								cur := 0
								if end == "commit" {
									cur = 1
								}
								if third {
									ops = append(ops, Op{K: "update", Tag: 2})
									cur = 2
								}
								ops = append(ops, Op{K: "adv", D: d})
								if !respInside {
									ops = append(ops, Op{K: "resp", Txn: 2, Seq: seq, Status: 500 + st})
								}
								ops = append(ops, Op{K: "req", Txn: 3, Seq: 3}, Op{K: "resp", Txn: 3, Seq: 3, Status: 500 + cur})
								runRouting(o, Case{Ops: ops})
							}
						}
					}
				}
			}
		}
	}
}
