// The accessor's REAL update entry points. UpdatePoliciesData(data, flag) is what
// all of them end in, but production never calls it with an object of its own:
//
//	via "tofree"    RevertToDiagnosisFree()  reads <LUNAR_PROXY_CONFIG_DIR>/loaded-policies-diagnosis-free.yaml,
//	                                         BuildPolicyData(config, true)  => PoliciesData.diagnosisFreeReverted is SET,
//	                                         UpdatePoliciesData(_, true)
//	via "toloaded"  RevertToLastLoaded()     reads <dir>/loaded-policies.yaml, BuildPolicyData(config, false), (_, true)
//	via "reload"    ReloadFromFile()         reads LUNAR_PROXY_POLICIES_CONFIG, persists the two loaded-* files, (_, false)
//	via "raw"       UpdateRawData(bytes)     unmarshal + Validate + BuildPolicyData(config, false), (_, false), writes the file
//	via ""          UpdatePoliciesData(p, rev) with an object the harness built (as before)
//
// An op with a `via` makes the harness write the file the entry point reads (one
// enabled global retry remedy whose NAME carries the object number, exactly the
// marker objects of suite routing; written with the code's own
// config.WritePoliciesConfig) and call the entry point; the object the accessor
// then holds was built by the code under test from that file, flags included. It
// is recognised afterwards by its content (objOf), like every other object.
// The models of suites hist / routing / fine make no difference between the
// entry points (Update d now / UpdBegin u d now): same publication, same
// retention. Suite failsafe (coqFailsafe below) writes the histories of suite
// hist once more for Failsafe.estep, where they are distinct operations and the
// diagnosisFreeReverted flag of the object the code built is an observable.
package main

import (
	"fmt"
	"os"
	"path/filepath"
	"reflect"
	"strings"

	"lunar/engine/config"
	sharedConfig "lunar/shared-model/config"

	c "verifharness/common"
)

var (
	entryDir    string
	entryErrors int    // entry-point calls that failed although HAProxy was up (file / validation problems)
	entryErrMsg string // the first such error
)

var viaKinds = []string{"tofree", "toloaded", "reload", "raw"}

func viaName(via string) string {
	switch via {
	case "tofree":
		return "RevertToDiagnosisFree"
	case "toloaded":
		return "RevertToLastLoaded"
	case "reload":
		return "ReloadFromFile"
	case "raw":
		return "UpdateRawData"
	}
	return "UpdatePoliciesData"
}

// entrySetup: the directories the entry points read (inside the harness's scratch cwd).
func entrySetup() {
	dir, err := filepath.Abs("c11-config")
	if err != nil {
		panic(err)
	}
	if err = os.MkdirAll(dir, 0o755); err != nil {
		panic(err)
	}
	entryDir = dir
	os.Setenv("LUNAR_PROXY_CONFIG_DIR", dir)
	os.Setenv("LUNAR_PROXY_POLICIES_CONFIG", filepath.Join(dir, "policies.yaml"))
}

func markedConfig(obj, tag int) *sharedConfig.PoliciesConfig {
	return &sharedConfig.PoliciesConfig{
		Global: sharedConfig.Global{Remedies: []sharedConfig.Remedy{{
			Enabled: true,
			Name:    fmt.Sprintf("obj-%d-tag-%d", obj, tag),
			Config: sharedConfig.RemedyConfig{Retry: &sharedConfig.RetryConfig{
				Attempts: 1 << 30, InitialCooldownSeconds: 1, CooldownMultiplier: 1,
				Conditions: sharedConfig.RetryConfigConditions{
					StatusCode: []sharedConfig.Range[int]{{From: 500 + obj, To: 500 + obj}}},
			}},
		}}},
	}
}

// prepare allots the number of the object an update op supplies and returns the
// call that performs the update. Everything the call reads (file, bytes) is
// written here, on the caller's goroutine; the call itself may run on another.
func (h *hist) prepare(via string, tag int, enabled, rev bool) (call func() error, obj int) {
	if via == "" {
		p, n := h.newObj(tag, enabled)
		return func() error { return h.acc.UpdatePoliciesData(p, rev) }, n
	}
	obj = len(h.objs)
	h.objs = append(h.objs, nil) // built by the code under test, not by the harness
	if h.via == nil {
		h.via = map[int]string{}
	}
	h.via[obj] = via
	cfg := markedConfig(obj, tag)
	write := func(name string) string {
		path := filepath.Join(entryDir, name)
		if err := config.WritePoliciesConfig(path, cfg); err != nil {
			panic(fmt.Sprintf("cannot write %s: %v", path, err))
		}
		return path
	}
	switch via {
	case "tofree":
		write("loaded-policies-diagnosis-free.yaml")
		return h.acc.RevertToDiagnosisFree, obj
	case "toloaded":
		write("loaded-policies.yaml")
		return h.acc.RevertToLastLoaded, obj
	case "reload":
		write("policies.yaml")
		return h.acc.ReloadFromFile, obj
	case "raw":
		raw, err := os.ReadFile(write("raw-scratch.yaml"))
		if err != nil {
			panic(err)
		}
		return func() error { return h.acc.UpdateRawData(raw) }, obj
	}
	panic("unknown entry point " + via)
}

// noteEntryError: an entry point that fails while HAProxy answers did not get as
// far as UpdatePoliciesData (unreadable / invalid file): nothing is installed, the
// event is a refused update; the run says so at its end.
func noteEntryError(via string, err error, haproxyFailed bool) {
	if via == "" || err == nil || haproxyFailed {
		return
	}
	entryErrors++
	if entryErrMsg == "" {
		entryErrMsg = viaName(via) + ": " + err.Error()
	}
}

func pickVia(r *c.Rng, pct int) string {
	if r.Intn(100) >= pct {
		return ""
	}
	return c.Pick(r, viaKinds)
}

// ------------------------------------------------------------------ generators

// failsafeGrid (suite hist): [a transaction from before] the fail-safe activates
// (RevertToDiagnosisFree), a request is first seen, the fail-safe is lifted
// (RevertToLastLoaded | ReloadFromFile | UpdateRawData while it is active | it
// activates once more; atomic, or split at the HAProxy call with the response
// inside the call and the call succeeding / failing), the response d later with
// passes of the vacuums, a new transaction, +1 ns, again; then the fail-safe
// flaps once more with a fourth transaction across it.
func failsafeGrid(o *c.Out) {
	passes := [][]Op{{}, {{K: "tickver"}}, {{K: "ticktxn"}, {K: "tickver"}}}
	pres := [][]Op{{}, {{K: "get", Txn: 1}}, {{K: "get", Txn: 1}, {K: "update", Tag: 1, Via: "reload"}, {K: "adv", D: tick}}}
	type lift struct {
		via   string
		split int // 0 = atomic, 1 = split, call succeeds, 2 = split, call fails
	}
	var lifts []lift
	for _, v := range viaKinds {
		lifts = append(lifts, lift{v, 0})
	}
	lifts = append(lifts, lift{"toloaded", 1}, lift{"toloaded", 2}, lift{"reload", 1}, lift{"tofree", 2})
	for _, l := range lifts {
		for _, pre := range pres {
			for _, d := range []int64{0, 1, tick, ttl - 1, ttl, ttl + 1} {
				for _, ps := range passes {
					if l.split != 0 && (d == 1 || d == ttl) {
						continue
					}
					ops := append([]Op(nil), pre...)
					ops = append(ops, Op{K: "update", Tag: 2, Via: "tofree"}, Op{K: "get", Txn: 2})
					switch l.split {
					case 0:
						ops = append(ops, Op{K: "update", Tag: 3, Via: l.via})
					default:
						ops = append(ops, Op{K: "begin", U: 1, Tag: 3, Via: l.via}, Op{K: "get", Txn: 2}, Op{K: "get", Txn: 5},
							Op{K: map[int]string{1: "commit", 2: "fail"}[l.split], U: 1})
					}
					ops = append(ops, Op{K: "adv", D: d})
					ops = append(ops, ps...)
					ops = append(ops, Op{K: "get", Txn: 2}, Op{K: "get", Txn: 1}, Op{K: "get", Txn: 3}, Op{K: "adv", D: 1})
					ops = append(ops, ps...)
					ops = append(ops, Op{K: "get", Txn: 2},
						Op{K: "update", Tag: 2, Via: "tofree"}, Op{K: "get", Txn: 4}, Op{K: "update", Tag: 3, Via: "toloaded"},
						Op{K: "get", Txn: 4}, Op{K: "get", Txn: 2}, Op{K: "get", Txn: 6})
					run(o, Case{Ops: ops})
				}
			}
		}
	}
}

// failsafeGridRouting (suite routing): sequence 1 opened by transaction 1; the
// fail-safe activates; request of transaction 2 (a retried attempt of sequence 1,
// or an ordinary transaction); the fail-safe is lifted through one of the entry
// points; the response d later carries the marker of the diagnosis-free object
// (the one current at its request) or of the object installed since.
func failsafeGridRouting(o *c.Out) {
	for _, via := range viaKinds {
		for _, foreign := range []bool{true, false} {
			for _, probe := range []int{1, 2} {
				for _, d := range []int64{0, tick, ttl - 1, ttl + 1} {
					for _, ps := range [][]Op{{}, {{K: "ticktxn"}, {K: "tickver"}}} {
						seq := 1
						if !foreign {
							seq = 2
						}
						ops := []Op{{K: "req", Txn: 1, Seq: 1}, {K: "resp", Txn: 1, Seq: 1, Status: 500},
							{K: "update", Tag: 1, Via: "tofree"}, {K: "req", Txn: 2, Seq: seq},
							{K: "update", Tag: 2, Via: via}, {K: "adv", D: d}}
						ops = append(ops, ps...)
						ops = append(ops, Op{K: "resp", Txn: 2, Seq: seq, Status: 500 + probe},
							Op{K: "req", Txn: 3, Seq: 3}, Op{K: "resp", Txn: 3, Seq: 3, Status: 502})
						runRouting(o, Case{Ops: ops})
					}
				}
			}
		}
	}
}

// ------------------------------------------------------------------ distribution

// acrossFailsafe (not used by the monitors): a transaction first seen while the
// object installed by RevertToDiagnosisFree was current is seen again, less than
// 30 s later, after another update was installed. install(i) = (object, via) when
// event i installs an object; sight(i) = transaction when event i is a completed look-up.
func acrossFailsafe(n int, at func(i int) int64, install func(i int) (int, string, bool), sight func(i int) (int, bool)) (entries int, across bool) {
	curVia, gen := "", 0
	type first struct {
		at  int64
		gen int
		ok  bool
	}
	seen := map[int]first{}
	for i := 0; i < n; i++ {
		if _, via, ok := install(i); ok {
			curVia = via
			gen++
			if via != "" {
				entries++
			}
		}
		if txn, ok := sight(i); ok {
			f, was := seen[txn]
			if !was {
				seen[txn] = first{at(i), gen, curVia == "tofree"}
			} else if f.ok && gen > f.gen && at(i) < f.at+ttl {
				across = true
			}
		}
	}
	return
}

func countFailsafe(o *c.Out, pre string, k *Case) (entries int, across bool) {
	if k.Fine {
		ev := k.FEvents
		entries, across = acrossFailsafe(len(ev), func(i int) int64 { return ev[i].Now },
			func(i int) (int, string, bool) {
				return ev[i].Obj, ev[i].Via, ev[i].Kind == "upd" && ev[i].From == "call" && !ev[i].Fail
			},
			func(i int) (int, bool) { return ev[i].Txn, ev[i].Kind == "get" && ev[i].To == "done" })
	} else {
		ev := k.Events
		entries, across = acrossFailsafe(len(ev), func(i int) int64 { return ev[i].Now },
			func(i int) (int, string, bool) { return ev[i].Obj, ev[i].Via, ev[i].A == "update" || ev[i].A == "updcommit" },
			func(i int) (int, bool) { return ev[i].Txn, ev[i].A == "get" || ev[i].A == "req" || ev[i].A == "resp" })
	}
	if entries > 0 {
		o.Count(pre + "has_update_through_a_real_entry_point")
		o.CountN(pre+"updates_installed_through_a_real_entry_point", entries)
	}
	if across {
		o.Count(pre + "has_txn_first_seen_under_RevertToDiagnosisFree_and_again_within_30s_after_the_next_update")
	}
	return
}

// ------------------------------------------------------------------ suite failsafe

// standinFlag reads PoliciesData.diagnosisFreeReverted of an object the code
// built. The field is unexported and has no getter; it is READ by reflection
// (nothing is written, /repo needs no shim). A tree in which the field is gone
// is reported in a run note (and every flag reads false: the suite then
// disagrees on the first RevertToDiagnosisFree).
var standinFieldMissing bool

func standinFlag(p *config.PoliciesData) bool {
	if p == nil {
		return false
	}
	f := reflect.ValueOf(p).Elem().FieldByName("diagnosisFreeReverted")
	if !f.IsValid() || f.Kind() != reflect.Bool {
		standinFieldMissing = true
		return false
	}
	return f.Bool()
}

// coqFailsafe: an executed history of suite hist as a Failsafe.case_failsafe.
// The entry points are DISTINCT operations of the model here (Failsafe.estep):
//
//	update / updcommit of an object supplied through entry point E   Via E obj now
//	update / updcommit of a harness-built object                      EA (Update obj now)
//	refused, updbegin, updfail                                        EA (Refused now)
//	get / vactxn / vacver                                             EA (Get txn now) / EA (VacTxn now) / EA (VacVer now)
//
// (an update inside its HAProxy call has not touched the accessor: its Via is
// the instant it reaches setNextVersion, the event updcommit; Model.flat says
// the same of the split histories of suite hist). After every action:
// EObs got ver cur standin [R <retained object> <its flag>; ...].
// ok = false: no update of the history went through a real entry point (suite
// hist says everything there is to say), or an operation was blocked (the
// model has no such step; suite hist reports it).
func coqFailsafe(k *Case) (term string, ok bool) {
	entries := 0
	for _, e := range k.Events {
		switch e.A {
		case "blocked", "req", "resp":
			return "", false
		case "update", "updcommit":
			if e.Via != "" {
				entries++
			}
		}
	}
	if entries == 0 {
		return "", false
	}
	var sb strings.Builder
	sb.WriteString("(0, [")
	for i, e := range k.Events {
		if i > 0 {
			sb.WriteString("; ")
		}
		now := e.Now - k.T0
		var a string
		got, ver := 0, 0
		switch e.A {
		case "get":
			a = fmt.Sprintf("EA (Get %d %d)", e.Txn, now)
			got, ver = e.Obj, e.Ver
		case "update", "updcommit":
			if e.Via != "" {
				a = fmt.Sprintf("Via %s %d %d", viaName(e.Via), e.Obj, now)
			} else {
				a = fmt.Sprintf("EA (Update %d %d)", e.Obj, now)
			}
		case "refused", "updbegin", "updfail":
			a = fmt.Sprintf("EA (Refused %d)", now)
		case "vactxn":
			a = fmt.Sprintf("EA (VacTxn %d)", now)
		case "vacver":
			a = fmt.Sprintf("EA (VacVer %d)", now)
		default:
			panic("suite failsafe: unknown event " + e.A)
		}
		ret := make([]string, len(e.Retained))
		for j, r := range e.Retained {
			ret[j] = "R " + c.Z(int64(r)) + " " + c.B(j < len(e.RetFlag) && e.RetFlag[j])
		}
		fmt.Fprintf(&sb, "FS (%s) (EObs %s %s %s %s %s)", a, c.Z(int64(got)), c.Z(int64(ver)), c.Z(int64(e.Cur)), c.B(e.Standin), c.List(ret))
	}
	sb.WriteString("])")
	return sb.String(), true
}
