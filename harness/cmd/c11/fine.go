// Suite "fine": the accessor at the granularity of its mutex sections.
//
// GetTxnPoliciesData, setNextVersion + VacuumKey and MapVacuum.vacuum() are
// several critical sections each, with call-outs in between: the clock readings
// (VacuumKey of a look-up / of an update, the pass), the trace log line between
// the read-locked anchor check and setTxnVersion, the error log line between a
// missing version and the fallback, and the HAProxy call of an update. The
// harness owns all of them (its clock, a zerolog hook, the HAProxy stub), so it
// can hold a goroutine at any of these places and run others meanwhile:
//
//	look-up g:  start ─► [trace] ─► [clock] ─► ([error] ─►) done
//	update u:   start ─► [call] ─► (fail: done) [clock] ─► done
//	pass w:     wake ─► (empty queue: sleep) [clock] ─► sleep
//
// One goroutine runs at a time, every other one is parked at a call-out or has
// not started, so a history is a deterministic sequence of steps "goroutine X
// runs from where it is to its next call-out". Each step is translated into the
// fine steps of theories/C11/Fine.v it consists of and compared with the model:
// where the goroutine stopped, what a completed look-up returned, and the whole
// accessor state (retained objects, version counter, anchors, both queues).
package main

import (
	"bytes"
	"fmt"
	"runtime"
	"strconv"
	"strings"
	"sync"
	"sync/atomic"
	"time"

	"lunar/engine/config"
	contextmanager "lunar/toolkit-core/context-manager"

	"github.com/rs/zerolog"

	c "verifharness/common"
)

const stuckBound = 3 * time.Second // a goroutine that reaches no call-out for that long waits for a lock a parked one holds

func curGid() int64 {
	var buf [64]byte
	n := runtime.Stack(buf[:], false)
	s := buf[len("goroutine "):n]
	if i := bytes.IndexByte(s, ' '); i > 0 {
		id, _ := strconv.ParseInt(string(s[:i]), 10, 64)
		return id
	}
	return -1
}

type fthread struct {
	kind     string // get | upd | vac
	id       int    // g / u / w
	txn      int
	obj, tag int
	at       chan string // to the harness: the call-out reached, or "done"
	resume   chan bool   // from the harness: go on (value: the HAProxy call fails)
	point    string      // where it is parked ("" = not inside an operation)
	ret      *config.PoliciesData
	err      error
	called   bool
	callFail bool
	h        *hist
}

var (
	fineOn    atomic.Bool
	fineReg   sync.Map // goroutine id -> *fthread
	fineStuck int
)

func fineThread() *fthread {
	if !fineOn.Load() {
		return nil
	}
	if v, ok := fineReg.Load(curGid()); ok {
		return v.(*fthread)
	}
	return nil
}

// fineYield parks the calling goroutine, if it is one the harness drives, until
// the harness lets it go on.
func fineYield(point string) (th *fthread, verdict bool) {
	th = fineThread()
	if th == nil || th.h.abandoned.Load() {
		return th, false
	}
	th.at <- point
	return th, <-th.resume
}

type fineHook struct{}

func (fineHook) Run(_ *zerolog.Event, level zerolog.Level, msg string) {
	if !fineOn.Load() {
		return
	}
	switch {
	case level == zerolog.TraceLevel && strings.HasPrefix(msg, "No policy version anchored"):
		fineYield("trace")
	case level == zerolog.ErrorLevel && strings.HasPrefix(msg, "anchored policy version"):
		fineYield("error")
	}
}

// FEv is one step as it was executed.
type FEv struct {
	Kind   string `json:"goroutine"`        // get | upd | vac
	ID     int    `json:"id"`               // g / u / w (0 = transaction vacuum, 1 = version vacuum)
	Txn    int    `json:"txn,omitempty"`    // get
	From   string `json:"from"`             // start | wake | the call-out it was parked at
	To     string `json:"to"`               // trace | clock | error | call | done | sleep | stuck
	Fail   bool   `json:"call_fails,omitempty"`
	Others int    `json:"others_parked"`    // goroutines parked inside an operation while this step ran
	Loop   int    `json:"loop_started"`     // -1, or the vacuum whose loop this step started (it makes one pass at once)
	Ev            // Obj/Tag: object supplied (upd) / returned (get, on done); observation after the step
}

type fexec struct {
	h      *hist
	gets   map[int]*fthread
	upds   map[int]*fthread
	vacs   [2]*fthread
	marks  []int64
	nextG  int
	nextU  int
	stuck  bool
	script bool
}

func (x *fexec) parkedOthers(me *fthread) int {
	n := 0
	for _, t := range x.gets {
		if t != me && t.point != "" {
			n++
		}
	}
	for _, t := range x.upds {
		if t != me && t.point != "" {
			n++
		}
	}
	for _, t := range x.vacs {
		if t != nil && t != me && t.point != "" {
			n++
		}
	}
	return n
}

func (x *fexec) wait(th *fthread) string {
	select {
	case p := <-th.at:
		th.point = p
		return p
	case <-time.After(stuckBound):
		th.point = "stuck"
		return "stuck"
	}
}

func (x *fexec) waitVac(w int) string {
	th := x.vacs[w]
	for {
		select {
		case p := <-th.at:
			th.point = p
			return p
		case s := <-x.h.clk.parked:
			if s.d != time.Duration(tick) {
				x.h.side = append(x.h.side, s)
				continue
			}
			x.h.sl[w] = s
			th.point = ""
			return "sleep"
		case <-time.After(stuckBound):
			th.point = "stuck"
			return "stuck"
		}
	}
}

// record appends the event of a step (with the accessor state after it) and,
// when the step made the first VacuumKey of a vacuum, waits until its loop has
// made its first pass and is asleep.
func (x *fexec) record(th *fthread, from, to string, fail bool, others int) {
	h := x.h
	now := h.clk.ns()
	e := FEv{Kind: th.kind, ID: th.id, Txn: th.txn, From: from, To: to, Fail: fail, Others: others, Loop: -1}
	e.Now, e.Rel = now, rel(now-h.k.T0)
	e.Obj, e.Tag = th.obj, th.tag
	if th.kind == "upd" {
		e.Via = h.via[th.obj]
	}
	if to == "stuck" {
		x.stuck = true
		h.k.FEvents = append(h.k.FEvents, e)
		return
	}
	done := make(chan struct{})
	go func() { defer close(done); h.observe(&e.Ev) }()
	select {
	case <-done:
	case <-time.After(stuckBound):
		e.To, x.stuck = "stuck", true
		h.k.FEvents = append(h.k.FEvents, e)
		return
	}
	for w, q := range [][][2]int64{e.TxnQ, e.VerQ} {
		if len(q) > 0 && !h.started[w] {
			h.started[w] = true
			if s := h.park(true); s != nil {
				h.sl[w] = s
				v := &fthread{kind: "vac", id: w, at: make(chan string, 4), resume: make(chan bool, 1), h: h}
				x.vacs[w] = v
				fineReg.Store(s.gid, v)
				e.Loop = w
			}
		}
	}
	h.k.FEvents = append(h.k.FEvents, e)
}

func (x *fexec) startGet(g, txn int) {
	h := x.h
	if _, busy := x.gets[g]; busy {
		return
	}
	th := &fthread{kind: "get", id: g, txn: txn, obj: -1, tag: -1, at: make(chan string, 4), resume: make(chan bool, 1), h: h}
	x.gets[g] = th
	others := x.parkedOthers(th)
	go func() {
		gid := curGid()
		fineReg.Store(gid, th)
		defer fineReg.Delete(gid)
		th.ret = h.acc.GetTxnPoliciesData(config.TxnID("txn-" + strconv.Itoa(txn)))
		th.at <- "done"
	}()
	x.marks = append(x.marks, h.clk.ns())
	x.after(th, "start", false, others)
}

func (x *fexec) after(th *fthread, from string, fail bool, others int) {
	var to string
	if th.kind == "vac" {
		to = x.waitVac(th.id)
	} else {
		to = x.wait(th)
	}
	if to == "done" {
		th.point = ""
		switch th.kind {
		case "get":
			th.obj, th.tag = objOf(th.ret)
			delete(x.gets, th.id)
		case "upd":
			delete(x.upds, th.id)
		}
	}
	x.record(th, from, to, fail, others)
}

func (x *fexec) startUpd(u, tag int, rev bool, via string) {
	h := x.h
	if _, busy := x.upds[u]; busy {
		return
	}
	call, obj := h.prepare(via, tag, true, rev)
	th := &fthread{kind: "upd", id: u, obj: obj, tag: tag, at: make(chan string, 4), resume: make(chan bool, 1), h: h}
	x.upds[u] = th
	others := x.parkedOthers(th)
	go func() {
		gid := curGid()
		fineReg.Store(gid, th)
		defer fineReg.Delete(gid)
		th.err = call()
		th.at <- "done"
	}()
	x.marks = append(x.marks, h.clk.ns())
	x.after(th, "start", false, others)
}

// goOn lets a parked goroutine run to its next call-out.
func (x *fexec) goOn(th *fthread, fail bool) {
	if th == nil || th.point == "" || th.point == "stuck" {
		return
	}
	from := th.point
	if from != "call" {
		fail = false
	}
	others := x.parkedOthers(th)
	x.marks = append(x.marks, x.h.clk.ns())
	th.resume <- fail
	x.after(th, from, fail, others)
}

func (x *fexec) wake(w int) {
	h := x.h
	th := x.vacs[w]
	if th == nil || th.point != "" || h.sl[w] == nil {
		return
	}
	others := x.parkedOthers(th)
	s := h.sl[w]
	h.sl[w] = nil
	th.point = "running"
	close(s.wake)
	x.after(th, "wake", false, others)
}

func (x *fexec) find(op Op) *fthread {
	switch op.Who {
	case "get":
		return x.gets[op.G]
	case "upd":
		return x.upds[op.U]
	case "vac":
		if op.W >= 0 && op.W < 2 {
			return x.vacs[op.W]
		}
	}
	return nil
}

func (x *fexec) do(op Op) {
	switch op.K {
	case "fget":
		x.startGet(op.G, op.Txn)
	case "fupd":
		x.startUpd(op.U, op.Tag, op.Rev, op.Via)
	case "fvac":
		x.wake(op.W)
	case "fgo":
		x.goOn(x.find(op), op.Fail)
	case "frun": // to the end of the operation
		for i := 0; i < 6 && !x.stuck; i++ {
			th := x.find(op)
			if th == nil || th.point == "" {
				break
			}
			x.goOn(th, op.Fail)
		}
	case "adv":
		x.h.clk.set(x.h.clk.ns() + op.D)
	default:
		panic("unknown fine op " + op.K)
	}
}

// drain: every goroutine still inside an operation runs to its end (calls fail).
func (x *fexec) drain(r *c.Rng) {
	for !x.stuck {
		var live []*fthread
		for g := 0; g < x.nextG+16; g++ {
			if t := x.gets[g]; t != nil && t.point != "" {
				live = append(live, t)
			}
		}
		for u := 0; u < x.nextU+16; u++ {
			if t := x.upds[u]; t != nil && t.point != "" {
				live = append(live, t)
			}
		}
		for _, t := range x.vacs {
			if t != nil && t.point != "" {
				live = append(live, t)
			}
		}
		if len(live) == 0 {
			return
		}
		th := live[0]
		if r != nil {
			th = live[r.Intn(len(live))]
		}
		op := Op{K: "fgo", Who: th.kind, G: th.id, U: th.id, W: th.id, Fail: true}
		x.h.k.Ops = append(x.h.k.Ops, op)
		x.goOn(th, true)
	}
}

func execFine(k *Case, r *c.Rng) {
	k.FEvents, k.Events = nil, nil
	if k.T0 == 0 {
		k.T0 = t0
	}
	histNo++
	h := &hist{k: k, clk: newClock(k.T0), lastGot: map[int]int{}, no: histNo}
	h.clk.fine = true
	defer h.clk.kill()
	contextmanager.Get().VerifC11SetClock(h.clk)
	p0, _ := h.newObj(0, false)
	acc := config.NewTxnPoliciesAccessor(p0)
	h.acc = &acc
	zerolog.SetGlobalLevel(zerolog.TraceLevel)
	fineOn.Store(true)
	defer func() {
		h.abandoned.Store(true)
		fineOn.Store(false)
		zerolog.SetGlobalLevel(zerolog.Disabled)
	}()
	x := &fexec{h: h, gets: map[int]*fthread{}, upds: map[int]*fthread{}, nextG: 1, nextU: 1}
	if len(k.Ops) > 0 { // scripted / replay
		x.script = true
		ops := k.Ops
		k.Ops = append([]Op(nil), ops...)
		for _, op := range ops {
			if x.stuck {
				break
			}
			x.do(op)
		}
		x.drain(nil)
	} else {
		x.random(r)
		x.drain(r)
	}
	if x.stuck {
		fineStuck++
		// let everything that is parked go (calls fail); whatever waits for a lock stays behind
		for _, t := range x.gets {
			select {
			case t.resume <- true:
			default:
			}
		}
		for _, t := range x.upds {
			select {
			case t.resume <- true:
			default:
			}
		}
		for _, t := range x.vacs {
			if t != nil {
				select {
				case t.resume <- true:
				default:
				}
			}
		}
	}
}

// random: a random schedule, decided step by step from what is enabled.
func (x *fexec) random(r *c.Rng) {
	h, k := x.h, x.h.k
	deltas := []int64{0, 1, 1, sec, tick, 2 * tick, 25 * sec, ttl - 1, ttl, ttl + 1}
	ntx := r.Range(1, 3)
	steps := r.Range(8, 34)
	emit := func(op Op) { k.Ops = append(k.Ops, op); x.do(op) }
	for i := 0; i < steps && !x.stuck; i++ {
		var parked []*fthread
		for _, t := range x.gets {
			if t.point != "" {
				parked = append(parked, t)
			}
		}
		for _, t := range x.upds {
			if t.point != "" {
				parked = append(parked, t)
			}
		}
		for _, t := range x.vacs {
			if t != nil && t.point != "" {
				parked = append(parked, t)
			}
		}
		// deterministic order (maps!)
		sortThreads(parked)
		switch y := r.Intn(100); {
		case y < 22 && len(x.gets) < 3:
			emit(Op{K: "fget", G: x.nextG, Txn: r.Range(1, ntx)})
			x.nextG++
		case y < 30 && len(x.upds) < 2:
			emit(Op{K: "fupd", U: x.nextU, Tag: r.Intn(4), Rev: r.Chance(1, 4), Via: pickVia(r, 50)})
			x.nextU++
		case y < 42:
			emit(Op{K: "fvac", W: r.Intn(2)})
		case y < 78 && len(parked) > 0:
			th := parked[r.Intn(len(parked))]
			op := Op{K: "fgo", Who: th.kind, G: th.id, U: th.id, W: th.id, Fail: r.Chance(1, 4)}
			if r.Chance(1, 4) {
				op.K = "frun"
			}
			emit(op)
		case y < 88:
			emit(Op{K: "adv", D: c.Pick(r, deltas)})
		default:
			if len(x.marks) == 0 {
				continue
			}
			target := c.Pick(r, x.marks) + ttl + int64(r.Range(-1, 2))
			if d := target - h.clk.ns(); d > 0 {
				emit(Op{K: "adv", D: d})
			}
		}
	}
	if x.stuck {
		return
	}
	x.drain(r)
	// probes: every transaction once more, a pass of each vacuum, a new transaction
	for t := 1; t <= ntx && !x.stuck; t++ {
		emit(Op{K: "fget", G: x.nextG, Txn: t})
		emit(Op{K: "frun", Who: "get", G: x.nextG})
		x.nextG++
	}
}

func sortThreads(ts []*fthread) {
	key := func(t *fthread) int {
		return map[string]int{"get": 0, "upd": 1000, "vac": 2000}[t.kind] + t.id
	}
	for i := 1; i < len(ts); i++ {
		for j := i; j > 0 && key(ts[j]) < key(ts[j-1]); j-- {
			ts[j], ts[j-1] = ts[j-1], ts[j]
		}
	}
}

// ------------------------------------------------------------------ Coq term

func coqFine(k *Case) string {
	prev := initObs
	return c.Tuple("0", c.MapList(k.FEvents, func(e FEv) string {
		now := e.Now - k.T0
		var acts []string
		var th string
		pc, got := int64(0), int64(0)
		switch e.Kind {
		case "get":
			th = fmt.Sprintf("(TG %d)", e.ID)
			switch e.From {
			case "start":
				acts = []string{fmt.Sprintf("GRead %d %d %d", e.ID, e.Txn, now), fmt.Sprintf("GData %d %d", e.ID, now)}
			case "trace":
				acts = []string{fmt.Sprintf("GPin %d %d", e.ID, now), fmt.Sprintf("GData %d %d", e.ID, now)}
			case "clock":
				acts = []string{fmt.Sprintf("GClock %d %d", e.ID, now), fmt.Sprintf("GEnq %d %d", e.ID, now), fmt.Sprintf("GData %d %d", e.ID, now)}
			case "error":
				acts = []string{fmt.Sprintf("GCur %d %d", e.ID, now)}
			}
			pc = map[string]int64{"done": 0, "trace": 1, "clock": 2, "error": 5}[e.To]
			if e.To == "done" {
				got = int64(e.Obj)
			}
		case "upd":
			th = fmt.Sprintf("(TU %d)", e.ID)
			switch {
			case e.From == "start":
				acts = []string{fmt.Sprintf("UBegin %d %d %d", e.ID, e.Obj, now)}
			case e.From == "call" && e.Fail:
				acts = []string{fmt.Sprintf("UFail %d %d", e.ID, now)}
			case e.From == "call":
				acts = []string{fmt.Sprintf("UPublish %d %d", e.ID, now)}
			case e.From == "clock":
				acts = []string{fmt.Sprintf("UClock %d %d", e.ID, now), fmt.Sprintf("UEnq %d %d", e.ID, now)}
			}
			pc = map[string]int64{"done": 0, "call": 1, "clock": 2}[e.To]
		case "vac":
			w := c.B(e.ID == 1)
			th = fmt.Sprintf("(TV %s)", w)
			if e.From == "wake" {
				acts = []string{fmt.Sprintf("Vac %s KSnap %d", w, now)}
			} else {
				acts = []string{fmt.Sprintf("Vac %s KClock %d", w, now), fmt.Sprintf("Vac %s KDelete %d", w, now), fmt.Sprintf("Vac %s KTrim %d", w, now)}
			}
			pc = map[string]int64{"sleep": 0, "clock": 1}[e.To]
		}
		if e.Loop >= 0 { // the loop that was started made one whole pass
			w := c.B(e.Loop == 1)
			for _, kd := range []string{"KSnap", "KClock", "KDelete", "KTrim"} {
				acts = append(acts, fmt.Sprintf("Vac %s %s %d", w, kd, now))
			}
		}
		if e.To == "stuck" {
			got = -2
		}
		return fmt.Sprintf("FE %s %s %s %s %s", c.List(acts), th, c.Z(pc), c.Z(got), coqObsDelta(&e.Ev, k.T0, &prev))
	}))
}

// ------------------------------------------------------------------ monitor

// monitorFine restates the claims over the steps of a fine history, knowing only
// which look-up of which transaction started / completed when with which
// object, which update supplied which object, published it or failed when, and
// which objects were retained after each step:
//   - first-sight-not-current:get  the first look-up of a transaction to complete
//     returns an object that was current at some moment since the transaction's
//     first look-up started (or belongs to an update in progress during that time);
//   - failed-update-visible:get    never the object of an update whose call failed;
//   - pin-lost:get                 every look-up of the transaction that completes
//     earlier than 30 s after its first look-up started returns that same object;
//   - retention:<goroutine>        that object is retained after every step earlier than that.
func monitorFine(k *Case) []c.Hit {
	var hits []c.Hit
	add := func(sig, dem, obs string) {
		hits = append(hits, c.Hit{Signature: sig, Demanded: dem, Observed: obs, Case: k})
	}
	failed := map[int]int{}
	for i, e := range k.FEvents {
		if e.Kind == "upd" && e.From == "call" && e.Fail {
			failed[e.Obj] = i
		}
	}
	type seen struct {
		start   int64
		cands   map[int]bool
		obj     int
		has     bool
		retLost bool
	}
	current := 0
	inProgress := map[int]bool{}
	txns := map[int]*seen{}
	for i, e := range k.FEvents {
		if e.To == "stuck" {
			break
		}
		switch e.Kind {
		case "upd":
			switch {
			case e.From == "start":
				inProgress[e.Obj] = true
			case e.From == "call" && !e.Fail:
				current = e.Obj
			}
			if e.To == "done" {
				delete(inProgress, e.Obj)
			}
			for _, s := range txns {
				if !s.has {
					s.cands[current] = true
					for o := range inProgress {
						s.cands[o] = true
					}
				}
			}
		case "get":
			s := txns[e.Txn]
			if s == nil {
				s = &seen{start: e.Now, cands: map[int]bool{current: true}}
				for o := range inProgress {
					s.cands[o] = true
				}
				txns[e.Txn] = s
			}
			if e.To != "done" {
				break
			}
			if fi, bad := failed[e.Obj]; bad && e.Obj >= 0 {
				add("failed-update-visible:get",
					fmt.Sprintf("the update that supplied object %d failed (step %d): no transaction is ever given that object", e.Obj, fi),
					fmt.Sprintf("step %d at %s: look-up %d handed object %d to transaction %d", i, e.Rel, e.ID, e.Obj, e.Txn))
			}
			if !s.has {
				s.has, s.obj = true, e.Obj
				if !s.cands[e.Obj] {
					add("first-sight-not-current:get",
						fmt.Sprintf("transaction %d (first look-up started %s) uses policies that were current since then", e.Txn, rel(s.start-k.T0)),
						fmt.Sprintf("step %d at %s: look-up %d returned object %d", i, e.Rel, e.ID, e.Obj))
				}
			} else if e.Now < s.start+ttl && e.Obj != s.obj {
				add("pin-lost:get",
					fmt.Sprintf("transaction %d (first look-up started %s, served object %d) keeps that object until 30 s later", e.Txn, rel(s.start-k.T0), s.obj),
					fmt.Sprintf("step %d at %s: look-up %d returned object %d", i, e.Rel, e.ID, e.Obj))
			}
		}
		for t, s := range txns {
			if !s.has || s.retLost || s.obj < 0 || e.Now >= s.start+ttl {
				continue
			}
			if _, bad := failed[s.obj]; bad {
				continue
			}
			found := false
			for _, r := range e.Retained {
				found = found || r == s.obj
			}
			if !found {
				s.retLost = true
				add("retention:"+e.Kind,
					fmt.Sprintf("object %d (transaction %d was first seen with it, first look-up started %s) is retained until 30 s later", s.obj, t, rel(s.start-k.T0)),
					fmt.Sprintf("not retained after step %d (%s %d: %s -> %s at %s)", i, e.Kind, e.ID, e.From, e.To, e.Rel))
			}
		}
	}
	return hits
}

// ------------------------------------------------------------------ run + generators

func runFine(o *c.Out, k Case, r *c.Rng) {
	k.Fine = true
	execFine(&k, r)
	if len(k.FEvents) == 0 {
		return
	}
	inter, two, stale, late, fallback, fails := 0, false, false, false, false, 0
	openGets := map[int]int{} // txn -> look-ups in progress
	for _, e := range k.FEvents {
		if e.Others > 0 {
			inter++
		}
		if e.Kind == "get" {
			if e.From == "start" && e.To != "done" {
				openGets[e.Txn]++
				if openGets[e.Txn] > 1 {
					two = true
				}
			}
			if e.From != "start" && e.To == "done" {
				openGets[e.Txn]--
			}
			if e.From == "error" || e.To == "error" {
				fallback = true
			}
		}
		if e.Kind == "vac" && e.From == "clock" && e.Others > 0 {
			stale = true
		}
		if e.Kind == "upd" && e.From == "clock" && e.Others > 0 {
			late = true
		}
		if e.Kind == "upd" && e.Fail {
			fails++
		}
	}
	o.Count("fine:steps=" + map[bool]string{true: "20+", false: "01-19"}[len(k.FEvents) >= 20])
	if inter > 0 {
		o.Count("fine:has_step_while_another_goroutine_is_inside_an_operation")
	}
	o.CountN("fine:steps_while_another_goroutine_is_inside_an_operation", inter)
	if two {
		o.Count("fine:has_two_first_lookups_of_one_txn_in_progress")
	}
	if stale {
		o.Count("fine:has_pass_finishing_on_an_old_snapshot")
	}
	if late {
		o.Count("fine:has_update_queueing_after_other_goroutines_ran")
	}
	if fallback {
		o.Count("fine:has_lookup_in_fallback_branch")
	}
	if fails > 0 {
		o.Count("fine:has_failed_call")
	}
	countFailsafe(o, "fine:", &k)
	idx := o.Case("fine", coqFine(&k), k, inter >= 3)
	o.MonitorChecked(1)
	for _, h := range monitorFine(&k) {
		h.Suite, h.Index = "fine", idx
		o.Hit(h)
	}
}

func fullUpd(u, tag int) []Op {
	return []Op{{K: "fupd", U: u, Tag: tag}, {K: "frun", Who: "upd", U: u}}
}
func fullGet(g, txn int) []Op {
	return []Op{{K: "fget", G: g, Txn: txn}, {K: "frun", Who: "get", G: g}}
}
func fullPass(w int) []Op {
	return []Op{{K: "fvac", W: w}, {K: "frun", Who: "vac", W: w}}
}

// fineGrid: the interleavings the atomic suites cannot produce, on purpose.
func fineGrid(o *c.Out) {
	run := func(ops []Op) {
		if fineStuck < 4 {
			runFine(o, Case{Ops: ops}, nil)
		}
	}
	cat := func(parts ...[]Op) []Op {
		var r []Op
		for _, p := range parts {
			r = append(r, p...)
		}
		return r
	}
	both := cat(fullPass(0), fullPass(1))
	// (1) two first look-ups of transaction 1 in progress at once; an update
	// before / between / after their setTxnVersion sections; later look-ups
	for updPos := -1; updPos <= 2; updPos++ {
		for _, d := range []int64{0, ttl - 1, ttl, ttl + 1} {
			for _, passes := range [][]Op{nil, both} {
				for _, firstPin := range []int{1, 2} {
					other := 3 - firstPin
					up := func(pos int) []Op {
						if pos == updPos {
							return fullUpd(1, 1)
						}
						return nil
					}
					run(cat([]Op{{K: "fget", G: 1, Txn: 1}, {K: "fget", G: 2, Txn: 1}}, up(0),
						[]Op{{K: "fgo", Who: "get", G: firstPin}}, up(1),
						[]Op{{K: "frun", Who: "get", G: firstPin}}, up(2),
						[]Op{{K: "fgo", Who: "get", G: other}, {K: "frun", Who: "get", G: other}, {K: "adv", D: d}}, passes,
						fullGet(3, 1), fullGet(4, 2), []Op{{K: "adv", D: 1}}, passes, fullGet(5, 1)))
				}
			}
		}
	}
	// (2) the look-up's clock reading against the update's: the anchor is set,
	// then the update publishes; the two VacuumKey clock readings in either order
	// with the clock moving in between; look-ups around 30 s after each instant
	for _, getFirst := range []bool{true, false} {
		for _, d1 := range []int64{0, 1, tick} {
			for _, d2 := range []int64{ttl - 1 - d1, ttl - d1, ttl - 1, ttl, ttl + 1} {
				a, b := Op{K: "frun", Who: "get", G: 1}, Op{K: "frun", Who: "upd", U: 1}
				if !getFirst {
					a, b = b, a
				}
				run(cat([]Op{{K: "fget", G: 1, Txn: 1}, {K: "fgo", Who: "get", G: 1},
					{K: "fupd", U: 1, Tag: 1}, {K: "fgo", Who: "upd", U: 1}, a, {K: "adv", D: d1}, b,
					{K: "adv", D: d2}}, both, fullGet(2, 1), []Op{{K: "adv", D: 1}}, both, fullGet(3, 1), fullGet(4, 2)))
			}
		}
	}
	// (3) a pass that took its snapshot / read the clock long ago finishes after
	// transactions were anchored and versions superseded
	for _, w := range []int{0, 1} {
		for _, dSnap := range []int64{0, ttl - tick, ttl + 1} {
			for _, dHold := range []int64{0, 1, ttl, ttl + 1} {
				for _, clockFirst := range []bool{false, true} {
					ops := cat(fullGet(1, 9), fullUpd(1, 1), []Op{{K: "adv", D: dSnap}, {K: "fvac", W: w}})
					mid := cat(fullGet(2, 1), fullUpd(2, 2), fullGet(3, 2))
					if clockFirst {
						ops = cat(ops, mid, []Op{{K: "adv", D: dHold}, {K: "fgo", Who: "vac", W: w}})
					} else {
						ops = cat(ops, []Op{{K: "adv", D: dHold}}, mid, []Op{{K: "fgo", Who: "vac", W: w}})
					}
					run(cat(ops, fullGet(4, 9), fullGet(5, 1), both, fullGet(6, 1), fullGet(7, 9)))
				}
			}
		}
	}
	// (4) the fallback branch: the anchored version is gone, the transaction pass
	// has not run; an update publishes between the miss and GetCurrentPoliciesData
	for _, upd := range []bool{false, true} {
		for _, txnPass := range []bool{false, true} {
			ops := cat(fullGet(1, 1), fullUpd(1, 1), []Op{{K: "adv", D: ttl + 1}}, fullPass(1), []Op{{K: "fget", G: 2, Txn: 1}})
			if upd {
				ops = cat(ops, fullUpd(2, 2))
			}
			if txnPass {
				ops = cat(ops, fullPass(0))
			}
			run(cat(ops, []Op{{K: "frun", Who: "get", G: 2}}, fullGet(3, 1), fullGet(4, 2)))
		}
	}
	// (5) updates overlapping inside setNextVersion: both published, clock
	// readings and appends in either order, one of the calls failing
	for _, order := range [][]int{{1, 2}, {2, 1}} {
		for _, fail2 := range []bool{false, true} {
			for _, d := range []int64{ttl - 1, ttl, ttl + 1} {
				run(cat(fullGet(1, 1), []Op{{K: "fupd", U: 1, Tag: 1}, {K: "fupd", U: 2, Tag: 2},
					{K: "fgo", Who: "upd", U: 1}, {K: "fget", G: 2, Txn: 2}, {K: "fgo", Who: "upd", U: 2, Fail: fail2},
					{K: "frun", Who: "get", G: 2}, {K: "adv", D: 1},
					{K: "frun", Who: "upd", U: order[0]}, {K: "adv", D: 1}, {K: "frun", Who: "upd", U: order[1]},
					{K: "adv", D: d}}, both, fullGet(3, 1), fullGet(4, 2), fullGet(5, 3)))
			}
		}
	}
}

// fineFailsafe: the fail-safe entry points held at their call-outs. The
// fail-safe activates (RevertToDiagnosisFree), a transaction is first seen, the
// fail-safe is lifted (RevertToLastLoaded / a reload / a raw update / the
// fail-safe activating once more) with the look-up of the response placed before
// the update's HAProxy call returns, between its Lock section and the clock
// reading of VacuumKey, or after it; then d later, passes, again.
func fineFailsafe(o *c.Out) {
	run := func(ops []Op) {
		if fineStuck < 4 {
			runFine(o, Case{Ops: ops}, nil)
		}
	}
	both := append(fullPass(0), fullPass(1)...)
	for _, lift := range []string{"toloaded", "reload", "raw", "tofree"} {
		for _, before := range []bool{false, true} { // a transaction from before the fail-safe
			for respAt := 0; respAt <= 2; respAt++ {
				for _, d := range []int64{0, ttl - 1, ttl + 1} {
					var ops []Op
					if before {
						ops = append(ops, fullGet(1, 1)...)
					}
					ops = append(ops, Op{K: "fupd", U: 1, Tag: 1, Via: "tofree"}, Op{K: "frun", Who: "upd", U: 1})
					ops = append(ops, fullGet(2, 2)...) // request during the fail-safe
					ops = append(ops, Op{K: "fupd", U: 2, Tag: 2, Via: lift})
					resp := append(fullGet(3, 2), fullGet(4, 1)...)
					if respAt == 0 {
						ops = append(ops, resp...) // while the lifting update is inside its HAProxy call
					}
					ops = append(ops, Op{K: "fgo", Who: "upd", U: 2}) // published; parked at VacuumKey's clock reading
					if respAt == 1 {
						ops = append(ops, resp...)
					}
					ops = append(ops, Op{K: "frun", Who: "upd", U: 2})
					if respAt == 2 {
						ops = append(ops, resp...)
					}
					ops = append(ops, Op{K: "adv", D: d})
					ops = append(ops, both...)
					ops = append(ops, fullGet(5, 2)...)
					ops = append(ops, fullGet(6, 3)...)
					run(ops)
				}
			}
		}
	}
}

func fineRandom(o *c.Out) {
	for i := 0; i < o.Scale(1100, 7000, 20000) && fineStuck < 4; i++ {
		runFine(o, Case{}, o.Rng)
	}
}
