// C11 harness: drives the real config.TxnPoliciesAccessor (and, through it, the
// two real vacuum.MapVacuum loops) with a controllable clock.
//
// The accessor takes its clock from the context manager when it is built; the
// harness installs its own clock.Clock there (shim VerifC11SetClock). The two
// vacuum goroutines are the real `for active { vacuum(); clock.Sleep(tick) }`
// loops: they park inside the harness clock's Sleep, and the harness lets one of
// them run exactly one pass at a chosen clock reading and waits until it is
// parked again, so every history is a deterministic sequence of
// Get / Update / vacuum-pass actions, each on a known clock reading.
//
// Observables per action: identity of the *PoliciesData returned by a look-up
// and the objects still retained in policiesVersions (shim VerifC11Retained).
package main

import (
	"fmt"
	"runtime"
	"strconv"
	"sync"
	"sync/atomic"
	"time"

	"lunar/engine/config"
	sharedConfig "lunar/shared-model/config"
	contextmanager "lunar/toolkit-core/context-manager"

	"github.com/rs/zerolog"

	c "verifharness/common"
)

const (
	sec  = int64(time.Second)
	ttl  = 30 * sec // documented retention period (staleVersionTTL)
	tick = 5 * sec  // vacuumTick
	t0   = int64(1_700_000_000) * sec
)

// ------------------------------------------------------------------ clock

type sleeper struct {
	wake chan struct{}
	due  int64
	d    time.Duration
}

type vclock struct {
	mu     sync.Mutex
	now    int64
	parked chan *sleeper
	dead   chan struct{}
	isDead atomic.Bool
}

func newClock(now int64) *vclock {
	return &vclock{now: now, parked: make(chan *sleeper), dead: make(chan struct{})}
}
func (k *vclock) ns() int64 {
	k.mu.Lock()
	defer k.mu.Unlock()
	return k.now
}
func (k *vclock) set(t int64) {
	k.mu.Lock()
	k.now = t
	k.mu.Unlock()
}
func (k *vclock) Now() time.Time { return time.Unix(0, k.ns()) }

// Sleep parks the calling goroutine until the harness wakes it; when the
// history is over the goroutine is terminated.
func (k *vclock) Sleep(d time.Duration) {
	s := &sleeper{wake: make(chan struct{}), due: k.ns() + int64(d), d: d}
	select {
	case k.parked <- s:
	case <-k.dead:
		runtime.Goexit()
	}
	select {
	case <-s.wake:
	case <-k.dead:
		runtime.Goexit()
	}
	if k.isDead.Load() {
		runtime.Goexit()
	}
}
func (k *vclock) After(d time.Duration) <-chan time.Time {
	ch := make(chan time.Time, 1)
	go func() { k.Sleep(d); ch <- k.Now() }()
	return ch
}
func (k *vclock) Since(t time.Time) time.Duration { return k.Now().Sub(t) }
func (k *vclock) Until(t time.Time) time.Duration { return t.Sub(k.Now()) }
func (k *vclock) kill() {
	k.isDead.Store(true)
	close(k.dead)
}

// ------------------------------------------------------------------ cases

// Op is what the generator asks for.
type Op struct {
	K   string `json:"op"` // get | update | revert | refuse | adv | ticktxn | tickver
	Txn int    `json:"txn,omitempty"`
	Tag int    `json:"tag,omitempty"`
	D   int64  `json:"d_ns,omitempty"`
}

// Ev is one action as it was executed on the implementation.
type Ev struct {
	A        string `json:"act"` // get | update | refused | vactxn | vacver
	Txn      int    `json:"txn,omitempty"`
	Obj      int    `json:"obj"` // update/refused: number of the object supplied; get: number read from the object returned (-1 = not one of ours)
	Tag      int    `json:"tag"` // content class of that object
	Now      int64  `json:"now_ns"`
	Rel      string `json:"t"` // human-readable offset from the start
	Retained []int  `json:"retained"`
	Implicit bool   `json:"implicit,omitempty"` // the pass a vacuum loop makes when it is started
}

type Case struct {
	Auto   bool  `json:"auto_ticks"` // vacuum loops wake up when their 5 s sleep is over
	Ops    []Op  `json:"ops"`
	Events []Ev  `json:"events"`
	T0     int64 `json:"t0_ns"`
	// statistics (not compared, not used by the monitor)
	Fallbacks  int `json:"stat_fallbacks"`
	Reanchored int `json:"stat_reanchored"`
}

// Every object the harness supplies carries its own number (and a content
// class) in its content, so an object is recognised by what it contains: the
// comparison does not depend on the accessor handing out the very pointer.
func mkData(obj, tag int, enabled bool) *config.PoliciesData {
	return &config.PoliciesData{Config: sharedConfig.PoliciesConfig{
		Global: sharedConfig.Global{Remedies: []sharedConfig.Remedy{
			{Name: fmt.Sprintf("obj-%d-tag-%d", obj, tag), Enabled: enabled}}},
	}}
}

// objOf reads the number and content class back; (-1, -1) for an object the
// harness never supplied (e.g. the empty PoliciesData).
func objOf(p *config.PoliciesData) (int, int) {
	if p == nil || len(p.Config.Global.Remedies) != 1 {
		return -1, -1
	}
	var obj, tag int
	if n, err := fmt.Sscanf(p.Config.Global.Remedies[0].Name, "obj-%d-tag-%d", &obj, &tag); n != 2 || err != nil {
		return -1, -1
	}
	return obj, tag
}

func rel(d int64) string {
	s := d / sec
	r := d % sec
	if r > sec/2 {
		s++
		r -= sec
	}
	switch {
	case r == 0:
		return fmt.Sprintf("%ds", s)
	case r > 0:
		return fmt.Sprintf("%ds+%dns", s, r)
	}
	return fmt.Sprintf("%ds%dns", s, r)
}

var vacuumNeverStarts bool // set when a started loop was never seen parking (mutated code)

type hist struct {
	k       *Case
	clk     *vclock
	acc     *config.TxnPoliciesAccessor
	objs    []*config.PoliciesData
	id      map[*config.PoliciesData]int
	sl      [2]*sleeper // parked vacuum loops: 0 = transactions, 1 = versions
	side    []*sleeper  // other sleepers (scheduled un-manage); never woken
	lastGot map[int]int
}

func (h *hist) park(first bool) *sleeper {
	wait := 20 * time.Second
	if first && vacuumNeverStarts {
		return nil
	}
	for {
		select {
		case s := <-h.clk.parked:
			if s.d != time.Duration(tick) {
				h.side = append(h.side, s)
				continue
			}
			return s
		case <-time.After(wait):
			if first {
				vacuumNeverStarts = true
				return nil
			}
			panic("vacuum loop did not come back to Sleep")
		}
	}
}

func (h *hist) retained() []int {
	var r []int
	for _, p := range h.acc.VerifC11Retained() {
		obj, _ := objOf(p)
		r = append(r, obj)
	}
	return r
}

func (h *hist) ev(a string, txn, obj, tag int, implicit bool) {
	now := h.clk.ns()
	h.k.Events = append(h.k.Events, Ev{A: a, Txn: txn, Obj: obj, Tag: tag, Now: now,
		Rel: rel(now - h.k.T0), Retained: h.retained(), Implicit: implicit})
}

// pass lets vacuum loop `which` run exactly one pass on the current clock reading.
func (h *hist) pass(which int) {
	s := h.sl[which]
	if s == nil {
		return // loop not started yet: there is nothing that could run
	}
	close(s.wake)
	h.sl[which] = h.park(false)
	h.ev([]string{"vactxn", "vacver"}[which], 0, 0, 0, false)
}

func (h *hist) newObj(tag int, enabled bool) (*config.PoliciesData, int) {
	p := mkData(len(h.objs), tag, enabled)
	h.objs = append(h.objs, p)
	return p, len(h.objs) - 1
}

func exec(k *Case) {
	k.Events, k.Fallbacks, k.Reanchored = nil, 0, 0
	if k.T0 == 0 {
		k.T0 = t0
	}
	h := &hist{k: k, clk: newClock(k.T0), lastGot: map[int]int{}}
	defer h.clk.kill()
	contextmanager.Get().VerifC11SetClock(h.clk)
	p0, _ := h.newObj(0, false)
	acc := config.NewTxnPoliciesAccessor(p0)
	h.acc = &acc
	started := [2]bool{}
	for _, op := range k.Ops {
		switch op.K {
		case "get":
			id := config.TxnID("txn-" + strconv.Itoa(op.Txn))
			anchored := h.acc.VerifC11IsAnchored(id)
			p := h.acc.GetTxnPoliciesData(id)
			obj, tag := objOf(p)
			if prev, seen := h.lastGot[op.Txn]; seen && anchored && prev != obj {
				k.Fallbacks++ // anchored, yet another object: the anchored version was gone
			} else if seen && !anchored {
				k.Reanchored++
			}
			h.lastGot[op.Txn] = obj
			h.ev("get", op.Txn, obj, tag, false)
			if !started[0] { // the first VacuumKey started the loop; it makes one pass and sleeps
				started[0] = true
				if h.sl[0] = h.park(true); h.sl[0] != nil {
					h.ev("vactxn", 0, 0, 0, true)
				}
			}
		case "update", "revert", "refuse":
			p, obj := h.newObj(op.Tag, op.K == "refuse")
			err := h.acc.UpdatePoliciesData(p, op.K == "revert")
			if err != nil {
				h.ev("refused", 0, obj, op.Tag, false)
				break
			}
			h.ev("update", 0, obj, op.Tag, false)
			if !started[1] {
				started[1] = true
				if h.sl[1] = h.park(true); h.sl[1] != nil {
					h.ev("vacver", 0, 0, 0, true)
				}
			}
		case "adv":
			target := h.clk.ns() + op.D
			for k.Auto {
				w := -1
				for i, s := range h.sl {
					if s != nil && s.due <= target && (w < 0 || s.due < h.sl[w].due) {
						w = i
					}
				}
				if w < 0 {
					break
				}
				if h.sl[w].due > h.clk.ns() {
					h.clk.set(h.sl[w].due)
				}
				h.pass(w)
			}
			h.clk.set(target)
		case "ticktxn":
			h.pass(0)
		case "tickver":
			h.pass(1)
		default:
			panic("unknown op " + op.K)
		}
	}
}

func coq(k *Case) string {
	return c.Tuple("0", c.MapList(k.Events, func(e Ev) string {
		var a string
		got := int64(0)
		switch e.A {
		case "get":
			a = fmt.Sprintf("Get %d %d", e.Txn, e.Now)
			got = int64(e.Obj)
		case "update":
			a = fmt.Sprintf("Update %d %d", e.Obj, e.Now)
		case "refused":
			a = fmt.Sprintf("Refused %d", e.Now)
		case "vactxn":
			a = fmt.Sprintf("VacTxn %d", e.Now)
		case "vacver":
			a = fmt.Sprintf("VacVer %d", e.Now)
		}
		rs := make([]int64, len(e.Retained))
		for i, r := range e.Retained {
			rs[i] = int64(r)
		}
		return c.Tuple(a, c.Z(got), c.ZList(rs))
	}))
}

// ------------------------------------------------------------------ monitor

// monitor restates the three claims over what the implementation did; it knows
// nothing about versions, queues or anchors — only which object was handed out
// when, which object was installed when, and which objects are still retained.
// At exactly t0 + 30 s it accepts either behaviour (the text does not say
// whether the retention period is closed).
func monitor(k *Case) []c.Hit {
	var hits []c.Hit
	add := func(sig, dem, obs string) {
		hits = append(hits, c.Hit{Signature: sig, Demanded: dem, Observed: obs, Case: k})
	}
	type sight struct {
		at       int64
		obj, tag int
	}
	current := 0
	first := map[int]sight{}
	lastAnchor := map[int]int64{} // object -> latest instant a transaction was first seen with it
	for i, e := range k.Events {
		switch e.A {
		case "update":
			current = e.Obj
		case "get":
			f, seen := first[e.Txn]
			if !seen {
				if e.Obj != current {
					add("first-sight-not-current:get",
						fmt.Sprintf("transaction %d, first seen at %s, uses the policies current then (object %d)", e.Txn, e.Rel, current),
						fmt.Sprintf("event %d handed out object %d", i, e.Obj))
				}
				first[e.Txn] = sight{e.Now, e.Obj, e.Tag}
				if e.Obj >= 0 {
					lastAnchor[e.Obj] = e.Now
				}
			} else if e.Now < f.at+ttl {
				if e.Obj != f.obj || e.Tag != f.tag {
					add("pin-lost:get",
						fmt.Sprintf("transaction %d (first seen %s with object %d, tag %d) keeps them until 30 s later", e.Txn, rel(f.at-k.T0), f.obj, f.tag),
						fmt.Sprintf("event %d at %s handed out object %d, tag %d", i, e.Rel, e.Obj, e.Tag))
				}
			}
		}
		for obj, at := range lastAnchor {
			if e.Now >= at+ttl {
				continue
			}
			found := false
			for _, r := range e.Retained {
				found = found || r == obj
			}
			if !found {
				add("retention:"+e.A,
					fmt.Sprintf("object %d (a transaction was first seen with it at %s) is retained until 30 s later", obj, rel(at-k.T0)),
					fmt.Sprintf("not retained after event %d (%s at %s)", i, e.A, e.Rel))
				delete(lastAnchor, obj) // report a loss once
			}
		}
	}
	return hits
}

// ------------------------------------------------------------------ main

func run(o *c.Out, k Case) {
	exec(&k)
	ups, removed, relook, atEdge := 0, false, false, false
	firstAt := map[int]int64{}
	maxRet := 0
	for i, e := range k.Events {
		if e.A == "update" {
			ups++
		}
		if i > 0 && len(e.Retained) < len(k.Events[i-1].Retained) {
			removed = true
		}
		if len(e.Retained) > maxRet {
			maxRet = len(e.Retained)
		}
		if e.A == "get" {
			if at, ok := firstAt[e.Txn]; ok {
				if ups > 0 {
					relook = true
				}
				if d := e.Now - at - ttl; d >= -1 && d <= 1 {
					atEdge = true
				}
			} else {
				firstAt[e.Txn] = e.Now
			}
		}
	}
	if len(k.Events) == 0 {
		return // only clock advances / passes of loops that are not running yet
	}
	switch n := len(k.Events); {
	case n < 5:
		o.Count("events=01-04")
	case n < 10:
		o.Count("events=05-09")
	case n < 20:
		o.Count("events=10-19")
	case n < 40:
		o.Count("events=20-39")
	default:
		o.Count("events=40+")
	}
	o.Count(fmt.Sprintf("updates=%d", ups))
	o.Count(fmt.Sprintf("max_retained=%d", maxRet))
	if removed {
		o.Count("a_version_was_removed")
	}
	if k.Fallbacks > 0 {
		o.Count("anchored_version_gone_fallback_to_current")
	}
	if k.Reanchored > 0 {
		o.Count("anchor_vacuumed_then_reanchored")
	}
	if atEdge {
		o.Count("relookup_within_1ns_of_30s")
	}
	idx := o.Case("hist", coq(&k), k, ups > 0 && relook && removed)
	o.MonitorChecked(1)
	for _, h := range monitor(&k) {
		h.Suite, h.Index = "hist", idx
		o.Hit(h)
	}
}

func main() {
	zerolog.SetGlobalLevel(zerolog.Disabled)
	o := c.NewOut("C11")
	o.DeclareSuite("hist", "From Verif Require Import C11.Model.", "case", "run_case")
	o.Rule("histories of look-ups (3-4 transactions), reloads/reverts/refused reloads (fresh object each), " +
		"clock advances and single passes of the two real vacuum loops: (a) every sequence up to a length bound over " +
		"{get t1, get t2, update, +30s-1ns, +1ns, +5s, pass txn-vacuum, pass version-vacuum}, alone and after [get t1; update]; " +
		"(b) a grid of request/reload/response scenarios with instants at 30 s -1/0/+1 ns after the first sight and after the reload; " +
		"(c) random histories, half of them with the loops waking every 5 s by themselves, advances aimed at pending deadlines +-1 ns; " +
		"distinct = distinct executed event lists; non-trivial = a reload, a later look-up of an already seen transaction and a removed version")
	var k Case
	if _, ok := o.ReplayCase(&k); ok {
		run(o, k)
		o.Finish()
		return
	}
	if !o.Search() {
		exhaustive(o)
		grid(o)
	}
	random(o)
	if vacuumNeverStarts {
		o.Note("a vacuum loop was never seen entering Sleep after the first VacuumKey; its passes could not be driven")
	}
	o.Finish()
}

func exhaustive(o *c.Out) {
	alpha := []Op{
		{K: "get", Txn: 1}, {K: "get", Txn: 2}, {K: "update", Tag: 1},
		{K: "adv", D: ttl - 1}, {K: "adv", D: 1}, {K: "adv", D: tick},
		{K: "ticktxn"}, {K: "tickver"},
	}
	var rec func(prefix []Op, left int)
	rec = func(prefix []Op, left int) {
		if len(prefix) > 0 {
			run(o, Case{Ops: append([]Op(nil), prefix...)})
		}
		if left == 0 {
			return
		}
		for _, a := range alpha {
			rec(append(prefix, a), left-1)
		}
	}
	rec(nil, o.Scale(3, 4, 0))
	rec([]Op{{K: "get", Txn: 1}, {K: "update", Tag: 1}}, o.Scale(4, 5, 0))
}

// grid: request of t1, reload after a, (request of t2), clock to b after the
// request, passes in every order/subset, response of t1, +1 ns, passes again,
// response again, a new transaction.
func grid(o *c.Out) {
	passes := [][]Op{{}, {{K: "ticktxn"}}, {{K: "tickver"}}, {{K: "ticktxn"}, {K: "tickver"}}, {{K: "tickver"}, {K: "ticktxn"}}}
	for _, a := range []int64{0, 1, tick} {
		for _, b := range []int64{ttl - 1, ttl, ttl + 1, a + ttl, a + ttl + 1} {
			if b < a {
				continue
			}
			for _, p1 := range passes {
				for _, p2 := range passes {
					for _, second := range []string{"update", "revert", ""} {
						ops := []Op{{K: "get", Txn: 1}, {K: "adv", D: a}, {K: "update", Tag: 1}, {K: "get", Txn: 2}}
						if second != "" {
							ops = append(ops, Op{K: second, Tag: 0})
						}
						ops = append(ops, Op{K: "adv", D: b - a})
						ops = append(ops, p1...)
						ops = append(ops, Op{K: "get", Txn: 1}, Op{K: "adv", D: 1})
						ops = append(ops, p2...)
						ops = append(ops, Op{K: "get", Txn: 1}, Op{K: "get", Txn: 2}, Op{K: "get", Txn: 3})
						run(o, Case{Ops: ops})
					}
				}
			}
		}
	}
}

func random(o *c.Out) {
	r := o.Rng
	deltas := []int64{0, 1, tick - 1, tick, tick + 1, 2 * tick, 25 * sec, ttl - 1, ttl, ttl + 1, ttl + tick}
	for i := 0; i < o.Scale(1500, 20000, 30000); i++ {
		k := Case{Auto: r.Bool()}
		n := r.Range(4, 24)
		now := int64(0)
		var marks []int64 // instants of look-ups and reloads: deadlines are 30 s later
		ntx := r.Range(1, 4)
		for j := 0; j < n; j++ {
			x := r.Intn(100)
			switch {
			case x < 34:
				k.Ops = append(k.Ops, Op{K: "get", Txn: r.Range(1, ntx)})
				marks = append(marks, now)
			case x < 46:
				k.Ops = append(k.Ops, Op{K: c.Pick(r, []string{"update", "update", "revert"}), Tag: r.Intn(4)})
				marks = append(marks, now)
			case x < 48:
				k.Ops = append(k.Ops, Op{K: "refuse", Tag: r.Intn(4)})
			case x < 64:
				d := c.Pick(r, deltas)
				k.Ops = append(k.Ops, Op{K: "adv", D: d})
				now += d
			case x < 80:
				if len(marks) == 0 {
					continue
				}
				target := c.Pick(r, marks) + ttl + int64(r.Range(-1, 2))
				if target <= now {
					continue
				}
				k.Ops = append(k.Ops, Op{K: "adv", D: target - now})
				now = target
			case x < 90:
				k.Ops = append(k.Ops, Op{K: "tickver"})
			default:
				k.Ops = append(k.Ops, Op{K: "ticktxn"})
			}
		}
		if len(k.Ops) == 0 {
			continue
		}
		run(o, k)
	}
}
