// C11 harness: drives the real config.TxnPoliciesAccessor (and, through it, the
// two real vacuum.MapVacuum loops) with a controllable clock.
//
// The accessor takes its clock from the context manager when it is built; the
// harness installs its own clock.Clock there (shim VerifC11SetClock). The two
// vacuum goroutines are the real `for active { vacuum(); clock.Sleep(tick) }`
// loops: they park inside the harness clock's Sleep, and the harness lets one of
// them run exactly one pass at a chosen clock reading and waits until it is
// parked again, so every history is a deterministic sequence of
// Get / Update / vacuum-pass actions, each on a known clock reading.
//
// Observables per action: identity of the *PoliciesData returned by a look-up
// and the objects still retained in policiesVersions (shim VerifC11Retained).
package main

import (
	"fmt"
	"io"
	"net/http"
	"runtime"
	"sort"
	"strconv"
	"strings"
	"sync"
	"sync/atomic"
	"time"

	"lunar/engine/config"
	"lunar/engine/routing"
	"lunar/engine/services"
	sharedConfig "lunar/shared-model/config"
	contextmanager "lunar/toolkit-core/context-manager"

	"github.com/negasus/haproxy-spoe-go/action"
	"github.com/negasus/haproxy-spoe-go/message"
	"github.com/negasus/haproxy-spoe-go/payload/kv"
	"github.com/rs/zerolog"
	"github.com/rs/zerolog/log"

	c "verifharness/common"
)

const (
	sec  = int64(time.Second)
	ttl  = 30 * sec // documented retention period (staleVersionTTL)
	tick = 5 * sec  // vacuumTick
	t0   = int64(1_700_000_000) * sec
)

// ------------------------------------------------------------------ clock

type sleeper struct {
	wake chan struct{}
	due  int64
	d    time.Duration
	gid  int64 // goroutine that sleeps (suite fine: the vacuum loops are recognised by it)
}

type vclock struct {
	mu     sync.Mutex
	now    int64
	parked chan *sleeper
	dead   chan struct{}
	isDead atomic.Bool
	// hook, when armed, runs once at the next reading of the clock, on the
	// goroutine that reads it (see armCommit in split.go)
	hook atomic.Pointer[func()]
	// suite fine: every clock reading is a place where the harness can hold the reader
	fine bool
}

func newClock(now int64) *vclock {
	return &vclock{now: now, parked: make(chan *sleeper), dead: make(chan struct{})}
}
func (k *vclock) ns() int64 {
	k.mu.Lock()
	defer k.mu.Unlock()
	return k.now
}
func (k *vclock) set(t int64) {
	k.mu.Lock()
	k.now = t
	k.mu.Unlock()
}
func (k *vclock) Now() time.Time {
	if k.fine {
		fineYield("clock")
	}
	if f := k.hook.Swap(nil); f != nil {
		(*f)()
	}
	return time.Unix(0, k.ns())
}

// Sleep parks the calling goroutine until the harness wakes it; when the
// history is over the goroutine is terminated.
func (k *vclock) Sleep(d time.Duration) {
	s := &sleeper{wake: make(chan struct{}), due: k.ns() + int64(d), d: d, gid: curGid()}
	select {
	case k.parked <- s:
	case <-k.dead:
		runtime.Goexit()
	}
	select {
	case <-s.wake:
	case <-k.dead:
		runtime.Goexit()
	}
	if k.isDead.Load() {
		runtime.Goexit()
	}
}
func (k *vclock) After(d time.Duration) <-chan time.Time {
	ch := make(chan time.Time, 1)
	go func() { k.Sleep(d); ch <- k.Now() }()
	return ch
}
func (k *vclock) Since(t time.Time) time.Duration { return k.Now().Sub(t) }
func (k *vclock) Until(t time.Time) time.Duration { return t.Sub(k.Now()) }
func (k *vclock) kill() {
	k.isDead.Store(true)
	close(k.dead)
}

// ------------------------------------------------------------------ cases

// Op is what the generator asks for.
type Op struct {
	K   string `json:"op"` // get | update | revert | refuse | adv | ticktxn | tickver | req | resp | begin | commit | fail
	Txn int    `json:"txn,omitempty"`
	Tag int    `json:"tag,omitempty"`
	D   int64  `json:"d_ns,omitempty"`
	// req / resp (suite "routing"): transaction Txn of sequence Seq; the response carries Status
	Seq    int `json:"seq,omitempty"`
	Status int `json:"status,omitempty"`
	// begin / commit / fail: update U enters its HAProxy call (and stays inside
	// it while the following ops run) / its call succeeds / its call fails
	U   int  `json:"u,omitempty"`
	Rev bool `json:"revert,omitempty"` // begin: UpdatePoliciesData(_, unmanageImmediately = true)
	// update / refuse / begin / fupd: the real entry point the update goes through
	// (tofree | toloaded | reload | raw; see entry.go); "" = UpdatePoliciesData with a harness-built object
	Via string `json:"via,omitempty"`
	// suite fine (see fine.go): fget G Txn / fupd U Tag / fvac W start a goroutine
	// (wake a vacuum loop), fgo Who G|U|W lets it run to its next call-out (Fail:
	// its HAProxy call fails), frun to the end of its operation
	G    int    `json:"g,omitempty"`
	W    int    `json:"w,omitempty"`
	Who  string `json:"who,omitempty"`
	Fail bool   `json:"fail,omitempty"`
	// update / revert / commit: look-ups (get / req / resp) that arrive INSIDE
	// setNextVersion, at the clock reading its VacuumKey makes
	In []Op `json:"inside,omitempty"`
}

// Ev is one action as it was executed on the implementation.
type Ev struct {
	A        string `json:"act"` // get | update | refused | vactxn | vacver | req | resp | updbegin | updcommit | updfail | blocked
	Txn      int    `json:"txn,omitempty"`
	U        int    `json:"u,omitempty"`        // updbegin / updcommit / updfail: id of the update
	Via      string `json:"via,omitempty"`      // update / refused / updbegin / updcommit / updfail: entry point the update came through
	What     string `json:"what,omitempty"`     // blocked: the op that did not complete inside the call window
	InFlight []int  `json:"in_flight,omitempty"` // ids of the updates that were inside their HAProxy call when the action ran
	InCommit bool   `json:"inside_commit,omitempty"` // the look-up ran at the clock reading of the commit recorded just before it
	Seq      int    `json:"seq,omitempty"`
	Status   int    `json:"status,omitempty"`
	Retry    bool   `json:"retry_action,omitempty"` // resp: the retry remedy of the policies used took action
	Err      string `json:"err,omitempty"`
	Obj      int    `json:"obj"` // update/refused: number of the object supplied; get: number read from the object returned (-1 = not one of ours)
	Tag      int    `json:"tag"` // content class of that object
	Now      int64  `json:"now_ns"`
	Rel      string `json:"t"` // human-readable offset from the start
	Retained []int  `json:"retained"`
	Implicit bool   `json:"implicit,omitempty"` // the pass a vacuum loop makes when it is started
	// accessor state read after the action (shim VerifC11State): currentVersion,
	// txnVersions sorted by transaction, the two vacuum queues as (vacuumAt, key);
	// Ver = version the transaction of a get / req / resp is anchored to afterwards
	Cur    int        `json:"cur"`
	Pins   [][2]int   `json:"pins"`
	TxnQ   [][2]int64 `json:"txn_queue"`
	VerQ   [][2]int64 `json:"ver_queue"`
	Ver    int        `json:"ver,omitempty"`
	// suite failsafe (entry.go): the CURRENT PoliciesData carries diagnosisFreeReverted
	// (the accessor is serving the diagnosis-free stand-in); flags of the retained
	// objects, parallel to Retained (nil = none is flagged)
	Standin bool   `json:"standin,omitempty"`
	RetFlag []bool `json:"retained_standin,omitempty"`
	PreEnq bool       `json:"before_enqueue,omitempty"` // read inside setNextVersion, before VacuumKey appended the superseded version
}

type Case struct {
	Fine    bool  `json:"fine,omitempty"`    // suite "fine": goroutines held at the call-outs of the code
	FEvents []FEv `json:"steps,omitempty"`
	Routing bool  `json:"routing,omitempty"` // suite "routing": through processRequest / processResponse
	Auto    bool  `json:"auto_ticks"`        // vacuum loops wake up when their 5 s sleep is over
	Ops     []Op  `json:"ops"`
	Events  []Ev  `json:"events"`
	T0      int64 `json:"t0_ns"`
	// statistics (not compared, not used by the monitor)
	Fallbacks  int `json:"stat_fallbacks"`
	Reanchored int `json:"stat_reanchored"`
	Blocked    int `json:"stat_blocked,omitempty"`
}

// Every object the harness supplies carries its own number (and a content
// class) in its content, so an object is recognised by what it contains: the
// comparison does not depend on the accessor handing out the very pointer.
func mkData(obj, tag int, enabled bool) *config.PoliciesData {
	return &config.PoliciesData{Config: sharedConfig.PoliciesConfig{
		Global: sharedConfig.Global{Remedies: []sharedConfig.Remedy{
			{Name: fmt.Sprintf("obj-%d-tag-%d", obj, tag), Enabled: enabled}}},
	}}
}

// objOf reads the number and content class back; (-1, -1) for an object the
// harness never supplied (e.g. the empty PoliciesData).
func objOf(p *config.PoliciesData) (int, int) {
	if p == nil || len(p.Config.Global.Remedies) != 1 {
		return -1, -1
	}
	var obj, tag int
	if n, err := fmt.Sscanf(p.Config.Global.Remedies[0].Name, "obj-%d-tag-%d", &obj, &tag); n != 2 || err != nil {
		return -1, -1
	}
	return obj, tag
}

func rel(d int64) string {
	s := d / sec
	r := d % sec
	if r > sec/2 {
		s++
		r -= sec
	}
	switch {
	case r == 0:
		return fmt.Sprintf("%ds", s)
	case r > 0:
		return fmt.Sprintf("%ds+%dns", s, r)
	}
	return fmt.Sprintf("%ds%dns", s, r)
}

var vacuumNeverStarts bool // set when a started loop was never seen parking (mutated code)

type hist struct {
	k       *Case
	clk     *vclock
	acc     *config.TxnPoliciesAccessor
	objs    []*config.PoliciesData
	sl      [2]*sleeper // parked vacuum loops: 0 = transactions, 1 = versions
	side    []*sleeper  // other sleepers (scheduled un-manage); never woken
	lastGot map[int]int
	mgr     *routing.HandlingDataManager
	no      int // number of this history (sequence ids are unique over the run)
	started [2]bool
	evMu    sync.Mutex
	flMu    sync.Mutex
	fl      []*inflight // updates inside their HAProxy call, in order of entry
	preEnq   bool          // observations are being made inside setNextVersion, before its VacuumKey appended
	inCommit bool          // the ops being executed run at the clock reading of a commit
	pending  chan struct{} // an operation started at a commit's clock reading that has not completed yet
	abandoned atomic.Bool  // suite fine: the history is over, nobody is held any more
	via       map[int]string // object -> entry point that supplied it (entry.go)
}

func (h *hist) park(first bool) *sleeper {
	wait := 20 * time.Second
	if first && vacuumNeverStarts {
		return nil
	}
	for {
		select {
		case s := <-h.clk.parked:
			if s.d != time.Duration(tick) {
				h.side = append(h.side, s)
				continue
			}
			return s
		case <-time.After(wait):
			if first {
				vacuumNeverStarts = true
				return nil
			}
			panic("vacuum loop did not come back to Sleep")
		}
	}
}

func (h *hist) retained() ([]int, []bool) {
	var r []int
	var fl []bool
	any := false
	for _, p := range h.acc.VerifC11Retained() {
		obj, _ := objOf(p)
		r = append(r, obj)
		f := standinFlag(p)
		fl = append(fl, f)
		any = any || f
	}
	if !any {
		fl = nil
	}
	return r, fl
}

// txnNo: "txn-7" (suites hist, fine) / "h12-t7" (suite routing) -> 7
func txnNo(id config.TxnID) int {
	s := string(id)
	if i := strings.LastIndexByte(s, '-'); i >= 0 {
		s = strings.TrimPrefix(s[i+1:], "t")
	}
	n, err := strconv.Atoi(s)
	if err != nil {
		return -1
	}
	return n
}

// observe reads the accessor state into e.
func (h *hist) observe(e *Ev) {
	e.Retained, e.RetFlag = h.retained()
	st := h.acc.VerifC11State()
	e.Cur = st.CurrentVersion
	e.Pins = [][2]int{}
	for id, v := range st.Anchors {
		e.Pins = append(e.Pins, [2]int{txnNo(id), v})
	}
	sort.Slice(e.Pins, func(i, j int) bool { return e.Pins[i][0] < e.Pins[j][0] })
	e.TxnQ, e.VerQ = [][2]int64{}, [][2]int64{}
	for i, at := range st.TxnQueueAt {
		e.TxnQ = append(e.TxnQ, [2]int64{at.UnixNano(), int64(txnNo(st.TxnQueueKeys[i]))})
	}
	for i, at := range st.VerQueueAt {
		e.VerQ = append(e.VerQ, [2]int64{at.UnixNano(), int64(st.VerQueueKeys[i])})
	}
}

func (h *hist) ev(a string, txn, obj, tag int, implicit bool) *Ev {
	now := h.clk.ns()
	e := Ev{A: a, Txn: txn, Obj: obj, Tag: tag, Now: now,
		Rel: rel(now - h.k.T0), Implicit: implicit, InFlight: h.inFlightIDs(), InCommit: h.inCommit, PreEnq: h.preEnq}
	switch a {
	case "update", "refused", "updbegin", "updcommit", "updfail":
		e.Via = h.via[obj]
	}
	h.observe(&e)
	e.Standin = standinFlag(h.acc.GetCurrentPoliciesData())
	if a == "get" || a == "req" || a == "resp" {
		e.Ver = -1
		for _, p := range e.Pins {
			if p[0] == txn {
				e.Ver = p[1]
			}
		}
	}
	h.evMu.Lock()
	defer h.evMu.Unlock()
	h.k.Events = append(h.k.Events, e)
	return &h.k.Events[len(h.k.Events)-1]
}

// pass lets vacuum loop `which` run exactly one pass on the current clock reading.
func (h *hist) pass(which int) {
	s := h.sl[which]
	if s == nil {
		return // loop not started yet: there is nothing that could run
	}
	close(s.wake)
	h.sl[which] = h.park(false)
	h.ev([]string{"vactxn", "vacver"}[which], 0, 0, 0, false)
}

func (h *hist) newObj(tag int, enabled bool) (*config.PoliciesData, int) {
	var p *config.PoliciesData
	if h.k.Routing {
		p = mkMarked(len(h.objs), tag)
	} else {
		p = mkData(len(h.objs), tag, enabled)
	}
	h.objs = append(h.objs, p)
	return p, len(h.objs) - 1
}

// ------------------------------------------------------------------ routing set-up

// mkMarked: object n of a routing history carries ONE enabled global remedy, a
// retry remedy whose only status condition is 500+n (attempts practically
// unlimited, constant cool-down): a response with status 500+j is answered
// with a retry action only if it is processed with object j.
func mkMarked(obj, tag int) *config.PoliciesData {
	p, err := config.BuildPolicyData(&sharedConfig.PoliciesConfig{
		Global: sharedConfig.Global{Remedies: []sharedConfig.Remedy{{
			Enabled: true,
			Name:    fmt.Sprintf("obj-%d-tag-%d", obj, tag),
			Config: sharedConfig.RemedyConfig{Retry: &sharedConfig.RetryConfig{
				Attempts: 1 << 30, InitialCooldownSeconds: 1, CooldownMultiplier: 1,
				Conditions: sharedConfig.RetryConfigConditions{
					StatusCode: []sharedConfig.Range[int]{{From: 500 + obj, To: 500 + obj}}},
			}},
		}}},
	}, false)
	if err != nil {
		panic(err)
	}
	return p
}

// The remedy plugins (retry state!) live on a clock that never moves and whose
// Sleep never returns, so the marker does not decay while the accessor's clock
// is advanced; one instance serves the whole run (sequence ids are unique).
type frozenClock struct{ t time.Time }

func (f frozenClock) Now() time.Time                       { return f.t }
func (f frozenClock) Sleep(time.Duration)                  { runtime.Goexit() }
func (f frozenClock) After(time.Duration) <-chan time.Time { return make(chan time.Time) }
func (f frozenClock) Since(t time.Time) time.Duration      { return f.t.Sub(t) }
func (f frozenClock) Until(t time.Time) time.Duration      { return t.Sub(f.t) }

type nopWriter struct{}

func (nopWriter) Write(b []byte) (int, error) { return len(b), nil }
func (nopWriter) Close() error                { return nil }

var (
	svc    *services.PoliciesServices
	histNo int
)

func policiesServices() *services.PoliciesServices {
	if svc != nil {
		return svc
	}
	contextmanager.Get().VerifC11SetClock(frozenClock{time.Unix(0, t0)})
	done := make(chan error, 1)
	go func() { // a synchronous Sleep during set-up would end this goroutine, not main
		defer close(done)
		var err error
		svc, err = services.Initialize(nopWriter{}, 10*time.Second, sharedConfig.Exporters{})
		done <- err
	}()
	if err, ok := <-done; !ok || err != nil {
		panic(fmt.Sprintf("services.Initialize failed: %v", err))
	}
	return svc
}

func (h *hist) name(tok int) string { return fmt.Sprintf("h%d-t%d", h.no, tok) }

func (h *hist) reqMsg(op Op) *message.Message {
	m := kv.NewKV()
	m.Add("id", h.name(op.Txn))
	m.Add("sequence_id", h.name(op.Seq))
	m.Add("method", "GET")
	m.Add("scheme", "http")
	m.Add("url", "example.com/things")
	m.Add("path", "/things")
	m.Add("query", "")
	m.Add("headers", "")
	m.Add("body", []byte(""))
	return &message.Message{Name: "lunar-on-request", KV: m}
}

func (h *hist) respMsg(op Op) *message.Message {
	m := kv.NewKV()
	m.Add("id", h.name(op.Txn))
	m.Add("sequence_id", h.name(op.Seq))
	m.Add("method", "GET")
	m.Add("url", "example.com/things")
	m.Add("status", int64(op.Status))
	m.Add("headers", "")
	m.Add("body", []byte(""))
	return &message.Message{Name: "lunar-on-response", KV: m}
}

func exec(k *Case) {
	k.Events, k.Fallbacks, k.Reanchored, k.Blocked = nil, 0, 0, 0
	if k.T0 == 0 {
		k.T0 = t0
	}
	histNo++
	h := &hist{k: k, clk: newClock(k.T0), lastGot: map[int]int{}, no: histNo}
	defer h.clk.kill()
	if k.Routing {
		policiesServices() // (installs its own clock while it is built)
	}
	contextmanager.Get().VerifC11SetClock(h.clk)
	p0, _ := h.newObj(0, false)
	acc := config.NewTxnPoliciesAccessor(p0)
	h.acc = &acc
	if k.Routing {
		h.mgr = routing.VerifC11NewPolicyModeManager(h.acc, p0, svc)
	}
	for _, op := range k.Ops {
		op := op
		// While an update is inside its HAProxy call every operation runs under a
		// bounded wait: should it need a lock the update holds it is recorded as
		// "blocked" instead of hanging the harness.
		h.guarded(op, func() { h.do(op) })
	}
	h.finish()
}

// the first VacuumKey of a vacuum started its loop; it makes one pass and sleeps
func (h *hist) loopStarted(which int) {
	if h.started[which] {
		return
	}
	h.started[which] = true
	if h.sl[which] = h.park(true); h.sl[which] != nil {
		h.ev([]string{"vactxn", "vacver"}[which], 0, 0, 0, true)
	}
}

// a handler that panics (e.g. on the empty policies object handed out when even
// the current version is missing) must not take the harness down: the panic is
// the event's error and the monitor reports it
func recoverHandler(err *error) {
	if r := recover(); r != nil {
		*err = fmt.Errorf("panic: %v", r)
	}
}

func (h *hist) do(op Op) {
	k := h.k
	switch op.K {
	case "get":
		id := config.TxnID("txn-" + strconv.Itoa(op.Txn))
		anchored := h.acc.VerifC11IsAnchored(id)
		p := h.acc.GetTxnPoliciesData(id)
		obj, tag := objOf(p)
		if prev, seen := h.lastGot[op.Txn]; seen && anchored && prev != obj {
			k.Fallbacks++ // anchored, yet another object: the anchored version was gone
		} else if seen && !anchored {
			k.Reanchored++
		}
		h.lastGot[op.Txn] = obj
		h.ev("get", op.Txn, obj, tag, false)
		h.loopStarted(0)
	case "req":
		var err error
		func() {
			defer recoverHandler(&err)
			_, err = routing.VerifC11ProcessRequest(h.reqMsg(op), h.mgr)
		}()
		e := h.ev("req", op.Txn, 0, 0, false)
		e.Seq = op.Seq
		if err != nil {
			e.Err = err.Error()
		}
		h.loopStarted(0)
	case "resp":
		var as action.Actions
		var err error
		func() {
			defer recoverHandler(&err)
			as, err = routing.VerifC11ProcessResponse(h.respMsg(op), h.mgr)
		}()
		e := h.ev("resp", op.Txn, 0, 0, false)
		e.Seq, e.Status = op.Seq, op.Status
		if err != nil {
			e.Err = err.Error()
		}
		for _, a := range as {
			if a.Name == "response_active_remedies" {
				e.Retry = strings.Contains(fmt.Sprintf("%s", a.Value), `"retry"`)
			}
		}
		h.loopStarted(0)
	case "update", "revert", "refuse":
		call, obj := h.prepare(op.Via, op.Tag, op.K == "refuse", op.K == "revert")
		stub.cur.Store(nil)
		haproxyDown.Store(op.K == "refuse")
		var fired *bool
		if len(op.In) > 0 && op.K != "refuse" {
			fired = h.armCommit("update", 0, obj, op.Tag, op.In)
		}
		err := call()
		haproxyDown.Store(false)
		h.disarm()
		noteEntryError(op.Via, err, op.K == "refuse")
		if err != nil {
			h.ev("refused", 0, obj, op.Tag, false)
			break
		}
		if fired == nil || !*fired {
			h.ev("update", 0, obj, op.Tag, false)
			h.runPlain(op.In) // the commit read no clock: the arrivals come after it
		}
		h.loopStarted(1)
	case "begin":
		h.begin(op)
	case "commit":
		h.end(op.U, false, op.In)
	case "fail":
		h.end(op.U, true, nil)
	case "adv":
		target := h.clk.ns() + op.D
		for k.Auto {
			w := -1
			for i, s := range h.sl {
				if s != nil && s.due <= target && (w < 0 || s.due < h.sl[w].due) {
					w = i
				}
			}
			if w < 0 {
				break
			}
			if h.sl[w].due > h.clk.ns() {
				h.clk.set(h.sl[w].due)
			}
			h.pass(w)
		}
		h.clk.set(target)
	case "ticktxn":
		h.pass(0)
	case "tickver":
		h.pass(1)
	default:
		panic("unknown op " + op.K)
	}
}

// All instants are printed relative to the start of the history; an observation
// equal to the previous one (the initial state for the first) is printed as None.
func coq(k *Case) string {
	prev := initObs
	return c.Tuple("0", c.MapList(k.Events, func(e Ev) string {
		var a string
		got := int64(0)
		e.Now -= k.T0
		switch e.A {
		case "get":
			a = fmt.Sprintf("A (Get %d %d)", e.Txn, e.Now)
			got = int64(e.Obj)
		case "update":
			a = fmt.Sprintf("A (Update %d %d)", e.Obj, e.Now)
		case "refused":
			a = fmt.Sprintf("A (Refused %d)", e.Now)
		case "vactxn":
			a = fmt.Sprintf("A (VacTxn %d)", e.Now)
		case "vacver":
			a = fmt.Sprintf("A (VacVer %d)", e.Now)
		case "updbegin":
			a = fmt.Sprintf("UpdBegin %d %d %d", e.U, e.Obj, e.Now)
		case "updcommit":
			a = fmt.Sprintf("UpdCommit %d %d", e.U, e.Now)
		case "updfail":
			a = fmt.Sprintf("UpdFail %d %d", e.U, e.Now)
		case "blocked":
			// the operation did not complete while an update was inside its call:
			// observation -2, which the model never produces
			a = fmt.Sprintf("A (Refused %d)", e.Now)
			got = -2
		}
		if k.Routing {
			switch e.A {
			case "req":
				a = fmt.Sprintf("Req %d %d %d", e.Txn, e.Seq, e.Now)
			case "resp":
				a = fmt.Sprintf("Resp %d %d %d %d", e.Txn, e.Seq, e.Status, e.Now)
				if e.Retry {
					got = 1
				}
			default:
				a = "Acc (" + a + ")"
			}
		}
		ctor := "E"
		if k.Routing {
			ctor = "RE"
		}
		return fmt.Sprintf("%s (%s) %s %s %s", ctor, a, c.Z(got), c.Z(int64(e.Ver)), coqObsDelta(&e, k.T0, &prev))
	}))
}

const initObs = "(Obs false [0] 1 [] [] [])"

func coqObsDelta(e *Ev, t0 int64, prev *string) string {
	o := coqObs(e, t0)
	if o == *prev {
		return "None"
	}
	*prev = o
	return "(Some " + o + ")"
}

func zz(p [][2]int64, t0 int64) string {
	return c.MapList(p, func(x [2]int64) string { return c.Tuple(c.Z(x[0]-t0), c.Z(x[1])) })
}

// coqObs: the accessor state read after an event, as a Model.obs
func coqObs(e *Ev, t0 int64) string {
	rs := make([]int64, len(e.Retained))
	for i, r := range e.Retained {
		rs[i] = int64(r)
	}
	pins := make([][2]int64, len(e.Pins))
	for i, p := range e.Pins {
		pins[i] = [2]int64{int64(p[0]), int64(p[1])}
	}
	return fmt.Sprintf("(Obs %s %s %s %s %s %s)", c.B(e.PreEnq), c.ZList(rs), c.Z(int64(e.Cur)), zz(pins, 0), zz(e.TxnQ, t0), zz(e.VerQ, t0))
}

// ------------------------------------------------------------------ monitor

// monitor restates the claims over what the implementation did; it knows
// nothing about versions, queues or anchors — only which object was handed out
// when, which object was installed when (atomic update, or the commit of a split
// one), which updates were inside their HAProxy call when, which of them failed,
// and which objects are still retained.
// At exactly t0 + 30 s it accepts either behaviour (the text does not say
// whether the retention period is closed). A transaction first seen while an
// update is inside its HAProxy call may be given the installed object or that
// update's (the text does not fix the instant within the call at which a
// successful update takes effect) — but never the object of an update that fails.
func monitor(k *Case) []c.Hit {
	var hits []c.Hit
	add := func(sig, dem, obs string) {
		hits = append(hits, c.Hit{Signature: sig, Demanded: dem, Observed: obs, Case: k})
	}
	type sight struct {
		at       int64
		obj, tag int
	}
	failed := map[int]int{} // object of a failed / refused update -> index of the failure
	for i, e := range k.Events {
		if e.A == "updfail" || e.A == "refused" {
			failed[e.Obj] = i
		}
	}
	current, previous := 0, 0
	calling := map[int]bool{} // objects of the updates inside their HAProxy call
	first := map[int]sight{}
	lastAnchor := map[int]int64{} // object -> latest instant a transaction was first seen with it
	for i, e := range k.Events {
		switch e.A {
		case "update", "updcommit":
			previous, current = current, e.Obj
			delete(calling, e.Obj)
		case "updbegin":
			calling[e.Obj] = true
		case "updfail":
			delete(calling, e.Obj)
		case "get":
			if fi, bad := failed[e.Obj]; bad && e.Obj >= 0 {
				add("failed-update-visible:get",
					fmt.Sprintf("the update that supplied object %d failed (event %d): no transaction is ever given that object", e.Obj, fi),
					fmt.Sprintf("event %d at %s handed object %d to transaction %d", i, e.Rel, e.Obj, e.Txn))
			}
			f, seen := first[e.Txn]
			if !seen {
				if e.InCommit {
					// arrived inside setNextVersion: the object installed before or the new one
					if e.Obj != current && e.Obj != previous && !calling[e.Obj] {
						add("first-sight-neither-old-nor-new:get",
							fmt.Sprintf("transaction %d, first seen at %s while object %d was being installed in place of object %d, uses one of the two", e.Txn, e.Rel, current, previous),
							fmt.Sprintf("event %d handed out object %d (-1 = an object that was never installed, e.g. the empty policies)", i, e.Obj))
					}
				} else if e.Obj != current && !calling[e.Obj] {
					add("first-sight-not-current:get",
						fmt.Sprintf("transaction %d, first seen at %s, uses the policies current then (object %d)", e.Txn, e.Rel, current),
						fmt.Sprintf("event %d handed out object %d", i, e.Obj))
				}
				first[e.Txn] = sight{e.Now, e.Obj, e.Tag}
				if e.Obj >= 0 {
					lastAnchor[e.Obj] = e.Now
				}
			} else if e.Now < f.at+ttl {
				if e.Obj != f.obj || e.Tag != f.tag {
					add("pin-lost:get",
						fmt.Sprintf("transaction %d (first seen %s with object %d, tag %d) keeps them until 30 s later", e.Txn, rel(f.at-k.T0), f.obj, f.tag),
						fmt.Sprintf("event %d at %s handed out object %d, tag %d", i, e.Rel, e.Obj, e.Tag))
				}
			}
		}
		if e.A == "blocked" {
			continue // nothing was observed
		}
		for obj, at := range lastAnchor {
			if e.Now >= at+ttl {
				continue
			}
			if _, bad := failed[obj]; bad {
				continue // reported as failed-update-visible
			}
			found := false
			for _, r := range e.Retained {
				found = found || r == obj
			}
			if !found {
				add("retention:"+e.A,
					fmt.Sprintf("object %d (a transaction was first seen with it at %s) is retained until 30 s later", obj, rel(at-k.T0)),
					fmt.Sprintf("not retained after event %d (%s at %s)", i, e.A, e.Rel))
				delete(lastAnchor, obj) // report a loss once
			}
		}
	}
	return hits
}

// monitorRouting restates the property at the level of the SPOE handlers: the
// response of a transaction is processed with the policies that were current
// when the transaction was first seen (its request; the response itself when no
// request was seen), as long as it comes within 30 s; a transaction first seen
// after a reload is processed with the new policies. Which policies processed a
// response is read off the marker: object j's retry remedy answers status 500+j
// only. A retry action therefore proves "processed with object status-500"; its
// absence proves "processed with another object" when the retry state of the
// sequence is known to exist (the transaction opens the sequence, or the last
// response of the sequence got a retry action). Nothing is concluded otherwise.
func monitorRouting(k *Case) []c.Hit {
	var hits []c.Hit
	add := func(sig, dem, obs string) {
		hits = append(hits, c.Hit{Signature: sig, Demanded: dem, Observed: obs, Case: k})
	}
	// what a transaction may be processed with: the object installed when it was
	// first seen, or that of an update inside its HAProxy call at that instant
	// (see monitor) — never that of an update that fails
	type sight struct {
		at    int64
		obj   int
		cands map[int]bool
	}
	failed := map[int]int{}
	for i, e := range k.Events {
		if e.A == "updfail" || e.A == "refused" {
			failed[e.Obj] = i
		}
	}
	current, previous := 0, 0
	calling := map[int]bool{}
	first := map[int]sight{}
	alive := map[int]bool{}
	lastAnchor := map[int]int64{}
	for i, e := range k.Events {
		switch e.A {
		case "update", "updcommit":
			previous, current = current, e.Obj
			delete(calling, e.Obj)
		case "updbegin":
			calling[e.Obj] = true
		case "updfail":
			delete(calling, e.Obj)
		case "req", "resp":
			f, seen := first[e.Txn]
			if !seen {
				f = sight{e.Now, current, map[int]bool{current: true}}
				for o := range calling {
					f.cands[o] = true
				}
				if e.InCommit { // arrived inside setNextVersion: the object installed before or the new one
					f.cands[previous] = true
				}
				first[e.Txn] = f
				lastAnchor[current] = e.Now
			}
			if strings.HasPrefix(e.Err, "panic:") {
				add("transaction-not-processed:"+e.A,
					fmt.Sprintf("the %s of transaction %d (first seen %s under object %d) is processed with the policies of object %d", e.A, e.Txn, rel(f.at-k.T0), f.obj, f.obj),
					fmt.Sprintf("event %d at %s: the handler panicked: %s", i, e.Rel, e.Err))
				break
			}
			if e.A == "req" {
				break
			}
			j := e.Status - 500
			within := e.Now < f.at+ttl
			if e.Retry {
				if fi, bad := failed[j]; bad {
					add("failed-update-visible:resp",
						fmt.Sprintf("the update that supplied object %d failed (event %d): no transaction is ever processed with that object", j, fi),
						fmt.Sprintf("event %d at %s: status %d of transaction %d answered by the retry remedy of object %d", i, e.Rel, e.Status, e.Txn, j))
				} else if within && !f.cands[j] {
					add("response-used-other-version:resp",
						fmt.Sprintf("response of transaction %d (first seen %s under object %d) is processed with object %d", e.Txn, rel(f.at-k.T0), f.obj, f.obj),
						fmt.Sprintf("event %d at %s: status %d answered by the retry remedy of object %d", i, e.Rel, e.Status, j))
				}
				alive[e.Seq] = true
			} else {
				if within && j == f.obj && len(f.cands) == 1 && (e.Txn == e.Seq || alive[e.Seq]) {
					add("response-not-processed-with-pinned-version:resp",
						fmt.Sprintf("response of transaction %d (first seen %s under object %d) is processed with object %d, whose retry remedy answers status %d", e.Txn, rel(f.at-k.T0), f.obj, f.obj, e.Status),
						fmt.Sprintf("event %d at %s: no retry action (sequence %d has retry state): other policies were used", i, e.Rel, e.Seq))
				}
				alive[e.Seq] = false
			}
		}
		if e.A == "blocked" {
			continue
		}
		for obj, at := range lastAnchor {
			if e.Now >= at+ttl {
				continue
			}
			found := false
			for _, r := range e.Retained {
				found = found || r == obj
			}
			if !found {
				add("retention:"+e.A,
					fmt.Sprintf("object %d (a transaction was first seen under it at %s) is retained until 30 s later", obj, rel(at-k.T0)),
					fmt.Sprintf("not retained after event %d (%s at %s)", i, e.A, e.Rel))
				delete(lastAnchor, obj)
			}
		}
	}
	return hits
}

func runRouting(o *c.Out, k Case) {
	k.Routing = true
	exec(&k)
	if len(k.Events) == 0 {
		return
	}
	ups, retries, resps, foreign, across := 0, 0, 0, 0, 0
	seenAt := map[int]int{} // txn -> number of updates when first seen
	w := windowStats(&k)
	for _, e := range k.Events {
		switch e.A {
		case "update", "updcommit":
			ups++
		case "req", "resp":
			if _, ok := seenAt[e.Txn]; !ok {
				seenAt[e.Txn] = ups
			}
			if e.A == "resp" {
				resps++
				if e.Retry {
					retries++
				}
				if e.Txn != e.Seq {
					foreign++
				}
				if seenAt[e.Txn] != ups {
					across++
				}
			}
		}
	}
	o.Count(fmt.Sprintf("routing:responses=%d", min(resps, 8)))
	o.Count(fmt.Sprintf("routing:updates=%d", min(ups, 6)))
	if foreign > 0 {
		o.Count("routing:has_response_with_id!=sequence_id")
	}
	if across > 0 {
		o.Count("routing:has_reload_between_request_and_response")
	}
	o.CountN("routing:retry_actions", retries)
	w.count(o, "routing:")
	countFailsafe(o, "routing:", &k)
	idx := o.Case("routing", coq(&k), k, (foreign > 0 && across > 0 && retries > 0) || (w.firstInsideThenAgain && retries > 0))
	o.MonitorChecked(1)
	for _, h := range monitorRouting(&k) {
		h.Suite, h.Index = "routing", idx
		o.Hit(h)
	}
}

// gridRouting: sequence opened by ordinary transaction 1; its retried attempt 2
// (id != sequence id); reload before / after the attempt's request; response
// after d; status of the object current at the request or at the response.
func gridRouting(o *c.Out) {
	for _, d := range []int64{0, 1, tick, ttl - 1, ttl, ttl + 1} {
		for _, upBefore := range []bool{false, true} {
			for _, upBetween := range []int{0, 1, 2} {
				for _, passes := range [][]Op{{}, {{K: "ticktxn"}, {K: "tickver"}}} {
					for _, probe := range []string{"request", "response"} {
						for _, foreign := range []bool{true, false} {
							obj := 0
							ops := []Op{{K: "req", Txn: 1, Seq: 1}, {K: "resp", Txn: 1, Seq: 1, Status: 500}}
							if upBefore {
								obj++
								ops = append(ops, Op{K: "update", Tag: 1})
							}
							seq := 1
							if !foreign {
								seq = 2
							}
							atReq := obj
							ops = append(ops, Op{K: "req", Txn: 2, Seq: seq})
							for u := 0; u < upBetween; u++ {
								obj++
								ops = append(ops, Op{K: c.Pick(o.Rng, []string{"update", "revert"}), Tag: 2})
							}
							ops = append(ops, Op{K: "adv", D: d})
							ops = append(ops, passes...)
							st := 500 + atReq
							if probe == "response" {
								st = 500 + obj
							}
							ops = append(ops, Op{K: "resp", Txn: 2, Seq: seq, Status: st},
								Op{K: "req", Txn: 3, Seq: 3}, Op{K: "resp", Txn: 3, Seq: 3, Status: 500 + obj})
							runRouting(o, Case{Ops: ops})
						}
					}
				}
			}
		}
	}
}

// randomRouting: 1-3 sequences, each an ordinary transaction followed by 0-3
// retried attempts (strictly one after the other inside a sequence, sequences
// interleaved), reloads / reverts / refused reloads, clock advances and vacuum
// passes in between. The status of a response is mostly the marker of the
// object current when the transaction was first seen (by the generator's own
// count of reloads), sometimes that of the object current at the response or of
// a random one.
func randomRouting(o *c.Out) {
	r := o.Rng
	deltas := []int64{0, 1, sec, tick, 2 * tick, 25 * sec, ttl - 1, ttl, ttl + 1}
	for i := 0; i < o.Scale(1200, 8000, 20000); i++ {
		k := Case{Auto: r.Bool()}
		type txn struct{ id, seq int }
		nseq := r.Range(1, 3)
		queues := make([][]txn, nseq) // pending transactions per sequence
		next := 1
		for s := range queues {
			head := next
			next++
			queues[s] = append(queues[s], txn{head, head})
			for a := r.Intn(4); a > 0; a-- {
				queues[s] = append(queues[s], txn{next, head})
				next++
			}
		}
		phase := make([]int, nseq) // 0 = request next, 1 = response next
		var fl [][2]int            // updates inside their HAProxy call: (id, object)
		nextU := 1
		firstObj := map[int]int{}
		obj, objs := 0, 1
		left := 0
		for _, q := range queues {
			left += len(q)
		}
		for left > 0 && len(k.Ops) < 60 {
			x := r.Intn(100)
			switch {
			case x < 50:
				s := r.Intn(nseq)
				if len(queues[s]) == 0 {
					continue
				}
				t := queues[s][0]
				if phase[s] == 0 {
					phase[s] = 1
					if r.Chance(1, 20) {
						continue // the request never reaches the engine
					}
					k.Ops = append(k.Ops, Op{K: "req", Txn: t.id, Seq: t.seq})
					firstObj[t.id] = obj
					continue
				}
				if _, ok := firstObj[t.id]; !ok {
					firstObj[t.id] = obj
				}
				st := 500 + firstObj[t.id]
				switch y := r.Intn(10); {
				case y == 0:
					st = 500 + obj
				case y == 1:
					st = 500 + r.Intn(objs)
				}
				k.Ops = append(k.Ops, Op{K: "resp", Txn: t.id, Seq: t.seq, Status: st})
				phase[s] = 0
				queues[s] = queues[s][1:]
				left--
			case x < 60:
				k.Ops = append(k.Ops, Op{K: c.Pick(r, []string{"update", "update", "revert"}), Tag: r.Intn(4), Via: pickVia(r, 45)})
				obj = objs
				objs++
			case x < 66:
				if len(fl) >= 2 || blockedSeen >= 8 {
					continue
				}
				k.Ops = append(k.Ops, Op{K: "begin", U: nextU, Tag: r.Intn(4), Rev: r.Chance(1, 4), Via: pickVia(r, 45)})
				fl = append(fl, [2]int{nextU, objs})
				nextU++
				objs++
			case x < 72:
				if len(fl) == 0 {
					continue
				}
				w := r.Intn(len(fl))
				if r.Chance(2, 3) {
					k.Ops = append(k.Ops, Op{K: "commit", U: fl[w][0]})
					obj = fl[w][1]
				} else {
					k.Ops = append(k.Ops, Op{K: "fail", U: fl[w][0]})
				}
				fl = append(fl[:w], fl[w+1:]...)
			case x < 74:
				k.Ops = append(k.Ops, Op{K: "refuse", Tag: r.Intn(4), Via: pickVia(r, 45)})
				objs++
			case x < 86:
				k.Ops = append(k.Ops, Op{K: "adv", D: c.Pick(r, deltas)})
			case x < 93:
				k.Ops = append(k.Ops, Op{K: "tickver"})
			default:
				k.Ops = append(k.Ops, Op{K: "ticktxn"})
			}
		}
		runRouting(o, k)
	}
}

// ------------------------------------------------------------------ main

func run(o *c.Out, k Case) {
	exec(&k)
	w := windowStats(&k)
	ups, removed, relook, atEdge := 0, false, false, false
	firstAt := map[int]int64{}
	maxRet := 0
	for i, e := range k.Events {
		if e.A == "update" || e.A == "updcommit" {
			ups++
		}
		if i > 0 && e.A != "blocked" && k.Events[i-1].A != "blocked" && len(e.Retained) < len(k.Events[i-1].Retained) {
			removed = true
		}
		if len(e.Retained) > maxRet {
			maxRet = len(e.Retained)
		}
		if e.A == "get" {
			if at, ok := firstAt[e.Txn]; ok {
				if ups > 0 {
					relook = true
				}
				if d := e.Now - at - ttl; d >= -1 && d <= 1 {
					atEdge = true
				}
			} else {
				firstAt[e.Txn] = e.Now
			}
		}
	}
	if len(k.Events) == 0 {
		return // only clock advances / passes of loops that are not running yet
	}
	switch n := len(k.Events); {
	case n < 5:
		o.Count("events=01-04")
	case n < 10:
		o.Count("events=05-09")
	case n < 20:
		o.Count("events=10-19")
	case n < 40:
		o.Count("events=20-39")
	default:
		o.Count("events=40+")
	}
	o.Count(fmt.Sprintf("updates=%d", ups))
	o.Count(fmt.Sprintf("max_retained=%d", maxRet))
	if removed {
		o.Count("a_version_was_removed")
	}
	if k.Fallbacks > 0 {
		o.Count("anchored_version_gone_fallback_to_current")
	}
	if k.Reanchored > 0 {
		o.Count("anchor_vacuumed_then_reanchored")
	}
	if atEdge {
		o.Count("relookup_within_1ns_of_30s")
	}
	w.count(o, "")
	_, across := countFailsafe(o, "", &k)
	idx := o.Case("hist", coq(&k), k, (ups > 0 && relook && removed) || w.firstInsideThenAgain)
	o.MonitorChecked(1)
	for _, h := range monitor(&k) {
		h.Suite, h.Index = "hist", idx
		o.Hit(h)
	}
	// the same executed history with the entry points as distinct operations
	if term, ok := coqFailsafe(&k); ok {
		o.Case("failsafe", term, k, across)
		o.Count("failsafe:cases")
		standin := false
		for _, e := range k.Events {
			standin = standin || e.Standin
		}
		if standin {
			o.Count("failsafe:has_observation_with_the_standin_current")
		}
	}
}

// windowStats: what happened inside HAProxy call windows (distribution counters
// and the non-trivial rule; not used by the monitors).
type wstats struct {
	windows, failedW, insideOps, overlapping, nestedAtomic, blocked int
	firstInside, againInside, insideCommit                      int
	firstInsideThenAgain                                        bool // a transaction first seen inside a window is looked up again after that window
}

func windowStats(k *Case) wstats {
	var w wstats
	seen := map[int]bool{}
	insideOf := map[int][]int{} // txn first seen inside the windows of these updates
	for _, e := range k.Events {
		switch e.A {
		case "updbegin":
			w.windows++
			if len(e.InFlight) > 1 {
				w.overlapping++
			}
		case "updfail":
			w.failedW++
		case "blocked":
			w.blocked++
		case "update":
			if len(e.InFlight) > 0 {
				w.nestedAtomic++
			}
		}
		if len(e.InFlight) > 0 && e.A != "updbegin" {
			w.insideOps++
		}
		if e.InCommit {
			w.insideCommit++
		}
		if e.A == "get" || e.A == "req" || e.A == "resp" {
			if !seen[e.Txn] {
				seen[e.Txn] = true
				if len(e.InFlight) > 0 {
					w.firstInside++
					insideOf[e.Txn] = e.InFlight
				}
			} else {
				if len(e.InFlight) > 0 {
					w.againInside++
				}
				for _, u := range insideOf[e.Txn] {
					still := false
					for _, v := range e.InFlight {
						still = still || u == v
					}
					if !still {
						w.firstInsideThenAgain = true
					}
				}
			}
		}
	}
	return w
}

func (w wstats) count(o *c.Out, pre string) {
	if w.insideCommit > 0 {
		o.Count(pre + "has_lookup_arriving_inside_setNextVersion")
	}
	if w.windows == 0 {
		return
	}
	o.Count(pre + "has_update_split_at_its_haproxy_call")
	o.CountN(pre+"window:actions_inside_a_call", w.insideOps)
	if w.failedW > 0 {
		o.Count(pre + "window:has_failed_call")
	}
	if w.overlapping > 0 {
		o.Count(pre + "window:has_overlapping_updates")
	}
	if w.nestedAtomic > 0 {
		o.Count(pre + "window:has_whole_update_inside_a_call")
	}
	if w.firstInside > 0 {
		o.Count(pre + "window:has_txn_first_seen_inside_a_call")
	}
	if w.againInside > 0 {
		o.Count(pre + "window:has_txn_seen_again_inside_a_call")
	}
	if w.firstInsideThenAgain {
		o.Count(pre + "window:has_txn_first_seen_inside_a_call_and_again_after_it")
	}
	if w.blocked > 0 {
		o.Count(pre + "window:has_blocked_operation")
	}
}

func main() {
	zerolog.SetGlobalLevel(zerolog.Disabled)
	o := c.NewOut("C11")
	http.DefaultClient.Transport = stub
	entrySetup()
	o.DeclareSuite("hist", "From Verif Require Import C11.Model.", "case", "run_case")
	o.DeclareSuite("routing", "From Verif Require Import C11.Model.", "rcase", "run_rcase")
	o.DeclareSuite("fine", "From Verif Require Import C11.Model C11.Fine.", "fcase", "run_fcase")
	o.DeclareSuite("failsafe", "From Verif Require Import C11.Model C11.Failsafe.", "case_failsafe", "run_failsafe")
	log.Logger = zerolog.New(io.Discard).Hook(fineHook{})
	o.Rule("histories of look-ups (3-4 transactions), reloads/reverts/refused reloads (fresh object each), " +
		"clock advances and single passes of the two real vacuum loops: (a) every sequence up to a length bound over " +
		"{get t1, get t2, update, +30s-1ns, +1ns, +5s, pass txn-vacuum, pass version-vacuum}, alone and after [get t1; update]; " +
		"(b) a grid of request/reload/response scenarios with instants at 30 s -1/0/+1 ns after the first sight and after the reload; " +
		"(c) random histories, half of them with the loops waking every 5 s by themselves, advances aimed at pending deadlines +-1 ns; " +
		"distinct = distinct executed event lists; non-trivial = a reload, a later look-up of an already seen transaction and a removed version. " +
		"Suite routing: the same accessor behind the real processRequest/processResponse (policy mode): sequences of an ordinary transaction and " +
		"retried attempts (id != sequence id), reloads between a request and its response, response status = marker of the object current at " +
		"the request (mostly) / at the response / random; grid + random; non-trivial = a response with id != sequence id, a reload between a " +
		"request and its response, and a retry action; or a transaction first seen inside the HAProxy call window of an update (grid: request inside/before " +
		"the window x call succeeds/fails x one more update x response inside/after x marker of object 0/1/2; random) and seen again after it, and a retry action. " +
		"Suite fine: goroutines of look-ups, updates and the two vacuum passes held at the call-outs of the code (clock readings, the two log lines of the " +
		"look-up, the HAProxy call) while others run: grid (two first look-ups of one transaction in progress with an update before/between/after their " +
		"setTxnVersion sections; the clock readings of a look-up's and an update's VacuumKey in either order; a pass finishing on an old snapshot / clock " +
		"reading; the fallback branch with an update in between; overlapping setNextVersion) + random schedules decided step by step; non-trivial = at least " +
		"3 steps ran while another goroutine was inside an operation. " +
		"Entry points (all three suites): about half of the updates of the random generators and dedicated grids go through the REAL RevertToDiagnosisFree / " +
		"RevertToLastLoaded / ReloadFromFile / UpdateRawData (the harness writes the file they read; the object is built by the code, diagnosisFreeReverted included): " +
		"fail-safe activates, a request is first seen, the fail-safe is lifted through each entry point (atomic, split at the HAProxy call, held at setNextVersion's clock reading), " +
		"the response 0 / 1 ns / 5 s / 30 s -1/0/+1 ns later with passes; the fail-safe flapping. " +
		"Suite failsafe: every history of suite hist with at least one update through a real entry point, written once more with the entry points as distinct " +
		"operations of Failsafe.estep (Via RevertToDiagnosisFree ...) and the observables: object handed out / version anchored, currentVersion, whether the current " +
		"PoliciesData carries diagnosisFreeReverted (read back by reflection), retained objects with that flag; non-trivial = a transaction first seen while the " +
		"object installed by RevertToDiagnosisFree was current is seen again < 30 s later after another update")
	var k Case
	if suite, ok := o.ReplayCase(&k); ok {
		if suite == "fine" || k.Fine {
			runFine(o, k, o.Rng)
		} else if suite == "routing" || k.Routing {
			runRouting(o, k)
		} else {
			run(o, k)
		}
		o.Finish()
		return
	}
	if !o.Search() {
		exhaustive(o)
		grid(o)
		windowGrid(o)
		commitArrivals(o)
		failsafeGrid(o)
		gridRouting(o)
		failsafeGridRouting(o)
		windowGridRouting(o)
		commitArrivalsRouting(o)
		fineGrid(o)
		fineFailsafe(o)
	}
	fineRandom(o)
	random(o)
	randomWindows(o)
	randomRouting(o)
	if blockedSeen > 0 {
		o.Note(fmt.Sprintf("%d operations did not complete while an update was inside its HAProxy call (they waited for a lock the update holds); "+
			"window cases stop being generated after 8", blockedSeen))
	}
	if fineStuck > 0 {
		o.Note(fmt.Sprintf("suite fine: in %d histories a goroutine reached no call-out within %v (it waits for a lock held by a goroutine parked at a call-out); "+
			"the suite stops after 4", fineStuck, stuckBound))
	}
	if entryErrors > 0 {
		o.Note(fmt.Sprintf("%d calls of a real update entry point failed although HAProxy answered (nothing was installed; recorded as refused updates); first: %s",
			entryErrors, entryErrMsg))
	}
	if standinFieldMissing {
		o.Note("PoliciesData has no bool field diagnosisFreeReverted: the stand-in flag could not be read (suite failsafe compares false)")
	}
	if vacuumNeverStarts {
		o.Note("a vacuum loop was never seen entering Sleep after the first VacuumKey; its passes could not be driven")
	}
	o.Finish()
}

func exhaustive(o *c.Out) {
	alpha := []Op{
		{K: "get", Txn: 1}, {K: "get", Txn: 2}, {K: "update", Tag: 1},
		{K: "adv", D: ttl - 1}, {K: "adv", D: 1}, {K: "adv", D: tick},
		{K: "ticktxn"}, {K: "tickver"},
	}
	var rec func(prefix []Op, left int)
	rec = func(prefix []Op, left int) {
		if len(prefix) > 0 {
			run(o, Case{Ops: append([]Op(nil), prefix...)})
		}
		if left == 0 {
			return
		}
		for _, a := range alpha {
			rec(append(prefix, a), left-1)
		}
	}
	rec(nil, o.Scale(3, 4, 0))
	rec([]Op{{K: "get", Txn: 1}, {K: "update", Tag: 1}}, o.Scale(4, 5, 0))
}

// grid: request of t1, reload after a, (request of t2), clock to b after the
// request, passes in every order/subset, response of t1, +1 ns, passes again,
// response again, a new transaction.
func grid(o *c.Out) {
	passes := [][]Op{{}, {{K: "ticktxn"}}, {{K: "tickver"}}, {{K: "ticktxn"}, {K: "tickver"}}, {{K: "tickver"}, {K: "ticktxn"}}}
	for _, a := range []int64{0, 1, tick} {
		for _, b := range []int64{ttl - 1, ttl, ttl + 1, a + ttl, a + ttl + 1} {
			if b < a {
				continue
			}
			for _, p1 := range passes {
				for _, p2 := range passes {
					for _, second := range []string{"update", "revert", ""} {
						ops := []Op{{K: "get", Txn: 1}, {K: "adv", D: a}, {K: "update", Tag: 1}, {K: "get", Txn: 2}}
						if second != "" {
							ops = append(ops, Op{K: second, Tag: 0})
						}
						ops = append(ops, Op{K: "adv", D: b - a})
						ops = append(ops, p1...)
						ops = append(ops, Op{K: "get", Txn: 1}, Op{K: "adv", D: 1})
						ops = append(ops, p2...)
						ops = append(ops, Op{K: "get", Txn: 1}, Op{K: "get", Txn: 2}, Op{K: "get", Txn: 3})
						run(o, Case{Ops: ops})
					}
				}
			}
		}
	}
}

func random(o *c.Out) {
	r := o.Rng
	deltas := []int64{0, 1, tick - 1, tick, tick + 1, 2 * tick, 25 * sec, ttl - 1, ttl, ttl + 1, ttl + tick}
	for i := 0; i < o.Scale(1500, 10000, 30000); i++ {
		k := Case{Auto: r.Bool()}
		n := r.Range(4, 24)
		now := int64(0)
		var marks []int64 // instants of look-ups and reloads: deadlines are 30 s later
		ntx := r.Range(1, 4)
		for j := 0; j < n; j++ {
			x := r.Intn(100)
			switch {
			case x < 34:
				k.Ops = append(k.Ops, Op{K: "get", Txn: r.Range(1, ntx)})
				marks = append(marks, now)
			case x < 46:
				k.Ops = append(k.Ops, Op{K: c.Pick(r, []string{"update", "update", "revert"}), Tag: r.Intn(4), Via: pickVia(r, 45)})
				marks = append(marks, now)
			case x < 48:
				k.Ops = append(k.Ops, Op{K: "refuse", Tag: r.Intn(4), Via: pickVia(r, 45)})
			case x < 64:
				d := c.Pick(r, deltas)
				k.Ops = append(k.Ops, Op{K: "adv", D: d})
				now += d
			case x < 80:
				if len(marks) == 0 {
					continue
				}
				target := c.Pick(r, marks) + ttl + int64(r.Range(-1, 2))
				if target <= now {
					continue
				}
				k.Ops = append(k.Ops, Op{K: "adv", D: target - now})
				now = target
			case x < 90:
				k.Ops = append(k.Ops, Op{K: "tickver"})
			default:
				k.Ops = append(k.Ops, Op{K: "ticktxn"})
			}
		}
		if len(k.Ops) == 0 {
			continue
		}
		run(o, k)
	}
}
