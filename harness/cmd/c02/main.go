// C02 harness: concurrency quotas bound in-flight requests and always free
// their slots.
//
//	suite "res"  operations (GetQuota / Inc / Allowed / Dec / OnRequestDrop /
//	             OnResponseFinish / one GC pass), each on a stream with its own
//	             transaction id and sequence id, run to completion, in generated
//	             interleavings of several transactions, on the real quota objects
//	             loaded through resources.NewResourceManagement();
//	suite "eng"  request / response / early-response / proxy-error / clock-advance
//	             histories (streams with transaction id + sequence id; flows in
//	             which the concurrency quota is not the first quota met) through
//	             streams.NewStream().Initialize() + ExecuteFlow,
//	             GC through the real runGC goroutines driven by the mock clock.
//
// Observables: verdict of every Allowed / Limiter, the slot count of every quota
// after every step, the verdicts of the final fresh probes.
package main

import (
	"fmt"
	"os"
	"strings"
	"time"

	c "verifharness/common"
)

// ------------------------------------------------------------------ cases

type RStep struct {
	Kind   string  `json:"kind"` // tick op gc
	Dt     int64   `json:"dt_ns,omitempty"`
	Op     *Op     `json:"op,omitempty"`
	Q      int     `json:"gc_quota,omitempty"`
	Probe  bool    `json:"probe,omitempty"`
	V      int     `json:"verdict"`
	Counts []int64 `json:"counts"`
}

type ResCase struct {
	Gen   string  `json:"generator"`
	Cfg   Cfg     `json:"config"`
	Steps []RStep `json:"steps"`
}

type EStep struct {
	Kind   string  `json:"kind"` // req resp err adv
	R      int     `json:"txn,omitempty"`
	Seq    int     `json:"seq"`                 // sequence id of the stream (req / resp); err: Stream.OnError knows the transaction id only
	Ask    bool    `json:"ask_early,omitempty"` // req: carries the header that makes a "chain" flow answer it after admission
	At     *SAttr  `json:"stream,omitempty"`    // req / resp: method, path, headers (of the stream's own direction), query; nil: GET <host>/x, no headers
	Dt     int64   `json:"dt_ns,omitempty"`
	Probe  bool    `json:"probe,omitempty"`
	Trace  []Pev   `json:"processors"`
	Early  bool    `json:"answered_early"`
	Err    string  `json:"error,omitempty"`
	Segs   []Seg   `json:"segments,omitempty"`
	Counts []int64 `json:"counts"`
}

type EngCase struct {
	Cfg   EngCfg  `json:"config"`
	Steps []EStep `json:"steps"`
}

// ------------------------------------------------------------------ resource level: execution

type resRun struct {
	x    *resExec
	k    *ResCase
	log  []LogEntry
	cnts [][]int64
	acqT []acqT // acquire instants, to aim clock readings at expiry edges
}

type acqT struct {
	t int64
	q int
}

var tSetup, tFinish time.Duration

func startRes(k *ResCase) *resRun {
	t0 := time.Now()
	defer func() { tSetup += time.Since(t0) }()
	x, err := newResExec(&k.Cfg)
	if err != nil {
		fmt.Fprintln(os.Stderr, "resource set-up failed:", err)
		os.Exit(3)
	}
	return &resRun{x: x, k: k}
}

// do executes a step on the implementation, fills in its observations and logs it.
func (rr *resRun) do(s RStep) RStep {
	s.V = -1
	switch s.Kind {
	case "tick":
		rr.x.tick(s.Dt)
		rr.log = append(rr.log, LogEntry{Kind: "tick", T: rr.x.now, Verdict: -1})
	case "gc":
		rr.x.gc(s.Q)
		rr.log = append(rr.log, LogEntry{Kind: "gc", Q: s.Q, T: rr.x.now, Verdict: -1})
	case "op":
		s.V = rr.x.op(*s.Op)
		rr.log = append(rr.log, LogEntry{Kind: "op", Op: *s.Op, Verdict: s.V, T: rr.x.now, Probe: s.Probe})
		if s.Op.Name == "inc" || s.Op.Name == "allowed" {
			for _, q := range rr.k.Cfg.chain(s.Op.Q) {
				rr.acqT = append(rr.acqT, acqT{rr.x.now, q})
			}
		}
	default:
		panic("bad step " + s.Kind)
	}
	s.Counts = rr.x.counts()
	rr.cnts = append(rr.cnts, s.Counts)
	rr.k.Steps = append(rr.k.Steps, s)
	return s
}

func (rr *resRun) op(r int, name string, q int, probe bool) int {
	return rr.opS(r, r, name, q, probe)
}

// opS: the operation on a stream whose sequence id differs from (or equals) the transaction id
func (rr *resRun) opS(r, seq int, name string, q int, probe bool) int {
	return rr.do(RStep{Kind: "op", Op: &Op{R: r, Name: name, Q: q, Seq: seq}, Probe: probe}).V
}

func coqRes(k *ResCase) string {
	return c.Tuple(k.Cfg.coq(), c.MapList(k.Steps, func(s RStep) string {
		var st string
		switch s.Kind {
		case "tick":
			st = "R2Tick " + c.Z(s.Dt)
		case "gc":
			st = "R2Gc " + c.Z(int64(s.Q))
		default:
			st = "R2Op " + c.Z(int64(s.Op.R)) + " " + c.Z(int64(s.Op.Seq)) + " " + s.Op.coq()
		}
		return c.Tuple(st, c.Tuple(c.Z(int64(s.V)), c.ZList(s.Counts)))
	}))
}

func finishRes(o *c.Out, rr *resRun) {
	t0 := time.Now()
	defer func() { tFinish += time.Since(t0) }()
	rr.x.close()
	k := rr.k
	refusal, release := false, false
	var prev []int64
	for _, s := range k.Steps {
		if s.Kind == "op" && s.Op.Name == "allowed" && s.V == 0 {
			refusal = true
		}
		for i := range s.Counts {
			if prev != nil && s.Counts[i] < prev[i] {
				release = true
			}
		}
		prev = s.Counts
	}
	o.Count("res:gen=" + strings.SplitN(k.Gen, ":", 2)[0])
	{
		other := false
		for _, s := range k.Steps {
			if s.Kind == "op" && s.Op.Seq != s.Op.R {
				other = true
			}
		}
		o.Count(fmt.Sprintf("res:some-stream-with-seq!=id=%v", other))
		if k.Cfg.Foreign > 0 {
			o.Count("res:rate-quota-present")
		}
		if len(k.Cfg.Filters) > 0 {
			o.Count("res:quotas-declared-with-filters")
		}
		for _, e := range rr.x.opErrs {
			o.Count("res:IMPLEMENTATION-ERROR " + e)
		}
	}
	// phasedness (Phased.calls_phasedb) of the operation sequence: reported, not
	// demanded — the op-soups re-acquire after a release on purpose, the tie
	// between model and code must hold there too
	{
		released, ph := map[int]bool{}, true
		for _, s := range k.Steps {
			if s.Kind != "op" {
				continue
			}
			switch s.Op.Name {
			case "inc", "allowed":
				if released[s.Op.R] {
					ph = false
				}
			case "dec", "drop", "finish":
				released[s.Op.R] = true
			}
		}
		o.Count(fmt.Sprintf("res:phased=%v", ph))
	}
	o.Count("res:instance-id=" + instanceKey(&k.Cfg))
	o.Count(fmt.Sprintf("res:quotas=%d", len(k.Cfg.Rows)))
	o.Count(fmt.Sprintf("res:steps=%02d-%02d", len(k.Steps)/10*10, len(k.Steps)/10*10+9))
	idx := o.Case("res", coqRes(k), k, refusal && release)
	o.MonitorChecked(1)
	for _, h := range toHits("res", idx, runMonitor(&k.Cfg, rr.log, rr.cnts), k) {
		o.Hit(h)
	}
}

// replayRes re-executes the recorded steps of a case.
func replayRes(o *c.Out, old ResCase) {
	k := &ResCase{Gen: old.Gen, Cfg: old.Cfg}
	rr := startRes(k)
	for _, s := range old.Steps {
		rr.do(RStep{Kind: s.Kind, Dt: s.Dt, Op: s.Op, Q: s.Q, Probe: s.Probe})
	}
	finishRes(o, rr)
}

// ------------------------------------------------------------------ resource level: generators

func genCfg(r *c.Rng, engine bool) Cfg {
	mx := func() int64 {
		if !engine && r.Chance(1, 25) {
			return 0
		}
		return int64(r.Range(1, 3))
	}
	row := func(parent int) QRow {
		gc := hugeGC
		if engine {
			gc = int64(r.Range(1, 3))
		}
		return QRow{Max: mx(), TTLSec: int64(r.Range(1, 3)), GCSec: gc, Parent: parent}
	}
	var rows []QRow
	shape := r.Intn(6)
	if engine {
		shape = r.Intn(2)
	}
	switch shape {
	case 0:
		rows = []QRow{row(-1)}
	case 1, 5:
		rows = []QRow{row(-1), row(0)}
	case 2:
		rows = []QRow{row(-1), row(0), row(-1)}
	case 3:
		rows = []QRow{row(-1), row(0), row(0)}
	case 4:
		rows = []QRow{row(-1), row(0), row(1)}
	}
	return Cfg{Rows: rows, Instance: pickInstance(r)}
}

// aimed clock increment: lands on (or 1 ns around) the expiry of a slot taken
// earlier, with and without the 10 ms slack; otherwise a plain step.
func (rr *resRun) aimedDt(r *c.Rng) int64 {
	if len(rr.acqT) > 0 && r.Chance(3, 4) {
		a := c.Pick(r, rr.acqT)
		base := a.t + rr.k.Cfg.Rows[a.q].TTLSec*sec
		if r.Chance(3, 4) {
			base += deltaNs
		}
		t := base + int64(r.Range(-1, 1))
		if t > rr.x.now {
			return t - rr.x.now
		}
	}
	return c.Pick(r, []int64{1, sec / 2, sec, sec + deltaNs, 2 * sec})
}

type txn struct {
	id      int
	seq     int // sequence id of its request / response streams
	rate    int // >= 0: a rate limiter on this (fixed-window) quota comes first in its flow
	lims    []int
	onAbove string // respond | forward
	onBelow string // forward | respond
	pending []Op
	li      int
	touched []int
	open    bool
	started bool
	done    bool
}

func (t *txn) o(name string, q int) Op { return Op{t.id, name, q, t.seq} }

// begin: what the request flow does first
func (t *txn) begin() {
	if t.rate >= 0 {
		t.pending = append(t.pending, t.o("getq", t.rate)) // the rate limiter looks its quota up: first association
	}
	t.limiterOps(t.lims[0])
}

func (t *txn) limiterOps(q int) {
	t.pending = append(t.pending, t.o("getq", q), t.o("inc", q), t.o("allowed", q))
	t.touched = append(t.touched, q)
}

// the response flows: QuotaProcessorDec of every quota the transaction went through, then OnResponseFinish
func (t *txn) responseOps() {
	for i := len(t.touched) - 1; i >= 0; i-- {
		t.pending = append(t.pending, t.o("getq", t.touched[i]), t.o("dec", t.touched[i]))
	}
	t.pending = append(t.pending, t.o("finish", 0))
}

// proxy error: Stream.OnError builds a stream with ID = SequenceID = transaction id
func (t *txn) errorOps() { t.pending = append(t.pending, Op{t.id, "drop", 0, t.id}) }

func (t *txn) after(o Op, v int) {
	if o.Name != "allowed" {
		return
	}
	if v == 1 {
		t.li++
		if t.li < len(t.lims) {
			t.limiterOps(t.lims[t.li])
			return
		}
		if t.onBelow == "respond" {
			t.pending = append(t.pending, t.o("drop", 0))
			t.responseOps()
			t.done = true
			return
		}
		t.open = true
		return
	}
	if t.onAbove == "respond" {
		t.pending = append(t.pending, t.o("drop", 0))
		t.responseOps()
		t.done = true
		return
	}
	t.open = true
}

func pickLimiters(r *c.Rng, k *Cfg) []int {
	q := r.Intn(len(k.Rows))
	lims := []int{q}
	if len(k.Rows) > 1 && r.Chance(1, 3) {
		q2 := r.Intn(len(k.Rows))
		if q2 != q {
			lims = append(lims, q2)
		}
	}
	return lims
}

// pickSeq: the sequence id of transaction i: its own id (the proxy's default),
// the id of an earlier transaction (a retry of that call — whether the earlier
// attempt is still in flight or has ended is up to the schedule), or a stamp
// several transactions share.
func pickSeq(r *c.Rng, i int) int {
	switch roll := r.Intn(10); {
	case roll < 6:
		return i
	case roll < 9 && i > 0:
		return r.Intn(i)
	default:
		return 50
	}
}

// probes: as many fresh transactions as the chain admits when it is empty, plus one.
func (rr *resRun) probes(r *c.Rng, q int) {
	n := int64(1 << 30)
	for _, x := range rr.k.Cfg.chain(q) {
		if rr.k.Cfg.Rows[x].Max < n {
			n = rr.k.Cfg.Rows[x].Max
		}
	}
	if n < 1 {
		n = 1
	}
	if r.Chance(1, 2) {
		n++
	}
	for i := int64(0); i < n; i++ {
		id := 100 + int(i)
		rr.op(id, "getq", q, true)
		rr.op(id, "inc", q, true)
		rr.op(id, "allowed", q, true)
	}
}

func (rr *resRun) expireAll(r *c.Rng) {
	var mx int64
	for _, row := range rr.k.Cfg.Rows {
		if row.TTLSec > mx {
			mx = row.TTLSec
		}
	}
	rr.do(RStep{Kind: "tick", Dt: mx*sec + sec + sec/2})
	for q := range rr.k.Cfg.Rows {
		rr.do(RStep{Kind: "gc", Q: q})
	}
}

// generator A: transaction-shaped programs (limiter chains, response / early
// answer / proxy error / abandon) interleaved at operation granularity.
func genTxnHistory(o *c.Out, r *c.Rng) {
	k := &ResCase{Gen: "transactions", Cfg: genCfg(r, false)}
	if r.Chance(1, 3) {
		k.Cfg.Foreign = 1
	}
	if r.Chance(1, 3) {
		// quotas declared with header / method / query / narrower-URL filters (children with and
		// without a filter of their own): at this level no flow is selected — the operations are
		// the same whatever the filters say
		genFilters(r, &k.Cfg)
	}
	rr := startRes(k)
	n := r.Range(2, 5)
	txns := make([]*txn, n)
	for i := range txns {
		t := &txn{id: i, seq: pickSeq(r, i), rate: -1, lims: pickLimiters(r, &k.Cfg)}
		if k.Cfg.Foreign > 0 && r.Chance(2, 3) {
			t.rate = len(k.Cfg.Rows)
		}
		t.onAbove = c.Pick(r, []string{"respond", "respond", "forward"})
		t.onBelow = c.Pick(r, []string{"forward", "forward", "forward", "respond"})
		txns[i] = t
	}
	cur := -1
	budget := r.Range(10, 45)
	for step := 0; step < budget; step++ {
		var busy []int
		for i, t := range txns {
			if len(t.pending) > 0 {
				busy = append(busy, i)
			}
		}
		roll := r.Intn(100)
		switch {
		case len(busy) > 0 && roll < 62:
			i := c.Pick(r, busy)
			if cur >= 0 && len(txns[cur].pending) > 0 && r.Chance(2, 3) {
				i = cur
			}
			cur = i
			t := txns[i]
			op := t.pending[0]
			t.pending = t.pending[1:]
			t.after(op, rr.opS(op.R, op.Seq, op.Name, op.Q, false))
		case roll < 75:
			for _, t := range txns {
				if !t.started {
					t.started = true
					t.begin()
					break
				}
			}
		case roll < 85:
			var open []*txn
			for _, t := range txns {
				if t.open && len(t.pending) == 0 {
					open = append(open, t)
				}
			}
			if len(open) > 0 {
				t := c.Pick(r, open)
				t.open = false
				t.done = true
				if r.Chance(3, 5) {
					t.responseOps()
				} else {
					t.errorOps()
				}
			}
		case roll < 93:
			rr.do(RStep{Kind: "tick", Dt: rr.aimedDt(r)})
		default:
			rr.do(RStep{Kind: "gc", Q: r.Intn(len(k.Cfg.Rows))})
		}
	}
	// final phase: complete what was begun, end or abandon the open transactions
	for _, t := range txns {
		for len(t.pending) > 0 {
			op := t.pending[0]
			t.pending = t.pending[1:]
			t.after(op, rr.opS(op.R, op.Seq, op.Name, op.Q, false))
		}
		if t.open {
			switch r.Intn(5) {
			case 0, 1:
				t.responseOps()
			case 2:
				t.errorOps()
			}
			t.open = false
			for _, op := range t.pending {
				rr.opS(op.R, op.Seq, op.Name, op.Q, false)
			}
			t.pending = nil
		}
	}
	if r.Chance(3, 5) {
		rr.expireAll(r)
	}
	rr.probes(r, r.Intn(len(k.Cfg.Rows)))
	finishRes(o, rr)
}

// generator B: unstructured operation sequences (double releases, re-acquire
// after a release, drops without a quota, GC at every edge).
func genOpSoup(o *c.Out, r *c.Rng) {
	k := &ResCase{Gen: "op-soup", Cfg: genCfg(r, false)}
	if r.Chance(1, 4) {
		k.Cfg.Foreign = 1
	}
	if r.Chance(1, 4) {
		genFilters(r, &k.Cfg)
	}
	rr := startRes(k)
	n := r.Range(2, 5)
	names := []string{"getq", "getq", "inc", "inc", "allowed", "allowed", "allowed", "allowed", "dec", "dec", "dec", "drop", "drop", "finish"}
	for step, budget := 0, r.Range(8, 32); step < budget; step++ {
		switch roll := r.Intn(100); {
		case roll < 76:
			id, name, q := r.Intn(n), c.Pick(r, names), r.Intn(len(k.Cfg.Rows))
			if name == "getq" && k.Cfg.Foreign > 0 && r.Chance(1, 2) {
				q = len(k.Cfg.Rows)
			}
			// any stream may carry any sequence id: the transaction's own id (2/3), another transaction's, a foreign stamp
			seq := id
			if r.Chance(1, 3) {
				seq = c.Pick(r, []int{r.Intn(n), 50})
			}
			rr.opS(id, seq, name, q, false)
		case roll < 88:
			rr.do(RStep{Kind: "tick", Dt: rr.aimedDt(r)})
		default:
			rr.do(RStep{Kind: "gc", Q: r.Intn(len(k.Cfg.Rows))})
		}
	}
	if r.Chance(1, 2) {
		rr.expireAll(r)
	}
	rr.probes(r, r.Intn(len(k.Cfg.Rows)))
	finishRes(o, rr)
}

// generator C: every interleaving of the operation programs of a few
// transactions on one small configuration.
func interleavings(progs [][]Op, f func([]Op)) {
	pos := make([]int, len(progs))
	var cur []Op
	var rec func()
	rec = func() {
		done := true
		for i, p := range progs {
			if pos[i] < len(p) {
				done = false
				cur = append(cur, p[pos[i]])
				pos[i]++
				rec()
				pos[i]--
				cur = cur[:len(cur)-1]
			}
		}
		if done {
			f(append([]Op(nil), cur...))
		}
	}
	rec()
}

func genExhaustive(o *c.Out, cfg Cfg, progs [][]Op, tag string) {
	interleavings(progs, func(seq []Op) {
		k := &ResCase{Gen: tag, Cfg: cfg}
		rr := startRes(k)
		for _, op := range seq {
			rr.opS(op.R, op.Seq, op.Name, op.Q, false)
		}
		leaf := len(cfg.Rows) - 1
		rr.op(100, "getq", leaf, true)
		rr.op(100, "allowed", leaf, true)
		finishRes(o, rr)
	})
}

// ------------------------------------------------------------------ engine level

type engRun struct {
	x    *engExec
	k    *EngCase
	log  []LogEntry
	cnts [][]int64
}

func startEng(k *EngCase) *engRun {
	x, err := newEngExec(&k.Cfg)
	if err != nil {
		fmt.Fprintln(os.Stderr, "engine set-up failed:", err)
		os.Exit(3)
	}
	return &engRun{x: x, k: k}
}

func (er *engRun) logOp(r, seq int, name string, q, v int, probe bool) {
	er.log = append(er.log, LogEntry{Kind: "op", Op: Op{r, name, q, seq}, Verdict: v, T: er.x.now, Probe: probe})
	er.cnts = append(er.cnts, nil)
}

func (er *engRun) do(s EStep) EStep {
	switch s.Kind {
	case "req", "resp":
		s.Trace, s.Early, s.Err = er.x.txn(s.R, s.Seq, s.Kind == "resp", s.Ask, s.At)
		for _, p := range s.Trace {
			switch p.Kind {
			case "inc":
				if p.Apply {
					er.logOp(s.R, s.Seq, "getq", p.Q, -1, s.Probe)
					er.logOp(s.R, s.Seq, "inc", p.Q, -1, s.Probe)
				}
			case "touch":
				er.logOp(s.R, s.Seq, "getq", p.Q, -1, s.Probe)
			case "lim":
				er.logOp(s.R, s.Seq, "getq", p.Q, -1, s.Probe)
				er.logOp(s.R, s.Seq, "inc", p.Q, -1, s.Probe)
				er.logOp(s.R, s.Seq, "allowed", p.Q, p.Below, s.Probe)
			case "gen":
				er.logOp(s.R, s.Seq, "drop", 0, -1, s.Probe)
			case "dec":
				er.logOp(s.R, s.Seq, "getq", p.Q, -1, s.Probe)
				er.logOp(s.R, s.Seq, "dec", p.Q, -1, s.Probe)
			case "finish":
				er.logOp(s.R, s.Seq, "finish", 0, -1, s.Probe)
			}
		}
		// the gateway itself ended the transaction: it processed its response, or it
		// answered the request (ExecuteFlow returned an early-response action)
		if s.Err == "" && (s.Kind == "resp" || s.Early) {
			how := "response processed"
			if s.Kind == "req" {
				how = "answered early"
			}
			er.log = append(er.log, LogEntry{Kind: "end", Op: Op{R: s.R, Seq: s.Seq}, How: how, Verdict: -1, T: er.x.now, Probe: s.Probe})
			er.cnts = append(er.cnts, nil)
		}
		s.Counts = er.x.counts()
	case "err":
		er.x.onError(s.R)
		s.Trace = []Pev{}
		er.logOp(s.R, s.R, "drop", 0, -1, false)
		s.Counts = er.x.counts()
	case "adv":
		segs, err := er.x.advance(s.Dt)
		if err != nil {
			fmt.Fprintln(os.Stderr, "engine clock driving failed:", err)
			os.Exit(3)
		}
		s.Segs = segs
		s.Trace = []Pev{}
		for _, g := range segs {
			if g.Gc {
				for _, q := range g.Qs {
					er.log = append(er.log, LogEntry{Kind: "gc", Q: q, T: g.T, Verdict: -1})
					er.cnts = append(er.cnts, nil)
				}
			} else {
				er.log = append(er.log, LogEntry{Kind: "tick", T: g.T, Verdict: -1})
				er.cnts = append(er.cnts, nil)
			}
			if g.Counts != nil && len(er.cnts) > 0 {
				er.cnts[len(er.cnts)-1] = g.Counts
			}
		}
		s.Counts = er.x.counts()
	default:
		panic("bad step " + s.Kind)
	}
	if len(er.cnts) > 0 {
		er.cnts[len(er.cnts)-1] = s.Counts
	}
	er.k.Steps = append(er.k.Steps, s)
	return s
}

func coqPev(p Pev) string {
	switch p.Kind {
	case "inc":
		return "POld (PInc " + c.Z(int64(p.Q)) + " " + c.B(p.Apply) + ")"
	case "lim":
		return "POld (PLim " + c.Z(int64(p.Q)) + ")"
	case "gen":
		return "POld PGen"
	case "dec":
		return "POld (PDec " + c.Z(int64(p.Q)) + ")"
	case "finish":
		return "POld PFinish"
	case "touch":
		return "PTouch " + c.Z(int64(p.Q))
	}
	panic("bad pev " + p.Kind)
}

func coqEng(k *EngCase) string {
	items := []string{}
	attrs := []string{}
	for _, s := range k.Steps {
		for len(attrs) < len(items) {
			attrs = append(attrs, "None")
		}
		switch s.Kind {
		case "req", "resp":
			attrs = append(attrs, c.Some(coqAttr(s.At, s.Kind == "resp")))
			verd := []int64{}
			for _, p := range s.Trace {
				if p.Kind == "lim" {
					verd = append(verd, int64(p.Below))
				}
			}
			items = append(items, c.Tuple("Ev2Txn "+c.Z(int64(s.R))+" "+c.Z(int64(s.Seq))+" "+c.MapList(s.Trace, coqPev),
				c.Tuple(c.ZList(verd), c.ZList(s.Counts))))
		case "err":
			items = append(items, c.Tuple("Ev2Err "+c.Z(int64(s.R)), c.Tuple("[]", c.ZList(s.Counts))))
		case "adv":
			for _, g := range s.Segs {
				if g.Gc {
					qs := make([]int64, len(g.Qs))
					for i, q := range g.Qs {
						qs[i] = int64(q)
					}
					items = append(items, c.Tuple("Ev2Gc "+c.ZList(qs), c.Tuple("[]", c.ZList(g.Counts))))
				} else {
					items = append(items, c.Tuple("Ev2Adv "+c.Z(g.Dt), c.Tuple("[]", c.ZList(g.Counts))))
				}
			}
		}
	}
	for len(attrs) < len(items) {
		attrs = append(attrs, "None")
	}
	return c.Tuple(k.Cfg.Cfg.coqFilters(), c.List(attrs), c.Tuple(k.Cfg.Cfg.coq(), c.List(items)))
}

func finishEng(o *c.Out, er *engRun) {
	er.x.close()
	k := er.k
	refusal, release, gcs := false, false, 0
	var prev []int64
	for _, s := range k.Steps {
		for _, p := range s.Trace {
			if p.Kind == "lim" && p.Below == 0 {
				refusal = true
			}
		}
		for _, g := range s.Segs {
			if g.Gc {
				gcs++
			}
		}
		for i := range s.Counts {
			if prev != nil && s.Counts[i] < prev[i] {
				release = true
			}
		}
		prev = s.Counts
		if s.Err != "" {
			o.Count("eng:execute-flow-error")
		}
	}
	o.Count("eng:style=" + k.Cfg.Style)
	o.Count("eng:instance-id=" + instanceKey(&k.Cfg.Cfg))
	o.Count(fmt.Sprintf("eng:quotas=%d", len(k.Cfg.Rows)))
	o.Count(fmt.Sprintf("eng:gc-wakeups=%02d-%02d", gcs/5*5, gcs/5*5+4))
	idx := o.Case("eng", coqEng(k), k, refusal && release)
	o.MonitorChecked(1)
	hits := runMonitor(&k.Cfg.Cfg, er.log, er.cnts)
	// the hypothesis "phased" of the uniqueness / no-leak / interleaving theorems
	// (Phased.calls_phasedb on the calls of the trace), checked on what the
	// engine really executed
	switch ph, byEngine, detail := engPhased(k); {
	case ph:
		o.Count("eng:phased=yes")
	case !byEngine:
		o.Count("eng:phased=no(harness sent a request after the response / error of the same id)")
	default:
		o.Count("eng:phased=no(ENGINE)")
		hits = append(hits, monHit{"assumption:engine-acquires-after-release",
			"within one ExecuteFlow call no quota is acquired (QuotaProcessorInc / Limiter) after a release (QuotaProcessorDec / early-response drop / finish) of the same transaction, and a response-direction call acquires nothing (hypothesis 'phased' of C02_release_once / C02_no_leak / the interleaving theorems)",
			detail})
	}
	for _, h := range toHits("eng", idx, hits, k) {
		o.Hit(h)
	}
	// reported, not demanded (the text: "... or at the latest when its expiry time
	// passes"): slots a proxy-error report left to their expiry because their
	// quota is not on the chain of the first quota the transaction met
	if n := errLeaves(k); n > 0 {
		o.CountN("eng:OBSERVATION proxy error left a slot to its expiry (quota not on the first-touched chain)", n)
	}
	seqs := false
	for _, s := range k.Steps {
		if (s.Kind == "req" || s.Kind == "resp") && s.Seq != s.R {
			seqs = true
		}
	}
	o.Count(fmt.Sprintf("eng:some-stream-with-seq!=id=%v", seqs))
	countFilters(o, k)
}

// errLeaves counts, over the processors the engine executed, the (transaction,
// quota) pairs for which a proxy-error report found the transaction admitted
// under a quota that is not on the chain of the first quota it had looked up.
func errLeaves(k *EngCase) int {
	cfg := &k.Cfg.Cfg
	first := map[int]int{}
	held := map[int]map[int]bool{}
	touch := func(r, q int) {
		if _, ok := first[r]; !ok {
			first[r] = q
		}
	}
	free := func(r, q int) {
		for _, x := range cfg.chain(q) {
			delete(held[r], x)
		}
	}
	n := 0
	for _, s := range k.Steps {
		switch s.Kind {
		case "req", "resp":
			for _, p := range s.Trace {
				switch p.Kind {
				case "touch":
					touch(s.R, p.Q)
				case "inc":
					if p.Apply {
						touch(s.R, p.Q)
					}
				case "lim":
					touch(s.R, p.Q)
					if p.Below == 1 {
						if held[s.R] == nil {
							held[s.R] = map[int]bool{}
						}
						for _, x := range cfg.chain(p.Q) {
							held[s.R][x] = true
						}
					}
				case "gen":
					if f, ok := first[s.R]; ok {
						free(s.R, f)
					}
					delete(first, s.R)
				case "dec":
					touch(s.R, p.Q)
					free(s.R, p.Q)
				case "finish":
					delete(first, s.R)
				}
			}
		case "err":
			if f, ok := first[s.R]; ok {
				free(s.R, f)
			}
			delete(first, s.R)
			n += len(held[s.R])
			delete(held, s.R)
		}
	}
	return n
}

// engPhased replays Phased.calls_phasedb over the operations the engine
// executed: per transaction id no acquire operation (inc / allowed) after a
// release operation (dec / drop / finish). byEngine tells whether the first
// offence lies inside ONE ExecuteFlow call, or in a response-direction call
// (the engine's doing), rather than in the order in which the harness sent the
// calls (its noise: a response or an error for an id whose request comes later).
func engPhased(k *EngCase) (phased, byEngine bool, detail string) {
	released := map[int]bool{}
	for si, s := range k.Steps {
		switch s.Kind {
		case "err":
			released[s.R] = true
		case "req", "resp":
			relInCall := false
			for _, p := range s.Trace {
				acquire := p.Kind == "lim" || (p.Kind == "inc" && p.Apply) // "touch" acquires no slot
				release := p.Kind == "gen" || p.Kind == "dec" || p.Kind == "finish"
				if acquire && released[s.R] {
					if relInCall || s.Kind == "resp" {
						return false, true, fmt.Sprintf("step %d (%s of transaction %d): processors %+v", si, s.Kind, s.R, s.Trace)
					}
					return false, false, ""
				}
				if release {
					released[s.R] = true
					relInCall = true
				}
			}
		}
	}
	return true, false, ""
}

func replayEng(o *c.Out, old EngCase) {
	k := &EngCase{Cfg: old.Cfg}
	er := startEng(k)
	for _, s := range old.Steps {
		er.do(EStep{Kind: s.Kind, R: s.R, Seq: s.Seq, Ask: s.Ask, At: s.At, Dt: s.Dt, Probe: s.Probe})
	}
	finishEng(o, er)
}

// genChainCfg: every quota on one host; the user flow consults Chain in order.
// Aimed at: a concurrency quota that is NOT the first quota a transaction
// meets — a rate limiter earlier in the flow, a quota no flow references (its
// system-flow QuotaProcessorInc applies its logic before the user flow), two
// concurrency quotas in either order.
func genChainCfg(r *c.Rng, e *EngCfg) {
	row := func(parent int) QRow {
		return QRow{Max: int64(r.Range(1, 3)), TTLSec: int64(r.Range(1, 3)), GCSec: int64(r.Range(1, 3)), Parent: parent}
	}
	e.Style, e.Limiter, e.Limiter2 = "chain", 0, -1
	e.OneFile = true
	e.Instance = pickInstance(r)
	e.OnRefusal = c.Pick(r, []string{"429", "429", "429", "forward"})
	e.ForeignFirst = r.Chance(1, 2)
	switch r.Intn(6) {
	case 0: // rate limiter, then the concurrency limiter
		e.Rows, e.Foreign = []QRow{row(-1)}, 1
		e.Chain = []int{1, 0}
	case 1: // the other way round
		e.Rows, e.Foreign = []QRow{row(-1)}, 1
		e.Chain = []int{0, 1}
	case 2: // a rate quota no flow references + the concurrency limiter
		e.Rows, e.Foreign = []QRow{row(-1)}, 1
		e.Chain = []int{0}
	case 3: // a concurrency quota no flow references + the concurrency limiter (either declaration order)
		e.Rows = []QRow{row(-1), row(-1)}
		e.Chain = []int{r.Intn(2)}
	case 4: // two concurrency limiters in either order, maybe a rate limiter between / before
		e.Rows = []QRow{row(-1), row(-1)}
		e.Chain = c.Pick(r, [][]int{{0, 1}, {1, 0}})
		if r.Chance(1, 2) {
			e.Foreign = 1
			e.Chain = c.Pick(r, [][]int{{2, e.Chain[0], e.Chain[1]}, {e.Chain[0], 2, e.Chain[1]}})
		}
	default: // rate limiter, then a two-level chain (child limiter, parent above)
		e.Rows, e.Foreign = []QRow{row(-1), row(0)}, 1
		e.Chain = c.Pick(r, [][]int{{2, 1}, {1, 2}, {2, 0, 1}})
	}
}

func genEngHistory(o *c.Out, r *c.Rng) {
	k := &EngCase{}
	if r.Chance(2, 5) {
		genChainCfg(r, &k.Cfg)
	} else {
		k.Cfg.Cfg = genCfg(r, true)
		k.Cfg.Limiter = r.Intn(len(k.Cfg.Rows))
		if len(k.Cfg.Rows) > 1 && r.Chance(2, 3) {
			k.Cfg.Limiter = len(k.Cfg.Rows) - 1
		}
		k.Cfg.Style = c.Pick(r, []string{"429", "429", "early", "forward", "two"})
		k.Cfg.Limiter2 = -1
		if k.Cfg.Style == "two" {
			// a second, unrelated root quota on the same host, declared last
			k.Cfg.OneFile = true
			k.Cfg.Rows = append(k.Cfg.Rows, QRow{Max: int64(r.Range(1, 3)), TTLSec: int64(r.Range(1, 3)), GCSec: int64(r.Range(1, 3)), Parent: -1})
			k.Cfg.Limiter2 = len(k.Cfg.Rows) - 1
			if r.Chance(1, 3) { // or the other way round: the unrelated root first in the flow
				k.Cfg.Limiter, k.Cfg.Limiter2 = k.Cfg.Limiter2, k.Cfg.Limiter
			}
		}
	}
	chain := k.Cfg.Style == "chain"
	// quota filters with headers / methods / query parameters / a narrower URL (1/2)
	filtered := false
	if r.Chance(1, 2) {
		filtered = genEngFilters(r, &k.Cfg)
	}
	guard := k.Cfg.guard()
	er := startEng(k)
	n := r.Range(2, 5)
	next := 0
	open := []int{}
	seqOf := map[int]int{}
	reqAt := map[int]*SAttr{}
	respOf := func(t int) *SAttr {
		if !filtered {
			return nil
		}
		if a, ok := reqAt[t]; ok && a != nil {
			b := respAttr(r, *a)
			return &b
		}
		b := respAttr(r, aimAttr(r, &k.Cfg.Cfg, guard))
		return &b
	}
	dts := []int64{sec - deltaNs, sec - deltaNs - 1, sec - deltaNs + 1, deltaNs, deltaNs - 1, deltaNs + 1, sec, sec / 2, 2 * sec, 1}
	for step, budget := 0, r.Range(5, 16); step < budget; step++ {
		switch roll := r.Intn(100); {
		case roll < 40 && next < n:
			seqOf[next] = pickSeq(r, next)
			if filtered {
				reqAt[next] = k.Cfg.pickReq(r, r.Chance(1, 4))
			}
			s := er.do(EStep{Kind: "req", R: next, Seq: seqOf[next], Ask: chain && r.Chance(2, 5), At: reqAt[next]})
			if !s.Early && s.Err == "" {
				open = append(open, next)
			}
			next++
		case roll < 60 && len(open) > 0:
			i := r.Intn(len(open))
			er.do(EStep{Kind: "resp", R: open[i], Seq: seqOf[open[i]], At: respOf(open[i])})
			open = append(open[:i], open[i+1:]...)
		case roll < 70 && len(open) > 0:
			i := r.Intn(len(open))
			er.do(EStep{Kind: "err", R: open[i], Seq: open[i]})
			open = append(open[:i], open[i+1:]...)
		case roll < 74 && next > 0:
			// noise: an event for a transaction that already ended (or is unknown)
			t := r.Intn(next + 1)
			sq, ok := seqOf[t]
			if !ok {
				sq = t
			}
			if r.Chance(1, 2) {
				er.do(EStep{Kind: "resp", R: t, Seq: sq, At: respOf(t)})
			} else {
				er.do(EStep{Kind: "err", R: t, Seq: t})
			}
		default:
			er.do(EStep{Kind: "adv", Dt: c.Pick(r, dts)})
		}
	}
	for _, t := range open {
		switch r.Intn(5) {
		case 0, 1:
			er.do(EStep{Kind: "resp", R: t, Seq: seqOf[t], At: respOf(t)})
		case 2:
			er.do(EStep{Kind: "err", R: t, Seq: t})
		}
	}
	if r.Chance(3, 5) {
		var mt, mg int64
		for _, row := range k.Cfg.Rows {
			if row.TTLSec > mt {
				mt = row.TTLSec
			}
			if row.GCSec > mg {
				mg = row.GCSec
			}
		}
		er.do(EStep{Kind: "adv", Dt: (mt+mg)*sec + sec + sec/2})
	}
	np := int64(1 << 30)
	for _, x := range guard {
		if k.Cfg.Rows[x].Max < np {
			np = k.Cfg.Rows[x].Max
		}
	}
	if r.Chance(1, 2) {
		np++
	}
	for i := int64(0); i < np; i++ {
		var at *SAttr
		if filtered {
			at = k.Cfg.pickReq(r, false)
		}
		er.do(EStep{Kind: "req", R: 100 + int(i), Seq: 100 + int(i), Probe: true, At: at})
	}
	finishEng(o, er)
}

// fixed boundary histories that run first (and give minimal replays)
func genCorpus(o *c.Out) {
	huge := hugeGC
	script := func(tag string, cfg Cfg, f func(rr *resRun)) {
		k := &ResCase{Gen: "corpus:" + tag, Cfg: cfg}
		rr := startRes(k)
		f(rr)
		finishRes(o, rr)
	}
	lim := func(rr *resRun, r, q int, probe bool) int {
		rr.op(r, "getq", q, probe)
		rr.op(r, "inc", q, probe)
		return rr.op(r, "allowed", q, probe)
	}
	// three abandoned transactions expire; one GC pass must free all three slots
	for _, n := range []int{2, 3, 4, 5} {
		n := n
		script("abandoned-expire", Cfg{Rows: []QRow{{Max: int64(n), TTLSec: 1, GCSec: huge, Parent: -1}}}, func(rr *resRun) {
			for i := 0; i < n; i++ {
				lim(rr, i, 0, false)
			}
			rr.do(RStep{Kind: "tick", Dt: 2*sec + sec/2})
			rr.do(RStep{Kind: "gc", Q: 0})
			for i := 0; i < n; i++ {
				lim(rr, 100+i, 0, true)
			}
		})
	}
	// the expiry edge: ttl + 10 ms, closed on the left (expiry <= now is collected)
	for _, d := range []int64{-1, 0, 1} {
		d := d
		script("expiry-edge", Cfg{Rows: []QRow{{Max: 1, TTLSec: 1, GCSec: huge, Parent: -1}}}, func(rr *resRun) {
			lim(rr, 0, 0, false)
			rr.do(RStep{Kind: "tick", Dt: sec + d})
			rr.do(RStep{Kind: "gc", Q: 0})
			lim(rr, 1, 0, false)
			rr.do(RStep{Kind: "tick", Dt: deltaNs - d - 1})
			rr.do(RStep{Kind: "gc", Q: 0})
			lim(rr, 2, 0, false)
			rr.do(RStep{Kind: "tick", Dt: 1})
			rr.do(RStep{Kind: "gc", Q: 0})
			lim(rr, 100, 0, true)
		})
	}
	// max boundary: max-1 / max / max+1 requests, release one, next is admitted
	for _, mx := range []int64{1, 2, 3} {
		mx := mx
		script("max-edge", Cfg{Rows: []QRow{{Max: mx, TTLSec: 2, GCSec: huge, Parent: -1}}}, func(rr *resRun) {
			for i := 0; i <= int(mx); i++ {
				lim(rr, i, 0, false)
			}
			rr.op(0, "getq", 0, false)
			rr.op(0, "dec", 0, false)
			rr.op(0, "finish", 0, false)
			rr.op(0, "dec", 0, false) // a second Dec of the same request is a no-op
			lim(rr, 100, 0, true)
			lim(rr, 101, 0, true)
		})
	}
	// a drop releases the first-touched chain only; the second quota waits for its expiry
	script("drop-first-chain", Cfg{Rows: []QRow{{Max: 2, TTLSec: 1, GCSec: huge, Parent: -1}, {Max: 1, TTLSec: 1, GCSec: huge, Parent: 0},
		{Max: 1, TTLSec: 2, GCSec: huge, Parent: -1}}}, func(rr *resRun) {
		lim(rr, 0, 1, false)
		lim(rr, 0, 2, false)
		rr.op(0, "drop", 0, false)
		lim(rr, 1, 1, false)
		lim(rr, 1, 2, false)
		rr.op(0, "drop", 0, false) // nothing is associated any more
		rr.do(RStep{Kind: "tick", Dt: 2*sec + deltaNs})
		rr.do(RStep{Kind: "gc", Q: 2})
		lim(rr, 100, 2, true)
	})
	// drop, re-associate with another quota, drop again: the association is popped each time
	script("drop-pops", Cfg{Rows: []QRow{{Max: 1, TTLSec: 2, GCSec: huge, Parent: -1}, {Max: 1, TTLSec: 2, GCSec: huge, Parent: -1}}}, func(rr *resRun) {
		lim(rr, 0, 0, false)
		rr.op(0, "drop", 0, false)
		lim(rr, 0, 1, false)
		rr.op(0, "drop", 0, false)
		lim(rr, 100, 1, true)
		lim(rr, 101, 0, true)
	})
	// refused by the parent: the child slot is held until the early answer drops it
	script("parent-refuses", Cfg{Rows: []QRow{{Max: 1, TTLSec: 2, GCSec: huge, Parent: -1}, {Max: 2, TTLSec: 2, GCSec: huge, Parent: 0}}}, func(rr *resRun) {
		lim(rr, 0, 1, false)
		lim(rr, 1, 1, false)
		rr.op(1, "drop", 0, false)
		rr.op(0, "getq", 1, false)
		rr.op(0, "dec", 1, false)
		rr.op(0, "finish", 0, false)
		lim(rr, 100, 1, true)
	})
	// partially held chain: the child's slot (ttl 1 s) expired and was collected, the parent's
	// (ttl 3 s) is still held: the response's Dec(child) stops at "not found", the parent's slot
	// stays until its own expiry (C02_dec_releases_held_prefix: the held prefix is empty)
	script("partial-chain", Cfg{Rows: []QRow{{Max: 1, TTLSec: 3, GCSec: huge, Parent: -1}, {Max: 1, TTLSec: 1, GCSec: huge, Parent: 0}}}, func(rr *resRun) {
		lim(rr, 0, 1, false)
		rr.do(RStep{Kind: "tick", Dt: sec + sec/2})
		rr.do(RStep{Kind: "gc", Q: 1})
		rr.op(0, "getq", 1, false)
		rr.op(0, "dec", 1, false)
		rr.op(0, "finish", 0, false)
		lim(rr, 1, 1, false)       // child free again, parent still full: refused, keeps the child's slot ...
		rr.op(1, "drop", 0, false) // ... which the 429's drop gives back (held prefix = the child alone)
		rr.do(RStep{Kind: "tick", Dt: sec + sec/2 + deltaNs})
		rr.do(RStep{Kind: "gc", Q: 0})
		lim(rr, 100, 1, true)
	})
	// a drop after the parent refused, parent and child both with room again afterwards
	script("parent-refuses-then-room", Cfg{Rows: []QRow{{Max: 1, TTLSec: 2, GCSec: huge, Parent: -1}, {Max: 1, TTLSec: 2, GCSec: huge, Parent: 0},
		{Max: 2, TTLSec: 2, GCSec: huge, Parent: 0}}}, func(rr *resRun) {
		lim(rr, 0, 1, false) // holds child 1 and the root
		lim(rr, 1, 2, false) // child 2 admits, the root refuses
		lim(rr, 2, 2, false) // child 2 admits (max 2), the root refuses
		rr.op(1, "drop", 0, false)
		rr.op(2, "drop", 0, false)
		rr.op(0, "drop", 0, false)
		lim(rr, 100, 2, true)
		lim(rr, 101, 2, true)
	})
	// the same through the engine: abandoned transactions expire, the GC goroutine wakes once
	for _, style := range []string{"429", "early", "forward"} {
		for _, two := range []bool{false, true} {
			k := &EngCase{}
			k.Cfg.Cfg = Cfg{Rows: []QRow{{Max: 3, TTLSec: 1, GCSec: 2, Parent: -1}}}
			if two {
				k.Cfg.Cfg = Cfg{Rows: []QRow{{Max: 3, TTLSec: 1, GCSec: 2, Parent: -1}, {Max: 3, TTLSec: 1, GCSec: 2, Parent: 0}}}
				k.Cfg.Limiter = 1
			}
			k.Cfg.Style = style
			k.Cfg.Limiter2 = -1
			er := startEng(k)
			for i := 0; i < 4; i++ {
				er.do(EStep{Kind: "req", R: i, Seq: i})
			}
			er.do(EStep{Kind: "resp", R: 0, Seq: 0})
			er.do(EStep{Kind: "req", R: 4, Seq: 4})
			er.do(EStep{Kind: "err", R: 1, Seq: 1})
			er.do(EStep{Kind: "req", R: 5, Seq: 5})
			er.do(EStep{Kind: "adv", Dt: 2 * sec})
			for i := 0; i < 4; i++ {
				er.do(EStep{Kind: "req", R: 100 + i, Seq: 100 + i, Probe: true})
			}
			finishEng(o, er)
		}
	}
	// partially held chain through the engine: the child's GC collects at 2 s, the response comes
	// at 2 s, the parent is held until 3.01 s (+ its GC): request 1 is refused by the parent and
	// its 429 gives the child's slot back
	{
		k := &EngCase{}
		k.Cfg.Cfg = Cfg{Rows: []QRow{{Max: 1, TTLSec: 3, GCSec: 1, Parent: -1}, {Max: 1, TTLSec: 1, GCSec: 1, Parent: 0}}}
		k.Cfg.Limiter, k.Cfg.Limiter2, k.Cfg.Style = 1, -1, "429"
		er := startEng(k)
		er.do(EStep{Kind: "req", R: 0, Seq: 0})
		er.do(EStep{Kind: "adv", Dt: 2 * sec})
		er.do(EStep{Kind: "resp", R: 0, Seq: 0})
		er.do(EStep{Kind: "req", R: 1, Seq: 1})
		er.do(EStep{Kind: "req", R: 2, Seq: 2})
		er.do(EStep{Kind: "adv", Dt: 2 * sec})
		er.do(EStep{Kind: "req", R: 100, Seq: 100, Probe: true})
		finishEng(o, er)
	}
	// two unrelated quotas in one flow: the early answer (refused by the second) must free the first
	{
		k := &EngCase{}
		k.Cfg.Cfg = Cfg{OneFile: true, Rows: []QRow{{Max: 1, TTLSec: 3, GCSec: 3, Parent: -1}, {Max: 1, TTLSec: 3, GCSec: 3, Parent: -1}}}
		k.Cfg.Limiter, k.Cfg.Limiter2, k.Cfg.Style = 0, 1, "two"
		er := startEng(k)
		er.do(EStep{Kind: "req", R: 0, Seq: 0}) // admitted by both
		er.do(EStep{Kind: "req", R: 1, Seq: 1}) // refused by the first
		er.do(EStep{Kind: "err", R: 0, Seq: 0}) // frees the first quota only
		er.do(EStep{Kind: "req", R: 2, Seq: 2}) // admitted by the first, refused by the second: early answer
		er.do(EStep{Kind: "req", R: 3, Seq: 3}) // the first quota must be free again
		er.do(EStep{Kind: "adv", Dt: 7 * sec})
		er.do(EStep{Kind: "req", R: 100, Seq: 100, Probe: true})
		finishEng(o, er)
	}
}

// ------------------------------------------------------------------ main

func main() {
	o := c.NewOut("C02")
	o.DeclareSuite("res", "From Verif Require Import C02.Model C02.Model2.", "case_res2", "run_res2h")
	o.DeclareSuite("eng", "From Verif Require Import C02.Model C02.Model2 C02.Model3.", "case_eng3", "run_eng3h")
	o.DeclareSuite("dec", "From Verif Require Import C02.Model4.", "case_dec", "run_dec")
	o.DeclareSuite("member", "From Verif Require Import C02.Model4.", "case_member", "run_member")
	o.Rule("res: quota forests of 1-3 concurrent quotas (max 0-3, ttl 1-3 s, up to 3 levels, an unrelated second root), " +
		"2-5 transactions; generated interleavings, at operation granularity, of limiter chains followed by response / early answer / " +
		"proxy error / abandon, unstructured operation sequences, and all interleavings of small programs; clock readings aimed " +
		"1 ns around slot expiries with and without the 10 ms slack; GC passes; final fresh probes. " +
		"eng: one or two-level chains, three flow styles (429 on refusal, early answer after admission, forward on refusal), " +
		"request / response / proxy error / clock advance with the real GC goroutines woken at their deadlines; final fresh probes; " +
		"flow style 'chain': every quota on one host, limiters on concurrency and rate (fixed-window) quotas in every order, quotas no flow " +
		"references (their system-flow Inc runs first), a per-request early answer AFTER admission (Filter + GenerateResponse), each shape with " +
		"every end (response, early answer, proxy error, abandon + expiry). " +
		"streams (both suites): every request / response stream carries a sequence id = its own transaction id (6/10), the id of an earlier " +
		"transaction (retry: overlapping or not), or a stamp several transactions share; the proxy-error stream has sequence id = transaction id. " +
		"filters: in half of the random engine histories (and a fixed corpus: 9 filter shapes x 3 flow shapes x 5 ends, each with a request outside the filter) the concurrency quotas carry " +
		"filters with headers (alternatives, several keys, mixed case) / methods / query parameters / a narrower URL, children with and without a filter " +
		"of their own; the user flow carries the same filter or the host alone; requests carry method, path, headers, query (one aspect off in 1/4), " +
		"responses carry the request's URL and method and the PROVIDER's headers (content-type; an echo of the request headers 1/8, the same names " +
		"with other values 1/8, none 1/8); the model predicts which system start / end processors each call selects; res: filters are declared (loader), " +
		"no flow selection exists at that level. " +
		"instance id (both suites): the cluster-liveness object is registered as main.go does (NewLunarCluster(id)) before the quotas are created, with no object 3/10 " +
		"('unknown'), the EMPTY id 2/10 (GATEWAY_INSTANCE_ID unset), or the setenv shape / 'unknown' / '::' inside, first, last, alone / a single ':' / digits / blank / a transaction id / " +
		"300 bytes (5/10); fixed corpus: every id x (abandoned transactions + expiry + GC pass with 1 ns edges; two-level chain; explicit ends then abandon; engine level with the real GC " +
		"goroutine, three flow styles); the instance id is NOT part of the Coq case: the model says the same for every id. " +
		"dec: the expiry's decimal rendering / reading — Go's fmt.Sprintf(%d) on int64 boundaries (0, +-1, every power of ten and of two with neighbours, both ends of int64) and random values, " +
		"and strconv.ParseInt(s, 10, 64) with its error class on byte strings around the 2^63 / 2^64 cutoffs, signs, leading zeros, '_', blanks, non-ASCII bytes, overflow before / after a bad byte, " +
		"one-byte edits of renderings — against Model4.dec10 / parse10 (these cases are no histories: never counted non-trivial). " +
		"member: whole member strings through the real generateMember / extractMemberFromItem / validateMemberIntegrity of a real concurrent quota (shim verif_c02b.go) under every " +
		"cluster-liveness set-up (none, every instance id above, 'a:::b', ':::'), request expiry 1-3 s: members written with the clock such that the expiry is at both ends of int64, " +
		"around 0, at today's UnixNano, random; request ids t<n>, empty, digits, 200 bytes, and with ':' / '::' inside (outside the theorem's hypothesis, still compared); each read by one GC item " +
		"with the clock at the expiry, 1 ns before / after, around the 10 ms slack, at both ends of int64, at the write, random; and made-up strings (missing / extra / half separators, empty " +
		"components, expiry with sign / zeros / out of range / bad bytes, one-byte edits of well-formed members) — against Model4.render dec10 / parse undec10 head4 / gc_item (run_member; no histories). " +
		"distinct = distinct (configuration, steps, observations); non-trivial = the history contains a refusal and a slot being given back")
	var raw struct {
		Gen   string `json:"generator"`
		Steps []struct {
			Kind string `json:"kind"`
		} `json:"steps"`
	}
	if suite, ok := o.ReplayCase(&raw); ok {
		if suite == "dec" {
			var k DecCase
			o.ReplayCase(&k)
			replayDec(o, k)
		} else if suite == "member" {
			var k MemberCase
			o.ReplayCase(&k)
			replayMember(o, k)
		} else if suite == "eng" {
			var k EngCase
			o.ReplayCase(&k)
			replayEng(o, k)
		} else {
			var k ResCase
			o.ReplayCase(&k)
			replayRes(o, k)
		}
		o.Finish()
		return
	}
	r := o.Rng
	t0 := time.Now()
	lap := func(what string) {
		if os.Getenv("C02_TIMING") != "" {
			fmt.Fprintf(os.Stderr, "%s: %v (setup %v finish %v)\n", what, time.Since(t0), tSetup, tFinish)
		}
		t0 = time.Now()
	}
	genCorpus(o)
	genCorpus2(o)
	genCorpusInstance(o)
	lap("corpus")
	// all interleavings of two limiter-then-response programs, one and two levels
	one := Cfg{Rows: []QRow{{Max: 1, TTLSec: 1, GCSec: hugeGC, Parent: -1}}}
	two := Cfg{Rows: []QRow{{Max: 2, TTLSec: 2, GCSec: hugeGC, Parent: -1}, {Max: 1, TTLSec: 1, GCSec: hugeGC, Parent: 0}}}
	prog := func(id, q int, end string) []Op {
		p := []Op{{id, "getq", q, id}, {id, "allowed", q, id}}
		if end == "dec" {
			p = append(p, Op{id, "dec", q, id}, Op{id, "finish", 0, id})
		} else {
			p = append(p, Op{id, "drop", 0, id})
		}
		return p
	}
	genExhaustive(o, one, [][]Op{prog(0, 0, "dec"), prog(1, 0, "dec")}, "all-interleavings-2")
	genExhaustive(o, two, [][]Op{prog(0, 1, "dec"), prog(1, 1, "drop")}, "all-interleavings-2")
	if o.Thorough() {
		genExhaustive(o, two, [][]Op{prog(0, 1, "dec"), prog(1, 1, "drop"), prog(2, 0, "dec")}, "all-interleavings-3")
	}
	lap("exhaustive")
	for i := 0; i < o.Scale(500, 9000, 4000); i++ {
		genTxnHistory(o, r)
	}
	lap("transactions")
	for i := 0; i < o.Scale(300, 5000, 2500); i++ {
		genOpSoup(o, r)
	}
	lap("op-soup")
	for i := 0; i < o.Scale(150, 2500, 1000); i++ {
		genEngHistory(o, r)
	}
	lap("engine")
	if o.Thorough() || o.Search() {
		for i := 0; i < o.Scale(0, 40, 20); i++ {
			stress(o, o.Seed+uint64(i), 8, 300)
		}
		lap("stress")
	}
	genDec(o, r.Fork(0xdec))
	lap("dec")
	genMember(o, r.Fork(0x3e3be7))
	lap("member")
	o.Finish()
}
