// C02 harness — quota FILTERS and stream attributes.
//
// The release of a slot on a response is done by the quota's system end flow
// (QuotaProcessorDec), and that flow is selected for the RESPONSE stream
// through the quota's own filter. A response is not an echo of its request:
// same URL and method, the provider's own headers, no query string. So the
// quotas generated here carry filters with headers / methods / query
// parameters / a narrower URL (a child limit on "<host>/a/*"), the request
// streams carry method, path, headers and query, and the response streams
// carry the provider's headers (which mostly do NOT repeat the request's).
package main

import (
	"fmt"
	"os"
	"sort"
	"strings"

	lunar_messages "lunar/engine/messages"
	publictypes "lunar/engine/streams/public-types"
	stream_types "lunar/engine/streams/types"

	c "verifharness/common"
)

type KV struct {
	K string `json:"key"`
	V string `json:"value"`
}

// QFilter: what a quota declares beyond its host. Path "" = "<host>/*", "a" =
// "<host>/a/*". A child limit with an empty QFilter declares no filter at all
// (it shares its parent's); otherwise the engine extends the child's filter by
// the parent's (methods / headers / query parameters appended, URL inherited
// when not given).
type QFilter struct {
	Path    string   `json:"path,omitempty"`
	Methods []string `json:"methods,omitempty"`
	Headers []KV     `json:"headers,omitempty"`
	Query   []KV     `json:"query,omitempty"`
}

func (f QFilter) empty() bool {
	return f.Path == "" && len(f.Methods) == 0 && len(f.Headers) == 0 && len(f.Query) == 0
}

// SAttr: the attributes of one stream. Hdr = the headers of the stream's own
// direction (request: the client's; response: the provider's).
type SAttr struct {
	Method string `json:"method"`
	Path   string `json:"path,omitempty"`
	Hdr    []KV   `json:"headers,omitempty"`
	Query  []KV   `json:"query,omitempty"`
}

func (k *Cfg) decl(i int) QFilter {
	if i < len(k.Filters) {
		return k.Filters[i]
	}
	return QFilter{}
}

func (k *Cfg) urlOf(i int, path string) string {
	if path == "" {
		return k.host(i) + "/*"
	}
	return k.host(i) + "/" + path + "/*"
}

func filterBody(url string, f QFilter, ind string) string {
	var sb strings.Builder
	if url != "" {
		fmt.Fprintf(&sb, "%s  url: \"%s\"\n", ind, url)
	}
	if len(f.Methods) > 0 {
		fmt.Fprintf(&sb, "%s  method:\n", ind)
		for _, m := range f.Methods {
			fmt.Fprintf(&sb, "%s    - %s\n", ind, m)
		}
	}
	kvs := func(name string, l []KV) {
		if len(l) == 0 {
			return
		}
		fmt.Fprintf(&sb, "%s  %s:\n", ind, name)
		for _, kv := range l {
			fmt.Fprintf(&sb, "%s    - key: %s\n%s      value: %s\n", ind, kv.K, ind, kv.V)
		}
	}
	kvs("headers", f.Headers)
	kvs("query_params", f.Query)
	return sb.String()
}

// filterYAML: the filter block of root quota i.
func (k *Cfg) filterYAML(i int, ind string) string {
	f := k.decl(i)
	return ind + "filter:\n" + filterBody(k.urlOf(i, f.Path), f, ind)
}

// childFilterYAML: the filter block of child limit j ("" when it declares none).
func (k *Cfg) childFilterYAML(j int, ind string) string {
	f := k.decl(j)
	if f.empty() {
		return ""
	}
	url := ""
	if f.Path != "" {
		url = k.urlOf(j, f.Path)
	}
	return ind + "filter:\n" + filterBody(url, f, ind)
}

// eff: the effective filter of quota i as the configuration language defines it
// (Filter.Extend): used by the GENERATORS to aim requests, never by the monitor.
func (k *Cfg) eff(i int) QFilter {
	f := k.decl(i)
	if i >= len(k.Rows) || k.Rows[i].Parent < 0 {
		return f
	}
	p := k.eff(k.Rows[i].Parent)
	if f.empty() {
		return p
	}
	out := QFilter{Path: f.Path, Methods: append([]string(nil), f.Methods...),
		Headers: append([]KV(nil), f.Headers...), Query: append([]KV(nil), f.Query...)}
	for _, m := range p.Methods {
		has := false
		for _, x := range out.Methods {
			has = has || x == m
		}
		if !has {
			out.Methods = append(out.Methods, m)
		}
	}
	addKV := func(dst []KV, src []KV) []KV {
		for _, kv := range src {
			has := false
			for _, x := range dst {
				has = has || x == kv
			}
			if !has {
				dst = append(dst, kv)
			}
		}
		return dst
	}
	out.Headers = addKV(out.Headers, p.Headers)
	out.Query = addKV(out.Query, p.Query)
	if out.Path == "" {
		out.Path = p.Path
	}
	return out
}

func lower(s string) string { return strings.ToLower(s) }

// generator-side matching (aims requests; the monitor does not use it)
func urlMethodOK(f QFilter, a SAttr) bool {
	if f.Path != "" && f.Path != a.Path {
		return false
	}
	if len(f.Methods) == 0 {
		return true
	}
	for _, m := range f.Methods {
		if m == a.Method {
			return true
		}
	}
	return false
}

func kvOK(req []KV, have []KV, anyOfSameKey bool) bool {
	// requirements are grouped by the key AS WRITTEN (X-Plan and x-plan are two groups, each of
	// which must be met); the stream's header is looked up lower-cased
	byKey := map[string][]string{}
	for _, kv := range req {
		byKey[kv.K] = append(byKey[kv.K], kv.V)
	}
	for key, vals := range byKey {
		got, found := "", false
		for _, h := range have {
			if lower(h.K) == lower(key) {
				got, found = h.V, true
			}
		}
		if !found {
			return false
		}
		n := 0
		for _, v := range vals {
			if strings.EqualFold(v, got) {
				n++
			}
		}
		if anyOfSameKey && n == 0 || !anyOfSameKey && n != len(vals) {
			return false
		}
	}
	return true
}

func requestOK(f QFilter, a SAttr) bool {
	return urlMethodOK(f, a) && kvOK(f.Headers, a.Hdr, true) && kvOK(f.Query, a.Query, false)
}

// ---- generation ----

var (
	hdrPieces = [][]KV{
		{{"x-plan", "gold"}},
		{{"X-Plan", "gold"}},
		{{"X-Plan", "gold"}, {"X-Plan", "silver"}},
		{{"x-plan", "gold"}, {"x-tenant", "t1"}},
		{{"x-tenant", "t1"}},
	}
	methodPieces = [][]string{{"GET"}, {"GET", "POST"}, {"POST"}, {"POST", "GET"}}
	queryPieces  = [][]KV{{{"tier", "pro"}}, {{"tier", "pro"}, {"region", "eu"}}}
)

// genFilter: a filter that carries at least one constraint beyond the host
// (child: with probability 1/3 none at all — it then shares the parent's).
func genFilter(r *c.Rng, child bool) QFilter {
	if child && r.Chance(1, 3) {
		return QFilter{}
	}
	var f QFilter
	for f.empty() {
		if r.Chance(3, 5) {
			f.Headers = c.Pick(r, hdrPieces)
		}
		if r.Chance(2, 5) {
			f.Methods = c.Pick(r, methodPieces)
		}
		if r.Chance(1, 4) {
			f.Query = c.Pick(r, queryPieces)
		}
		if r.Chance(1, 4) || (child && r.Chance(1, 3)) {
			f.Path = "a"
		}
	}
	return f
}

// genFilters fills k.Filters: every concurrency quota gets a filter; with
// sameAll every root quota the SAME one (they then share one system flow).
func genFilters(r *c.Rng, k *Cfg) {
	k.Filters = make([]QFilter, len(k.Rows))
	var shared *QFilter
	if r.Chance(1, 3) {
		f := genFilter(r, false)
		shared = &f
	}
	for i, row := range k.Rows {
		switch {
		case row.Parent >= 0:
			k.Filters[i] = genFilter(r, true)
		case shared != nil:
			k.Filters[i] = *shared
		case r.Chance(1, 5):
			k.Filters[i] = QFilter{} // the host alone
		default:
			k.Filters[i] = genFilter(r, false)
		}
	}
}

// aimAttr: a request that satisfies the effective filters of all quotas qs, as
// far as they can be satisfied together.
func aimAttr(r *c.Rng, k *Cfg, qs []int) SAttr {
	a := SAttr{}
	var methods []string
	hv := map[string][]string{} // header key -> admissible values so far
	var hkeys []string
	qv := map[string]string{}
	var qkeys []string
	for _, q := range qs {
		if q >= len(k.Rows) {
			continue
		}
		f := k.eff(q)
		if a.Path == "" {
			a.Path = f.Path
		}
		if len(f.Methods) > 0 {
			if methods == nil {
				methods = f.Methods
			} else {
				var both []string
				for _, m := range methods {
					for _, x := range f.Methods {
						if x == m {
							both = append(both, m)
						}
					}
				}
				if len(both) > 0 {
					methods = both
				}
			}
		}
		mine := map[string][]string{}
		for _, kv := range f.Headers {
			mine[lower(kv.K)] = append(mine[lower(kv.K)], kv.V)
		}
		for key, vals := range mine {
			if old, ok := hv[key]; ok {
				var both []string
				for _, v := range old {
					for _, x := range vals {
						if x == v {
							both = append(both, v)
						}
					}
				}
				if len(both) > 0 {
					hv[key] = both
				}
			} else {
				hv[key] = vals
				hkeys = append(hkeys, key)
			}
		}
		for _, kv := range f.Query {
			if _, ok := qv[kv.K]; !ok {
				qv[kv.K] = kv.V
				qkeys = append(qkeys, kv.K)
			}
		}
	}
	if methods == nil {
		methods = []string{"GET", "GET", "POST"}
	}
	a.Method = c.Pick(r, methods)
	sort.Strings(hkeys)
	for _, key := range hkeys {
		a.Hdr = append(a.Hdr, KV{key, c.Pick(r, hv[key])})
	}
	sort.Strings(qkeys)
	for _, key := range qkeys {
		a.Query = append(a.Query, KV{key, qv[key]})
	}
	return a
}

// deviate changes one aspect of a request: a header absent / with another
// value, the query string absent, another method, another path.
func deviate(r *c.Rng, a SAttr, urlMethodToo bool) SAttr {
	b := SAttr{Method: a.Method, Path: a.Path, Hdr: append([]KV(nil), a.Hdr...), Query: append([]KV(nil), a.Query...)}
	n := 3
	if urlMethodToo {
		n = 5
	}
	switch r.Intn(n) {
	case 0:
		if len(b.Hdr) > 0 {
			i := r.Intn(len(b.Hdr))
			b.Hdr = append(b.Hdr[:i], b.Hdr[i+1:]...)
		}
	case 1:
		if len(b.Hdr) > 0 {
			b.Hdr[r.Intn(len(b.Hdr))].V = c.Pick(r, []string{"silver", "bronze"})
		}
	case 2:
		b.Query = nil
	case 3:
		b.Method = c.Pick(r, []string{"PUT", "POST", "GET"})
	case 4:
		b.Path = c.Pick(r, []string{"b", "", "a"})
	}
	return b
}

// respAttr: the provider's response to a request: same URL and method; its own
// headers, which repeat a request header only now and then.
func respAttr(r *c.Rng, req SAttr) SAttr {
	a := SAttr{Method: req.Method, Path: req.Path, Hdr: []KV{{"content-type", "application/json"}}}
	switch r.Intn(8) {
	case 0: // an echo of the request headers
		a.Hdr = append(a.Hdr, req.Hdr...)
	case 1: // the same header name with another value
		for _, kv := range req.Hdr {
			a.Hdr = append(a.Hdr, KV{kv.K, "bronze"})
		}
	case 2:
		a.Hdr = nil
	}
	return a
}

// ---- streams ----

func (x *engExec) urlA(a *SAttr) string {
	h := x.e.host(0)
	if x.e.Style != "chain" {
		h = x.e.host(x.e.Limiter)
	}
	if a == nil || a.Path == "" {
		return h + "/x"
	}
	return h + "/" + a.Path + "/x"
}

func kvMap(l []KV, extra map[string]string) map[string]string {
	m := map[string]string{}
	for _, kv := range l {
		m[lower(kv.K)] = kv.V
	}
	for k, v := range extra {
		m[k] = v
	}
	return m
}

func reqStreamA(r, seq int, url string, a *SAttr, extra map[string]string) publictypes.APIStreamI {
	method, query := "GET", ""
	var hdr []KV
	if a != nil {
		method, hdr = a.Method, a.Hdr
		parts := []string{}
		for _, kv := range a.Query {
			parts = append(parts, kv.K+"="+kv.V)
		}
		query = strings.Join(parts, "&")
	}
	return stream_types.NewRequestAPIStream(lunar_messages.OnRequest{
		ID: fmt.Sprintf("t%d", r), SequenceID: fmt.Sprintf("t%d", seq), Method: method, Scheme: "https", URL: url,
		Query: query, Headers: kvMap(hdr, extra),
	}, shared)
}

func respStreamA(r, seq int, url string, a *SAttr) publictypes.APIStreamI {
	method := "GET"
	var hdr []KV
	if a != nil {
		method, hdr = a.Method, a.Hdr
	}
	return stream_types.NewResponseAPIStream(lunar_messages.OnResponse{
		ID: fmt.Sprintf("t%d", r), SequenceID: fmt.Sprintf("t%d", seq), Method: method, URL: url, Status: 200,
		Headers: kvMap(hdr, nil),
	}, shared)
}

// ---- Coq rendering (strings interned) ----

var internTab = map[string]int64{
	"": 0, "get": 1, "post": 2, "put": 3,
	"x-plan": 1, "x-tenant": 2, "content-type": 3,
	"gold": 1, "silver": 2, "bronze": 3, "t1": 4, "application/json": 5,
	"tier": 1, "region": 2, "pro": 6, "eu": 7,
	"a": 1, "b": 2,
}

func intern(s string) int64 {
	v, ok := internTab[lower(s)]
	if !ok {
		panic("harness: string not interned: " + s)
	}
	return v
}

// coqKVs: stream headers / query: lower-case names. coqFilterHdrs: the header
// requirements of a filter keep the spelling of their key (the code groups the
// alternatives of a key by the key as written): id + 100 when it is not all
// lower-case (Model3.lowk gives the name the stream is asked for).
func coqKVs(l []KV) string {
	return c.MapList(l, func(kv KV) string { return c.Tuple(c.Z(intern(kv.K)), c.Z(intern(kv.V))) })
}

func coqFilterHdrs(l []KV) string {
	return c.MapList(l, func(kv KV) string {
		id := intern(kv.K)
		if kv.K != lower(kv.K) {
			id += 100
		}
		return c.Tuple(c.Z(id), c.Z(intern(kv.V)))
	})
}

func (f QFilter) coq(declared bool) string {
	ms := make([]int64, len(f.Methods))
	for i, m := range f.Methods {
		ms[i] = intern(m)
	}
	return fmt.Sprintf("(mkF %s %s %s %s %s)", c.B(declared), c.Z(intern(f.Path)), c.ZList(ms), coqFilterHdrs(f.Headers), coqKVs(f.Query))
}

func (k *Cfg) coqFilters() string {
	fs := make([]string, len(k.Rows))
	for i, row := range k.Rows {
		f := k.decl(i)
		fs[i] = f.coq(row.Parent < 0 || !f.empty())
	}
	return c.List(fs)
}

func coqAttr(a *SAttr, response bool) string {
	if a == nil {
		a = &SAttr{Method: "GET"}
	}
	return fmt.Sprintf("(mkA %s %s %s %s %s)", c.B(response), c.Z(intern(a.Path)), c.Z(intern(a.Method)), coqKVs(a.Hdr), coqKVs(a.Query))
}

// ---- engine configurations with filters ----

// guard: the concurrency quotas that guard the traffic of the user flow.
func (e *EngCfg) guard() []int {
	var g []int
	if e.Style == "chain" { // every concurrency quota lives on the one host: referenced by the flow or not
		for q := range e.Rows {
			g = append(g, q)
		}
		return g
	}
	g = e.chain(e.Limiter)
	if e.Style == "two" {
		g = append(g, e.chain(e.Limiter2)...)
	}
	return g
}

// limited: the concurrency quotas a limiter of the user flow takes slots in.
func (e *EngCfg) limited() []int {
	var l []int
	if e.Style == "chain" {
		for _, q := range e.Chain {
			l = append(l, e.chain(q)...)
		}
		return l
	}
	l = e.chain(e.Limiter)
	if e.Style == "two" {
		l = append(l, e.chain(e.Limiter2)...)
	}
	return l
}

// covered: the generated space is "the quota's filter covers the traffic the
// flow's limiter admits under it" — a request that selects the user flow has
// the URL and the method of every quota its limiters consult (headers and query
// parameters may differ: those are not evaluated on responses). A limiter that
// consults a quota for traffic of another URL / method is a configuration whose
// release cannot be selected by the quota's filter at all; see notes/C02.md.
func (e *EngCfg) covered(a SAttr) bool {
	if os.Getenv("C02_UNCOVERED") != "" {
		return true
	}
	if !requestOK(e.userFilter(), a) {
		return true
	}
	for _, q := range e.limited() {
		if !urlMethodOK(e.eff(q), a) {
			return false
		}
	}
	return true
}

// pickReq: a request aimed at the guarding quotas' filters, optionally with one
// aspect changed; always inside the covered space.
func (e *EngCfg) pickReq(r *c.Rng, dev bool) *SAttr {
	for try := 0; try < 20; try++ {
		a := aimAttr(r, &e.Cfg, e.guard())
		if dev {
			if b := deviate(r, a, true); e.covered(b) {
				return &b
			}
			if b := deviate(r, a, false); e.covered(b) {
				return &b
			}
		}
		if e.covered(a) {
			return &a
		}
	}
	a := aimAttr(r, &e.Cfg, e.guard()) // not reached in practice: genEngFilters accepts only configurations whose aimed requests are covered
	return &a
}

// genEngFilters draws filters until aimed requests are covered; false = gave up
// (the configuration stays unfiltered).
func genEngFilters(r *c.Rng, e *EngCfg) bool {
	for try := 0; try < 20; try++ {
		genFilters(r, &e.Cfg)
		e.FlowFilter = c.Pick(r, []string{"same", "same", ""})
		ok := true
		for i := 0; i < 12 && ok; i++ {
			ok = e.covered(aimAttr(r, &e.Cfg, e.guard()))
		}
		if ok {
			return true
		}
	}
	e.Filters, e.FlowFilter = nil, ""
	return false
}

// countFilters: distribution keys of the filter dimension. "released by a
// response that does not repeat the header": a response-direction call whose
// provider headers do not satisfy the header requirements of a quota whose slot
// count went down in that call.
func countFilters(o *c.Out, k *EngCase) {
	if len(k.Cfg.Filters) == 0 {
		o.Count("eng:filters=none (host only)")
		return
	}
	kinds := map[string]bool{}
	for i := range k.Cfg.Rows {
		f := k.Cfg.eff(i)
		if len(f.Headers) > 0 {
			kinds["headers"] = true
		}
		if len(f.Methods) > 0 {
			kinds["methods"] = true
		}
		if len(f.Query) > 0 {
			kinds["query"] = true
		}
		if f.Path != "" {
			kinds["narrower-url"] = true
		}
		if k.Cfg.Rows[i].Parent >= 0 && !k.Cfg.decl(i).empty() {
			kinds["child-with-own-filter"] = true
		}
	}
	for kind := range kinds {
		o.Count("eng:filters with " + kind)
	}
	o.Count("eng:filters user-flow-filter=" + map[string]string{"": "host only", "same": "same as the quota's"}[k.Cfg.FlowFilter])
	var prev []int64
	noEcho, dev := 0, 0
	for _, s := range k.Steps {
		if s.Kind == "resp" && s.At != nil && prev != nil {
			for q := range k.Cfg.Rows {
				f := k.Cfg.eff(q)
				if q < len(s.Counts) && s.Counts[q] < prev[q] && len(f.Headers) > 0 && !kvOK(f.Headers, s.At.Hdr, true) {
					noEcho++
				}
			}
		}
		if s.Kind == "req" && s.At != nil && !s.Probe {
			all := true
			for _, q := range k.Cfg.guard() {
				all = all && requestOK(k.Cfg.eff(q), *s.At)
			}
			if !all {
				dev++
			}
		}
		if s.Counts != nil {
			prev = s.Counts
		}
	}
	if noEcho > 0 {
		o.CountN("eng:filters slot of a header-filtered quota released by a response that does not repeat the header", noEcho)
	}
	if dev > 0 {
		o.CountN("eng:filters request outside the filter of a guarding quota", dev)
	}
}
