// C02 harness — concurrent stress (thorough / search tiers, monitor only):
// goroutines run Allowed / hold / Dec on the real quota objects at the same
// time; the number of transactions between "Allowed returned true" and "Dec
// called" is counted independently and must never exceed max; afterwards every
// slot must be free again.
package main

import (
	"fmt"
	"runtime"
	"sync"
	"sync/atomic"

	c "verifharness/common"
)

func stress(o *c.Out, seed uint64, workers, rounds int) {
	cfg := Cfg{Rows: []QRow{{Max: 3, TTLSec: 3, GCSec: hugeGC, Parent: -1}, {Max: 2, TTLSec: 3, GCSec: hugeGC, Parent: 0},
		{Max: 2, TTLSec: 3, GCSec: hugeGC, Parent: 0}}}
	x, err := newResExec(&cfg)
	if err != nil {
		panic(err)
	}
	defer x.close()
	var inflight [3]int64
	var worst [3]int64
	var admitted int64
	var wg sync.WaitGroup
	for w := 0; w < workers; w++ {
		wg.Add(1)
		go func(w int) {
			defer wg.Done()
			rng := c.NewRng(seed*1000 + uint64(w))
			for i := 0; i < rounds; i++ {
				id := w*1_000_000 + i
				leaf := 1 + rng.Intn(2)
				// the stream's sequence id: the transaction's own id, or a stamp
				// that transactions of several workers carry at the same time
				seq := id
				if rng.Chance(1, 3) {
					seq = 7_000_000 + rng.Intn(4)
				}
				x.op(Op{id, "getq", leaf, seq})
				if x.op(Op{id, "allowed", leaf, seq}) == 1 {
					atomic.AddInt64(&admitted, 1)
					for _, q := range cfg.chain(leaf) {
						n := atomic.AddInt64(&inflight[q], 1)
						for {
							old := atomic.LoadInt64(&worst[q])
							if n <= old || atomic.CompareAndSwapInt64(&worst[q], old, n) {
								break
							}
						}
					}
					runtime.Gosched()
					for _, q := range cfg.chain(leaf) {
						atomic.AddInt64(&inflight[q], -1)
					}
				}
				if rng.Chance(1, 2) {
					x.op(Op{id, "dec", leaf, seq})
					x.op(Op{id, "finish", 0, seq})
				} else {
					x.op(Op{id, "drop", 0, id}) // proxy error: ID = SequenceID = transaction id
				}
			}
		}(w)
	}
	wg.Wait()
	o.MonitorChecked(1)
	o.Count("stress:runs")
	o.CountN("stress:admitted", int(admitted))
	kase := map[string]any{"config": cfg, "workers": workers, "rounds": rounds, "seed": seed}
	for q := range cfg.Rows {
		if worst[q] > cfg.Rows[q].Max {
			o.Hit(c.Hit{Suite: "stress", Signature: "bound:over-admission-concurrent",
				Demanded: fmt.Sprintf("at most %d transactions in flight under %s", cfg.Rows[q].Max, qid(q)),
				Observed: fmt.Sprintf("%d transactions were between an allowed verdict and their release at the same time", worst[q]), Case: kase})
		}
	}
	for q, n := range x.counts() {
		if n != 0 {
			o.Hit(c.Hit{Suite: "stress", Signature: "counter:slot-kept-after-release",
				Demanded: fmt.Sprintf("every slot of %s is free after every transaction released", qid(q)),
				Observed: fmt.Sprintf("%d slots still taken", n), Case: kase})
		}
	}
}
