// C02 harness — shared types: configuration, steps, Coq rendering.
package main

import (
	"fmt"
	"strings"

	c "verifharness/common"
)

const (
	sec     = int64(1_000_000_000)
	deltaNs = int64(10_000_000) // only used to aim generated instants, never by the monitor's demands
	hugeGC  = int64(1_000_000)  // gc_interval_sec used when the harness itself triggers GC passes
)

// QRow is one concurrent quota; its id is "q<index>". Parent < index, or -1.
type QRow struct {
	Max    int64 `json:"max"`
	TTLSec int64 `json:"ttl_sec"`
	GCSec  int64 `json:"gc_sec"`
	Parent int   `json:"parent"`
}

type Cfg struct {
	Rows []QRow `json:"quotas"`
	// OneFile: every root quota lives on the same host and in the same file
	// (needed when one flow uses two unrelated quotas)
	OneFile bool `json:"one_file,omitempty"`
	// Foreign: number of quotas of ANOTHER strategy (fixed window: a rate limit
	// that is never reached) that live next to the concurrency quotas; their ids
	// are q<len(Rows)>, q<len(Rows)+1>, ... They touch no concurrency state; they
	// matter because ResourceManagement remembers the FIRST quota a transaction
	// looked up. ForeignFirst: declared before the concurrency quotas.
	Foreign      int  `json:"rate_quotas,omitempty"`
	ForeignFirst bool `json:"rate_quotas_declared_first,omitempty"`
	// Filters: the DECLARED filter of every concurrency quota beyond its host
	// (nil: every filter is "<host>/*" alone). See filters.go.
	Filters []QFilter `json:"filters,omitempty"`
	// Instance: the gateway instance id of the cluster-liveness object registered
	// (as main.go does) before the quotas are created; nil: no liveness object
	// (members then end in "unknown"). May be EMPTY: a non-nil pointer to "".
	// See instance.go.
	Instance *string `json:"instance_id,omitempty"`
}

// foreign tells whether quota index q is a rate (fixed-window) quota.
func (k *Cfg) foreign(q int) bool { return q >= len(k.Rows) }

func qid(i int) string { return fmt.Sprintf("q%d", i) }

func (k *Cfg) root(i int) int {
	for k.Rows[i].Parent >= 0 {
		i = k.Rows[i].Parent
	}
	return i
}

// chain returns q and its ancestors, q first.
func (k *Cfg) chain(q int) []int {
	out := []int{}
	if q >= len(k.Rows) {
		return out // a rate quota: no concurrency slot anywhere
	}
	for q >= 0 {
		out = append(out, q)
		q = k.Rows[q].Parent
	}
	return out
}

func (k *Cfg) onChain(q, x int) bool {
	for _, y := range k.chain(q) {
		if y == x {
			return true
		}
	}
	return false
}

func (k *Cfg) host(i int) string {
	if k.OneFile {
		return "h0.com"
	}
	if i >= len(k.Rows) {
		return "hr.com"
	}
	return fmt.Sprintf("h%d.com", k.root(i))
}

// yamlFiles renders one quota file per root quota (a host must live in one file).
func (k *Cfg) yamlFiles() map[string]string {
	files := map[string]string{}
	rate := func(sb *strings.Builder) {
		for j := 0; j < k.Foreign; j++ {
			i := len(k.Rows) + j
			fmt.Fprintf(sb, "  - id: %s\n    filter:\n      url: \"%s/*\"\n", qid(i), k.host(i))
			sb.WriteString("    strategy:\n      fixed_window:\n        max: 1000000\n        interval: 1\n        interval_unit: hour\n")
		}
	}
	if !k.OneFile && k.Foreign > 0 {
		var sb strings.Builder
		sb.WriteString("quotas:\n")
		rate(&sb)
		files["rate.yaml"] = sb.String()
	}
	if k.OneFile {
		var sb strings.Builder
		sb.WriteString("quotas:\n")
		if k.ForeignFirst {
			rate(&sb)
		}
		for i, r := range k.Rows {
			if r.Parent < 0 {
				fmt.Fprintf(&sb, "  - id: %s\n%s", qid(i), k.filterYAML(i, "    "))
				sb.WriteString(strategyYAML(r, "    "))
			}
		}
		if !k.ForeignFirst {
			rate(&sb)
		}
		first := true
		for j, ch := range k.Rows {
			if ch.Parent < 0 {
				continue
			}
			if first {
				sb.WriteString("internal_limits:\n")
				first = false
			}
			fmt.Fprintf(&sb, "  - id: %s\n    parent_id: %s\n%s", qid(j), qid(ch.Parent), k.childFilterYAML(j, "    "))
			sb.WriteString(strategyYAML(ch, "    "))
		}
		files["q.yaml"] = sb.String()
		return files
	}
	for i, r := range k.Rows {
		if r.Parent >= 0 {
			continue
		}
		var sb strings.Builder
		sb.WriteString("quotas:\n")
		fmt.Fprintf(&sb, "  - id: %s\n%s", qid(i), k.filterYAML(i, "    "))
		sb.WriteString(strategyYAML(r, "    "))
		first := true
		for j, ch := range k.Rows {
			if ch.Parent < 0 || k.root(j) != i {
				continue
			}
			if first {
				sb.WriteString("internal_limits:\n")
				first = false
			}
			fmt.Fprintf(&sb, "  - id: %s\n    parent_id: %s\n%s", qid(j), qid(ch.Parent), k.childFilterYAML(j, "    "))
			sb.WriteString(strategyYAML(ch, "    "))
		}
		files[qid(i)+".yaml"] = sb.String()
	}
	return files
}

func strategyYAML(r QRow, ind string) string {
	return fmt.Sprintf("%sstrategy:\n%s  concurrent:\n%s    max_request_count: %d\n%s    request_expiration_sec: %d\n%s    gc_interval_sec: %d\n",
		ind, ind, ind, r.Max, ind, r.TTLSec, ind, r.GCSec)
}

func (k *Cfg) coq() string {
	return c.MapList(k.Rows, func(r QRow) string {
		p := "None"
		if r.Parent >= 0 {
			p = c.Some(c.Z(int64(r.Parent)))
		}
		return c.Tuple(c.Z(r.Max), c.Z(r.TTLSec*sec), p)
	})
}

// Op is one operation on the quota objects / resource management, executed to
// completion for transaction R on a stream whose transaction id is t<R> and
// whose sequence id is t<Seq> (Seq == R: the proxy's default; Seq != R: the
// client sent x-lunar-sequence-id — a retry carries the id of the first
// attempt, parallel calls may be stamped alike; the stream Stream.OnError
// builds has Seq == R whatever the request carried).
type Op struct {
	R    int    `json:"txn"`
	Name string `json:"op"` // getq inc allowed dec drop finish
	Q    int    `json:"quota"`
	Seq  int    `json:"seq"`
}

func (o Op) coq() string {
	switch o.Name {
	case "getq":
		return "(OGetQ " + c.Z(int64(o.Q)) + ")"
	case "inc":
		return "(OInc " + c.Z(int64(o.Q)) + ")"
	case "allowed":
		return "(OAllowed " + c.Z(int64(o.Q)) + ")"
	case "dec":
		return "(ODec " + c.Z(int64(o.Q)) + ")"
	case "drop":
		return "ODrop"
	case "finish":
		return "OFinish"
	}
	panic("bad op " + o.Name)
}

// LogEntry is the implementation-side event log the monitor reads: operations
// with their verdicts, clock advances and GC passes, each with the (relative)
// instant at which it completed.
type LogEntry struct {
	Kind    string `json:"kind"` // op tick gc end (end: the gateway itself ended transaction Op.R — How)
	Op      Op     `json:"op,omitempty"`
	How     string `json:"how,omitempty"`
	Verdict int    `json:"verdict"` // allowed: 1/0; other ops: -1
	Q       int    `json:"gc_quota,omitempty"`
	T       int64  `json:"t_ns"`
	Probe   bool   `json:"probe,omitempty"`
}
