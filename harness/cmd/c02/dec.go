package main

// Suite "dec" (extension 3): the decimal rendering / reading of a member's
// expiry. generateMember writes it with fmt.Sprintf("%d", int64) and
// extractMemberFromItem reads it with strconv.ParseInt(s, 10, 64); Model4.v has
// both as executable Gallina (dec10 / parse10 true = undec10 with the error
// class) and Property4 section K proves the round trip about THEM. This suite
// ties them to Go's own functions: every case carries what Go said, Coq
// evaluates dec10 / parse10 on the same input (Model4.run_dec).

import (
	"errors"
	"fmt"
	"math"
	"strconv"
	"strings"

	c "verifharness/common"
)

type DecCase struct {
	Gen string `json:"generator"`
	// HasE: the case is "format e, then read the result back"
	HasE bool   `json:"has_e"`
	E    int64  `json:"e"`
	S    []byte `json:"s"` // the string (bytes; any byte value)
	// what strconv.ParseInt(S, 10, 64) returned: "ok" (with V), "syntax", "range"
	Res string `json:"res"`
	V   int64  `json:"v"`
}

func goParse(s string) (string, int64) {
	v, err := strconv.ParseInt(s, 10, 64)
	switch {
	case err == nil:
		return "ok", v
	case errors.Is(err, strconv.ErrRange):
		return "range", 0
	case errors.Is(err, strconv.ErrSyntax):
		return "syntax", 0
	}
	return "other:" + err.Error(), 0
}

func coqDec(k DecCase) string {
	e := "None"
	if k.HasE {
		e = c.Some(c.Z(k.E))
	}
	res := "PSyntax"
	switch k.Res {
	case "ok":
		res = "(POk " + c.Z(k.V) + ")"
	case "range":
		res = "PRange"
	case "syntax":
	default:
		res = "(POk 424242424242424242424242)" // unknown error class: never equal to the model
	}
	return "(mkCD " + e + " " + c.Bytes(string(k.S)) + " " + res + ")"
}

// one "format" case: Go renders e, Go reads it back; the monitor restates the
// trusted pair of facts directly over what Go did
func decFormat(o *c.Out, gen string, e int64) {
	s := fmt.Sprintf("%d", e)
	k := DecCase{Gen: gen, HasE: true, E: e, S: []byte(s)}
	k.Res, k.V = goParse(s)
	idx := o.Case("dec", coqDec(k), k, false)
	o.Count("dec:format")
	o.MonitorChecked(1)
	if s != strconv.FormatInt(e, 10) {
		o.Hit(c.Hit{Suite: "dec", Index: idx, Signature: "dec:sprintf-differs-from-formatint",
			Demanded: "fmt %d of an int64 = strconv.FormatInt(e, 10)", Observed: s, Case: k})
	}
	if strings.Contains(s, ":") {
		o.Hit(c.Hit{Suite: "dec", Index: idx, Signature: "dec:colon-in-digits",
			Demanded: "no ':' in the rendered expiry", Observed: s, Case: k})
	}
	if k.Res != "ok" || k.V != e {
		o.Hit(c.Hit{Suite: "dec", Index: idx, Signature: "dec:round-trip",
			Demanded: fmt.Sprintf("ParseInt(Sprintf(%%d, %d)) = %d", e, e),
			Observed: fmt.Sprintf("%s %d", k.Res, k.V), Case: k})
	}
}

// one "read" case: an arbitrary byte string through strconv.ParseInt
func decRead(o *c.Out, gen string, s string) {
	k := DecCase{Gen: gen, S: []byte(s)}
	k.Res, k.V = goParse(s)
	idx := o.Case("dec", coqDec(k), k, false)
	o.Count("dec:read:" + k.Res)
	o.MonitorChecked(1)
	// independent of the model: whatever ParseInt accepts, rendered again and
	// read again, is the same value (the accepted language may be wider than
	// the rendered one: '+', leading zeros)
	if k.Res == "ok" {
		if r, v := goParse(fmt.Sprintf("%d", k.V)); r != "ok" || v != k.V {
			o.Hit(c.Hit{Suite: "dec", Index: idx, Signature: "dec:round-trip",
				Demanded: "an accepted value renders and reads back as itself", Observed: fmt.Sprintf("%s %d", r, v), Case: k})
		}
	} else if strings.HasPrefix(k.Res, "other:") {
		o.Hit(c.Hit{Suite: "dec", Index: idx, Signature: "dec:unknown-error-class",
			Demanded: "ParseInt fails with ErrSyntax or ErrRange", Observed: k.Res, Case: k})
	}
}

func replayDec(o *c.Out, k DecCase) {
	if k.HasE {
		decFormat(o, k.Gen, k.E)
	} else {
		decRead(o, k.Gen, string(k.S))
	}
}

func genDec(o *c.Out, r *c.Rng) {
	// boundaries of the rendering
	var es []int64
	for _, b := range []int64{0, 1, 9, 10, 11, 99, 100, 101, 1010000000, math.MaxInt32, math.MaxInt32 + 1,
		math.MaxUint32, math.MaxUint32 + 1, math.MaxInt64 - 1, math.MaxInt64} {
		es = append(es, b, -b)
	}
	es = append(es, math.MinInt64, math.MinInt64+1)
	p := int64(1)
	for i := 0; i < 18; i++ { // every power of ten that fits and its neighbours
		p *= 10
		es = append(es, p-1, p, p+1, -(p - 1), -p, -(p + 1))
	}
	for i := uint(0); i < 63; i++ { // powers of two (the fuel of udec is the bit length)
		q := int64(1) << i
		es = append(es, q-1, q, -q, -q-1)
	}
	for _, e := range es {
		decFormat(o, "dec-boundary", e)
	}
	for i := 0; i < o.Scale(300, 4000, 2000); i++ {
		var e int64
		switch r.Intn(4) {
		case 0: // any int64
			e = int64(r.Next())
		case 1: // a UnixNano of these decades, what the code renders
			e = 1_600_000_000_000_000_000 + int64(r.Next()%400_000_000_000_000_000)
		case 2: // a random number of digits
			e = int64(r.Next() >> uint(r.Intn(64)))
			if r.Bool() {
				e = -e
			}
		default: // the mock clock's range (seconds after the epoch, in ns)
			e = int64(r.Next() % 20_000_000_000)
		}
		decFormat(o, "dec-random", e)
	}
	// reading: boundaries of ParseInt(s, 10, 64)
	fixed := []string{"", "+", "-", "+-1", "-+1", "--1", "++1", "0", "-0", "+0", "00", "007", "+5", "-5",
		"9223372036854775807", "9223372036854775808", "9223372036854775809", "+9223372036854775807", "+9223372036854775808",
		"-9223372036854775807", "-9223372036854775808", "-9223372036854775809",
		"18446744073709551615", "18446744073709551616", "-18446744073709551615", "-18446744073709551616",
		"1844674407370955161", "1844674407370955162", "18446744073709551609", "18446744073709551610", "18446744073709551620",
		"99999999999999999999", "99999999999999999999x", "x99999999999999999999", "-99999999999999999999:", "1844674407370955162x",
		"0000000000000000000000000000000000000007", "-0000000000000000000000000000009223372036854775808",
		"00000000000000000000000000000018446744073709551616",
		"1_000", "_1", "1_", "0x10", "0b1", "0o7", "1e3", "1.0", " 1", "1 ", "\t1", "1\n", "1:", ":1", "1::2", "12a", "a", "A", "z", "/", ":", "٣", "１",
		"\x00", "1\x00", "\xff", "1\xff", "\x80\x31", "1,000", "1'000", "Inf", "NaN", "nil", "unknown", "t0", "1010000000::t0::"}
	for _, s := range fixed {
		decRead(o, "dec-read-boundary", s)
	}
	alphabet := []byte("0123456789+-_:x /9\x00\xff")
	for i := 0; i < o.Scale(300, 4000, 2000); i++ {
		var b []byte
		switch r.Intn(4) {
		case 0: // a rendering with one edit
			b = []byte(strconv.FormatInt(int64(r.Next()>>uint(r.Intn(64))), 10))
			if r.Bool() {
				b = append([]byte{'-'}, b...)
			}
			pos := r.Intn(len(b) + 1)
			ch := c.Pick(r, alphabet)
			switch r.Intn(3) {
			case 0:
				b = append(b[:pos:pos], append([]byte{ch}, b[pos:]...)...)
			case 1:
				if pos < len(b) {
					b[pos] = ch
				}
			default:
				if pos < len(b) {
					b = append(b[:pos:pos], b[pos+1:]...)
				}
			}
		case 1: // digit runs around the 64-bit limits: 18-21 digits, optional sign / zeros
			n := r.Range(18, 21)
			if r.Chance(1, 3) {
				b = append(b, c.Pick(r, []byte("+-")))
			}
			for j := r.Intn(3); j > 0; j-- {
				b = append(b, '0')
			}
			for j := 0; j < n; j++ {
				b = append(b, byte('0'+r.Intn(10)))
			}
			if r.Chance(1, 6) {
				b = append(b, c.Pick(r, alphabet))
			}
		case 2: // near the two cutoffs exactly
			base := c.Pick(r, []string{"9223372036854775807", "18446744073709551615"})
			u, _ := strconv.ParseUint(base, 10, 64)
			d := uint64(r.Intn(21))
			var sv string
			if r.Bool() || u > math.MaxUint64-d {
				sv = strconv.FormatUint(u-d, 10)
			} else {
				sv = strconv.FormatUint(u+d, 10)
			}
			if r.Bool() {
				sv = "-" + sv
			}
			b = []byte(sv)
		default: // soup
			for j := r.Intn(8); j > 0; j-- {
				b = append(b, c.Pick(r, alphabet))
			}
		}
		decRead(o, "dec-read-random", string(b))
	}
}
