// C02 harness — fixed histories for the two dimensions added in the
// strengthening round (they run right after genCorpus and give minimal
// replays):
//
//	streams   a transaction's streams carry a sequence id that need not be its
//	          transaction id: overlapping transactions sharing one sequence id,
//	          retried calls ending by proxy error / response / early answer;
//	order     the concurrency quota is not the first quota the transaction
//	          meets (rate limiter first, an unreferenced quota whose system flow
//	          runs first, two concurrency quotas in either order), with every
//	          way a transaction ends.
package main

import (
	"fmt"

	c "verifharness/common"
)

func genCorpus2(o *c.Out) {
	huge := hugeGC
	script := func(tag string, cfg Cfg, f func(rr *resRun)) {
		k := &ResCase{Gen: "corpus:" + tag, Cfg: cfg}
		rr := startRes(k)
		f(rr)
		finishRes(o, rr)
	}
	// lim on a stream (r, seq): what a Limiter does
	lim := func(rr *resRun, r, seq, q int, probe bool) int {
		rr.opS(r, seq, "getq", q, probe)
		rr.opS(r, seq, "inc", q, probe)
		return rr.opS(r, seq, "allowed", q, probe)
	}
	resp := func(rr *resRun, r, seq int, qs ...int) {
		for _, q := range qs {
			rr.opS(r, seq, "getq", q, false)
			rr.opS(r, seq, "dec", q, false)
		}
		rr.opS(r, seq, "finish", 0, false)
	}
	one := func(mx int64) Cfg { return Cfg{Rows: []QRow{{Max: mx, TTLSec: 3, GCSec: huge, Parent: -1}}} }

	// ---- streams ----
	// two transactions in flight at once that carry ONE sequence id (a retry sent while the
	// first attempt is still open / two calls stamped alike): they are two transactions
	for _, mx := range []int64{1, 2} {
		mx := mx
		script("seq-shared-overlap", one(mx), func(rr *resRun) {
			for i := 0; i <= int(mx)+1; i++ {
				lim(rr, i, 0, 0, false) // transaction i, sequence id t0: at most mx are admitted
			}
			resp(rr, 0, 0, 0)
			lim(rr, 7, 0, 0, false) // one slot is free again
			lim(rr, 8, 0, 0, false)
			for i := 1; i <= int(mx)+1; i++ {
				resp(rr, i, 0, 0)
			}
			resp(rr, 7, 0, 0)
			resp(rr, 8, 0, 0)
			lim(rr, 100, 100, 0, true)
		})
	}
	// a retried call (sequence id = the id of the first attempt) ends by a proxy error
	// (Stream.OnError: ID = SequenceID = transaction id), by its response, by an early answer
	for _, end := range []string{"error", "response", "early", "error-while-first-attempt-open"} {
		end := end
		script("seq-retry-"+end, func() Cfg {
			if end == "error-while-first-attempt-open" {
				return one(2)
			}
			return one(1)
		}(), func(rr *resRun) {
			if end == "error-while-first-attempt-open" {
				lim(rr, 0, 0, 0, false)
			} else {
				lim(rr, 0, 0, 0, false)
				rr.opS(0, 0, "drop", 0, false) // the first attempt failed
			}
			lim(rr, 1, 0, 0, false) // the retry: transaction t1, sequence id t0
			switch end {
			case "error", "error-while-first-attempt-open":
				rr.opS(1, 1, "drop", 0, false)
			case "response":
				resp(rr, 1, 0, 0)
			case "early":
				rr.opS(1, 0, "drop", 0, false)
				resp(rr, 1, 0, 0)
			}
			lim(rr, 100, 100, 0, true)
			lim(rr, 101, 101, 0, true)
		})
	}

	// ---- order ----
	// the rate limiter's quota (q1, fixed window) is the first quota the transaction looks up
	for _, end := range []string{"response", "early", "error", "abandon"} {
		end := end
		script("rate-first-"+end, Cfg{Rows: []QRow{{Max: 1, TTLSec: 1, GCSec: huge, Parent: -1}}, Foreign: 1}, func(rr *resRun) {
			rr.op(0, "getq", 1, false)
			lim(rr, 0, 0, 0, false)
			switch end {
			case "response":
				resp(rr, 0, 0, 0)
			case "early":
				rr.op(0, "drop", 0, false)
				resp(rr, 0, 0, 0)
			case "error":
				rr.op(0, "drop", 0, false) // releases the rate quota only: the slot waits for its expiry
			}
			rr.op(1, "getq", 1, false)
			lim(rr, 1, 1, 0, false)
			rr.do(RStep{Kind: "tick", Dt: sec + deltaNs})
			rr.do(RStep{Kind: "gc", Q: 0})
			rr.op(100, "getq", 1, true)
			lim(rr, 100, 100, 0, true)
		})
	}

	// ---- the same through the engine ----
	eng := func(cfg EngCfg, f func(er *engRun)) {
		k := &EngCase{Cfg: cfg}
		er := startEng(k)
		f(er)
		finishEng(o, er)
	}
	req := func(er *engRun, r, seq int, ask bool) EStep {
		return er.do(EStep{Kind: "req", R: r, Seq: seq, Ask: ask})
	}
	probe := func(er *engRun, r int) { er.do(EStep{Kind: "req", R: r, Seq: r, Probe: true}) }
	// sequence ids through the engine, every flow style that has one limiter
	for _, style := range []string{"429", "early", "forward"} {
		eng(EngCfg{Cfg: Cfg{Rows: []QRow{{Max: 1, TTLSec: 3, GCSec: 3, Parent: -1}}}, Limiter: 0, Limiter2: -1, Style: style}, func(er *engRun) {
			req(er, 0, 0, false)
			req(er, 1, 0, false) // same sequence id, in flight together: two transactions, max 1
			er.do(EStep{Kind: "err", R: 0, Seq: 0})
			req(er, 2, 0, false)                    // the retry
			er.do(EStep{Kind: "err", R: 2, Seq: 2}) // fails too: the proxy reports the transaction id
			req(er, 3, 0, false)
			er.do(EStep{Kind: "resp", R: 3, Seq: 0})
			er.do(EStep{Kind: "err", R: 1, Seq: 1})
			probe(er, 100)
			probe(er, 101)
		})
	}
	// the concurrency quota is not the first quota: every configuration shape x every end
	type shape struct {
		tag     string
		rows    []QRow
		foreign int
		ffirst  bool
		chain   []int
	}
	r1 := QRow{Max: 1, TTLSec: 2, GCSec: 2, Parent: -1}
	shapes := []shape{
		{"rate-limiter-then-concurrency", []QRow{r1}, 1, false, []int{1, 0}},
		{"rate-limiter-then-concurrency(rate declared first)", []QRow{r1}, 1, true, []int{1, 0}},
		{"unreferenced-rate-quota", []QRow{r1}, 1, true, []int{0}},
		{"unreferenced-rate-quota(declared last)", []QRow{r1}, 1, false, []int{0}},
		{"unreferenced-concurrency-quota-declared-first", []QRow{{Max: 2, TTLSec: 2, GCSec: 2, Parent: -1}, r1}, 0, false, []int{1}},
		{"unreferenced-concurrency-quota-declared-last", []QRow{r1, {Max: 2, TTLSec: 2, GCSec: 2, Parent: -1}}, 0, false, []int{0}},
		{"two-concurrency-limiters", []QRow{{Max: 2, TTLSec: 2, GCSec: 2, Parent: -1}, r1}, 0, false, []int{0, 1}},
		{"two-concurrency-limiters-reversed", []QRow{{Max: 2, TTLSec: 2, GCSec: 2, Parent: -1}, r1}, 0, false, []int{1, 0}},
		{"rate-limiter-then-child-and-parent", []QRow{{Max: 2, TTLSec: 2, GCSec: 2, Parent: -1}, {Max: 1, TTLSec: 2, GCSec: 2, Parent: 0}}, 1, false, []int{2, 1}},
	}
	for _, sh := range shapes {
		for _, end := range []string{"early", "response", "error", "abandon"} {
			sh, end := sh, end
			cfg := EngCfg{Cfg: Cfg{Rows: append([]QRow(nil), sh.rows...), OneFile: true, Foreign: sh.foreign, ForeignFirst: sh.ffirst},
				Limiter: 0, Limiter2: -1, Style: "chain", Chain: sh.chain, OnRefusal: "429"}
			eng(cfg, func(er *engRun) {
				o.Count(fmt.Sprintf("eng:corpus2 %s / %s", sh.tag, end))
				// transaction 0 is admitted by every limiter; then it ends
				switch end {
				case "early":
					req(er, 0, 0, true) // admitted, then answered by a later processor
				case "response":
					req(er, 0, 0, false)
					er.do(EStep{Kind: "resp", R: 0, Seq: 0})
				case "error":
					req(er, 0, 0, false)
					er.do(EStep{Kind: "err", R: 0, Seq: 0})
				case "abandon":
					req(er, 0, 0, false)
				}
				req(er, 1, 1, false) // admitted iff the slot of transaction 0 is free
				er.do(EStep{Kind: "resp", R: 1, Seq: 1})
				er.do(EStep{Kind: "adv", Dt: 5 * sec}) // past every expiry and a GC wake-up
				probe(er, 100)
				probe(er, 101)
			})
		}
	}
	genCorpusFilters(o)
}

// quota filters: the release on the response is selected through the quota's
// own filter, and the provider's response does not repeat the request's headers
// (nor its query string): every filter shape x every flow shape x every end.
func genCorpusFilters(o *c.Out) {
	eng := func(cfg EngCfg, f func(er *engRun)) {
		k := &EngCase{Cfg: cfg}
		er := startEng(k)
		f(er)
		finishEng(o, er)
	}
	gold := []KV{{"X-Plan", "gold"}}
	type fshape struct {
		tag     string
		rows    []QRow
		filters []QFilter
		req     SAttr
	}
	r1 := QRow{Max: 1, TTLSec: 2, GCSec: 2, Parent: -1}
	fshapes := []fshape{
		{"headers", []QRow{r1}, []QFilter{{Headers: gold}}, SAttr{Method: "GET", Hdr: []KV{{"x-plan", "gold"}}}},
		{"header-alternatives+second-header", []QRow{r1}, []QFilter{{Headers: []KV{{"X-Plan", "gold"}, {"X-Plan", "silver"}, {"x-tenant", "t1"}}}},
			SAttr{Method: "GET", Hdr: []KV{{"x-plan", "silver"}, {"x-tenant", "t1"}}}},
		{"methods", []QRow{r1}, []QFilter{{Methods: []string{"POST", "GET"}}}, SAttr{Method: "POST"}},
		{"query", []QRow{r1}, []QFilter{{Query: []KV{{"tier", "pro"}}}}, SAttr{Method: "GET", Query: []KV{{"tier", "pro"}}}},
		{"narrower-url+headers+methods+query", []QRow{r1}, []QFilter{{Path: "a", Methods: []string{"GET"}, Headers: gold, Query: []KV{{"tier", "pro"}}}},
			SAttr{Method: "GET", Path: "a", Hdr: []KV{{"x-plan", "gold"}}, Query: []KV{{"tier", "pro"}}}},
		{"child-with-own-url-and-header", []QRow{{Max: 2, TTLSec: 2, GCSec: 2, Parent: -1}, {Max: 1, TTLSec: 2, GCSec: 2, Parent: 0}},
			[]QFilter{{Methods: []string{"GET"}}, {Path: "a", Headers: gold}}, SAttr{Method: "GET", Path: "a", Hdr: []KV{{"x-plan", "gold"}}}},
		{"child-own-url-and-header-under-parent-header", []QRow{{Max: 2, TTLSec: 2, GCSec: 2, Parent: -1}, {Max: 1, TTLSec: 2, GCSec: 2, Parent: 0}},
			[]QFilter{{Headers: []KV{{"x-tenant", "t1"}}}, {Path: "a", Headers: gold}},
			SAttr{Method: "GET", Path: "a", Hdr: []KV{{"x-plan", "gold"}, {"x-tenant", "t1"}}}},
		{"parent-alternatives(X-Plan)-child-narrows(x-plan)-two-key-groups", []QRow{{Max: 2, TTLSec: 2, GCSec: 2, Parent: -1}, {Max: 1, TTLSec: 2, GCSec: 2, Parent: 0}},
			[]QFilter{{Headers: []KV{{"X-Plan", "gold"}, {"X-Plan", "silver"}}}, {Headers: []KV{{"x-plan", "gold"}}}},
			SAttr{Method: "GET", Hdr: []KV{{"x-plan", "silver"}}}},
		{"parent-with-header-child-shares-it", []QRow{{Max: 2, TTLSec: 2, GCSec: 2, Parent: -1}, {Max: 1, TTLSec: 2, GCSec: 2, Parent: 0}},
			[]QFilter{{Headers: gold}, {}}, SAttr{Method: "GET", Hdr: []KV{{"x-plan", "gold"}}}},
	}
	for _, sh := range fshapes {
		for _, flow := range []string{"limiter,flow-filter-same", "limiter,flow-filter-host", "unreferenced(system-start-inc)"} {
			for _, end := range []string{"response", "response-echo", "early", "error", "abandon"} {
				sh, flow, end := sh, flow, end
				leaf := len(sh.rows) - 1
				cfg := EngCfg{Cfg: Cfg{Rows: append([]QRow(nil), sh.rows...), OneFile: true, Filters: sh.filters},
					Limiter: leaf, Limiter2: -1, Style: "chain", Chain: []int{leaf}, OnRefusal: "429"}
				switch flow {
				case "limiter,flow-filter-same":
					cfg.FlowFilter = "same"
				case "unreferenced(system-start-inc)":
					// the flow consults a rate quota only: the concurrency quotas take their slots in their system start flow
					cfg.Foreign = 1
					cfg.Chain = []int{len(sh.rows)}
				}
				if end == "early" && flow == "unreferenced(system-start-inc)" && false {
					continue
				}
				eng(cfg, func(er *engRun) {
					o.Count(fmt.Sprintf("eng:corpus-filters %s / %s / %s", sh.tag, flow, end))
					req := func(r int, ask, probe bool) {
						a := sh.req
						er.do(EStep{Kind: "req", R: r, Seq: r, Ask: ask, Probe: probe, At: &a})
					}
					resp := func(r int, echo bool) {
						a := SAttr{Method: sh.req.Method, Path: sh.req.Path, Hdr: []KV{{"content-type", "application/json"}}}
						if echo {
							a.Hdr = append(a.Hdr, sh.req.Hdr...)
						}
						er.do(EStep{Kind: "resp", R: r, Seq: r, At: &a})
					}
					switch end {
					case "early":
						req(0, true, false)
					case "response":
						req(0, false, false)
						req(1, false, false) // refused: the quota is full
						resp(0, false)       // the provider's response does not repeat x-plan / the query string
					case "response-echo":
						req(0, false, false)
						resp(0, true)
					case "error":
						req(0, false, false)
						er.do(EStep{Kind: "err", R: 0, Seq: 0})
					case "abandon":
						req(0, false, false)
					}
					req(2, false, false) // admitted iff the slot of transaction 0 is free
					resp(2, false)
					// a request outside the filter: its LAST header (for a child limit: a requirement that
					// comes from the parent) or its query string is missing; then its response
					if out := sh.req; len(out.Hdr) > 0 || len(out.Query) > 0 {
						if len(out.Hdr) > 0 {
							out.Hdr = append([]KV(nil), out.Hdr[:len(out.Hdr)-1]...)
						} else {
							out.Query = nil
						}
						er.do(EStep{Kind: "req", R: 3, Seq: 3, At: &out})
						resp(3, false)
					}
					er.do(EStep{Kind: "adv", Dt: 5 * sec})
					req(100, false, true)
					req(101, false, true)
				})
			}
		}
	}
}
