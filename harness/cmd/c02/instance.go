// C02 harness — the gateway instance id (third strengthening round).
//
// A member of a concurrency quota's set is "<expiryUnixNano>::<request id>::<instance id>".
// The instance id comes from the cluster-liveness object the engine registers:
// main.go does context_manager.WithClusterLiveness(lunar_cluster.NewLunarCluster(
// environment.GetGatewayInstanceID())), and GetGatewayInstanceID() is the raw
// GATEWAY_INSTANCE_ID variable — EMPTY unless the container's setenv script (or
// the operator) filled it in, any string an operator chose otherwise. Without a
// liveness object the strategy writes "unknown".
//
// The property does not mention the instance id: whatever it is, a slot is
// given back at the latest when its expiry passes (and a GC pass ran). So the
// set-up varies it — none registered, empty, the setenv shape, separator
// characters inside ("::", a single ':'), digits only, blanks, long — and the
// model / monitor stay as they are (neither ever looks at it).
package main

import (
	"strings"

	context_manager "lunar/toolkit-core/context-manager"
	lunar_cluster "lunar/toolkit-core/network/lunar-cluster"

	c "verifharness/common"
)

// instance ids worth trying. "" first: what an engine started outside the
// stock container start-up has.
var instanceIDs = []string{
	"",
	"gateway-AbC123xyz789", // the shape /usr/bin/setenv generates
	"unknown",              // the same text the strategy writes without liveness
	"dc1::gw2",             // the member separator inside
	"::",                   // nothing but the separator
	"::gw",                 // separator first
	"gw::",                 // separator last
	"gw:7",                 // half a separator
	":",                    // half a separator alone
	"1700000000000000000",  // looks like an expiry
	" ",                    // blank
	"t0",                   // looks like a transaction id
	strings.Repeat("gateway-0123456789abcdef/", 12), // long (300 bytes)
}

func strp(s string) *string { return &s }

// pickInstance: no liveness object 3/10 (the harness's old and only set-up),
// the empty id 2/10, one of the others 5/10.
func pickInstance(r *c.Rng) *string {
	switch x := r.Intn(10); {
	case x < 3:
		return nil
	case x < 5:
		return strp("")
	}
	return strp(instanceIDs[1+r.Intn(len(instanceIDs)-1)])
}

// applyLiveness registers the cluster-liveness object exactly as main.go does
// (or removes it) BEFORE the quotas of the case are created: the strategy reads
// it once, in init().
func applyLiveness(k *Cfg) error {
	cm := context_manager.Get()
	if k.Instance == nil {
		cm.WithClusterLiveness(nil)
		return nil
	}
	l, err := lunar_cluster.NewLunarCluster(*k.Instance)
	if err != nil {
		return err
	}
	cm.WithClusterLiveness(l)
	return nil
}

func instanceKey(k *Cfg) string {
	if k.Instance == nil {
		return "none registered ('unknown')"
	}
	s := *k.Instance
	switch {
	case s == "":
		return "empty"
	case strings.Contains(s, "::"):
		return "contains the member separator '::'"
	case strings.Contains(s, ":"):
		return "contains ':'"
	case len(s) > 100:
		return "long"
	}
	return "plain"
}

// genCorpusInstance: for every instance id, the minimal histories in which the
// expiry is the ONLY way the slot comes back (abandoned transactions), next to
// the explicit ends, at both levels.
func genCorpusInstance(o *c.Out) {
	huge := hugeGC
	lim := func(rr *resRun, r, q int, probe bool) int {
		rr.op(r, "getq", q, probe)
		rr.op(r, "inc", q, probe)
		return rr.op(r, "allowed", q, probe)
	}
	ids := []*string{nil}
	for _, s := range instanceIDs {
		ids = append(ids, strp(s))
	}
	for _, id := range ids {
		id := id
		// resource level: max abandoned transactions, a refusal, the expiry passes, one GC pass, probes
		for _, n := range []int{1, 2} {
			k := &ResCase{Gen: "corpus:instance-abandoned-expire", Cfg: Cfg{Rows: []QRow{{Max: int64(n), TTLSec: 1, GCSec: huge, Parent: -1}}, Instance: id}}
			rr := startRes(k)
			for i := 0; i <= n; i++ {
				lim(rr, i, 0, false)
			}
			rr.do(RStep{Kind: "tick", Dt: sec + deltaNs - 1})
			rr.do(RStep{Kind: "gc", Q: 0}) // 1 ns early: nothing to collect yet
			lim(rr, 50, 0, false)
			rr.do(RStep{Kind: "tick", Dt: 1})
			rr.do(RStep{Kind: "gc", Q: 0})
			for i := 0; i < n; i++ {
				lim(rr, 100+i, 0, true)
			}
			finishRes(o, rr)
		}
		// two levels: the child is abandoned, child and parent expire at different instants
		{
			k := &ResCase{Gen: "corpus:instance-abandoned-chain", Cfg: Cfg{Rows: []QRow{{Max: 1, TTLSec: 2, GCSec: huge, Parent: -1}, {Max: 1, TTLSec: 1, GCSec: huge, Parent: 0}}, Instance: id}}
			rr := startRes(k)
			lim(rr, 0, 1, false)
			lim(rr, 1, 1, false)
			rr.do(RStep{Kind: "tick", Dt: sec + deltaNs})
			rr.do(RStep{Kind: "gc", Q: 1})
			rr.do(RStep{Kind: "gc", Q: 0})
			lim(rr, 2, 1, false) // the child has room, the parent not yet
			rr.op(2, "drop", 0, false)
			rr.do(RStep{Kind: "tick", Dt: sec})
			rr.do(RStep{Kind: "gc", Q: 0})
			rr.do(RStep{Kind: "gc", Q: 1})
			lim(rr, 100, 1, true)
			finishRes(o, rr)
		}
		// the explicit ends under the same id (response, proxy error), then an abandoned one
		{
			k := &ResCase{Gen: "corpus:instance-ends", Cfg: Cfg{Rows: []QRow{{Max: 1, TTLSec: 1, GCSec: huge, Parent: -1}}, Instance: id}}
			rr := startRes(k)
			lim(rr, 0, 0, false)
			lim(rr, 1, 0, false)
			rr.op(0, "getq", 0, false)
			rr.op(0, "dec", 0, false)
			rr.op(0, "finish", 0, false)
			lim(rr, 2, 0, false)
			rr.op(2, "drop", 0, false)
			lim(rr, 3, 0, false) // abandoned
			rr.do(RStep{Kind: "tick", Dt: 2 * sec})
			rr.do(RStep{Kind: "gc", Q: 0})
			lim(rr, 100, 0, true)
			finishRes(o, rr)
		}
		// engine level: the real GC goroutine, every flow style
		for _, style := range []string{"429", "early", "forward"} {
			k := &EngCase{}
			k.Cfg.Cfg = Cfg{Rows: []QRow{{Max: 2, TTLSec: 1, GCSec: 2, Parent: -1}}, Instance: id}
			k.Cfg.Style, k.Cfg.Limiter, k.Cfg.Limiter2 = style, 0, -1
			er := startEng(k)
			er.do(EStep{Kind: "req", R: 0, Seq: 0})
			er.do(EStep{Kind: "req", R: 1, Seq: 1})
			er.do(EStep{Kind: "req", R: 2, Seq: 2}) // full
			er.do(EStep{Kind: "resp", R: 0, Seq: 0})
			er.do(EStep{Kind: "req", R: 3, Seq: 3})  // 1 and 3 are abandoned
			er.do(EStep{Kind: "adv", Dt: 2 * sec}) // both expired at 1.01 s, the GC wakes at 2 s
			er.do(EStep{Kind: "req", R: 100, Seq: 100, Probe: true})
			er.do(EStep{Kind: "req", R: 101, Seq: 101, Probe: true})
			finishEng(o, er)
		}
	}
}
