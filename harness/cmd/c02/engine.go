// C02 harness — engine level: generated quota + flow YAML loaded through
// streams.NewStream().Initialize(); transactions through Stream.ExecuteFlow,
// proxy errors through Stream.OnError, GC through the real runGC goroutines
// woken by the mock clock (the harness advances the clock exactly to each GC
// deadline and waits until the goroutine has re-armed its timer).
package main

import (
	"context"
	"fmt"
	"strconv"
	"strings"
	"sync"
	"time"

	"lunar/engine/actions"
	"lunar/engine/streams"
	stream_config "lunar/engine/streams/config"
	publictypes "lunar/engine/streams/public-types"
	"lunar/engine/verifhook"
	"lunar/toolkit-core/clock"
)

// Flow styles (one user flow, filter = the host of the limiter's quota):
//
//	"429"      Limiter(q): above_limit -> GenerateResponse(429); below_limit -> end
//	"early"    Limiter(q): above_limit -> GenerateResponse(429); below_limit -> GenerateResponse(200)
//	"forward"  Limiter(q): both outputs -> end (a refused request is forwarded anyway)
//	"two"      Limiter(q): above_limit -> GenerateResponse(429); below_limit -> Limiter(q2):
//	           above_limit -> GenerateResponse(429); below_limit -> end   (q2 unrelated to q)
//	"chain"    every quota on ONE host; Limiter(Chain[0]) -> below_limit -> Limiter(Chain[1]) -> ... ->
//	           Filter(header x-mode=early): hit -> GenerateResponse(200) (answered early AFTER
//	           admission, per request), miss -> end; above_limit of every limiter ->
//	           GenerateResponse(429), or -> end when OnRefusal == "forward".  Chain entries
//	           are concurrency quotas (rows) and rate quotas (fixed window, never reached) in
//	           any order; quotas outside the chains of its entries are referenced by no flow
//	           (their system-flow QuotaProcessorInc applies its logic, before the user flow).
type EngCfg struct {
	Cfg
	Limiter   int    `json:"limiter_quota"`
	Limiter2  int    `json:"second_limiter_quota"` // -1: none
	Style     string `json:"flow_style"`
	Chain     []int  `json:"limiter_chain,omitempty"`
	OnRefusal string `json:"on_refusal,omitempty"` // chain: "429" | "forward"
	// FlowFilter: the user flow's filter: "" = "<host>/*" alone; "same" = the
	// effective filter of the quota its first limiter consults
	FlowFilter string `json:"flow_filter,omitempty"`
}

// firstLim: the quota the user flow's first limiter consults
func (e *EngCfg) firstLim() int {
	if e.Style == "chain" {
		return e.Chain[0]
	}
	return e.Limiter
}

func (e *EngCfg) userFilter() QFilter {
	if e.FlowFilter == "same" && !e.foreign(e.firstLim()) {
		return e.eff(e.firstLim())
	}
	return QFilter{}
}

func (e *EngCfg) userFilterYAML() string {
	f := e.userFilter()
	h := e.host(0)
	if e.Style != "chain" {
		h = e.host(e.Limiter)
	}
	url := h + "/*"
	if f.Path != "" {
		url = h + "/" + f.Path + "/*"
	}
	return "filter:\n" + filterBody(url, f, "")
}

func (e *EngCfg) flowYAML() string {
	if e.Style == "chain" {
		return e.chainYAML()
	}
	lim := fmt.Sprintf("lim%d", e.Limiter)
	var sb strings.Builder
	fmt.Fprintf(&sb, "name: f\n%sprocessors:\n", e.userFilterYAML())
	fmt.Fprintf(&sb, "  %s:\n    processor: Limiter\n    parameters:\n      - key: quota_id\n        value: %s\n", lim, qid(e.Limiter))
	gen := func(name string, status int) {
		fmt.Fprintf(&sb, "  %s:\n    processor: GenerateResponse\n    parameters:\n      - key: status\n        value: %d\n", name, status)
	}
	lim2 := fmt.Sprintf("lim%d", e.Limiter2)
	if e.Style == "two" {
		fmt.Fprintf(&sb, "  %s:\n    processor: Limiter\n    parameters:\n      - key: quota_id\n        value: %s\n", lim2, qid(e.Limiter2))
	}
	if e.Style != "forward" {
		gen("gen429", 429)
	}
	if e.Style == "early" {
		gen("gen200", 200)
	}
	sb.WriteString("flow:\n  request:\n")
	conn := func(from, cond, to string) {
		sb.WriteString("    - from:\n")
		if from == "" {
			sb.WriteString("        stream:\n          name: globalStream\n          at: start\n")
		} else {
			fmt.Fprintf(&sb, "        processor:\n          name: %s\n", from)
			if cond != "" {
				fmt.Fprintf(&sb, "          condition: %s\n", cond)
			}
		}
		sb.WriteString("      to:\n")
		if to == "" {
			sb.WriteString("        stream:\n          name: globalStream\n          at: end\n")
		} else {
			fmt.Fprintf(&sb, "        processor:\n          name: %s\n", to)
		}
	}
	conn("", "", lim)
	switch e.Style {
	case "429":
		conn(lim, "above_limit", "gen429")
		conn(lim, "below_limit", "")
	case "early":
		conn(lim, "above_limit", "gen429")
		conn(lim, "below_limit", "gen200")
	case "forward":
		conn(lim, "above_limit", "")
		conn(lim, "below_limit", "")
	case "two":
		conn(lim, "above_limit", "gen429")
		conn(lim, "below_limit", lim2)
		conn(lim2, "above_limit", "gen429")
		conn(lim2, "below_limit", "")
	}
	sb.WriteString("  response:\n")
	if e.Style != "forward" {
		conn("gen429", "", "")
	}
	if e.Style == "early" {
		conn("gen200", "", "")
	}
	conn("", "", "")
	return sb.String()
}

func (e *EngCfg) chainYAML() string {
	var sb strings.Builder
	fmt.Fprintf(&sb, "name: f\n%sprocessors:\n", e.userFilterYAML())
	for _, q := range e.Chain {
		fmt.Fprintf(&sb, "  lim%d:\n    processor: Limiter\n    parameters:\n      - key: quota_id\n        value: %s\n", q, qid(q))
	}
	sb.WriteString("  flt:\n    processor: Filter\n    parameters:\n      - key: header\n        value: x-mode=early\n")
	gen := func(name string, status int) {
		fmt.Fprintf(&sb, "  %s:\n    processor: GenerateResponse\n    parameters:\n      - key: status\n        value: %d\n", name, status)
	}
	if e.OnRefusal != "forward" {
		gen("gen429", 429)
	}
	gen("gen200", 200)
	sb.WriteString("flow:\n  request:\n")
	conn := func(from, cond, to string) {
		sb.WriteString("    - from:\n")
		if from == "" {
			sb.WriteString("        stream:\n          name: globalStream\n          at: start\n")
		} else {
			fmt.Fprintf(&sb, "        processor:\n          name: %s\n", from)
			if cond != "" {
				fmt.Fprintf(&sb, "          condition: %s\n", cond)
			}
		}
		sb.WriteString("      to:\n")
		if to == "" {
			sb.WriteString("        stream:\n          name: globalStream\n          at: end\n")
		} else {
			fmt.Fprintf(&sb, "        processor:\n          name: %s\n", to)
		}
	}
	name := func(i int) string { return fmt.Sprintf("lim%d", e.Chain[i]) }
	conn("", "", name(0))
	for i := range e.Chain {
		if e.OnRefusal == "forward" {
			conn(name(i), "above_limit", "")
		} else {
			conn(name(i), "above_limit", "gen429")
		}
		if i+1 < len(e.Chain) {
			conn(name(i), "below_limit", name(i+1))
		} else {
			conn(name(i), "below_limit", "flt")
		}
	}
	conn("flt", "hit", "gen200")
	conn("flt", "miss", "")
	sb.WriteString("  response:\n")
	if e.OnRefusal != "forward" {
		conn("gen429", "", "")
	}
	conn("gen200", "", "")
	conn("", "", "")
	return sb.String()
}

// referenced: quotas named by a Limiter of the user flow, and their ancestors
// (for those the engine switches the system flow's QuotaProcessorInc off).
func (e *EngCfg) referenced(q int) bool {
	if e.Style == "chain" {
		for _, l := range e.Chain {
			if l == q || e.onChain(l, q) {
				return true
			}
		}
		return false
	}
	return e.onChain(e.Limiter, q) || (e.Style == "two" && e.onChain(e.Limiter2, q))
}

// Pev is one quota-relevant processor execution observed through the
// processor-executed hook (or inferred: "finish").
type Pev struct {
	Kind  string `json:"kind"` // inc lim gen dec finish touch (touch: a processor of a rate quota looked it up)
	Q     int    `json:"quota"`
	Apply bool   `json:"apply,omitempty"`
	Below int    `json:"below"` // lim: 1 below_limit, 0 above_limit
}

var (
	evMu   sync.Mutex
	evSink *[]Pev
	evCfg  *EngCfg
)

func parseQ(s string) (int, bool) {
	if !strings.HasPrefix(s, "q") {
		return 0, false
	}
	n, err := strconv.Atoi(s[1:])
	return n, err == nil
}

func hookEvent(kind string, args ...string) {
	if kind != "proc" || len(args) < 4 {
		return
	}
	evMu.Lock()
	defer evMu.Unlock()
	if evSink == nil {
		return
	}
	key, dir, cond := args[1], args[2], args[3]
	switch {
	case strings.HasPrefix(key, "lim"):
		q, _ := strconv.Atoi(key[3:])
		b := 0
		if cond == "below_limit" {
			b = 1
		}
		if evCfg.foreign(q) {
			// the Limiter of a rate quota: GetQuota(q, id) is all it does to the
			// concurrency side; its verdict is not a concurrency verdict
			*evSink = append(*evSink, Pev{Kind: "touch", Q: q, Below: b})
			return
		}
		*evSink = append(*evSink, Pev{Kind: "lim", Q: q, Below: b})
	case strings.HasPrefix(key, "gen"):
		if dir == publictypes.StreamTypeRequest.String() {
			*evSink = append(*evSink, Pev{Kind: "gen", Below: -1})
		}
	case strings.HasSuffix(key, "_QuotaProcessorInc"):
		if q, ok := parseQ(strings.TrimSuffix(key, "_QuotaProcessorInc")); ok {
			switch {
			case !evCfg.foreign(q):
				*evSink = append(*evSink, Pev{Kind: "inc", Q: q, Apply: !evCfg.referenced(q), Below: -1})
			case !evCfg.referenced(q):
				*evSink = append(*evSink, Pev{Kind: "touch", Q: q, Below: -1})
			}
		}
	case strings.HasSuffix(key, "_QuotaProcessorDec"):
		if q, ok := parseQ(strings.TrimSuffix(key, "_QuotaProcessorDec")); ok && !evCfg.foreign(q) {
			*evSink = append(*evSink, Pev{Kind: "dec", Q: q, Below: -1})
		}
	}
}

type engExec struct {
	e        *EngCfg
	st       *streams.Stream
	quotas   []publictypes.QuotaResourceI
	clk      *clock.MockClock
	now      int64
	cancel   context.CancelFunc
	deadline []int64 // next GC wake-up per quota (relative ns)
	timers   int
}

func waitTimers(clk *clock.MockClock, n int) error {
	// wall-clock budget, not an iteration count: on a loaded machine a goroutine
	// may be scheduled late
	for limit := time.Now().Add(30 * time.Second); time.Now().Before(limit); {
		if clk.VerifC02TimerCount() == n {
			return nil
		}
		time.Sleep(20 * time.Microsecond)
	}
	return fmt.Errorf("GC goroutines did not (re-)arm their timers: %d armed, want %d", clk.VerifC02TimerCount(), n)
}

func newEngExec(e *EngCfg) (*engExec, error) {
	setupEnv()
	verifhook.SetEvent(hookEvent)
	if err := writeCfg(&e.Cfg, map[string]string{"f.yaml": e.flowYAML()}); err != nil {
		return nil, err
	}
	if err := applyLiveness(&e.Cfg); err != nil {
		return nil, err
	}
	clk, cancel := freshClock()
	st, err := streams.NewStream()
	if err != nil {
		cancel()
		return nil, err
	}
	if err := st.Initialize(); err != nil {
		cancel()
		return nil, err
	}
	evMu.Lock()
	evCfg = e
	evMu.Unlock()
	x := &engExec{e: e, st: st, clk: clk, cancel: cancel, timers: len(e.Rows)}
	for i, r := range e.Rows {
		q, err := st.VerifC02Quota(qid(i))
		if err != nil {
			cancel()
			return nil, err
		}
		x.quotas = append(x.quotas, q)
		x.deadline = append(x.deadline, r.GCSec*sec)
	}
	// every runGC goroutine must have armed its first timer before time moves
	if err := waitTimers(clk, x.timers); err != nil {
		cancel()
		return nil, err
	}
	evMu.Lock()
	evCfg = e
	evMu.Unlock()
	return x, nil
}

func (x *engExec) close() { x.cancel() }

func (x *engExec) url() string {
	if x.e.Style == "chain" {
		return x.e.host(0) + "/x"
	}
	return x.e.host(x.e.Limiter) + "/x"
}

// txn runs one ExecuteFlow call the way routing/messages_handler.go does, on a
// stream with transaction id t<r> and sequence id t<seq>; ask = the request
// carries the header that makes a "chain" flow answer it after admission. A
// panic of the engine is reported as the call's error, the run goes on.
func (x *engExec) txn(r, seq int, response, ask bool, at *SAttr) (trace []Pev, early bool, errText string) {
	trace = []Pev{}
	evMu.Lock()
	evSink = &trace
	evMu.Unlock()
	defer func() {
		if p := recover(); p != nil {
			evMu.Lock()
			evSink = nil
			evMu.Unlock()
			errText = fmt.Sprintf("panic: %v", p)
		}
	}()
	var err error
	if !response {
		var hdr map[string]string
		if ask {
			hdr = map[string]string{"x-mode": "early"}
		}
		api := reqStreamA(r, seq, x.urlA(at), at, hdr)
		acts := &stream_config.StreamActions{Request: &stream_config.RequestStream{}}
		err = x.st.ExecuteFlow(api, acts)
		for _, a := range acts.Request.Actions {
			if _, ok := a.(*actions.EarlyResponseAction); ok {
				early = true
			}
		}
	} else {
		api := respStreamA(r, seq, x.urlA(at), at)
		acts := &stream_config.StreamActions{Response: &stream_config.ResponseStream{}}
		err = x.st.ExecuteFlow(api, acts)
	}
	evMu.Lock()
	evSink = nil
	evMu.Unlock()
	if err != nil {
		return trace, early, err.Error()
	}
	// executeRes ends with OnResponseFinish: on a response, and on a request
	// that was answered by GenerateResponse (the response flows run in the same call)
	gen := false
	for _, p := range trace {
		if p.Kind == "gen" {
			gen = true
		}
	}
	if response || gen {
		trace = append(trace, Pev{Kind: "finish", Below: -1})
	}
	return trace, early, ""
}

func (x *engExec) onError(r int) { x.st.OnError(fmt.Sprintf("t%d", r)) }

// advance moves the clock by dt, stopping exactly at every GC deadline on the
// way; returns what happened as (adv dt | gc q) segments.
type Seg struct {
	Gc     bool    `json:"gc"`
	Qs     []int   `json:"quotas,omitempty"` // quotas whose GC goroutine woke at this instant
	Dt     int64   `json:"dt_ns,omitempty"`
	T      int64   `json:"t_ns"` // instant at the end of the segment
	Counts []int64 `json:"counts"`
}

func (x *engExec) advance(dt int64) ([]Seg, error) {
	segs := []Seg{}
	target := x.now + dt
	for {
		next := int64(-1)
		for _, d := range x.deadline {
			if d <= target && (next < 0 || d < next) {
				next = d
			}
		}
		if next < 0 {
			break
		}
		// the counts right after the clock moved are not observable separately
		// from the GC passes the move triggers: one adv segment (no counts) + one gc segment
		if next > x.now {
			segs = append(segs, Seg{Dt: next - x.now, T: next})
		}
		x.clk.AdvanceTime(time.Duration(next - x.now))
		x.now = next
		if err := waitTimers(x.clk, x.timers); err != nil {
			return segs, err
		}
		g := Seg{Gc: true, T: next}
		for q, d := range x.deadline {
			if d == next {
				g.Qs = append(g.Qs, q)
				x.deadline[q] = next + x.e.Rows[q].GCSec*sec
			}
		}
		g.Counts = x.counts()
		segs = append(segs, g)
	}
	if target > x.now {
		x.clk.AdvanceTime(time.Duration(target - x.now))
		segs = append(segs, Seg{Dt: target - x.now, T: target, Counts: x.counts()})
		x.now = target
	}
	return segs, nil
}

func (x *engExec) counts() []int64 { return memberCounts(x.quotas) }
