package main

// Suite "member" (extension 4): members as WHOLE strings.
//
// Model4.v's render / splitk / parse / gc_item say what generateMember writes
// and what one GC item (extractMemberFromItem + validateMemberIntegrity) does
// with a string. This suite drives the real unexported methods of a real
// concurrent quota (created through the real ResourceManagement under every
// cluster-liveness set-up; shim quota/verif_c02b.go) and lets Coq evaluate
// render dec10 / parse undec10 head4 / gc_item undec10 head4 on the same
// strings (Model4.run_member).

import (
	"fmt"
	"math"
	"strconv"
	"strings"
	"time"

	publictypes "lunar/engine/streams/public-types"
	quotaresource "lunar/engine/streams/resources/quota"
	"lunar/toolkit-core/clock"

	c "verifharness/common"
)

const slackNs = int64(10 * time.Millisecond) // timeDeltaForDeadRequestDecision

type MemberCase struct {
	Gen      string  `json:"generator"`
	Instance *string `json:"instance_id,omitempty"` // nil: no liveness object ("unknown")
	TTLSec   int64   `json:"ttl_sec"`
	// HasGen: the item is what generateMember wrote with the clock at GNow for Rid
	HasGen bool   `json:"has_gen"`
	GNow   int64  `json:"gen_now"`
	Rid    []byte `json:"rid"`
	Item   []byte `json:"item"`
	Now    int64  `json:"now"` // clock reading of the GC item
	// observed
	Err       string `json:"err"`
	ReqID     []byte `json:"req_id"`
	InstID    []byte `json:"inst_id"`
	Remaining int64  `json:"remaining"`
	Collected bool   `json:"collected"`
}

type memberSetup struct {
	inst   *string
	ttlSec int64
	q      publictypes.QuotaResourceI
	clk    *clock.MockClock
	done   func()
}

func newMemberSetup(inst *string, ttlSec int64) (*memberSetup, error) {
	k := &Cfg{Rows: []QRow{{Max: 1, TTLSec: ttlSec, GCSec: hugeGC, Parent: -1}}, Instance: inst}
	x, err := newResExec(k)
	if err != nil {
		return nil, err
	}
	// the quota's own GC goroutine is not wanted here: stop it, and give the
	// case a clock of its own without timers (the strategy fetches the clock
	// from the context manager on every call), so that jumps of centuries cost
	// nothing
	x.close()
	clk, cancel := freshClock()
	return &memberSetup{inst: inst, ttlSec: ttlSec, q: x.quotas[0], clk: clk, done: cancel}, nil
}

func (m *memberSetup) instText() string {
	if m.inst == nil {
		return "unknown"
	}
	return *m.inst
}

func coqMember(k MemberCase, inst string) string {
	gen := "None"
	if k.HasGen {
		gen = c.Some(c.Tuple(c.Z(k.GNow), c.Z(k.TTLSec*1_000_000_000)))
	}
	parsed := "None"
	if k.Err == "" {
		parsed = c.Some(c.Tuple(c.Z(k.Remaining), c.Bytes(string(k.ReqID)), c.Bytes(string(k.InstID))))
	}
	return "(mkCM " + gen + " " + c.Bytes(string(k.Rid)) + " " + c.Bytes(inst) + " " + c.Bytes(string(k.Item)) + " " +
		c.Z(k.Now) + " " + parsed + " " + c.B(k.Collected) + ")"
}

// runMember executes one case on the implementation: (generate,) one GC item.
func (m *memberSetup) runMember(o *c.Out, k MemberCase) {
	k.Instance, k.TTLSec = m.inst, m.ttlSec
	if k.HasGen {
		m.clk.Set(time.Unix(0, k.GNow))
		s, ok := quotaresource.VerifC02Member(m.q, string(k.Rid))
		if !ok {
			panic("not a concurrent quota")
		}
		k.Item = []byte(s)
	}
	m.clk.Set(time.Unix(0, k.Now))
	res, ok := quotaresource.VerifC02Extract(m.q, string(k.Item))
	if !ok {
		panic("not a concurrent quota")
	}
	k.Err, k.ReqID, k.InstID, k.Remaining, k.Collected = res.Err, []byte(res.ReqID), []byte(res.InstanceID), res.Remaining, res.Collected
	inst := m.instText()
	idx := o.Case("member", coqMember(k, inst), k, false)
	cls := "refused"
	if k.Err == "" {
		cls = "kept"
		if k.Collected {
			cls = "collected"
		}
	}
	if k.HasGen {
		o.Count("member:generated:" + cls)
	} else {
		o.Count("member:made-up:" + cls)
	}
	// monitor, written over what the code did (no model): a member the code
	// wrote itself for a ':'-free request id is readable, is collected once its
	// expiry (clock at the write + request expiry + 10 ms) has passed, is not
	// collected before the request expiry itself has passed, and names the
	// request and the instance it was written for
	if !k.HasGen || strings.Contains(string(k.Rid), ":") {
		return
	}
	o.MonitorChecked(1)
	hit := func(sig, dem, obs string) {
		o.Hit(c.Hit{Suite: "member", Index: idx, Signature: sig, Demanded: dem, Observed: obs, Case: k})
	}
	ttl := k.TTLSec * 1_000_000_000
	e := k.GNow + ttl + slackNs
	switch {
	case k.Err != "":
		hit("member:own-member-unreadable", "the GC reads the member the code wrote", k.Err)
	case k.Now > e && !k.Collected:
		hit("member:expired-not-collected", fmt.Sprintf("expiry %d has passed at %d: collected", e, k.Now), "kept")
	case k.Now < k.GNow+ttl && k.Collected:
		hit("member:live-collected", fmt.Sprintf("request expiry %d not reached at %d: kept", k.GNow+ttl, k.Now), "collected")
	case string(k.ReqID) != string(k.Rid) || string(k.InstID) != inst:
		hit("member:read-back", fmt.Sprintf("request id %q, instance id %q", k.Rid, inst), fmt.Sprintf("%q, %q", k.ReqID, k.InstID))
	}
}

func replayMember(o *c.Out, k MemberCase) {
	m, err := newMemberSetup(k.Instance, k.TTLSec)
	if err != nil {
		panic(err)
	}
	defer m.done()
	m.runMember(o, k)
}

var memberRids = []string{
	"t0", "t17", "", "0A000001-D2F4-0A000002-1F90-65F1A2B3-0007", "1700000000000000000", "-", " ", "unknown",
	// outside the theorem's hypothesis (':' in the request id): the model's parser must still say what the code's does
	"a:b", "a:", ":a", "a::b", "::", ":", "a:::b", "0A000001:D2F4_0A000002:1F90",
	strings.Repeat("r", 200),
}

func addOK(a, b int64) bool { // a + b stays inside int64
	if b > 0 {
		return a <= math.MaxInt64-b
	}
	return a >= math.MinInt64-b
}

// clock readings aimed at expiry e (and the write at g)
func memberNows(r *c.Rng, g, e int64, n int) []int64 {
	cand := []int64{e, math.MinInt64, math.MaxInt64, 0, g}
	for _, d := range []int64{-1, 1, -slackNs, -slackNs - 1, -slackNs + 1, -2 * slackNs} {
		if addOK(e, d) {
			cand = append(cand, e+d)
		}
	}
	cand = append(cand, int64(r.Next()), e/2)
	// always the three readings around the expiry, then a sample of the rest
	out := cand[:1]
	if addOK(e, -1) {
		out = append(out, e-1)
	}
	if addOK(e, 1) {
		out = append(out, e+1)
	}
	for len(out) < n {
		out = append(out, c.Pick(r, cand))
	}
	return out
}

func genMember(o *c.Out, r *c.Rng) {
	insts := []*string{nil}
	for i := range instanceIDs {
		insts = append(insts, strp(instanceIDs[i]))
	}
	insts = append(insts, strp("a:::b"), strp(":::"))
	perSetup := o.Scale(8, 60, 30)
	nNows := o.Scale(5, 8, 6)
	for si, inst := range insts {
		ttlSec := int64(1 + si%3)
		m, err := newMemberSetup(inst, ttlSec)
		if err != nil {
			panic(err)
		}
		ttl := ttlSec * 1_000_000_000
		off := ttl + slackNs
		// clock readings of the write: expiries at both ends of int64, around 0,
		// the mock clock's epoch, today's UnixNano, random
		gnows := []int64{math.MaxInt64 - off, math.MaxInt64 - off - 1, math.MinInt64, math.MinInt64 + 1, -off, -off - 1, -off + 1, 0,
			1_000_000_000, 1_790_000_000_000_000_000}
		for len(gnows) < perSetup+4 {
			var g int64
			switch r.Intn(3) {
			case 0:
				g = int64(r.Next())
			case 1:
				g = int64(r.Next() >> uint(r.Intn(64)))
				if r.Bool() {
					g = -g
				}
			default:
				g = 1_600_000_000_000_000_000 + int64(r.Next()%400_000_000_000_000_000)
			}
			if !addOK(g, off) {
				continue
			}
			gnows = append(gnows, g)
		}
		for gi, g := range gnows {
			rid := memberRids[(gi+si)%len(memberRids)]
			if gi >= 10 && r.Chance(1, 2) {
				rid = fmt.Sprintf("t%d", r.Intn(100000))
			}
			for _, now := range memberNows(r, g, g+off, nNows) {
				m.runMember(o, MemberCase{Gen: "member-generated", HasGen: true, GNow: g, Rid: []byte(rid), Now: now})
			}
		}
		// made-up strings: only the parser and the expiry test matter (three set-ups)
		if si < 3 || o.Thorough() {
			genMemberRaw(o, r, m)
		}
		m.done()
	}
}

func genMemberRaw(o *c.Out, r *c.Rng, m *memberSetup) {
	fixed := []string{"", ":", "::", ":::", "::::", ":::::", "::::::", "1", "1::", "1::t", "1::t::", "1::t::i", "1::::", "1::::i", "::t::i", "::::i",
		"1:t::i", "1::t:i", "1:::t::i", "1::t:::i", "1::t::i::j", "1::t::::", "1::t::i::", "::1::t::i", " 1::t::i", "1 ::t::i", "+1::t::i", "-1::t::i",
		"-0::t::i", "007::t::i", "1_0::t::i", "0x10::t::i", "1e3::t::i", "x::t::i", "-::t::i", "+::t::i",
		"9223372036854775807::t::i", "9223372036854775808::t::i", "-9223372036854775808::t::i", "-9223372036854775809::t::i",
		"18446744073709551616::t::i", "00000000000000000000000000000005::t::i", "5::t\x00::i\xff", "5\x00::t::i", "\xff::t::i",
		"1010000000::t0::unknown", "1010000000:t0::unknown", "1010000000::t0:unknown", "1010000000t0unknown", "1010000000::::", "1010000000::t0::dc1::gw2"}
	aim := func(item string) []int64 {
		nows := []int64{0, int64(r.Next())}
		if i := strings.Index(item, "::"); i >= 0 {
			if e, err := strconv.ParseInt(item[:i], 10, 64); err == nil {
				nows = []int64{e, int64(r.Next())}
				if addOK(e, -1) {
					nows = append(nows, e-1)
				}
				if addOK(e, 1) {
					nows = append(nows, e+1)
				}
			}
		}
		return nows
	}
	for _, s := range fixed {
		for _, now := range aim(s) {
			m.runMember(o, MemberCase{Gen: "member-made-up", Item: []byte(s), Now: now})
		}
	}
	alphabet := []byte("0123456789::::-+ tx\x00")
	for i := 0; i < o.Scale(60, 600, 300); i++ {
		var b []byte
		switch r.Intn(3) {
		case 0, 1: // a well-formed member with up to three one-byte edits
			e := int64(r.Next() >> uint(r.Intn(64)))
			if r.Chance(1, 4) {
				e = -e
			}
			b = []byte(fmt.Sprintf("%d::%s::%s", e, c.Pick(r, memberRids), c.Pick(r, instanceIDs)))
			if len(b) > 120 {
				b = b[:120]
			}
			for j := r.Intn(4); j > 0; j-- {
				pos := r.Intn(len(b) + 1)
				ch := c.Pick(r, alphabet)
				switch r.Intn(3) {
				case 0:
					b = append(b[:pos:pos], append([]byte{ch}, b[pos:]...)...)
				case 1:
					if pos < len(b) {
						b[pos] = ch
					}
				default:
					if pos < len(b) {
						b = append(b[:pos:pos], b[pos+1:]...)
					}
				}
			}
		default: // soup, heavy on ':'
			for j := r.Intn(12); j > 0; j-- {
				b = append(b, c.Pick(r, alphabet))
			}
		}
		for _, now := range aim(string(b))[:2] {
			m.runMember(o, MemberCase{Gen: "member-made-up-random", Item: b, Now: now})
		}
	}
}
