// C02 monitor: the property restated over the implementation's event log
// (operations with their verdicts, clock advances, GC passes). It does not use
// the model; every rule errs on the lenient side:
//
//	bound     the transactions admitted under a quota (Allowed returned true on a
//	          chain through it), whose release has not begun and whose expiry
//	          cannot have passed (first touch + ttl), number at most max;
//	free      a request may be refused only if some quota on its chain can
//	          legitimately still be full: counting every other transaction that
//	          ever touched it and is not *certainly* free again — released by a
//	          Dec/drop that covers the quota (drop: first-touched chain only)
//	          with no possibly-expiring GC pass in between, or expired by more
//	          than 1 s before a GC pass of that quota;
//	counter   the slot count the gateway itself exposes never exceeds max nor
//	          the number of transactions that can legitimately hold a slot;
//	end       (engine level) once the gateway ITSELF has ended a transaction — it
//	          processed its response, or it answered the request early — none of
//	          its slots may remain ("given back when its response is processed,
//	          when the gateway answers it early"), whichever quota came first in
//	          its flow and whatever processors the gateway ran to get there.
//	          Lenient where the text is: a transaction that outlived the expiry of
//	          one of its own slots before it ended is left to the expiry rule, and
//	          for a proxy-error report (the gateway learns a transaction id from
//	          the proxy) only the chain of the first quota the transaction met is
//	          demanded at once, the rest "at the latest when its expiry passes".
//
// Transactions are told apart by their TRANSACTION id only: the sequence id a
// stream carries (client retries, parallel calls stamped alike) is not an
// identity of a transaction and plays no role in any rule.
package main

import (
	"fmt"

	c "verifharness/common"
)

type acq struct {
	idx     int
	t       int64
	q       int
	allowed bool // Allowed (true) or bare Inc (false)
	verdict int
}

type rel struct {
	idx   int
	t     int64
	start int // quota the release starts from (dec: its quota; drop: first-touched quota), -1 none
}

type gcTick struct {
	idx int
	t   int64
}

// endRec: the gateway itself ended the transaction at log index idx
type endRec struct {
	idx int
	t   int64
	how string
}

type mon struct {
	k      *Cfg
	acqs   map[int][]acq
	rels   map[int][]rel
	firstq map[int]int
	gcs    map[int][]gcTick
	ends   map[int][]endRec
	txns   []int
	seen   map[int]bool
}

func newMon(k *Cfg) *mon {
	return &mon{k: k, acqs: map[int][]acq{}, rels: map[int][]rel{}, firstq: map[int]int{},
		gcs: map[int][]gcTick{}, ends: map[int][]endRec{}, seen: map[int]bool{}}
}

func (m *mon) note(r int) {
	if !m.seen[r] {
		m.seen[r] = true
		m.txns = append(m.txns, r)
		m.firstq[r] = -1
	}
}

// firstEverTouch: instant of the first operation of r that could have taken a slot in x.
func (m *mon) firstEverTouch(r, x int) (int64, bool) {
	for _, a := range m.acqs[r] {
		if m.k.onChain(a.q, x) {
			return a.t, true
		}
	}
	return 0, false
}

// certainlyFree: r touched x before index i; is its slot in x certainly free at index i?
// cause: "gc" (expired and collected) or "release".
func (m *mon) certainlyFree(r, x, i int) (bool, string) {
	var last *acq
	for j := range m.acqs[r] {
		a := &m.acqs[r][j]
		if a.idx < i && m.k.onChain(a.q, x) {
			last = a
		}
	}
	if last == nil {
		return true, "never"
	}
	ttl := m.k.Rows[x].TTLSec * sec
	for _, g := range m.gcs[x] {
		if g.idx > last.idx && g.idx < i && g.t >= last.t+ttl+sec {
			return true, "gc"
		}
	}
	// the gateway itself ended the transaction after its last acquisition, and none
	// of the slots it ever took can have expired by then
	for _, en := range m.ends[r] {
		if en.idx <= last.idx || en.idx >= i {
			continue
		}
		intime := true
		for _, a := range m.acqs[r] {
			if a.idx > en.idx {
				continue
			}
			for _, p := range m.k.chain(a.q) {
				if ft, ok := m.firstEverTouch(r, p); ok && en.t >= ft+m.k.Rows[p].TTLSec*sec {
					intime = false
				}
			}
		}
		if intime {
			return true, "ended"
		}
	}
	if !(last.allowed && last.verdict == 1) {
		return false, ""
	}
	y := last.Q()
	for _, rho := range m.rels[r] {
		if rho.idx <= last.idx || rho.idx >= i {
			continue
		}
		if rho.start < 0 {
			continue
		}
		if rho.start != y {
			// another release in between that shares a quota with chain(y): give up
			if m.chainsMeet(rho.start, y) {
				return false, ""
			}
			continue
		}
		// rho releases y and its ancestors, provided no status on the path was collected before
		for _, p := range m.k.chain(y) {
			ft, _ := m.firstEverTouch(r, p)
			for _, g := range m.gcs[p] {
				if g.idx < rho.idx && g.t >= ft+m.k.Rows[p].TTLSec*sec {
					return false, ""
				}
			}
			if p == x {
				break
			}
		}
		return true, "release"
	}
	return false, ""
}

func (a *acq) Q() int { return a.q }

func (m *mon) chainsMeet(a, b int) bool {
	for _, x := range m.k.chain(a) {
		if m.k.onChain(b, x) {
			return true
		}
	}
	return false
}

// possiblyHolding: transactions other than self that may still hold a slot in x at index i.
func (m *mon) possiblyHolding(x, self, i int) (n int, freedByGC bool) {
	for _, r := range m.txns {
		if r == self {
			continue
		}
		if _, ok := m.firstEverTouch(r, x); !ok {
			continue
		}
		free, cause := m.certainlyFree(r, x, i)
		if !free {
			n++
		} else if cause == "gc" {
			freedByGC = true
		}
	}
	return n, freedByGC
}

// inFlight: transactions certainly in flight under x at instant t (index i inclusive).
func (m *mon) inFlight(x, i int, t int64) []int {
	out := []int{}
	for _, r := range m.txns {
		// latest admission through x
		var adm *acq
		for j := range m.acqs[r] {
			a := &m.acqs[r][j]
			if a.idx <= i && a.allowed && a.verdict == 1 && m.k.onChain(a.q, x) {
				adm = a
			}
		}
		if adm == nil {
			continue
		}
		begun := false
		for _, rho := range m.rels[r] {
			if rho.idx > adm.idx && rho.idx <= i {
				begun = true
			}
		}
		if begun {
			continue
		}
		// every member r ever had in x was created at or after its first touch
		ft, _ := m.firstEverTouch(r, x)
		if t >= ft+m.k.Rows[x].TTLSec*sec {
			continue
		}
		out = append(out, r)
	}
	return out
}

type monHit struct{ sig, demanded, observed string }

// runMonitor checks a whole log. counts[i] (may be nil) = the gateway's exposed
// slot count per quota after entry i.
func runMonitor(k *Cfg, log []LogEntry, counts [][]int64) []monHit {
	m := newMon(k)
	var hits []monHit
	add := func(sig, dem, obs string) {
		for _, h := range hits {
			if h.sig == sig {
				return
			}
		}
		hits = append(hits, monHit{sig, dem, obs})
	}
	for i, e := range log {
		switch e.Kind {
		case "gc":
			m.gcs[e.Q] = append(m.gcs[e.Q], gcTick{i, e.T})
		case "end":
			m.note(e.Op.R)
			m.ends[e.Op.R] = append(m.ends[e.Op.R], endRec{i, e.T, e.How})
		case "op":
			r := e.Op.R
			m.note(r)
			switch e.Op.Name {
			case "getq":
				if m.firstq[r] < 0 {
					m.firstq[r] = e.Op.Q
				}
			case "inc":
				m.acqs[r] = append(m.acqs[r], acq{i, e.T, e.Op.Q, false, -1})
			case "allowed":
				m.acqs[r] = append(m.acqs[r], acq{i, e.T, e.Op.Q, true, e.Verdict})
				if e.Verdict == 1 {
					for _, x := range k.chain(e.Op.Q) {
						fl := m.inFlight(x, i, e.T)
						if int64(len(fl)) > k.Rows[x].Max {
							add("bound:over-admission",
								fmt.Sprintf("at most %d transactions in flight under %s", k.Rows[x].Max, qid(x)),
								fmt.Sprintf("at t=%d ns (log entry %d) transactions %v are admitted, unreleased and unexpired", e.T, i, fl))
						}
					}
				} else if e.Verdict == 0 {
					legit := false
					byGC := false
					detail := ""
					for _, x := range k.chain(e.Op.Q) {
						n, g := m.possiblyHolding(x, r, i)
						byGC = byGC || g
						detail += fmt.Sprintf(" %s: max %d, possibly held by %d;", qid(x), k.Rows[x].Max, n)
						if k.Rows[x].Max <= 0 || int64(n) >= k.Rows[x].Max {
							legit = true
						}
					}
					if !legit {
						sig := "free:refused-after-release"
						if byGC {
							sig = "free:refused-after-expiry-gc"
						}
						who := "request"
						if e.Probe {
							who = "fresh probe"
						}
						add(sig, fmt.Sprintf("%s of transaction %d on %s is admitted: every slot on its chain was given back (response processed / answered early / proxy error) or expired before a GC pass", who, r, qid(e.Op.Q)),
							fmt.Sprintf("refused at t=%d ns (log entry %d);%s", e.T, i, detail))
					}
				}
			case "dec":
				m.rels[r] = append(m.rels[r], rel{i, e.T, e.Op.Q})
			case "drop":
				m.rels[r] = append(m.rels[r], rel{i, e.T, m.firstq[r]})
				m.firstq[r] = -1
			case "finish":
				m.firstq[r] = -1
			}
		}
		if counts != nil && counts[i] != nil {
			for x, n := range counts[i] {
				if k.Rows[x].Max >= 0 && n > k.Rows[x].Max {
					add("counter:above-max", fmt.Sprintf("slot count of %s <= %d", qid(x), k.Rows[x].Max),
						fmt.Sprintf("%d after log entry %d", n, i))
				}
				ph, g := m.possiblyHolding(x, -1, i+1)
				if n > int64(ph) {
					sig := "counter:slot-kept-after-release"
					if g {
						sig = "counter:slot-kept-after-expiry-gc"
					}
					add(sig, fmt.Sprintf("slot count of %s <= %d, the number of transactions that can still hold a slot (not ended by the gateway, not released, not expired-and-collected)", qid(x), ph),
						fmt.Sprintf("%d after log entry %d (t=%d ns)", n, i, e.T))
				}
			}
		}
	}
	return hits
}

func toHits(suite string, idx int, hs []monHit, kase any) []c.Hit {
	out := []c.Hit{}
	for _, h := range hs {
		out = append(out, c.Hit{Suite: suite, Index: idx, Signature: h.sig, Demanded: h.demanded, Observed: h.observed, Case: kase})
	}
	return out
}
