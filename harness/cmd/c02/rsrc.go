// C02 harness — resource level: operations run to completion on the real
// quota objects, loaded from generated quota YAML through the real
// ResourceManagement (GetQuota / OnRequestDrop / OnResponseFinish).
package main

import (
	"context"
	"fmt"
	"os"
	"path/filepath"
	"sync"
	"time"

	lunar_messages "lunar/engine/messages"
	lunar_context "lunar/engine/streams/lunar-context"
	publictypes "lunar/engine/streams/public-types"
	"lunar/engine/streams/resources"
	quotaresource "lunar/engine/streams/resources/quota"
	stream_types "lunar/engine/streams/types"
	"lunar/engine/utils/environment"
	"lunar/toolkit-core/clock"
	context_manager "lunar/toolkit-core/context-manager"

	"github.com/rs/zerolog"
)

var (
	envOnce sync.Once
	shared  = lunar_context.NewMemoryState[[]byte]()
	cfgSeq  int
)

func repoDir() string {
	if r := os.Getenv("VERIF_REPO"); r != "" {
		return r
	}
	return "/repo"
}

func setupEnv() {
	envOnce.Do(func() {
		zerolog.SetGlobalLevel(zerolog.Disabled)
		environment.SetProcessorsDirectory(filepath.Join(repoDir(),
			"proxy/src/services/lunar-engine/streams/processors/registry"))
	})
}

// writeCfg writes quota (and flow) files into a fresh directory under the
// harness cwd and points the engine's directory settings at it.
func writeCfg(k *Cfg, flows map[string]string) error {
	cwd, err := os.Getwd()
	if err != nil {
		return err
	}
	base := filepath.Join(cwd, "cfg")
	os.RemoveAll(base)
	for _, d := range []string{"flows", "quotas", "pp"} {
		if err := os.MkdirAll(filepath.Join(base, d), 0o755); err != nil {
			return err
		}
	}
	for name, y := range k.yamlFiles() {
		if err := os.WriteFile(filepath.Join(base, "quotas", name), []byte(y), 0o644); err != nil {
			return err
		}
	}
	for name, y := range flows {
		if err := os.WriteFile(filepath.Join(base, "flows", name), []byte(y), 0o644); err != nil {
			return err
		}
	}
	environment.SetStreamsFlowsDirectory(filepath.Join(base, "flows"))
	environment.SetQuotasDirectory(filepath.Join(base, "quotas"))
	environment.SetPathParamsDirectory(filepath.Join(base, "pp"))
	return nil
}

// freshClock installs a new mock clock and a cancellable context (the GC
// goroutines of the quotas created afterwards stop when it is cancelled).
func freshClock() (*clock.MockClock, context.CancelFunc) {
	ctx, cancel := context.WithCancel(context.Background())
	cm := context_manager.Get().SetMockClock()
	cm.WithContext(ctx)
	return cm.GetMockClock(), cancel
}

// streams: transaction id t<r>, sequence id t<seq> (what HAProxy passes on:
// its unique id, or the client's x-lunar-sequence-id — the id of the first
// attempt on a retry)
func reqStream(r, seq int, url string, headers map[string]string) publictypes.APIStreamI {
	if headers == nil {
		headers = map[string]string{}
	}
	return stream_types.NewRequestAPIStream(lunar_messages.OnRequest{
		ID: fmt.Sprintf("t%d", r), SequenceID: fmt.Sprintf("t%d", seq), Method: "GET", Scheme: "https", URL: url,
		Headers: headers,
	}, shared)
}

func respStream(r, seq int, url string) publictypes.APIStreamI {
	return stream_types.NewResponseAPIStream(lunar_messages.OnResponse{
		ID: fmt.Sprintf("t%d", r), SequenceID: fmt.Sprintf("t%d", seq), Method: "GET", URL: url, Status: 200,
		Headers: map[string]string{},
	}, shared)
}

type resExec struct {
	k      *Cfg
	rm     *resources.ResourceManagement
	quotas []publictypes.QuotaResourceI
	clk    *clock.MockClock
	now    int64
	cancel context.CancelFunc
	opErrs []string // operations of the implementation that returned an error / panicked
	errMu  sync.Mutex
}

func (x *resExec) noteErr(e string) {
	x.errMu.Lock()
	x.opErrs = append(x.opErrs, e)
	x.errMu.Unlock()
}

func newResExec(k *Cfg) (*resExec, error) {
	setupEnv()
	if err := writeCfg(k, nil); err != nil {
		return nil, err
	}
	if err := applyLiveness(k); err != nil {
		return nil, err
	}
	clk, cancel := freshClock()
	rm, err := resources.NewResourceManagement()
	if err != nil {
		cancel()
		return nil, err
	}
	x := &resExec{k: k, rm: rm, clk: clk, cancel: cancel}
	for i := range k.Rows {
		q, err := rm.GetQuota(qid(i), "")
		if err != nil {
			cancel()
			return nil, err
		}
		x.quotas = append(x.quotas, q)
	}
	// every runGC goroutine of this case must have armed its timer on THIS clock
	// before the case goes on: a goroutine scheduled late would otherwise fetch
	// the clock of the next case and arm an extra timer there (seen under load:
	// "GC goroutines did not (re-)arm their timers: 2 armed, want 1")
	if err := waitTimers(clk, len(k.Rows)); err != nil {
		cancel()
		return nil, err
	}
	return x, nil
}

func (x *resExec) close() { x.cancel() }

// op executes one operation to completion; verdict 1/0 for allowed, -1
// otherwise, -2 when the implementation returned an error or panicked (the
// model never says -2: reported as a disagreement, the run goes on).
func (x *resExec) op(o Op) (v int) {
	if o.Q >= len(x.quotas) && o.Name != "getq" && o.Name != "drop" && o.Name != "finish" {
		panic("harness: only getq is generated for a rate quota")
	}
	defer func() {
		if p := recover(); p != nil {
			x.noteErr(fmt.Sprintf("%s(q%d) of t%d: panic: %v", o.Name, o.Q, o.R, p))
			v = -2
		}
	}()
	fail := func(err error) int {
		x.noteErr(fmt.Sprintf("%s(q%d) of t%d: %v", o.Name, o.Q, o.R, err))
		return -2
	}
	switch o.Name {
	case "getq":
		if _, err := x.rm.GetQuota(qid(o.Q), fmt.Sprintf("t%d", o.R)); err != nil {
			return fail(err)
		}
	case "inc":
		if err := x.quotas[o.Q].Inc(reqStream(o.R, o.Seq, "h0.com/x", nil)); err != nil {
			return fail(err)
		}
	case "allowed":
		ok, err := x.quotas[o.Q].Allowed(reqStream(o.R, o.Seq, "h0.com/x", nil))
		if err != nil {
			return fail(err)
		}
		if ok {
			return 1
		}
		return 0
	case "dec":
		if err := x.quotas[o.Q].Dec(respStream(o.R, o.Seq, "h0.com/x")); err != nil {
			return fail(err)
		}
	case "drop":
		x.rm.OnRequestDrop(respStream(o.R, o.Seq, "h0.com/x"))
	case "finish":
		x.rm.OnResponseFinish(respStream(o.R, o.Seq, "h0.com/x"))
	default:
		panic("bad op " + o.Name)
	}
	return -1
}

func (x *resExec) tick(dt int64) {
	if dt > 0 {
		x.clk.AdvanceTime(time.Duration(dt))
	}
	x.now += dt
}

func (x *resExec) gc(q int) {
	if !quotaresource.VerifC02GCTick(x.quotas[q]) {
		panic("not a concurrent quota")
	}
}

func memberCounts(quotas []publictypes.QuotaResourceI) []int64 {
	out := make([]int64, len(quotas))
	for i, q := range quotas {
		m, ok := quotaresource.VerifC02Members(q)
		if !ok {
			panic("not a concurrent quota")
		}
		out[i] = int64(len(m))
	}
	return out
}

func (x *resExec) counts() []int64 { return memberCounts(x.quotas) }
