// Sessions and input snapshots.
//
// The combination must be a function of the VALUES of one transaction's
// actions (C07_fold_is_a_function_of_values / C07_sessions_independent): the
// producers keep objects across transactions (services/authentication/
// api_key_auth.go caches one header map per endpoint and hands that very map
// out in a fresh ModifyRequestAction on every request; transform-api-call,
// data-sanitation, generate-response pass processor-owned maps), and the fold
// starts from NoOp whose Prioritize returns the other action itself, so the
// accumulator IS the first producer's action.  A fold that writes into what it
// was handed gives the right result on fresh inputs and pollutes the next
// transaction.
//
//	(a) snapshots: before every fold every input action is snapshotted - the
//	    map / slice objects it references (by reference + deep copy) and its
//	    value as read through the struct; after the fold the referenced
//	    objects must hold what they held ("input-mutated:<site>"); a change of
//	    the struct's own fields with the referenced objects intact is counted
//	    ("struct-updated-in-place"; until fix-F-C07c ModifyRequest x
//	    ModifyHeaders did it; every producer of the tree builds a new struct
//	    per call); its consequence is demanded in the struct-reuse sessions
//	    (a later transaction of that producer must combine the producer's own
//	    value) and compared with the value semantics of the model.
//	(b) sessions (suites sess_req / sess_resp): producers with long-lived
//	    objects, 2-4 transactions naming the producers that fire.
//	    reuse = "maps":    every transaction builds new structs around the
//	                       producers' long-lived header maps / remove lists;
//	    reuse = "structs": the very same struct is handed to every transaction.
//	    via = "loop" (fold over the public methods, the resulting action and
//	    its own encoding are observed) or "routing" (the real
//	    routing.getSPOEReq/RespActions, the variables are observed).
package main

import (
	"fmt"
	"reflect"
	"sort"
	"strings"

	"lunar/engine/actions"
	"lunar/engine/routing"

	c "verifharness/common"
)

// ---------------------------------------------------------------- snapshots

// fieldsOf returns the header map and remove list an action references and
// the action's value as read through the struct.
func fieldsOf(a any) (h map[string]string, rm []string, val Res) {
	switch x := a.(type) {
	case *actions.NoOpAction:
		return nil, nil, Res{Kind: kNoop, Headers: map[string]string{}}
	case *actions.ModifyHeadersAction:
		return x.HeadersToSet, nil, reqResult(x)
	case *actions.ModifyRequestAction:
		return x.HeadersToSet, nil, reqResult(x)
	case *actions.GenerateRequestAction:
		return x.HeadersToSet, x.HeadersToRemove, reqResult(x)
	case *actions.EarlyResponseAction:
		return x.Headers, nil, reqResult(x)
	case *actions.ModifyResponseAction:
		return x.HeadersToSet, nil, respResult(x)
	case *actions.RetryRequestAction:
		return x.HeadersToSet, nil, respResult(x)
	}
	return nil, nil, Res{Kind: "other", Headers: map[string]string{}, Note: fmt.Sprintf("%T", a)}
}

type inputSnap struct {
	pos    int
	obj    any
	val    Res               // value through the struct, before
	m      map[string]string // the map object referenced before
	mCopy  map[string]string
	rm     []string // the slice (pointer, len) referenced before
	rmCopy []string
}

func snapInputs[T any](as []T) []inputSnap {
	out := make([]inputSnap, len(as))
	for i, a := range as {
		h, rm, val := fieldsOf(any(a))
		out[i] = inputSnap{pos: i, obj: any(a), val: val, m: h, mCopy: copyMap(h), rm: rm,
			rmCopy: append([]string(nil), rm...)}
	}
	return out
}

// diffInputs reports (1) referenced objects whose content changed and (2)
// structs whose value changed while the objects they referenced are intact.
func diffInputs(snaps []inputSnap) (data, structs []string) {
	for _, s := range snaps {
		changed := false
		if !mapsEq(s.m, s.mCopy) {
			changed = true
			data = append(data, fmt.Sprintf("action #%d (%s): the header map it was built with held %s, now holds %s",
				s.pos, s.val.Kind, showMap(s.mCopy), showMap(s.m)))
		}
		for i := range s.rmCopy {
			if s.rm[i] != s.rmCopy[i] {
				changed = true
				data = append(data, fmt.Sprintf("action #%d (%s): HeadersToRemove it was built with was %q, now %q",
					s.pos, s.val.Kind, s.rmCopy, s.rm))
				break
			}
		}
		if _, _, now := fieldsOf(s.obj); !changed && !reflect.DeepEqual(now, s.val) {
			structs = append(structs, fmt.Sprintf("action #%d (%s): struct read %+v before, %+v after", s.pos,
				s.val.Kind, s.val, now))
		}
	}
	return data, structs
}

// ---------------------------------------------------------------- session data

type Txn struct {
	Ids    []int `json:"producers"`
	Result *Res  `json:"result,omitempty"` // via = loop
	Vars   []Var `json:"spoe_vars"`        // routing: of the real fold; loop: the result's own encoding
	// what each producer handed in, read through the struct just before the fold
	Handed        []Res    `json:"handed_in,omitempty"`
	Mutated       []string `json:"inputs_mutated,omitempty"`
	StructUpdated []string `json:"structs_updated,omitempty"`
}

func isSession(side string) bool { return strings.HasPrefix(side, "sess_") }

func sessSide(k *Case) string { return strings.TrimPrefix(k.Side, "sess_") }

func spare(k *Case, i int) int {
	if i < len(k.SpareCap) {
		return k.SpareCap[i]
	}
	return 0
}

type producer struct {
	act Act
	m   map[string]string // long-lived header map (nil when the producer passes nil)
	rm  []string          // long-lived remove list, possibly with spare capacity
}

func (p *producer) req() actions.ReqLunarAction {
	a := p.act
	switch a.Kind {
	case kNoop:
		return &actions.NoOpAction{}
	case kModH:
		return &actions.ModifyHeadersAction{HeadersToSet: p.m}
	case kModReq:
		return &actions.ModifyRequestAction{HeadersToSet: p.m, Host: a.Host, Path: a.Path,
			QueryParams: a.Query, Body: a.Body}
	case kGenReq:
		return &actions.GenerateRequestAction{HeadersToSet: p.m, HeadersToRemove: p.rm, Body: a.Body}
	case kEarly:
		return &actions.EarlyResponseAction{Status: a.Status, Body: a.Body, Headers: p.m}
	}
	panic("bad request action kind " + a.Kind)
}

func (p *producer) resp() actions.RespLunarAction {
	a := p.act
	switch a.Kind {
	case kNoop:
		return &actions.NoOpAction{}
	case kModRes:
		return &actions.ModifyResponseAction{HeadersToSet: p.m, Body: a.Body, Status: a.Status}
	case kRetry:
		return &actions.RetryRequestAction{HeadersToSet: p.m}
	}
	panic("bad response action kind " + a.Kind)
}

func newProducers(k *Case) []*producer {
	ps := make([]*producer, len(k.Producers))
	for i, a := range k.Producers {
		p := &producer{act: a, m: a.hdr()}
		if a.Kind == kGenReq {
			p.rm = make([]string, len(a.Remove), len(a.Remove)+spare(k, i))
			copy(p.rm, a.Remove)
		}
		ps[i] = p
	}
	return ps
}

// ---------------------------------------------------------------- execution

func execSession(k *Case) {
	k.Final = nil
	for i := range k.Txns {
		k.Txns[i] = Txn{Ids: k.Txns[i].Ids}
	}
	ps := newProducers(k)
	if sessSide(k) == "req" {
		var structs []actions.ReqLunarAction
		for _, p := range ps {
			structs = append(structs, p.req())
		}
		for i := range k.Txns {
			t := &k.Txns[i]
			in := make([]actions.ReqLunarAction, len(t.Ids))
			for j, id := range t.Ids {
				if k.Reuse == "structs" {
					in[j] = structs[id]
				} else {
					in[j] = ps[id].req()
				}
			}
			sessReqTxn(k, t, in)
		}
		for i, p := range ps {
			if k.Reuse == "structs" {
				k.Final = append(k.Final, reqResult(structs[i]))
			} else {
				k.Final = append(k.Final, reqResult(p.req()))
			}
		}
		return
	}
	var structs []actions.RespLunarAction
	for _, p := range ps {
		structs = append(structs, p.resp())
	}
	for i := range k.Txns {
		t := &k.Txns[i]
		in := make([]actions.RespLunarAction, len(t.Ids))
		for j, id := range t.Ids {
			if k.Reuse == "structs" {
				in[j] = structs[id]
			} else {
				in[j] = ps[id].resp()
			}
		}
		sessRespTxn(k, t, in)
	}
	for i, p := range ps {
		if k.Reuse == "structs" {
			k.Final = append(k.Final, respResult(structs[i]))
		} else {
			k.Final = append(k.Final, respResult(p.resp()))
		}
	}
}

func panicRes(r any) *Res {
	return &Res{Kind: "panic", Headers: map[string]string{}, Note: fmt.Sprint(r)}
}

func sessReqTxn(k *Case, t *Txn, in []actions.ReqLunarAction) {
	snaps := snapInputs(in)
	for _, s := range snaps {
		t.Handed = append(t.Handed, s.val)
	}
	defer func() {
		if r := recover(); r != nil {
			t.Result = panicRes(r)
		}
		t.Mutated, t.StructUpdated = diffInputs(snaps)
	}()
	if k.Via == "routing" {
		t.Vars = spoeVars(routing.VerifGetSPOEReqActions(newReqArgs(), in))
		return
	}
	args := newReqArgs()
	var acc actions.ReqLunarAction = &actions.NoOpAction{}
	for _, la := range in {
		la.EnsureRequestIsUpdated(&args)
		acc = acc.ReqPrioritize(la)
	}
	res := reqResult(acc)
	t.Result = &res
	if acc != nil {
		acc.EnsureRequestIsUpdated(&args)
		t.Vars = spoeVars(routing.VerifFlattenSPOEActions(acc.ReqToSpoeActions()))
	}
}

func sessRespTxn(k *Case, t *Txn, in []actions.RespLunarAction) {
	snaps := snapInputs(in)
	for _, s := range snaps {
		t.Handed = append(t.Handed, s.val)
	}
	defer func() {
		if r := recover(); r != nil {
			t.Result = panicRes(r)
		}
		t.Mutated, t.StructUpdated = diffInputs(snaps)
	}()
	if k.Via == "routing" {
		t.Vars = spoeVars(routing.VerifGetSPOERespActions(newRespArgs(), in))
		return
	}
	args := newRespArgs()
	var acc actions.RespLunarAction = &actions.NoOpAction{}
	for _, la := range in {
		la.EnsureResponseIsUpdated(&args)
		acc = acc.RespPrioritize(la)
	}
	res := respResult(acc)
	t.Result = &res
	if acc != nil {
		acc.EnsureResponseIsUpdated(&args)
		t.Vars = spoeVars(routing.VerifFlattenSPOEActions(acc.RespToSpoeActions()))
	}
}

// ---------------------------------------------------------------- Coq term

func coqIds(ids []int) string { return c.MapList(ids, func(i int) string { return c.Nat(i) }) }

func coqSession(k *Case) string {
	req := sessSide(k) == "req"
	val := func(kind string, h map[string]string, host, path, query, body string, rm []string, status int) string {
		if req {
			return coqReq(kind, h, host, path, query, body, rm, status)
		}
		return coqResp(kind, h, body, status)
	}
	ofAct := func(a Act) string {
		return val(a.Kind, a.Headers, a.Host, a.Path, a.Query, a.Body, a.Remove, a.Status)
	}
	ofRes := func(r Res) string {
		return val(r.Kind, r.Headers, r.Host, r.Path, r.Query, r.Body, r.Remove, r.Status)
	}
	return c.Tuple(
		c.B(k.Reuse == "structs"),
		c.MapList(k.Producers, ofAct),
		c.MapList(k.Txns, func(t Txn) string {
			res := "None"
			if t.Result != nil {
				res = c.Some(ofRes(*t.Result))
			}
			return c.Tuple(coqIds(t.Ids), res, c.MapList(t.Vars, coqVar))
		}),
		c.MapList(k.Final, ofRes))
}

// ---------------------------------------------------------------- monitor

// inplaceCell: dropping the no-ops, the sequence starts ModifyRequest,
// ModifyHeaders (the one place where the code as it is assigns a field of a
// struct it was handed).
func inplaceCell(acts []Act) bool {
	var ks []string
	for _, a := range acts {
		if a.Kind != kNoop {
			ks = append(ks, a.Kind)
		}
	}
	return len(ks) >= 2 && ks[0] == kModReq && ks[1] == kModH
}

// monitorSession restates the property per transaction.  The actions of a
// transaction are, by value, what its producers stood for when the session
// started, whether the producers keep maps / lists (reuse = maps) or whole
// action structs (reuse = structs): a producer's action for this request is
// what the producer built, not what an earlier fold left in it.  (Until
// fix-F-C07c the code assigned the accumulated struct's HeadersToSet in
// ModifyRequest x ModifyHeaders; under struct reuse the next transaction of
// that producer then fails header-union / foreign-header here.)
func monitorSession(o *c.Out, k *Case) []c.Hit {
	side := sessSide(k)
	var hits []c.Hit
	for ti := range k.Txns {
		t := &k.Txns[ti]
		acts := make([]Act, len(t.Ids))
		for j, id := range t.Ids {
			acts[j] = k.Producers[id]
		}
		pk := &Case{Side: side, Actions: acts, Vars: t.Vars}
		h := &hitter{k: pk, rep: k, pre: fmt.Sprintf("transaction #%d of the session: ", ti)}
		for _, m := range t.Mutated {
			site := side + "-fold"
			if k.Via == "routing" {
				site = side + "-spoe"
			}
			h.add("input-mutated:"+site, "a fold leaves the objects its input actions reference (header maps, "+
				"remove lists) as they were: the producers keep them for later transactions", m)
		}
		if len(t.StructUpdated) > 0 {
			o.Count("sess:struct-updated-in-place")
			if side == "req" && inplaceCell(acts) {
				o.Count("sess:struct-updated-in-place:modreq-x-modheaders")
			}
		}
		var v view
		if t.Result != nil {
			r := *t.Result
			if r.Kind == "panic" || r.Kind == "nil" || r.Kind == "other" {
				h.add("no-result:sess-"+side+"-fold", "a combined action", r.Kind+" "+r.Note)
				hits = append(hits, h.hits...)
				continue
			}
			pk.Result = r
			v = viewOfRes(r)
			if side == "req" {
				checkReq(h, "sess-req-fold", v)
			} else {
				checkResp(h, "sess-resp-fold", v)
			}
			checkEncoding(h, "sess-"+side+"-enc", r, viewOfVars(side, t.Vars))
		} else {
			v = viewOfVars(side, t.Vars)
			if side == "req" {
				checkReq(h, "sess-req-spoe", v)
			} else {
				checkResp(h, "sess-resp-spoe", v)
			}
		}
		// every header the result carries was produced by an action of THIS
		// transaction
		readable := v.HeadersOK
		for _, a := range acts {
			readable = readable && (!v.DumpSeen || wfMap(a.Headers))
		}
		if readable {
			var foreign []string
			for name, val := range v.Headers {
				found := false
				for _, a := range acts {
					if w, ok := a.Headers[name]; ok && w == val && a.Kind != kNoop {
						found = true
					}
				}
				if !found {
					foreign = append(foreign, fmt.Sprintf("%q:%q", name, val))
				}
			}
			if len(foreign) > 0 {
				sort.Strings(foreign)
				var from []string
				for _, a := range acts {
					from = append(from, a.Kind+showMap(a.Headers))
				}
				h.add("foreign-header:session", "every header edit the combined action carries is one produced by an "+
					"action of this transaction: "+strings.Join(from, ", "), "carries "+strings.Join(foreign, ", ")+
					" in "+showMap(v.Headers))
			}
		}
		hits = append(hits, h.hits...)
	}
	return hits
}

// ---------------------------------------------------------------- generators

func sessKinds(side string) []string {
	if side == "req" {
		return []string{kModH, kModReq, kGenReq}
	}
	return []string{kModRes, kRetry}
}

func insertAt(xs []int, pos, v int) []int {
	out := append([]int(nil), xs[:pos]...)
	out = append(out, v)
	return append(out, xs[pos:]...)
}

// sprinkle inserts the no-op producer at random places.
func sprinkle(r *c.Rng, ids []int, noop int) []int {
	out := []int{}
	for _, id := range ids {
		if r.Chance(1, 4) {
			out = append(out, noop)
		}
		out = append(out, id)
	}
	if r.Chance(1, 4) {
		out = append(out, noop)
	}
	return out
}

// systematicSessions: producers P {a:1,b:1}, Q {b:2,c:2}, R {c:3,d:3} of every
// combination of modification kinds, P (the producer whose objects are reused)
// in first / middle / last position of the first transaction, alone (up to
// no-ops) in the second, a third transaction drawn from a few shapes; every
// combination with reuse = maps | structs and via = loop | routing.
func systematicSessions(r *c.Rng, side string, f func(Case)) {
	ks := sessKinds(side)
	n := len(ks)
	cnt := 0
	for code := 0; code < n*n*n; code++ {
		kinds := []string{ks[code%n], ks[code/n%n], ks[code/n/n%n]}
		for pos := 0; pos < 3; pos++ {
			for _, reuse := range []string{"maps", "structs"} {
				for _, via := range []string{"loop", "routing"} {
					// the names of the three maps: abstract, or the special ones (names.go)
					nm := sessionNamings[(cnt+r.Intn(2))%len(sessionNamings)]
					cnt++
					// values: plain, or text special to a formatter / the dump (special.go)
					vs := fmtValueSets[(cnt/2+r.Intn(2))%len(fmtValueSets)]
					maps := []map[string]string{{nm[0]: vs[0], nm[1]: vs[0]}, {nm[1]: vs[1], nm[2]: vs[1]}, {nm[2]: vs[2], nm[3]: vs[2]}}
					k := Case{Side: "sess_" + side, Reuse: reuse, Via: via}
					for i, kind := range kinds {
						a := Act{Kind: kind, Headers: copyMap(maps[i])}
						tagged(i, &a)
						if kind == kGenReq {
							a.Remove = []string{"R" + fmt.Sprint(i), "x"}
						}
						k.Producers = append(k.Producers, a)
						k.SpareCap = append(k.SpareCap, r.Intn(3))
					}
					k.Producers = append(k.Producers, Act{Kind: kNoop})
					k.SpareCap = append(k.SpareCap, 0)
					t1 := insertAt([]int{1, 2}, pos, 0)
					if r.Chance(1, 3) {
						t1 = sprinkle(r, t1, 3)
					}
					t2 := []int{0}
					if r.Chance(1, 2) {
						t2 = sprinkle(r, t2, 3)
					}
					t3 := c.Pick(r, [][]int{{1}, {2, 0}, {0, 1}, {3}, {2}, {1, 0, 2}})
					k.Txns = []Txn{{Ids: t1}, {Ids: t2}, {Ids: t3}}
					if r.Chance(1, 3) {
						k.Txns = append(k.Txns, Txn{Ids: c.Pick(r, [][]int{{0}, {1}, {2}})})
					}
					f(k)
				}
			}
		}
	}
}

func randSession(r *c.Rng, side string) Case {
	kinds := reqKinds
	if side == "resp" {
		kinds = respKinds
	}
	k := Case{Side: "sess_" + side, Reuse: c.Pick(r, []string{"maps", "maps", "structs"}),
		Via: c.Pick(r, []string{"loop", "routing"})}
	np := r.Range(2, 5)
	pEarly := c.Pick(r, []int{0, 0, 1, 3}) // of 12
	sp := c.Pick(r, []int{spLower, spLower, spCanon, spMixed})
	fam := someFamily(r, r.Intn(len(specialNames)))
	for i := 0; i < np; i++ {
		var a Act
		switch x := r.Intn(12); {
		case x < 1:
			a.Kind = kNoop
		case side == "req" && x < 1+pEarly:
			a.Kind = kEarly
		case side == "req":
			a.Kind = c.Pick(r, kinds[1:4])
		default:
			a.Kind = c.Pick(r, kinds[1:])
		}
		if a.Kind != kNoop {
			if r.Chance(1, 2) {
				a.Headers = fam.m(r.Intn(9))
			} else {
				a.Headers, a.NilHeaders = randMap(r, false, sp)
			}
			scalars(r, &a)
		}
		k.Producers = append(k.Producers, a)
		k.SpareCap = append(k.SpareCap, r.Intn(4))
	}
	for nt := r.Range(2, 4); nt > 0; nt-- {
		// a random arrangement of a random non-empty subset (distinct producers)
		perm := make([]int, np)
		for i := range perm {
			perm[i] = i
		}
		for i := np - 1; i > 0; i-- {
			j := r.Intn(i + 1)
			perm[i], perm[j] = perm[j], perm[i]
		}
		ids := append([]int(nil), perm[:r.Range(1, np)]...)
		if r.Chance(1, 5) {
			// a producer firing twice in one transaction (the same struct twice in
			// one sequence under reuse = structs)
			ids = insertAt(ids, r.Intn(len(ids)+1), ids[r.Intn(len(ids))])
		}
		k.Txns = append(k.Txns, Txn{Ids: ids})
	}
	return k
}

// ---------------------------------------------------------------- run

func runSession(o *c.Out, k Case) {
	k.LogLevel = setLogLevel(pickLevel(o, k.LogLevel))
	execSession(&k)
	o.Count(k.Side + ":log-level=" + k.LogLevel)
	// non-trivial: some producer that carries headers fires in two transactions
	// and some transaction combines two actions that are not no-ops
	fires := map[int]int{}
	two := false
	for _, t := range k.Txns {
		nn := 0
		for _, id := range t.Ids {
			if k.Producers[id].Kind != kNoop {
				nn++
				if len(k.Producers[id].Headers) > 0 {
					fires[id]++
				}
			}
		}
		two = two || nn >= 2
	}
	reused := false
	for _, n := range fires {
		reused = reused || n >= 2
	}
	o.Count(fmt.Sprintf("%s:txns=%d", k.Side, len(k.Txns)))
	o.Count(k.Side + ":reuse=" + k.Reuse + ":via=" + k.Via)
	countNames(o, k.Side, k.Producers)
	idx := o.Case(k.Side, coqSession(&k), k, reused && two)
	o.MonitorChecked(len(k.Txns))
	for _, h := range monitorSession(o, &k) {
		h.Suite, h.Index = k.Side, idx
		o.Hit(h)
	}
}
