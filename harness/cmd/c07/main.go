// C07 harness: sequences of request / response actions are combined by the real
// code (routing.getSPOEReqActions / getSPOERespActions = fold with
// ReqPrioritize / RespPrioritize from NoOp, then Req/RespToSpoeActions) and by
// the same loop written over the public ReqPrioritize / RespPrioritize methods
// (the loop of runner.runOnRequest / runOnResponse) to see the resulting action
// itself.  Observable = kind + status/body/path/host/query/remove list + header
// map of the resulting action, and the SPOE variables (header dumps compared as
// sorted lines).  monitor.go restates the property over these observations.
package main

import (
	"fmt"
	"sort"
	"strings"

	"lunar/engine/actions"
	lunar_messages "lunar/engine/messages"
	"lunar/engine/routing"

	c "verifharness/common"
)

// ---------------------------------------------------------------- case data

const (
	kNoop   = "noop"
	kModH   = "mod_headers"
	kModReq = "mod_request"
	kGenReq = "gen_request"
	kEarly  = "early"
	kModRes = "mod_response"
	kRetry  = "retry"
)

var reqKinds = []string{kNoop, kModH, kModReq, kGenReq, kEarly}
var respKinds = []string{kNoop, kModRes, kRetry}

// Act describes one input action (the Go object is built fresh from it for
// every execution: the implementation updates some actions in place).
type Act struct {
	Kind       string            `json:"kind"`
	Headers    map[string]string `json:"headers,omitempty"`
	NilHeaders bool              `json:"nil_headers,omitempty"` // pass a nil map
	Host       string            `json:"host,omitempty"`
	Path       string            `json:"path,omitempty"`
	Query      string            `json:"query,omitempty"`
	Body       string            `json:"body,omitempty"`
	Remove     []string          `json:"remove,omitempty"`
	Status     int               `json:"status,omitempty"`
}

// Res is the resulting action as observed on the implementation.
type Res struct {
	Kind    string            `json:"kind"`
	Headers map[string]string `json:"headers"`
	Host    string            `json:"host,omitempty"`
	Path    string            `json:"path,omitempty"`
	Query   string            `json:"query,omitempty"`
	Body    string            `json:"body,omitempty"`
	Remove  []string          `json:"remove,omitempty"`
	Status  int               `json:"status,omitempty"`
	Note    string            `json:"note,omitempty"`
}

// Var is one SPOE action produced.
type Var struct {
	Scope string `json:"scope"` // process | session | transaction | request | response
	Name  string `json:"name"`
	Type  string `json:"type"` // bool | int | str | bytes | other
	Bool  bool   `json:"bool,omitempty"`
	Int   int64  `json:"int,omitempty"`
	Str   string `json:"str,omitempty"`
}

type Case struct {
	Side string `json:"side"` // req | resp
	// the level of the process logger the case ran under (loglevel.go); suites
	// req / resp: the variables of the real fold under the OTHER level besides
	LogLevel      string `json:"log_level,omitempty"`
	OtherLevel    string `json:"other_log_level,omitempty"`
	VarsOtherLevl []Var  `json:"spoe_vars_under_other_log_level,omitempty"`
	Actions       []Act  `json:"actions"`
	Result        Res    `json:"result"`
	Vars          []Var  `json:"spoe_vars"`      // from routing.getSPOE*Actions (real fold)
	EncVars       []Var  `json:"encoded_result"` // Result's own Req/RespToSpoeActions()
	// the sequence without its no-ops, through the real fold (response side)
	VarsNoNoops []Var `json:"spoe_vars_without_noops,omitempty"`
	// legacy mode (sides legacy_req / legacy_resp): the remedies declared, how
	// many of them on the endpoint (the others globally), the request header
	// that makes fixed-response remedies answer, the provider's status.
	// Actions then holds what the remedy plugins returned.
	Remedies    []Remedy `json:"remedies,omitempty"`
	Split       int      `json:"split,omitempty"`
	EarlyHeader bool     `json:"early_header,omitempty"`
	RespStatus  int      `json:"resp_status,omitempty"`
	// input snapshots (session.go): referenced maps / lists of the input actions
	// whose content a fold changed (loop over the public methods; real routing
	// fold), structs whose fields a fold assigned
	MutatedFold   []string `json:"inputs_mutated_by_fold,omitempty"`
	MutatedSpoe   []string `json:"inputs_mutated_by_routing_fold,omitempty"`
	StructUpdated []string `json:"structs_updated,omitempty"`
	// sessions (sides sess_req / sess_resp, session.go)
	Reuse     string `json:"reuse,omitempty"` // maps | structs
	Via       string `json:"via,omitempty"`   // loop | routing
	Producers []Act  `json:"producers,omitempty"`
	SpareCap  []int  `json:"spare_capacity_of_remove_lists,omitempty"`
	Txns      []Txn  `json:"transactions,omitempty"`
	Final     []Res  `json:"producers_at_end,omitempty"`
	// held encodings (side held, held.go): per worker its transactions
	Workers [][]HeldTxn `json:"held_workers,omitempty"`
}

func copyMap(m map[string]string) map[string]string {
	if m == nil {
		return nil
	}
	r := make(map[string]string, len(m))
	for k, v := range m {
		r[k] = v
	}
	return r
}

func (a Act) hdr() map[string]string {
	if a.NilHeaders {
		return nil
	}
	if a.Headers == nil {
		return map[string]string{}
	}
	return copyMap(a.Headers)
}

func (a Act) req() actions.ReqLunarAction {
	switch a.Kind {
	case kNoop:
		return &actions.NoOpAction{}
	case kModH:
		return &actions.ModifyHeadersAction{HeadersToSet: a.hdr()}
	case kModReq:
		return &actions.ModifyRequestAction{HeadersToSet: a.hdr(), Host: a.Host, Path: a.Path,
			QueryParams: a.Query, Body: a.Body}
	case kGenReq:
		// spare capacity: an append to this list writes into its backing array
		rm := make([]string, len(a.Remove), len(a.Remove)+2)
		copy(rm, a.Remove)
		if len(a.Remove) == 0 {
			rm = nil
		}
		return &actions.GenerateRequestAction{HeadersToSet: a.hdr(), HeadersToRemove: rm, Body: a.Body}
	case kEarly:
		return &actions.EarlyResponseAction{Status: a.Status, Body: a.Body, Headers: a.hdr()}
	}
	panic("bad request action kind " + a.Kind)
}

func (a Act) resp() actions.RespLunarAction {
	switch a.Kind {
	case kNoop:
		return &actions.NoOpAction{}
	case kModRes:
		return &actions.ModifyResponseAction{HeadersToSet: a.hdr(), Body: a.Body, Status: a.Status}
	case kRetry:
		return &actions.RetryRequestAction{HeadersToSet: a.hdr()}
	}
	panic("bad response action kind " + a.Kind)
}

func nonNil(m map[string]string) map[string]string {
	if m == nil {
		return map[string]string{}
	}
	return copyMap(m)
}

func reqResult(a actions.ReqLunarAction) Res {
	switch x := a.(type) {
	case nil:
		return Res{Kind: "nil", Headers: map[string]string{}}
	case *actions.NoOpAction:
		return Res{Kind: kNoop, Headers: map[string]string{}}
	case *actions.ModifyHeadersAction:
		return Res{Kind: kModH, Headers: nonNil(x.HeadersToSet)}
	case *actions.ModifyRequestAction:
		return Res{Kind: kModReq, Headers: nonNil(x.HeadersToSet), Host: x.Host, Path: x.Path,
			Query: x.QueryParams, Body: x.Body}
	case *actions.GenerateRequestAction:
		return Res{Kind: kGenReq, Headers: nonNil(x.HeadersToSet),
			Remove: append([]string(nil), x.HeadersToRemove...), Body: x.Body}
	case *actions.EarlyResponseAction:
		return Res{Kind: kEarly, Headers: nonNil(x.Headers), Status: x.Status, Body: x.Body}
	}
	return Res{Kind: "other", Headers: map[string]string{}, Note: fmt.Sprintf("%T", a)}
}

func respResult(a actions.RespLunarAction) Res {
	switch x := a.(type) {
	case nil:
		return Res{Kind: "nil", Headers: map[string]string{}}
	case *actions.NoOpAction:
		return Res{Kind: kNoop, Headers: map[string]string{}}
	case *actions.ModifyResponseAction:
		return Res{Kind: kModRes, Headers: nonNil(x.HeadersToSet), Body: x.Body, Status: x.Status}
	case *actions.RetryRequestAction:
		return Res{Kind: kRetry, Headers: nonNil(x.HeadersToSet)}
	}
	return Res{Kind: "other", Headers: map[string]string{}, Note: fmt.Sprintf("%T", a)}
}

func spoeVars(as []routing.VerifSPOEVar) []Var {
	out := make([]Var, 0, len(as))
	for _, a := range as {
		v := Var{Scope: a.Scope, Name: a.Name, Type: "other"}
		if a.Set {
			switch x := a.Value.(type) {
			case bool:
				v.Type, v.Bool = "bool", x
			case int:
				v.Type, v.Int = "int", int64(x)
			case string:
				// a reading is a snapshot: the bytes are copied (a string value can
				// share storage that is written later, cf. held.go)
				v.Type, v.Str = "str", strings.Clone(x)
			case []byte:
				v.Type, v.Str = "bytes", string(x)
			}
		}
		out = append(out, v)
	}
	return out
}

// ---------------------------------------------------------------- execution

func newReqArgs() lunar_messages.OnRequest {
	return lunar_messages.OnRequest{ID: "verif", Method: "GET", Scheme: "https", URL: "h0/p0",
		Path: "/p0", Headers: map[string]string{"host": "h0"}}
}

func newRespArgs() lunar_messages.OnResponse {
	return lunar_messages.OnResponse{ID: "verif", Method: "GET", URL: "h0/p0", Status: 200,
		Headers: map[string]string{"content-type": "text/plain"}}
}

func exec(k *Case) {
	k.Result, k.Vars, k.EncVars, k.VarsNoNoops = Res{}, nil, nil, nil
	k.MutatedFold, k.MutatedSpoe, k.StructUpdated = nil, nil, nil
	defer func() {
		if r := recover(); r != nil {
			k.Result = Res{Kind: "panic", Headers: map[string]string{}, Note: fmt.Sprint(r)}
		}
	}()
	if k.Side == "req" {
		// the loop of runner.runOnRequest / routing.getSPOEReqActions over the
		// public methods, to observe the resulting action itself
		args := newReqArgs()
		in := make([]actions.ReqLunarAction, len(k.Actions))
		for i, a := range k.Actions {
			in[i] = a.req()
		}
		snaps := snapInputs(in)
		var acc actions.ReqLunarAction = &actions.NoOpAction{}
		for _, la := range in {
			la.EnsureRequestIsUpdated(&args)
			acc = acc.ReqPrioritize(la)
		}
		k.Result = reqResult(acc)
		if acc != nil {
			k.EncVars = spoeVars(routing.VerifFlattenSPOEActions(acc.ReqToSpoeActions()))
		}
		k.MutatedFold, k.StructUpdated = diffInputs(snaps)
		// the real fold + transformers, on fresh objects
		fresh := make([]actions.ReqLunarAction, len(k.Actions))
		for i, a := range k.Actions {
			fresh[i] = a.req()
		}
		snaps = snapInputs(fresh)
		k.Vars = spoeVars(routing.VerifGetSPOEReqActions(newReqArgs(), fresh))
		k.MutatedSpoe, _ = diffInputs(snaps)
		return
	}
	args := newRespArgs()
	in := make([]actions.RespLunarAction, len(k.Actions))
	for i, a := range k.Actions {
		in[i] = a.resp()
	}
	snaps := snapInputs(in)
	var acc actions.RespLunarAction = &actions.NoOpAction{}
	for _, la := range in {
		la.EnsureResponseIsUpdated(&args)
		acc = acc.RespPrioritize(la)
	}
	k.Result = respResult(acc)
	if acc != nil {
		k.EncVars = spoeVars(routing.VerifFlattenSPOEActions(acc.RespToSpoeActions()))
	}
	k.MutatedFold, k.StructUpdated = diffInputs(snaps)
	fresh := make([]actions.RespLunarAction, len(k.Actions))
	var freshNoNoops []actions.RespLunarAction
	for i, a := range k.Actions {
		fresh[i] = a.resp()
		if a.Kind != kNoop {
			freshNoNoops = append(freshNoNoops, a.resp())
		}
	}
	snaps = snapInputs(fresh)
	k.Vars = spoeVars(routing.VerifGetSPOERespActions(newRespArgs(), fresh))
	k.MutatedSpoe, _ = diffInputs(snaps)
	k.VarsNoNoops = spoeVars(routing.VerifGetSPOERespActions(newRespArgs(), freshNoNoops))
}

// ---------------------------------------------------------------- Coq terms

func coqHdrs(m map[string]string) string {
	keys := make([]string, 0, len(m))
	for k := range m {
		keys = append(keys, k)
	}
	sort.Strings(keys)
	return c.MapList(keys, func(k string) string { return c.Tuple(c.Bytes(k), c.Bytes(m[k])) })
}

func coqStrs(xs []string) string { return c.MapList(xs, c.Bytes) }

func coqReq(kind string, h map[string]string, host, path, query, body string, rm []string, status int) string {
	switch kind {
	case kNoop:
		return "RNoOp"
	case kModH:
		return "(RModHeaders " + coqHdrs(h) + ")"
	case kModReq:
		return "(RModRequest " + strings.Join([]string{coqHdrs(h), c.Bytes(host), c.Bytes(path),
			c.Bytes(query), c.Bytes(body)}, " ") + ")"
	case kGenReq:
		return "(RGenRequest " + coqHdrs(h) + " " + coqStrs(rm) + " " + c.Bytes(body) + ")"
	case kEarly:
		return "(REarly " + c.Z(int64(status)) + " " + c.Bytes(body) + " " + coqHdrs(h) + ")"
	}
	// nil / panic / unknown: something the model never yields (an early
	// response with an impossible marker), so the case is a mismatch
	return "(REarly (-999999) [0;0;0] [])"
}

func coqResp(kind string, h map[string]string, body string, status int) string {
	switch kind {
	case kNoop:
		return "PNoOp"
	case kModRes:
		return "(PModResp " + coqHdrs(h) + " " + c.Bytes(body) + " " + c.Z(int64(status)) + ")"
	case kRetry:
		return "(PRetry " + coqHdrs(h) + ")"
	}
	return "(PModResp [] [0;0;0] (-999999))"
}

func coqVar(v Var) string {
	sc := "ScProcess"
	switch v.Scope {
	case "session":
		sc = "ScSession"
	case "transaction":
		sc = "ScTxn"
	case "request":
		sc = "ScReq"
	case "response":
		sc = "ScRes"
	}
	val := "VOther"
	switch v.Type {
	case "bool":
		val = "(VBool " + c.B(v.Bool) + ")"
	case "int":
		val = "(VInt " + c.Z(v.Int) + ")"
	case "str":
		val = "(VStr " + c.Bytes(v.Str) + ")"
	case "bytes":
		val = "(VBytes " + c.Bytes(v.Str) + ")"
	}
	return c.Tuple(sc, c.Bytes(v.Name), val)
}

func coqCase(k *Case) string {
	r := k.Result
	// (level, (actions, result, variables)): case_req_lv / case_resp_lv of Level.v
	if k.Side == "req" {
		return c.Tuple(coqLevel(k.LogLevel), c.Tuple(
			c.MapList(k.Actions, func(a Act) string {
				return coqReq(a.Kind, a.Headers, a.Host, a.Path, a.Query, a.Body, a.Remove, a.Status)
			}),
			coqReq(r.Kind, r.Headers, r.Host, r.Path, r.Query, r.Body, r.Remove, r.Status),
			c.MapList(k.Vars, coqVar)))
	}
	return c.Tuple(coqLevel(k.LogLevel), c.Tuple(
		c.MapList(k.Actions, func(a Act) string { return coqResp(a.Kind, a.Headers, a.Body, a.Status) }),
		coqResp(r.Kind, r.Headers, r.Body, r.Status),
		c.MapList(k.Vars, coqVar)))
}

// ---------------------------------------------------------------- generators

// the 9 header maps over keys {a, b} x values {1, 2} (each key absent / 1 / 2)
func smallMap(i int) map[string]string {
	m := map[string]string{}
	if v := i % 3; v > 0 {
		m["a"] = fmt.Sprint(v)
	}
	if v := i / 3 % 3; v > 0 {
		m["b"] = fmt.Sprint(v)
	}
	return m
}

var (
	statuses = []int{0, 200, 204, 429, 503, -1}
	bodies   = []string{"", "b1", "b2", "{\"k\":1}", "l1\nl2"}
	paths    = []string{"", "/p1", "/p2"}
	hosts    = []string{"", "h1", "h2"}
	queries  = []string{"", "q=1"}
	removes  = [][]string{nil, {"a"}, {"b", "a"}, {"c"}, {"X-Up", "a"}}
	keyPool  = []string{"a", "b", "c", "x-d", "A"}
	valPool  = []string{"1", "2", "3", "", "v w"}
	// strings outside the side condition of the dump (':' / '\n' in a name,
	// '\n' in a value) and values with ':' (allowed)
	oddKeys = []string{"", "a:b", "a\nb", ":"}
	oddVals = []string{"u:w", "http://h/p", "l1\nl2", "\n"}
)

// scalars fills the fields other than kind and headers at random.
func scalars(r *c.Rng, a *Act) {
	switch a.Kind {
	case kModReq:
		a.Host, a.Path, a.Query, a.Body = c.Pick(r, hosts), c.Pick(r, paths), c.Pick(r, queries), c.Pick(r, bodies)
	case kGenReq:
		a.Remove, a.Body = c.Pick(r, removes), c.Pick(r, bodies)
	case kEarly, kModRes:
		a.Status, a.Body = c.Pick(r, statuses), c.Pick(r, bodies)
	}
}

// randMap: a header map over the abstract pool and the special names
// (names.go; spelled per [sp]: spLower / spCanon / spMixed).
func randMap(r *c.Rng, odd bool, sp int) (map[string]string, bool) {
	if r.Chance(1, 10) {
		return nil, true
	}
	m := map[string]string{}
	for n := r.Intn(5); n > 0; n-- {
		k, v := c.Pick(r, keyPool), c.Pick(r, valPool)
		if r.Chance(2, 5) {
			k, v = specialEntry(r, sp)
			if r.Chance(1, 8) {
				v = c.Pick(r, valPool)
			}
		}
		if r.Chance(1, 5) {
			// text special to a formatter / to the dump (special.go)
			k, v = fmtEntry(r)
		}
		if odd && r.Chance(1, 4) {
			k = c.Pick(r, oddKeys)
		}
		if odd && r.Chance(1, 4) || r.Chance(1, 12) {
			v = c.Pick(r, oddVals[:2])
			if odd {
				v = c.Pick(r, oddVals)
			}
		}
		m[k] = v
	}
	return m, false
}

func randCase(r *c.Rng, side string, maxLen int) Case {
	kinds := reqKinds
	if side == "resp" {
		kinds = respKinds
	}
	k := Case{Side: side}
	n := r.Range(0, maxLen)
	pNoop := c.Pick(r, []int{1, 4, 8})     // of 16
	pEarly := c.Pick(r, []int{0, 0, 2, 5}) // of 16, request side
	odd := r.Chance(1, 6)
	sp := c.Pick(r, []int{spLower, spLower, spCanon, spMixed})
	for i := 0; i < n; i++ {
		var a Act
		switch x := r.Intn(16); {
		case x < pNoop:
			a.Kind = kNoop
		case side == "req" && x < pNoop+pEarly:
			a.Kind = kEarly
		case side == "req":
			a.Kind = c.Pick(r, kinds[1:4])
		default:
			a.Kind = c.Pick(r, kinds[1:])
		}
		if a.Kind != kNoop {
			a.Headers, a.NilHeaders = randMap(r, odd, sp)
			scalars(r, &a)
		}
		k.Actions = append(k.Actions, a)
	}
	return k
}

// tagged fills the fields other than kind and headers with values that name
// the position of the action in the sequence (so that which action's status,
// body, path ... ended up in the result is visible).
func tagged(i int, a *Act) {
	t := fmt.Sprint(i)
	switch a.Kind {
	case kModReq:
		a.Host, a.Path, a.Query, a.Body = "h"+t, "/p"+t, "q="+t, "b"+t
	case kGenReq:
		a.Remove, a.Body = []string{"r" + t}, "b"+t
	case kEarly, kModRes:
		a.Status, a.Body = 200+i, "b"+t
	}
}

// enumerate calls f with every sequence of (kind, small header map) of the
// given length; the other fields are tagged with the position.
func enumerate(side string, length int, f func(Case)) {
	kinds := reqKinds
	if side == "resp" {
		kinds = respKinds
	}
	opts := 1 + (len(kinds)-1)*9
	total := 1
	for i := 0; i < length; i++ {
		total *= opts
	}
	for code := 0; code < total; code++ {
		k := Case{Side: side}
		x := code
		for i := 0; i < length; i++ {
			o := x % opts
			x /= opts
			a := Act{Kind: kNoop}
			if o > 0 {
				a.Kind = kinds[1+(o-1)/9]
				a.Headers = smallMap((o - 1) % 9)
				tagged(i, &a)
			}
			k.Actions = append(k.Actions, a)
		}
		f(k)
	}
}

// kindSequences calls f, [per] times, with every sequence of kinds of the given
// length, header maps drawn at random from the 9 maps of one family per case:
// over {a,b} or over two special names (names.go), evenly.
func kindSequences(r *c.Rng, side string, length, per int, f func(Case)) {
	kinds := reqKinds
	if side == "resp" {
		kinds = respKinds
	}
	total := 1
	for i := 0; i < length; i++ {
		total *= len(kinds)
	}
	for code := 0; code < total; code++ {
		for rep := 0; rep < per; rep++ {
			k := Case{Side: side}
			x := code
			fam := someFamily(r, code+rep)
			for i := 0; i < length; i++ {
				a := Act{Kind: kinds[x%len(kinds)]}
				x /= len(kinds)
				if a.Kind != kNoop {
					a.Headers = fam.m(r.Intn(9))
					scalars(r, &a)
				}
				k.Actions = append(k.Actions, a)
			}
			f(k)
		}
	}
}

// witnesses: the minimal inputs of the open findings and their boundaries, run
// on every check (so that a KNOWN-FINDING line does not depend on the seed).
func witnesses(f func(Case)) {
	mod := func(st int, body string, h map[string]string) Act {
		return Act{Kind: kModRes, Status: st, Body: body, Headers: h}
	}
	retry := func(h map[string]string) Act { return Act{Kind: kRetry, Headers: h} }
	noop := Act{Kind: kNoop}
	m := func(kv ...string) map[string]string {
		r := map[string]string{}
		for i := 0; i+1 < len(kv); i += 2 {
			r[kv[i]] = kv[i+1]
		}
		return r
	}
	// F-C07a: a response modification after a retry after a response modification
	f(Case{Side: "resp", Actions: []Act{mod(200, "b0", m("a", "1")), retry(m()), mod(500, "b2", m("b", "2"))}})
	f(Case{Side: "resp", Actions: []Act{mod(200, "b0", m("a", "1", "b", "1")), noop, retry(m("r", "1")), noop,
		mod(201, "b4", m("b", "2")), mod(202, "b5", m("c", "3"))}})
	// same shape, the later modifications overwrite everything: nothing is lost
	f(Case{Side: "resp", Actions: []Act{mod(200, "b0", m("a", "1")), retry(m("r", "1")), retry(m()), noop,
		mod(500, "b4", m("a", "2", "b", "2"))}})
	// boundaries outside the finding: retries before the first / after the last modification
	f(Case{Side: "resp", Actions: []Act{retry(m("r", "1")), mod(200, "b1", m("a", "1")), noop, mod(500, "b3", m("a", "2", "b", "2"))}})
	f(Case{Side: "resp", Actions: []Act{mod(200, "b0", m("a", "1")), mod(500, "b1", m("b", "2")), retry(m("r", "1"))}})
	// F-C07b: two spellings of one header name
	f(Case{Side: "req", Actions: []Act{{Kind: kModH, Headers: m("X-A", "1")}, {Kind: kModH, Headers: m("x-a", "2")}}})
	f(Case{Side: "req", Actions: []Act{{Kind: kModReq, Headers: m("Authorization", "Basic x", "b", "1"), Path: "/p"},
		noop, {Kind: kGenReq, Headers: m("authorization", "Bearer y"), Body: "b2"}}})
	f(Case{Side: "resp", Actions: []Act{mod(200, "b0", m("X-A", "1")), mod(500, "b1", m("x-a", "2"))}})
	// boundaries: one spelling throughout; different headers; an early response wins anyway
	f(Case{Side: "req", Actions: []Act{{Kind: kModH, Headers: m("X-A", "1", "b", "1")}, {Kind: kModH, Headers: m("X-A", "2")},
		{Kind: kModH, Headers: m("a", "3")}}})
	f(Case{Side: "req", Actions: []Act{{Kind: kModH, Headers: m("X-A", "1")}, {Kind: kModH, Headers: m("x-a", "2")},
		{Kind: kEarly, Status: 429, Body: "e", Headers: m("X-A", "3")}}})
}

// ---------------------------------------------------------------- main

func main() {
	setLogLevel(lvError)
	o := c.NewOut("C07")
	o.DeclareSuite("req", "From Verif Require Import C07.Model C07.Level.", "case_req_lv", "run_req_lv")
	o.DeclareSuite("resp", "From Verif Require Import C07.Model C07.Level.", "case_resp_lv", "run_resp_lv")
	o.DeclareSuite("legacy_req", "From Verif Require Import C07.Model.", "case_legacy_req", "run_legacy_req")
	o.DeclareSuite("legacy_resp", "From Verif Require Import C07.Model.", "case_legacy_resp", "run_legacy_resp")
	o.DeclareSuite("sess_req", "From Verif Require Import C07.Model.", "case_sess_req", "run_sess_req")
	o.DeclareSuite("sess_resp", "From Verif Require Import C07.Model.", "case_sess_resp", "run_sess_resp")
	o.DeclareSuite("held", "From Verif Require Import C07.Model C07.Held.", "case_held", "run_held")
	o.Rule("request and response action sequences. Exhaustive part: every sequence over the alphabet {no-op} + " +
		"{other kinds} x {9 header maps over keys {a,b} x values {1,2}} up to length 2 (quick, search) / 3 (thorough), " +
		"status/body/path/host/query/remove-list tagged with the position; so every cell of both pairwise tables is " +
		"run with every pair of these maps on every check. Then every kind sequence of length 3-4 (quick) / 4-5 " +
		"(thorough) with maps sampled from the same 9 and the other fields drawn from small pools (empty strings " +
		"included); then random sequences of length <= 12 over a pool of header names/values including nil maps, " +
		"empty strings, upper case, and strings with ':' / newline; legacy suites: random lists of <= 6 " +
		"fixed-response / account-orchestration / retry remedies split between endpoint and global scope, through " +
		"runner.DispatchOnRequest / DispatchOnResponse. Every fold of the req / resp suites: the objects (header " +
		"maps, remove lists with spare capacity) referenced by the input actions are snapshotted before and compared " +
		"after. Sessions (sess_req / sess_resp): 3-5 producers holding long-lived header maps / remove lists, 2-4 " +
		"transactions each naming the producers that fire; reuse = maps (new structs around the producers' maps) or " +
		"structs (the very struct handed to every transaction), via = loop over the public methods or the real " +
		"routing fold; systematic part: every triple of modification kinds x reused producer in first / middle / " +
		"last position of the first transaction and alone in the second x reuse x via, maps {a:1,b:1} {b:2,c:2} " +
		"{c:3,d:3}; then random sessions (one transaction in five names a producer twice). First of all the " +
		"witnesses of the open findings F-C07a / F-C07b and their boundary cases. Header names: every pool (kind " +
		"sequences, random sequences, sessions, account tokens of the legacy suites, held encodings) draws, besides the " +
		"abstract names, content-type, content-length, content-encoding, transfer-encoding, host, authorization, " +
		"set-cookie, x-lunar-sequence-id / -retry-after / -consumer-tag with realistic values, in lower case or " +
		"Mixed-Case per case (random sequences also both spellings in one sequence); named pairs: every ordered pair " +
		"of kinds that are not no-ops (16 + 4 cells) x each of these 10 names x lower / Mixed-Case x with / without " +
		"bodies, the two (three) actions setting the name to different values, shapes [a1,a2] [a1,no-op,a2] " +
		"[no-op,a1,a2,a3]. Header text special to a formatter or to the dump (special.go): every pool (kind sequences, " +
		"random sequences, sessions systematic and random, account tokens of the legacy suites, held encodings) also draws " +
		"values 100% %2F %s %d %! % %% %[1]s %*d URL-encoded targets, values with ':' (times, URLs, a lone ':'), tab, " +
		"UTF-8, the empty value, and names x-%s x-pct% % x%2Fy tab / non-ASCII names; systematic: every kind that " +
		"carries a header dump (4 request kinds, 2 response kinds) x each such value / name x {only entry of the map, " +
		"between two plain entries, overwriting an earlier plain value while another special text survives}. A newline " +
		"in a name or value and a ':' in a name are not representable in a dump: random sequences only, counted, the " +
		"monitor demands nothing of such a dump. Held encodings (suite held): 2-5 transactions of either side combined and encoded in turn " +
		"(loop over the public methods or the real routing fold), every encoding kept alive, read at once and again " +
		"after all the others; systematic: every ordered pair of {early response, modified request, generated request, " +
		"header edit, modified response, retry} x second body shorter / longer / as long x via, then a third " +
		"transaction; bodies beyond 4 KiB; random histories; 2-4 goroutines each with its own history, unsynchronised " +
		"(thorough tier additionally: 400 such cases under a -race build of this harness). " +
		"distinct = distinct (inputs, observed result, observed variables); " +
		"non-trivial = at least two actions of the sequence are not no-ops (session: some producer carrying " +
		"headers fires in two transactions and some transaction combines two actions that are not no-ops; held: at " +
		"least two transactions whose actions are not all no-ops). " +
		"Log level (loglevel.go): the process logger is configured as the engine does for LOG_LEVEL=trace and for " +
		"LOG_LEVEL=error (its default), the log going to a counting sink; every case of the suites req / resp is " +
		"executed under BOTH levels (the case evaluated by Coq carries its level and is the trace execution or the " +
		"error execution with equal chance; the other execution is monitored the same way - union of the edits, first early " +
		"response unchanged, inputs not written to - and its variables must equal the first's); every session, held " +
		"history and legacy case runs under one level, trace or error with equal chance. Credential names (authorization, " +
		"proxy-authorization, x-api-key, cookie, set-cookie) are in every pool of special names, and systematic: " +
		"every kind that carries a header dump x each of the five names x 4 spellings (lower, Mixed-Case, UPPER, " +
		"aLtErNaTiNg) x {the action alone: the prioritized action is the producer's own struct; merged behind " +
		"another edit and a no-op; set twice, the later value wins / the first early response is sent unchanged}")
	var k Case
	if _, ok := o.ReplayCase(&k); ok {
		if strings.HasPrefix(k.Side, "legacy_") {
			runLegacy(o, k)
		} else if isSession(k.Side) {
			runSession(o, k)
		} else if k.Side == "held" {
			runHeld(o, k)
		} else {
			run(o, k)
		}
		o.Finish()
		return
	}
	if o.Tier == "race" {
		raceChild(o) // the -race build of this harness, started by raceVariant
		return
	}
	r := o.Rng
	f := func(k Case) { run(o, k) }
	run(o, Case{Side: "req"})
	run(o, Case{Side: "resp"})
	witnesses(f)
	namedPairs(f)
	fmtSingles(f)
	credentialCases(f)
	o.Exhaustive(true) // within the scope the rule states for the tier
	switch o.Tier {
	case "thorough":
		for l := 1; l <= 3; l++ {
			enumerate("req", l, f)
			enumerate("resp", l, f)
		}
		kindSequences(r, "req", 4, 40, f)
		kindSequences(r, "req", 5, 4, f)
		kindSequences(r, "resp", 4, 200, f)
		kindSequences(r, "resp", 5, 20, f)
	case "search":
		for l := 1; l <= 2; l++ {
			enumerate("req", l, f)
			enumerate("resp", l, f)
		}
		kindSequences(r, "req", 3, 100, f)
		kindSequences(r, "req", 4, 20, f)
		kindSequences(r, "resp", 3, 200, f)
		kindSequences(r, "resp", 4, 50, f)
	default:
		for l := 1; l <= 2; l++ {
			enumerate("req", l, f)
			enumerate("resp", l, f)
		}
		kindSequences(r, "req", 3, 20, f)
		kindSequences(r, "req", 4, 2, f)
		kindSequences(r, "resp", 3, 50, f)
		kindSequences(r, "resp", 4, 10, f)
	}
	for i := 0; i < o.Scale(1500, 20000, 60000); i++ {
		run(o, randCase(r, "req", 12))
	}
	for i := 0; i < o.Scale(1000, 10000, 40000); i++ {
		run(o, randCase(r, "resp", 12))
	}
	for i := 0; i < o.Scale(400, 4000, 8000); i++ {
		runLegacy(o, randLegacy(r, "legacy_req"))
		runLegacy(o, randLegacy(r, "legacy_resp"))
	}
	// sessions: long-lived producers, several transactions
	fs := func(k Case) { runSession(o, k) }
	for rep := o.Scale(1, 6, 3); rep > 0; rep-- {
		systematicSessions(r, "req", fs)
		systematicSessions(r, "resp", fs)
	}
	for i := 0; i < o.Scale(400, 5000, 6000); i++ {
		runSession(o, randSession(r, "req"))
	}
	for i := 0; i < o.Scale(300, 3000, 4000); i++ {
		runSession(o, randSession(r, "resp"))
	}
	// held encodings: several transactions combined and encoded, every encoding
	// kept and read again afterwards; one worker, then a few goroutines
	fh := func(k Case) { runHeld(o, k) }
	for rep := o.Scale(1, 4, 3); rep > 0; rep-- {
		systematicHeld(r, fh)
	}
	bigHeld(r, fh)
	for i := 0; i < o.Scale(150, 3000, 4000); i++ {
		runHeld(o, randHeld(r, 1))
	}
	for i := 0; i < o.Scale(12, 200, 300); i++ {
		runHeld(o, randHeld(r, r.Range(2, 4)))
	}
	if o.Tier == "thorough" {
		raceVariant(o)
	}
	noteLogLines(o)
	o.Finish()
}

func run(o *c.Out, k Case) {
	k.LogLevel = setLogLevel(pickLevel(o, k.LogLevel))
	k.OtherLevel, k.VarsOtherLevl = "", nil
	exec(&k)
	// the same case under the other log level: monitored like the first
	// execution, not written for Coq
	k2 := k
	k2.LogLevel = setLogLevel(otherLevel(k.LogLevel))
	exec(&k2)
	k.OtherLevel, k.VarsOtherLevl = k2.LogLevel, k2.Vars
	k2.OtherLevel, k2.VarsOtherLevl = k.LogLevel, k.Vars
	nonNoop := 0
	for _, a := range k.Actions {
		if a.Kind != kNoop {
			nonNoop++
		}
	}
	o.Count(fmt.Sprintf("%s:len=%02d", k.Side, len(k.Actions)))
	o.Count(k.Side + ":result=" + k.Result.Kind)
	o.Count(k.Side + ":log-level=" + k.LogLevel + "(+" + k2.LogLevel + " monitored)")
	countNames(o, k.Side, k.Actions)
	countCredentials(o, k.Side, "both", k.Actions)
	if len(k.StructUpdated) > 0 {
		o.Count(k.Side + ":struct-updated-in-place")
	}
	idx := o.Case(k.Side, coqCase(&k), k, nonNoop >= 2)
	o.MonitorChecked(2)
	var hits []c.Hit
	for _, x := range []*Case{&k, &k2} {
		x := x
		hs := monitor(o, x)
		// the loop over the public methods (where the resulting action is observed)
		// and the real routing fold must hand the proxy the same variables
		if a, b := canonVars(x.Vars), canonVars(x.EncVars); a != b && x.Result.Kind != "panic" {
			hs = append(hs, c.Hit{Signature: "fold-copy-diverges:" + x.Side,
				Demanded: "routing.getSPOE*Actions produces the variables of the action the fold over the public " +
					"Prioritize methods yields: " + b, Observed: a, Case: x})
		}
		for i := range hs {
			hs[i].Demanded = "[log level " + x.LogLevel + "] " + hs[i].Demanded
		}
		hits = append(hits, hs...)
	}
	// the encoding is a function of the sequence of actions: the level of the
	// logger is not an input of the combination
	if a, b := canonVars(k.Vars), canonVars(k2.Vars); a != b && k.Result.Kind != "panic" && k2.Result.Kind != "panic" {
		rep := &k
		if k2.LogLevel == lvTrace {
			rep = &k2
		}
		hits = append(hits, c.Hit{Signature: "log-level-changes-encoding:" + k.Side,
			Demanded: "the variables handed to the proxy for a sequence of actions are the same whatever the level of " +
				"the process logger; under log level " + k.LogLevel + ": " + a,
			Observed: "under log level " + k2.LogLevel + ": " + b, Case: rep})
	}
	for _, h := range hits {
		h.Suite, h.Index = k.Side, idx
		o.Hit(h)
	}
}
