// Held encodings (suite "held").
//
// What the combination hands back is not consumed at once: the SPOE worker
// (haproxy-spoe-go worker/frame_notify.go) runs the handler, later copies
// req.Actions into the ack frame and only then marshals it, one goroutine per
// NOTIFY frame; metrics, the deferred StoreRequest and tracing sit in between.
// "The encoding handed to the proxy carries exactly the resulting action's
// status, body and headers" is therefore a statement about the encoding AS READ
// WHEN THE FRAME IS WRITTEN: an encoding handed out for transaction A must
// still denote A's action after B, C ... were combined and encoded
// (C07_held_encodings_are_values - trivial in the model, where an encoding is
// a value; not automatic for the implementation: a transformer that builds its
// variables over recycled storage satisfies every check that looks at the
// variables at once).
//
// A case = one or more workers, each with a list of transactions (side,
// actions, via = loop over the public methods | real routing fold).  A worker
// combines and encodes its transactions in order and KEEPS every encoding (the
// action.Actions value itself / the values the routing shim copied out of it,
// which share the byte slices) alive; each is read at once and read again after
// all encodings of the case were produced.  One worker: deterministic, one
// goroutine.  Several workers: one goroutine each, unsynchronised between
// start and end (the schedule is the runtime's; reported, never required).
package main

import (
	"context"
	"encoding/json"
	"fmt"
	"os"
	osexec "os/exec"
	"path/filepath"
	"strings"
	"sync"
	"time"

	"lunar/engine/actions"
	"lunar/engine/routing"

	c "verifharness/common"
)

type HeldTxn struct {
	Side    string `json:"side"` // req | resp
	Via     string `json:"via"`  // loop | routing
	Actions []Act  `json:"actions"`
	Result  *Res   `json:"result,omitempty"` // via = loop
	AtOnce  []Var  `json:"spoe_vars_read_at_once"`
	Late    []Var  `json:"spoe_vars_read_after_all_encodings"`
	// a re-reading in between (after some later encoding of the same worker)
	// that differed from the first one
	Between string `json:"changed_in_between,omitempty"`
	Note    string `json:"note,omitempty"`
}

// heldEnc is an encoding kept alive: read re-reads the very object.
type heldEnc struct{ read func() []Var }

func encodeHeld(t *HeldTxn) (enc *heldEnc) {
	defer func() {
		if r := recover(); r != nil {
			t.Note = "panic: " + fmt.Sprint(r)
			enc = nil
		}
	}()
	if t.Side == "req" {
		in := make([]actions.ReqLunarAction, len(t.Actions))
		for i, a := range t.Actions {
			in[i] = a.req()
		}
		if t.Via == "routing" {
			raw := routing.VerifGetSPOEReqActions(newReqArgs(), in)
			return &heldEnc{read: func() []Var { return spoeVars(raw) }}
		}
		args := newReqArgs()
		var acc actions.ReqLunarAction = &actions.NoOpAction{}
		for _, la := range in {
			la.EnsureRequestIsUpdated(&args)
			acc = acc.ReqPrioritize(la)
		}
		res := reqResult(acc)
		t.Result = &res
		if acc == nil {
			return nil
		}
		acc.EnsureRequestIsUpdated(&args)
		spoe := acc.ReqToSpoeActions() // the action.Actions value itself is kept
		return &heldEnc{read: func() []Var { return spoeVars(routing.VerifFlattenSPOEActions(spoe)) }}
	}
	in := make([]actions.RespLunarAction, len(t.Actions))
	for i, a := range t.Actions {
		in[i] = a.resp()
	}
	if t.Via == "routing" {
		raw := routing.VerifGetSPOERespActions(newRespArgs(), in)
		return &heldEnc{read: func() []Var { return spoeVars(raw) }}
	}
	args := newRespArgs()
	var acc actions.RespLunarAction = &actions.NoOpAction{}
	for _, la := range in {
		la.EnsureResponseIsUpdated(&args)
		acc = acc.RespPrioritize(la)
	}
	res := respResult(acc)
	t.Result = &res
	if acc == nil {
		return nil
	}
	acc.EnsureResponseIsUpdated(&args)
	spoe := acc.RespToSpoeActions()
	return &heldEnc{read: func() []Var { return spoeVars(routing.VerifFlattenSPOEActions(spoe)) }}
}

func safeRead(e *heldEnc) (vs []Var) {
	if e == nil {
		return nil
	}
	defer func() {
		if r := recover(); r != nil {
			vs = []Var{{Scope: "process", Name: "unreadable: " + fmt.Sprint(r), Type: "other"}}
		}
	}()
	return e.read()
}

// runWorker: combine + encode every transaction in order, keep the encodings,
// read each at once; after every further encoding re-read the ones held so
// far (what a frame writer running a little later would see).
func runWorker(ts []HeldTxn) []*heldEnc {
	held := make([]*heldEnc, len(ts))
	for i := range ts {
		t := &ts[i]
		t.Result, t.AtOnce, t.Late, t.Between, t.Note = nil, nil, nil, "", ""
		held[i] = encodeHeld(t)
		t.AtOnce = safeRead(held[i])
		for j := 0; j < i; j++ {
			if ts[j].Between == "" {
				if now := canonVars(safeRead(held[j])); now != canonVars(ts[j].AtOnce) {
					ts[j].Between = fmt.Sprintf("after transaction #%d was encoded: %s", i, now)
				}
			}
		}
	}
	return held
}

func execHeldOnce(k *Case) {
	if len(k.Workers) == 1 {
		held := runWorker(k.Workers[0])
		for i := range k.Workers[0] {
			k.Workers[0][i].Late = safeRead(held[i])
		}
		return
	}
	helds := make([][]*heldEnc, len(k.Workers))
	var start, done sync.WaitGroup
	start.Add(1)
	for w := range k.Workers {
		done.Add(1)
		go func(w int) {
			defer done.Done()
			start.Wait()
			helds[w] = runWorker(k.Workers[w])
		}(w)
	}
	start.Done()
	done.Wait()
	for w := range k.Workers {
		for i := range k.Workers[w] {
			if helds[w] != nil {
				k.Workers[w][i].Late = safeRead(helds[w][i])
			}
		}
	}
}

func heldChanged(k *Case) bool {
	for _, ts := range k.Workers {
		for _, t := range ts {
			if t.Between != "" || canonVars(t.AtOnce) != canonVars(t.Late) {
				return true
			}
		}
	}
	return false
}

// execHeld: a replay (and a case with several workers) is repeated a few
// times while nothing changed - whether recycled storage is handed to the next
// encoding can depend on where the runtime runs the goroutine; on an
// implementation whose encodings are values every round is identical.
func execHeld(o *c.Out, k *Case) {
	rounds := 1
	if o.Replay != "" {
		rounds = 50
	} else if len(k.Workers) > 1 {
		rounds = 5
	}
	for ; rounds > 0; rounds-- {
		execHeldOnce(k)
		if heldChanged(k) {
			return
		}
	}
}

// ---------------------------------------------------------------- Coq term

func coqHeld(k *Case) string {
	var items []string
	for _, ts := range k.Workers {
		for _, t := range ts {
			var in string
			if t.Side == "req" {
				in = "(HReq " + c.MapList(t.Actions, func(a Act) string {
					return coqReq(a.Kind, a.Headers, a.Host, a.Path, a.Query, a.Body, a.Remove, a.Status)
				}) + ")"
			} else {
				in = "(HResp " + c.MapList(t.Actions, func(a Act) string {
					return coqResp(a.Kind, a.Headers, a.Body, a.Status)
				}) + ")"
			}
			items = append(items, c.Tuple(in, c.MapList(t.AtOnce, coqVar), c.MapList(t.Late, coqVar)))
		}
	}
	return c.List(items)
}

// ---------------------------------------------------------------- monitor

func monitorHeld(k *Case) []c.Hit {
	var hits []c.Hit
	for w, ts := range k.Workers {
		for ti := range ts {
			t := &ts[ti]
			pk := &Case{Side: t.Side, Actions: t.Actions, Vars: t.AtOnce}
			pre := fmt.Sprintf("transaction #%d: ", ti)
			if len(k.Workers) > 1 {
				pre = fmt.Sprintf("worker %d, transaction #%d: ", w, ti)
			}
			h := &hitter{k: pk, rep: k, pre: pre}
			site := t.Side + "-spoe"
			if t.Via != "routing" {
				site = t.Side + "-enc"
			}
			if strings.HasPrefix(t.Note, "panic") {
				h.add("no-result:held-"+t.Side, "a combined action and its encoding", t.Note)
				hits = append(hits, h.hits...)
				continue
			}
			// the encoding as produced: the property, as for a single sequence
			if t.Result != nil {
				r := *t.Result
				if r.Kind == "nil" || r.Kind == "other" {
					h.add("no-result:held-"+t.Side+"-fold", "a combined action", r.Kind+" "+r.Note)
					hits = append(hits, h.hits...)
					continue
				}
				pk.Result = r
				if t.Side == "req" {
					checkReq(h, "held-req-fold", viewOfRes(r))
				} else {
					checkResp(h, "held-resp-fold", viewOfRes(r))
				}
				checkEncoding(h, "held-"+t.Side+"-enc", r, viewOfVars(t.Side, t.AtOnce))
			} else if t.Side == "req" {
				checkReq(h, "held-req-spoe", viewOfVars("req", t.AtOnce))
			} else {
				checkResp(h, "held-resp-spoe", viewOfVars("resp", t.AtOnce))
			}
			// ... and it is still that when the frame is written
			dem := "the encoding handed out for this transaction reads, after the later transactions were " +
				"combined and encoded, as it read when it was handed out: " + canonVars(t.AtOnce)
			if late := canonVars(t.Late); late != canonVars(t.AtOnce) {
				h.add("encoding-mutated:"+site, dem, "after all encodings of the case: "+late)
			} else if t.Between != "" {
				h.add("encoding-mutated:"+site, dem, t.Between)
			}
			hits = append(hits, h.hits...)
		}
	}
	return hits
}

// ---------------------------------------------------------------- generators

// heldBody: a body that names its transaction, of the given filler length
// (so that bodies of different transactions differ at every position of the
// tag and in length).
func heldBody(w, i, fill int) string {
	return fmt.Sprintf("body-w%d-t%d-", w, i) + strings.Repeat(string(rune('A'+(w*7+i)%26)), fill)
}

var heldKinds = []struct{ side, kind string }{
	{"req", kEarly}, {"req", kModReq}, {"req", kGenReq}, {"req", kModH}, {"resp", kModRes}, {"resp", kRetry},
}

// heldAct: an action of the kind whose body / path / headers name (w, i).
func heldAct(r *c.Rng, kind string, w, i, fill int, fam mapFamily) Act {
	a := Act{Kind: kind, Headers: fam.m(1 + r.Intn(8))}
	tag := fmt.Sprintf("w%dt%d", w, i)
	a.Headers["x-txn"] = tag + strings.Repeat("h", fill%9)
	if r.Chance(1, 3) {
		// text special to a formatter / to the dump (special.go), naming (w, i) too
		a.Headers["x-txn"] = tag + c.Pick(r, fmtVals)
		if r.Chance(1, 2) {
			a.Headers[c.Pick(r, fmtNames)] = tag
		}
	}
	switch kind {
	case kEarly, kModRes:
		a.Status, a.Body = 200+i, heldBody(w, i, fill)
	case kModReq:
		a.Host, a.Path, a.Query, a.Body = "h-"+tag, "/p/"+tag+strings.Repeat("p", fill%5), "q="+tag, heldBody(w, i, fill)
	case kGenReq:
		a.Remove, a.Body = []string{"r-" + tag}, heldBody(w, i, fill)
	}
	return a
}

// heldTxn: the main action (kind) possibly among no-ops / header edits that do
// not displace it.
func heldTxn(r *c.Rng, side, kind, via string, w, i, fill int, fam mapFamily) HeldTxn {
	t := HeldTxn{Side: side, Via: via}
	if r.Chance(1, 3) {
		t.Actions = append(t.Actions, Act{Kind: kNoop})
	}
	if side == "req" && r.Chance(1, 3) {
		t.Actions = append(t.Actions, Act{Kind: kModH, Headers: fam.m(r.Intn(9))})
	}
	t.Actions = append(t.Actions, heldAct(r, kind, w, i, fill, fam))
	if kind == kEarly && r.Chance(1, 2) {
		// a second early response: the first one must still be the one sent
		t.Actions = append(t.Actions, heldAct(r, kEarly, w, i+50, (fill+3)%11, fam))
	}
	if r.Chance(1, 4) {
		t.Actions = append(t.Actions, Act{Kind: kNoop})
	}
	return t
}

// systematicHeld: every ordered pair of kinds (early response, modified
// request, generated request, header edit, modified response, retry) x the
// second body shorter / longer / as long as the first x via; a third
// transaction of a rotating kind after them.
func systematicHeld(r *c.Rng, f func(Case)) {
	fills := [][3]int{{40, 3, 17}, {3, 40, 9}, {12, 12, 12}}
	n := 0
	for _, k1 := range heldKinds {
		for _, k2 := range heldKinds {
			for _, fl := range fills {
				for _, via := range []string{"loop", "routing"} {
					fam := someFamily(r, n)
					k3 := heldKinds[n%len(heldKinds)]
					n++
					k := Case{Side: "held", Workers: [][]HeldTxn{{
						heldTxn(r, k1.side, k1.kind, via, 0, 0, fl[0], fam),
						heldTxn(r, k2.side, k2.kind, via, 0, 1, fl[1], fam),
						heldTxn(r, k3.side, k3.kind, c.Pick(r, []string{"loop", "routing"}), 0, 2, fl[2], fam),
					}}}
					f(k)
				}
			}
		}
	}
}

// bigHeld: bodies around and beyond 4 KiB (a typical initial capacity of
// recycled scratch storage), longer after shorter and shorter after longer.
func bigHeld(r *c.Rng, f func(Case)) {
	for _, fl := range [][3]int{{4200, 30, 5000}, {30, 4090, 8}} {
		for _, kind := range []struct{ side, kind string }{{"req", kEarly}, {"resp", kModRes}} {
			fam := abstractFamily
			f(Case{Side: "held", Workers: [][]HeldTxn{{
				heldTxn(r, kind.side, kind.kind, "routing", 0, 0, fl[0], fam),
				heldTxn(r, kind.side, kind.kind, "routing", 0, 1, fl[1], fam),
				heldTxn(r, "req", kEarly, "loop", 0, 2, fl[2], fam),
			}}})
		}
	}
}

func randHeld(r *c.Rng, workers int) Case {
	k := Case{Side: "held"}
	fam := someFamily(r, r.Intn(len(specialNames)))
	pEarly := c.Pick(r, []int{2, 5, 9}) // of 10: how often a transaction is an early response
	for w := 0; w < workers; w++ {
		var ts []HeldTxn
		for i, n := 0, r.Range(2, 5); i < n; i++ {
			kd := c.Pick(r, heldKinds)
			if r.Intn(10) < pEarly {
				kd = heldKinds[0]
			}
			fill := c.Pick(r, []int{0, 0, 1, 5, 12, 30, 64})
			t := heldTxn(r, kd.side, kd.kind, c.Pick(r, []string{"loop", "routing"}), w, i, fill, fam)
			if r.Chance(1, 6) {
				// anything at all
				rc := randCase(r, kd.side, 5)
				t.Actions = rc.Actions
			}
			ts = append(ts, t)
		}
		k.Workers = append(k.Workers, ts)
	}
	return k
}

// ---------------------------------------------------------------- run

func runHeld(o *c.Out, k Case) {
	k.LogLevel = setLogLevel(pickLevel(o, k.LogLevel))
	execHeld(o, &k)
	o.Count(k.Side + ":log-level=" + k.LogLevel)
	nonNoop, txns := 0, 0
	for _, ts := range k.Workers {
		for _, t := range ts {
			txns++
			for _, a := range t.Actions {
				if a.Kind != kNoop {
					nonNoop++
					break
				}
			}
			countNames(o, "held", t.Actions)
		}
	}
	o.Count(fmt.Sprintf("held:workers=%d", len(k.Workers)))
	o.Count(fmt.Sprintf("held:txns=%02d", txns))
	idx := o.Case("held", coqHeld(&k), k, nonNoop >= 2)
	o.MonitorChecked(txns)
	for _, h := range monitorHeld(&k) {
		h.Suite, h.Index = "held", idx
		o.Hit(h)
	}
}

// ---------------------------------------------------------------- race detector (thorough tier)
//
// The same harness built with -race runs the several-worker variant only
// (tier "race"): a worker re-reads the encodings it holds while the other
// workers combine and encode, with no synchronisation in between - as the
// frame writers of the SPOE worker do.  A data race reported while a case runs
// in which one of the two accesses is the harness READING a held encoding
// (spoeVars / safeRead in its stack) means storage that a handed-out encoding
// references is written afterwards: signature encoding-mutated:held-race.
// Races between other accesses are counted and noted, not demanded (the
// property does not speak about them).  Nothing here is required to work: a
// toolchain without race support, a failing build or run is noted and the
// check goes on.

const raceLogEnv = "C07_RACELOG"

func raceLogRead(prefix string) string {
	files, _ := filepath.Glob(prefix + ".*")
	var sb strings.Builder
	for _, f := range files {
		b, _ := os.ReadFile(f)
		sb.Write(b)
	}
	return sb.String()
}

// raceChild is what the -race build runs (tier "race").
func raceChild(o *c.Out) {
	prefix := os.Getenv(raceLogEnv)
	r := o.Rng
	seen := len(raceLogRead(prefix))
	other := 0
	for i := 0; i < 400; i++ {
		k := randHeld(r, r.Range(2, 4))
		execHeldOnce(&k)
		txns := 0
		for _, ts := range k.Workers {
			txns += len(ts)
		}
		o.Case0(k, true)
		o.MonitorChecked(txns)
		for _, h := range monitorHeld(&k) {
			h.Suite = "held"
			o.Hit(h)
		}
		if prefix == "" {
			continue
		}
		if log := raceLogRead(prefix); len(log) > seen {
			rep := log[seen:]
			seen = len(log)
			for _, one := range strings.Split(rep, "==================") {
				if !strings.Contains(one, "DATA RACE") {
					continue
				}
				if strings.Contains(one, "main.spoeVars") || strings.Contains(one, "main.safeRead") ||
					strings.Contains(one, "VerifFlattenSPOEActions") {
					if len(one) > 3000 {
						one = one[:3000] + " ..."
					}
					o.Hit(c.Hit{Suite: "held", Signature: "encoding-mutated:held-race",
						Demanded: "storage referenced by an encoding that was handed out is not written while the " +
							"worker that holds it reads it (other workers combine and encode meanwhile)",
						Observed: "race detector: " + one, Case: &k})
				} else {
					other++
				}
			}
		}
	}
	o.CountN("held:race-variant:cases", 400)
	o.CountN("held:race-variant:other-data-races-not-demanded", other)
	o.Finish()
}

// raceVariant (parent, thorough tier): build the harness with -race, run it,
// take over its hits.
func raceVariant(o *c.Out) {
	note := func(f string, a ...any) { o.Note("race variant: " + fmt.Sprintf(f, a...)) }
	moddir := filepath.Join(os.Getenv("VERIF_DIR"), "harness")
	if repo := os.Getenv("VERIF_REPO"); repo != "" && filepath.Clean(repo) != "/repo" {
		moddir = filepath.Join(os.Getenv("VERIF_BUILD"), "harness")
	}
	if _, err := os.Stat(filepath.Join(moddir, "go.mod")); err != nil {
		note("not run, harness module not found at %s", moddir)
		return
	}
	cwd, _ := os.Getwd()
	bin := filepath.Join(cwd, "c07race")
	out := filepath.Join(cwd, "race")
	os.MkdirAll(filepath.Join(out, "cwd"), 0o755)
	ctx, cancel := context.WithTimeout(context.Background(), 15*time.Minute)
	defer cancel()
	t0 := time.Now()
	build := osexec.CommandContext(ctx, "go", "build", "-race", "-tags", "verif", "-o", bin, "./cmd/c07")
	build.Dir = moddir
	if b, err := build.CombinedOutput(); err != nil {
		msg := string(b)
		if len(msg) > 400 {
			msg = msg[len(msg)-400:]
		}
		note("not run, go build -race failed: %v %s", err, msg)
		return
	}
	prefix := filepath.Join(out, "racelog")
	run := osexec.CommandContext(ctx, bin, "-seed", fmt.Sprint(o.Seed), "-tier", "race", "-out", out)
	run.Dir = filepath.Join(out, "cwd")
	run.Env = append(os.Environ(), "GORACE=halt_on_error=0 exitcode=0 log_path="+prefix, raceLogEnv+"="+prefix)
	if b, err := run.CombinedOutput(); err != nil {
		msg := string(b)
		if len(msg) > 400 {
			msg = msg[len(msg)-400:]
		}
		note("run failed: %v %s", err, msg)
		return
	}
	raw, err := os.ReadFile(filepath.Join(out, "summary.json"))
	if err != nil {
		note("no summary: %v", err)
		return
	}
	var sum struct {
		Distribution map[string]int `json:"distribution"`
		Monitor      struct {
			Checked int `json:"checked"`
			Hits    []struct {
				Signature string `json:"signature"`
				Demanded  string `json:"demanded"`
				Observed  string `json:"observed"`
				Case      Case   `json:"case"`
			} `json:"hits"`
		} `json:"monitor"`
	}
	if err := json.Unmarshal(raw, &sum); err != nil {
		note("unreadable summary: %v", err)
		return
	}
	for k, v := range sum.Distribution {
		if strings.HasPrefix(k, "held:race-variant:") {
			o.CountN(k, v)
		}
	}
	o.MonitorChecked(sum.Monitor.Checked)
	for _, h := range sum.Monitor.Hits {
		k := h.Case
		o.Hit(c.Hit{Suite: "held", Index: -1, Signature: h.Signature, Demanded: "(-race build) " + h.Demanded,
			Observed: h.Observed, Case: &k})
	}
	note("ran in %s, %d transactions checked, %d hits", time.Since(t0).Round(time.Second), sum.Monitor.Checked,
		len(sum.Monitor.Hits))
}
