// Header TEXT that means something to a formatter or to the dump itself.
//
// utils.DumpHeaders hands names and values to a formatter; the dump separates
// name from value with the first ':' and entries with '\n'.  The theorems
// (C07_encoding, C07_dump_bytes_exact) are about arbitrary bytes, so the
// pools must contain the ones a plausible edit of the dump treats specially:
//
//   - '%' (a formatting directive when the text is used as a FORMAT): "100%",
//     URL-encoding "%2F" "%20", verbs "%s" "%d" "%v", "%!" (the formatter's own
//     error prefix), "%%" (collapses to "%"), a '%' at the very end (swallows
//     the line terminator), with flags / width / index ("%+5.2f", "%[1]s",
//     "%*d");
//   - ':' in a VALUE (times, URLs, "Bearer a:b", a lone ":") - the dump is cut
//     at the FIRST ':' only;
//   - tab, UTF-8 sequences (no meaning to anybody; must pass through), the
//     empty value.
//
// Not representable by the dump format, hence kept OUT of these pools (they
// stay in oddKeys / oddVals of the random sequences, where the monitor
// classifies the case and demands nothing of the header dump - wfMap - while
// the model still compares it byte by byte): a '\n' in a value or a name (one
// entry reads as two lines), a ':' in a name (the reader cuts the name
// there).  See notes/C07.md.
//
// All strings are valid UTF-8 (the replay file is JSON).
package main

import (
	"fmt"

	c "verifharness/common"
)

var fmtVals = []string{
	"100%", "%2F", "%s", "%d", "%!", "%", "%%", "%v|%v", "50%25; Path=/",
	"https%3A%2F%2Fexample.com%2Fcb%3Fq%3Da%20b", "/login?next=%2Fdashboard%2Fstats",
	"%!s(MISSING)", "%[1]s", "%+5.2f", "%*d", "%-08x%", "95% of 10%",
	"a\tb", "\t", "12:30:00", ":", "a:b:c", "Bearer a:b", "::1",
	"héllo", "日本語 ✓", "naïve%20café", "%é", "",
}

// names: '%' is a legal token character of an HTTP header name; tab and
// non-ASCII are not, but the combination and the dump must carry them anyway
// (lower case only: spelling variants are finding F-C07b's ground, names.go).
var fmtNames = []string{"x-%s", "x-pct%", "%", "x%2Fy", "x-%d%", "x-%!", "%%", "x\ttab", "x-ünï", "x-100%"}

// plain names the special values are also carried under
var fmtPlainNames = []string{"location", "set-cookie", "x-ratio", "x-v"}

func hasFmtText(m map[string]string) (pct, other bool) {
	for k, v := range m {
		for _, s := range []string{k, v} {
			for i := 0; i < len(s); i++ {
				switch {
				case s[i] == '%':
					pct = true
				case s[i] == '\t' || s[i] >= 0x80:
					other = true
				}
			}
		}
		for i := 0; i < len(v); i++ {
			if v[i] == ':' {
				other = true
			}
		}
	}
	return
}

// fmtFamily: the 9 maps over two names, names and values drawn from the
// pools above (at least one of the names or all values special).
func fmtFamily(r *c.Rng) mapFamily {
	k1 := c.Pick(r, fmtPlainNames)
	k2 := c.Pick(r, fmtNames)
	if r.Chance(1, 3) {
		k1 = c.Pick(r, fmtNames)
		for k1 == k2 {
			k2 = c.Pick(r, fmtNames)
		}
	}
	two := func() []string {
		a, b := c.Pick(r, fmtVals), c.Pick(r, fmtVals)
		for a == b {
			b = c.Pick(r, fmtVals)
		}
		return []string{a, b}
	}
	return mapFamily{k1, k2, two(), two()}
}

// fmtEntry: a (name, value) pair of which at least one is special.
func fmtEntry(r *c.Rng) (string, string) {
	switch r.Intn(4) {
	case 0:
		return c.Pick(r, fmtNames), c.Pick(r, fmtVals)
	case 1:
		return c.Pick(r, fmtNames), c.Pick(r, valPool)
	}
	return c.Pick(r, append(append([]string{}, fmtPlainNames...), keyPool...)), c.Pick(r, fmtVals)
}

// dumpKinds: the kinds that carry a header dump.
var dumpKinds = []struct{ side, kind string }{
	{"req", kModH}, {"req", kModReq}, {"req", kGenReq}, {"req", kEarly}, {"resp", kModRes}, {"resp", kRetry},
}

// fmtSingles: every kind that carries a header dump x every special value
// (under a plain name) and every special name (with a plain value), in three
// shapes: alone in a one-entry map (the text ends the dump: a trailing '%'
// meets the terminator); between two plain entries; set to a plain value by
// an earlier action of the same kind and overwritten by the special one
// (later wins) while the earlier one also carries a special text that must
// survive under another name.
func fmtSingles(f func(Case)) {
	type ent struct{ k, v string }
	var ents []ent
	for i, v := range fmtVals {
		ents = append(ents, ent{fmtPlainNames[i%len(fmtPlainNames)], v})
	}
	for i, k := range fmtNames {
		ents = append(ents, ent{k, []string{"1", "v w", ""}[i%3]})
	}
	ents = append(ents, ent{"x-%s", "%d"}, ent{"%", "%"}, ent{"x-pct%", "100%"})
	for _, dk := range dumpKinds {
		mk := func(pos int, h map[string]string) Act {
			a := Act{Kind: dk.kind, Headers: h}
			tagged(pos, &a)
			return a
		}
		for i, e := range ents {
			f(Case{Side: dk.side, Actions: []Act{mk(0, map[string]string{e.k: e.v})}})
			f(Case{Side: dk.side, Actions: []Act{{Kind: kNoop},
				mk(1, map[string]string{"a": "1", e.k: e.v, "x-z": "z"})}})
			if dk.kind == kEarly {
				// the first early response is sent unchanged; later actions are ignored
				f(Case{Side: dk.side, Actions: []Act{{Kind: kModH, Headers: map[string]string{e.k: "old"}},
					mk(1, map[string]string{e.k: e.v}), mk(2, map[string]string{e.k: "later"})}})
				continue
			}
			o := ents[(i+7)%len(ents)]
			first := map[string]string{e.k: "old", "x-keep-" + fmt.Sprint(i%3): o.v}
			f(Case{Side: dk.side, Actions: []Act{mk(0, first), {Kind: kNoop}, mk(2, map[string]string{e.k: e.v})}})
		}
	}
}

// fmtValueSets: the value rotation of the systematic sessions' maps.
var fmtValueSets = [][3]string{
	{"1", "2", "3"},
	{"100%", "%2F", "%s"},
	{"%d", "12:30:00", "a\tb"},
	{"50%25; Path=/", "héllo %", ""},
}

func countFmt(o *c.Out, side string, acts []Act) {
	pct, other, unrep := false, false, false
	for _, a := range acts {
		p, q := hasFmtText(a.Headers)
		pct, other = pct || p, other || q
		if !wfMap(a.Headers) {
			unrep = true
		}
	}
	if pct {
		o.Count(side + ":header-text-with-percent")
	}
	if other {
		o.Count(side + ":header-text-with-colon-in-value/tab/utf8")
	}
	if unrep {
		o.Count(side + ":header-text-not-representable-in-a-dump(newline, colon-in-name):dump-not-demanded")
	}
}
