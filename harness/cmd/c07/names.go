// Header NAMES.  The theorems are about arbitrary names, so the generators must
// not be confined to abstract ones ("a", "b", "x-d"): every header pool also
// draws the names processors and proxies treat specially - the ones that
// describe a body (content-type, content-length, content-encoding,
// transfer-encoding), routing / credentials (host, authorization, set-cookie)
// and the gateway's own x-lunar-* - in lower case, in canonical Mixed-Case and
// (random sequences only, that is finding F-C07b's ground) in both spellings
// inside one sequence, with a different value in every successive action, on
// actions with and without bodies.
package main

import (
	"strings"

	c "verifharness/common"
)

type hname struct {
	lower, canon string
	vals         []string // realistic values, all different
}

var specialNames = []hname{
	{"content-type", "Content-Type", []string{"application/json", "application/problem+json", "text/plain; charset=utf-8"}},
	{"content-length", "Content-Length", []string{"2", "17", "0"}},
	{"content-encoding", "Content-Encoding", []string{"identity", "gzip", "br"}},
	{"transfer-encoding", "Transfer-Encoding", []string{"chunked", "identity", "gzip, chunked"}},
	{"host", "Host", []string{"h1.example", "h2.example:8443", "h3"}},
	{"authorization", "Authorization", []string{"Bearer t1", "Basic dXNlcjpwdw==", "Bearer t3"}},
	{"set-cookie", "Set-Cookie", []string{"sid=1; Path=/", "sid=2; HttpOnly", "sid=3"}},
	{"proxy-authorization", "Proxy-Authorization", []string{"Basic cHJveHk6cHc=", "Bearer p-2", "Basic cDM6cHc="}},
	{"x-api-key", "X-Api-Key", []string{"k-9f8e7d", "k-000", "k-3"}},
	{"cookie", "Cookie", []string{"sid=abc; theme=dark", "sid=xyz", "sid=3; a=b"}},
	{"x-lunar-sequence-id", "X-Lunar-Sequence-Id", []string{"s-1", "s-2", "s-3"}},
	{"x-lunar-retry-after", "X-Lunar-Retry-After", []string{"1", "30", "0"}},
	{"x-lunar-consumer-tag", "X-Lunar-Consumer-Tag", []string{"t-a", "t-b", "t-c"}},
}

const (
	spLower = iota // every name in lower case
	spCanon        // every name in canonical Mixed-Case
	spMixed        // each use spelled at random (lower / Mixed / UPPER): F-C07b's ground
)

func (n hname) spell(r *c.Rng, mode int) string {
	switch mode {
	case spLower:
		return n.lower
	case spCanon:
		return n.canon
	}
	switch r.Intn(4) {
	case 0:
		return n.canon
	case 1:
		return strings.ToUpper(n.lower)
	}
	return n.lower
}

// mapFamily: the 9 header maps over two names (each absent / first value /
// second value), the generalisation of smallMap.
type mapFamily struct {
	k1, k2 string
	v1, v2 []string
}

var abstractFamily = mapFamily{"a", "b", []string{"1", "2"}, []string{"1", "2"}}

func (f mapFamily) m(i int) map[string]string {
	m := map[string]string{}
	if v := i % 3; v > 0 {
		m[f.k1] = f.v1[v-1]
	}
	if v := i / 3 % 3; v > 0 {
		m[f.k2] = f.v2[v-1]
	}
	return m
}

// namedFamily: two different special names, one spelling for the whole family
// (n rotates through the names so that every name is used about equally).
func namedFamily(r *c.Rng, n int) mapFamily {
	a := specialNames[n%len(specialNames)]
	b := specialNames[(n+1+r.Intn(len(specialNames)-1))%len(specialNames)]
	mode := c.Pick(r, []int{spLower, spLower, spCanon})
	return mapFamily{a.spell(r, mode), b.spell(r, mode), a.vals, b.vals}
}

// someFamily: the abstract family, a named one, or one whose names / values
// carry text special to a formatter or to the dump (special.go), evenly.
func someFamily(r *c.Rng, n int) mapFamily {
	switch r.Intn(3) {
	case 0:
		return abstractFamily
	case 1:
		return fmtFamily(r)
	}
	return namedFamily(r, n)
}

// clearBody removes the body of an action that has one.
func clearBody(a *Act) { a.Body = "" }

// namedPairs: every ordered pair of kinds that are not no-ops (16 request
// cells early responses included, 4 response cells) x every special name x
// spelling (lower, Mixed-Case) x with / without bodies; the first action sets
// the name to its first value (and another header), the second to its second
// value; shapes in rotation: [a1, a2], [a1, no-op, a2], [no-op, a1, a2, a3]
// (a3 = the first kind again with the third value).
func namedPairs(f func(Case)) {
	n := 0
	for _, side := range []string{"req", "resp"} {
		kinds := reqKinds[1:]
		if side == "resp" {
			kinds = respKinds[1:]
		}
		for _, k1 := range kinds {
			for _, k2 := range kinds {
				for _, nm := range specialNames {
					for _, canon := range []bool{false, true} {
						for _, body := range []bool{true, false} {
							name := nm.lower
							other := "x-other"
							if canon {
								name, other = nm.canon, "X-Other"
							}
							mk := func(pos int, kind string, h map[string]string) Act {
								a := Act{Kind: kind, Headers: h}
								tagged(pos, &a)
								if !body {
									clearBody(&a)
								}
								return a
							}
							noop := Act{Kind: kNoop}
							var acts []Act
							switch n % 3 {
							case 0:
								acts = []Act{mk(0, k1, map[string]string{name: nm.vals[0], other: "1"}),
									mk(1, k2, map[string]string{name: nm.vals[1]})}
							case 1:
								acts = []Act{mk(0, k1, map[string]string{name: nm.vals[0], other: "1"}), noop,
									mk(2, k2, map[string]string{name: nm.vals[1]})}
							default:
								acts = []Act{noop, mk(1, k1, map[string]string{name: nm.vals[0], other: "1"}),
									mk(2, k2, map[string]string{name: nm.vals[1], other: "2"}),
									mk(3, k1, map[string]string{name: nm.vals[2]})}
							}
							n++
							f(Case{Side: side, Actions: acts})
						}
					}
				}
			}
		}
	}
}

// sessionNamings: the four header names of the systematic sessions' maps
// ({n0:1,n1:1} {n1:2,n2:2} {n2:3,n3:3}).
var sessionNamings = [][4]string{
	{"a", "b", "c", "d"},
	{"content-type", "content-length", "content-encoding", "transfer-encoding"},
	{"host", "authorization", "set-cookie", "x-lunar-sequence-id"},
	{"Content-Type", "Content-Length", "Content-Encoding", "Transfer-Encoding"},
	{"Host", "Authorization", "Set-Cookie", "X-Lunar-Sequence-Id"},
	{"x-api-key", "cookie", "proxy-authorization", "set-cookie"},
	{"X-API-KEY", "Cookie", "Proxy-Authorization", "AUTHORIZATION"},
}

// specialEntry draws a special name (spelled per mode) and one of its values.
func specialEntry(r *c.Rng, mode int) (string, string) {
	n := c.Pick(r, specialNames)
	return n.spell(r, mode), c.Pick(r, n.vals)
}

func countNames(o *c.Out, side string, acts []Act) {
	countFmt(o, side, acts)
	special, mixed := false, false
	for _, a := range acts {
		for k := range a.Headers {
			l := asciiLower(k)
			for _, n := range specialNames {
				if n.lower == l {
					special = true
					if k != l {
						mixed = true
					}
				}
			}
		}
	}
	if special {
		o.Count(side + ":special-header-names")
	}
	if mixed {
		o.Count(side + ":special-header-names:not-lower-case")
	}
}
