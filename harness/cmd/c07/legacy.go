// Legacy (policies) mode: the same combination runs inside
// runner.runOnRequest / runOnResponse over the actions returned by the remedy
// plugins.  This file drives the public runner.DispatchOnRequest /
// DispatchOnResponse with real plugins (fixed response, account orchestration,
// retry) declared on the endpoint and/or globally; the action each remedy
// returns is obtained by calling a fresh instance of the same plugin with the
// request / response as the runner updates it between remedies
// (EnsureRequest/ResponseIsUpdated), so nothing about the plugins is assumed
// beyond the order in which the runner calls them.
package main

import (
	"fmt"

	"lunar/engine/actions"
	"lunar/engine/config"
	lunar_messages "lunar/engine/messages"
	"lunar/engine/routing"
	"lunar/engine/runner"
	"lunar/engine/services"
	"lunar/engine/services/remedies"
	sharedConfig "lunar/shared-model/config"
	"lunar/toolkit-core/clock"

	c "verifharness/common"
)

type Remedy struct {
	Kind     string            `json:"kind"` // fixed | account | retry
	Status   int               `json:"status,omitempty"`
	Tokens   map[string]string `json:"tokens,omitempty"`
	Cooldown int               `json:"cooldown,omitempty"`
	From     int               `json:"from,omitempty"`
	To       int               `json:"to,omitempty"`
}

const legacyURL = "h0/p0"

type legacySetup struct {
	tree     *config.EndpointPolicyTree
	policies sharedConfig.PoliciesConfig
	services *services.PoliciesServices
	list     []*sharedConfig.Remedy // in the order the runner applies them
}

func tokenNames(m map[string]string) []string {
	ks := make([]string, 0, len(m))
	for k := range m {
		ks = append(ks, k)
	}
	// fixed order (the plugin builds a map out of them anyway)
	for i := range ks {
		for j := i + 1; j < len(ks); j++ {
			if ks[j] < ks[i] {
				ks[i], ks[j] = ks[j], ks[i]
			}
		}
	}
	return ks
}

func newPlugins() services.RemedyPlugins {
	clk := clock.NewMockClock()
	return services.RemedyPlugins{
		FixedResponsePlugin:        remedies.NewFixedResponsePlugin(clk),
		AccountOrchestrationPlugin: remedies.NewAccountOrchestrationPlugin(),
		RetryPlugin:                remedies.NewRetryPlugin(clk),
	}
}

// setup declares the first [split] remedies on the endpoint and the others
// globally (the runner applies endpoint remedies first, then global ones).
func setup(k *Case) *legacySetup {
	s := &legacySetup{}
	accounts := map[sharedConfig.AccountID]sharedConfig.Account{}
	var all []sharedConfig.Remedy
	for i, r := range k.Remedies {
		rem := sharedConfig.Remedy{Enabled: true, Name: fmt.Sprintf("r%d", i)}
		switch r.Kind {
		case "fixed":
			rem.Config.FixedResponse = &sharedConfig.FixedResponseConfig{StatusCode: r.Status}
		case "account":
			id := sharedConfig.AccountID(fmt.Sprintf("acc%d", i))
			var toks []sharedConfig.Token
			for _, name := range tokenNames(r.Tokens) {
				toks = append(toks, sharedConfig.Token{Header: &sharedConfig.Header{Name: name, Value: r.Tokens[name]}})
			}
			accounts[id] = sharedConfig.Account{Tokens: toks}
			rem.Config.AccountOrchestration = &sharedConfig.AccountOrchestrationConfig{
				RoundRobin: []sharedConfig.AccountID{id}}
		case "retry":
			rem.Config.Retry = &sharedConfig.RetryConfig{Attempts: 1, InitialCooldownSeconds: r.Cooldown,
				CooldownMultiplier: 1, Conditions: sharedConfig.RetryConfigConditions{
					StatusCode: []sharedConfig.Range[int]{{From: r.From, To: r.To}}}}
		default:
			panic("bad remedy kind " + r.Kind)
		}
		all = append(all, rem)
	}
	split := k.Split
	if split > len(all) {
		split = len(all)
	}
	endpoint := append([]sharedConfig.Remedy(nil), all[:split]...)
	global := append([]sharedConfig.Remedy(nil), all[split:]...)
	tree, err := config.BuildEndpointPolicyTree([]sharedConfig.EndpointConfig{
		{URL: legacyURL, Method: "GET", Remedies: endpoint}})
	if err != nil {
		panic(err)
	}
	s.tree = tree
	s.policies = sharedConfig.PoliciesConfig{Global: sharedConfig.Global{Remedies: global}, Accounts: accounts}
	s.services = &services.PoliciesServices{Remedies: newPlugins()}
	for i := range endpoint {
		s.list = append(s.list, &endpoint[i])
	}
	for i := range global {
		s.list = append(s.list, &global[i])
	}
	return s
}

func legacyReqArgs(early bool) lunar_messages.OnRequest {
	h := map[string]string{"host": "h0"}
	if early {
		h["early-response"] = "true"
	}
	return lunar_messages.OnRequest{ID: "verif", SequenceID: "verif", Method: "GET", Scheme: "https",
		URL: legacyURL, Path: "/p0", Headers: h}
}

func legacyRespArgs(status int) lunar_messages.OnResponse {
	return lunar_messages.OnResponse{ID: "verif", SequenceID: "verif", Method: "GET", URL: legacyURL,
		Status: status, Headers: map[string]string{"content-type": "text/plain"}}
}

func actOfRes(r Res) Act {
	return Act{Kind: r.Kind, Headers: r.Headers, Host: r.Host, Path: r.Path, Query: r.Query, Body: r.Body,
		Remove: r.Remove, Status: r.Status}
}

func stripActive(vs []Var) []Var {
	out := vs[:0:0]
	for _, v := range vs {
		if v.Name == "request_active_remedies" || v.Name == "response_active_remedies" {
			continue
		}
		out = append(out, v)
	}
	return out
}

func execLegacy(k *Case) {
	k.Actions, k.Vars, k.Result = nil, nil, Res{Kind: "unobserved", Headers: map[string]string{}}
	defer func() {
		if r := recover(); r != nil {
			k.Result = Res{Kind: "panic", Headers: map[string]string{}, Note: fmt.Sprint(r)}
		}
	}()
	// 1. what each remedy returns, from fresh plugin instances
	s := setup(k)
	p := newPlugins()
	if k.Side == "legacy_req" {
		args := legacyReqArgs(k.EarlyHeader)
		for _, rem := range s.list {
			var a actions.ReqLunarAction
			var err error
			switch {
			case rem.Config.FixedResponse != nil:
				a, err = p.FixedResponsePlugin.OnRequest(args, rem.Config.FixedResponse)
			case rem.Config.AccountOrchestration != nil:
				a, err = p.AccountOrchestrationPlugin.OnRequest(args, rem.Config.AccountOrchestration, s.policies.Accounts)
			case rem.Config.Retry != nil:
				a, err = p.RetryPlugin.OnRequest(args, rem.Config.Retry)
			}
			if err != nil {
				panic(err)
			}
			k.Actions = append(k.Actions, actOfRes(reqResult(a)))
			a.EnsureRequestIsUpdated(&args)
		}
		// 2. the real dispatcher
		vars, err := runner.DispatchOnRequest(legacyReqArgs(k.EarlyHeader), s.tree, &s.policies, s.services, nil)
		if err != nil {
			panic(err)
		}
		k.Vars = stripActive(spoeVars(routing.VerifFlattenSPOEActions(vars)))
		return
	}
	args := legacyRespArgs(k.RespStatus)
	for _, rem := range s.list {
		var a actions.RespLunarAction
		var err error
		switch {
		case rem.Config.FixedResponse != nil:
			a, err = p.FixedResponsePlugin.OnResponse(args, rem.Config.FixedResponse)
		case rem.Config.AccountOrchestration != nil:
			a, err = p.AccountOrchestrationPlugin.OnResponse(args, rem.Config.AccountOrchestration)
		case rem.Config.Retry != nil:
			a, err = p.RetryPlugin.OnResponse(args, rem.Config.Retry)
		}
		if err != nil {
			panic(err)
		}
		k.Actions = append(k.Actions, actOfRes(respResult(a)))
		a.EnsureResponseIsUpdated(&args)
	}
	vars, err := runner.DispatchOnResponse(legacyRespArgs(k.RespStatus), s.tree, &s.policies.Global, s.services, nil)
	if err != nil {
		panic(err)
	}
	k.Vars = stripActive(spoeVars(routing.VerifFlattenSPOEActions(vars)))
}

func coqLegacy(k *Case) string {
	if k.Side == "legacy_req" {
		return c.Tuple(
			c.MapList(k.Actions, func(a Act) string {
				return coqReq(a.Kind, a.Headers, a.Host, a.Path, a.Query, a.Body, a.Remove, a.Status)
			}),
			c.MapList(k.Vars, coqVar))
	}
	return c.Tuple(
		c.MapList(k.Actions, func(a Act) string { return coqResp(a.Kind, a.Headers, a.Body, a.Status) }),
		c.MapList(k.Vars, coqVar))
}

func randLegacy(r *c.Rng, side string) Case {
	k := Case{Side: side}
	n := r.Range(0, 6)
	k.Split = r.Range(0, n)
	if side == "legacy_req" {
		k.EarlyHeader = r.Chance(1, 3)
		for i := 0; i < n; i++ {
			switch r.Intn(6) {
			case 0, 1:
				k.Remedies = append(k.Remedies, Remedy{Kind: "fixed", Status: c.Pick(r, []int{200, 418, 429, 503})})
			case 2:
				// never matches: a no-op on the request side and on the early response
				k.Remedies = append(k.Remedies, Remedy{Kind: "retry", Cooldown: 1, From: 700, To: 700})
			default:
				// token header names: abstract or special (authorization, host, x-lunar-* ...)
				k.Remedies = append(k.Remedies, Remedy{Kind: "account", Tokens: someFamily(r, i+n).m(r.Intn(9))})
			}
		}
		return k
	}
	k.RespStatus = c.Pick(r, []int{200, 429, 429, 503})
	for i := 0; i < n; i++ {
		switch r.Intn(6) {
		case 0:
			k.Remedies = append(k.Remedies, Remedy{Kind: "fixed", Status: 418})
		case 1:
			k.Remedies = append(k.Remedies, Remedy{Kind: "account", Tokens: someFamily(r, i+n).m(r.Intn(9))})
		default:
			// a firing retry remedy sets the status seen by the next ones to 0
			rg := c.Pick(r, [][2]int{{0, 599}, {400, 599}, {0, 0}, {429, 429}, {500, 599}})
			k.Remedies = append(k.Remedies, Remedy{Kind: "retry", Cooldown: r.Range(1, 4), From: rg[0], To: rg[1]})
		}
	}
	return k
}

func runLegacy(o *c.Out, k Case) {
	k.LogLevel = setLogLevel(pickLevel(o, k.LogLevel))
	execLegacy(&k)
	o.Count(k.Side + ":log-level=" + k.LogLevel)
	nonNoop := 0
	for _, a := range k.Actions {
		if a.Kind != kNoop {
			nonNoop++
		}
	}
	o.Count(fmt.Sprintf("%s:len=%02d", k.Side, len(k.Remedies)))
	o.Count(fmt.Sprintf("%s:non-noop=%d", k.Side, nonNoop))
	countFmt(o, k.Side, k.Actions)
	idx := o.Case(k.Side, coqLegacy(&k), k, nonNoop >= 2)
	o.MonitorChecked(1)
	for _, h := range monitor(o, &k) {
		h.Suite, h.Index = k.Side, idx
		o.Hit(h)
	}
}
