// C07 monitor: the property restated directly over the input sequence and what
// the implementation produced.  Nothing here goes through the pairwise table:
// expectations are computed from the inputs by a scan (first early response,
// header union by assignment in order).
//
// Request side (at two observation points: the resulting action of the fold,
// "req-fold", and the SPOE variables of routing.getSPOEReqActions, "req-spoe"):
//   - some input is an early response  => the result is the FIRST one with its
//     status, body and headers unchanged;
//   - otherwise, not all inputs no-ops  => the result is a request modification
//     (never a no-op, never an early response) whose header edits are the union
//     of all header edits, assigning in input order (later wins);
//   - all inputs no-ops                 => a no-op (a header modification with
//     no edits is tolerated).
//
// Response side ("resp-fold" / "resp-spoe"):
//   - some input is not a no-op => the result is not a no-op, and dropping the
//     no-ops from the sequence does not change what is sent to the proxy;
//   - only modifications (and no-ops) => a modification whose header edits are
//     the later-wins union; its status and body are those of some input
//     modification (the text does not say which);
//   - modifications and retries mixed: the text does not fix the priority; the
//     result is one of the two kinds, no header is invented, and a resulting
//     modification carries the later-wins union of ALL input modifications
//     ("response modifications merge their header edits").  The code drops the
//     modifications that precede a retry (known finding F-C07a): a hit whose
//     input has a modification after a retry after a modification
//     (retrySplitsMods = Coq retry_splits_mods) and whose observed edits are
//     exactly the union of the modifications after the last retry gets the
//     signature resp-edits-dropped-at-retry:RespPrioritize; anything else is
//     resp-header-union.
//
// Header names are case-insensitive (HTTP): when two names of the input edits
// differ only in case (caseClash = Coq case_clash) the union is demanded per
// header - one entry per case-folded name, the later edit's value, either
// spelling (an input map that itself names a header twice: any of its values,
// or both entries).  The code keeps
// both spellings (known finding F-C07b, signature
// case-variant-conflict:MergeHeaders); a wrong value is header-union as usual.
// Without such names the comparison is byte-exact as before.
//
// Encoding ("req-enc" / "resp-enc"): the variables produced by the resulting
// action's own Req/RespToSpoeActions carry its kind, status, body and, when the
// header names/values satisfy the side condition of the dump (no ':' / newline
// in a name, no newline in a value), exactly its header map.
package main

import (
	"fmt"
	"sort"
	"strings"

	c "verifharness/common"
)

type view struct {
	Kind       string
	Status     int64
	HasStatus  bool
	Body       string
	HasBody    bool
	Headers    map[string]string
	HeadersOK  bool // Headers is meaningful (a dump that parsed, or the action's own map)
	DumpSeen   bool
	DumpRaw    string
	Unexpected string
}

func isMod(kind string) bool { return kind == kModH || kind == kModReq || kind == kGenReq }

func wfMap(m map[string]string) bool {
	for k, v := range m {
		if strings.ContainsAny(k, ":\n") || strings.Contains(v, "\n") {
			return false
		}
	}
	return true
}

// parseDump reads a header dump the way its consumer does: non-empty lines,
// name up to the first ':'.
func parseDump(d string) (map[string]string, bool) {
	m := map[string]string{}
	for _, line := range strings.Split(d, "\n") {
		if line == "" {
			continue
		}
		i := strings.Index(line, ":")
		if i < 0 {
			return nil, false
		}
		if _, dup := m[line[:i]]; dup {
			return nil, false
		}
		m[line[:i]] = line[i+1:]
	}
	return m, true
}

func findVar(vs []Var, name string) *Var {
	for i := range vs {
		if vs[i].Name == name {
			return &vs[i]
		}
	}
	return nil
}

func flag(vs []Var, name string) bool {
	v := findVar(vs, name)
	return v != nil && v.Type == "bool" && v.Bool
}

func viewOfVars(side string, vs []Var) view {
	var v view
	hdrName, bodyName := "", ""
	if side == "req" {
		switch {
		case flag(vs, "return_early_response"):
			v.Kind, hdrName, bodyName = kEarly, "response_headers", "response_body"
		case flag(vs, "modify_request"):
			v.Kind, hdrName, bodyName = kModReq, "request_headers", "request_body"
		case flag(vs, "generate_request"):
			v.Kind, hdrName, bodyName = kGenReq, "request_headers", "request_body"
		case findVar(vs, "request_headers") != nil:
			v.Kind, hdrName = kModH, "request_headers"
		case len(vs) == 0:
			v.Kind = kNoop
		default:
			v.Kind = "unknown"
		}
	} else {
		switch {
		case flag(vs, "modify_response"):
			v.Kind, hdrName, bodyName = kModRes, "response_headers", "response_body"
		case flag(vs, "retry_request"):
			v.Kind, hdrName = kRetry, "retry_headers"
		case len(vs) == 0:
			v.Kind = kNoop
		default:
			v.Kind = "unknown"
		}
	}
	if s := findVar(vs, "status_code"); s != nil && s.Type == "int" {
		v.Status, v.HasStatus = s.Int, true
	}
	if bodyName != "" {
		if b := findVar(vs, bodyName); b != nil && (b.Type == "str" || b.Type == "bytes") {
			v.Body, v.HasBody = b.Str, true
		}
	}
	v.Headers = map[string]string{}
	if hdrName != "" {
		if h := findVar(vs, hdrName); h != nil && (h.Type == "str" || h.Type == "bytes") {
			v.DumpSeen, v.DumpRaw = true, h.Str
			if m, ok := parseDump(h.Str); ok {
				v.Headers, v.HeadersOK = m, true
			}
		}
	} else {
		v.HeadersOK = true
	}
	return v
}

func viewOfRes(r Res) view {
	v := view{Kind: r.Kind, Status: int64(r.Status), HasStatus: true, Body: r.Body, HasBody: true,
		Headers: r.Headers, HeadersOK: true}
	if v.Headers == nil {
		v.Headers = map[string]string{}
	}
	return v
}

func mapsEq(a, b map[string]string) bool {
	if len(a) != len(b) {
		return false
	}
	for k, v := range a {
		if w, ok := b[k]; !ok || w != v {
			return false
		}
	}
	return true
}

func showMap(m map[string]string) string {
	ks := make([]string, 0, len(m))
	for k := range m {
		ks = append(ks, k)
	}
	sort.Strings(ks)
	var sb strings.Builder
	sb.WriteString("{")
	for i, k := range ks {
		if i > 0 {
			sb.WriteString(", ")
		}
		fmt.Fprintf(&sb, "%q:%q", k, m[k])
	}
	sb.WriteString("}")
	return sb.String()
}

// headersAgree compares the header map seen at an observation point with the
// demanded one.  At a SPOE point the dump can only be read back when the
// demanded map satisfies the side condition; otherwise nothing is demanded.
func headersAgree(v view, want map[string]string) (ok bool, seen string) {
	if !wfMap(want) && v.DumpSeen {
		return true, ""
	}
	if !v.HeadersOK {
		return false, fmt.Sprintf("unreadable header dump %q", v.DumpRaw)
	}
	if !mapsEq(v.Headers, want) {
		return false, showMap(v.Headers)
	}
	return true, ""
}

type hitter struct {
	k    *Case // the sequence the expectations are computed from
	rep  *Case // the case to report when it is not k (a session)
	pre  string
	hits []c.Hit
}

func (h *hitter) add(sig, dem, obs string) {
	rep := h.k
	if h.rep != nil {
		rep = h.rep
	}
	h.hits = append(h.hits, c.Hit{Signature: sig, Demanded: h.pre + dem, Observed: obs, Case: rep})
}

func monitor(o *c.Out, k *Case) []c.Hit {
	h := &hitter{k: k}
	if k.Result.Kind == "panic" || k.Result.Kind == "nil" || k.Result.Kind == "other" {
		h.add("no-result:"+k.Side+"-fold", "a combined action", k.Result.Kind+" "+k.Result.Note)
		return h.hits
	}
	switch k.Side {
	case "legacy_req":
		// only the variables are observable through the dispatcher
		checkReq(h, "legacy-req-spoe", viewOfVars("req", k.Vars))
		return h.hits
	case "legacy_resp":
		checkResp(h, "legacy-resp-spoe", viewOfVars("resp", k.Vars))
		return h.hits
	}
	for _, m := range k.MutatedFold {
		h.add("input-mutated:"+k.Side+"-fold", "a fold leaves the objects its input actions reference (header maps, "+
			"remove lists) as they were: the producers keep them for later transactions", m)
	}
	for _, m := range k.MutatedSpoe {
		h.add("input-mutated:"+k.Side+"-spoe", "the routing fold leaves the objects its input actions reference "+
			"(header maps, remove lists) as they were: the producers keep them for later transactions", m)
	}
	if k.Side == "req" {
		checkReq(h, "req-fold", viewOfRes(k.Result))
		checkReq(h, "req-spoe", viewOfVars("req", k.Vars))
	} else {
		checkResp(h, "resp-fold", viewOfRes(k.Result))
		checkResp(h, "resp-spoe", viewOfVars("resp", k.Vars))
		if a, b := canonVars(k.Vars), canonVars(k.VarsNoNoops); a != b {
			h.add("noop-changes-result:resp-spoe",
				"removing the no-ops from the sequence leaves the variables sent to the proxy unchanged: "+b, a)
		}
	}
	checkEncoding(h, k.Side+"-enc", k.Result, viewOfVars(k.Side, k.EncVars))
	return h.hits
}

// ---------------------------------------------------------------- request side

func checkReq(h *hitter, site string, v view) {
	acts := h.k.Actions
	firstEarly, allNoop := -1, true
	union := map[string]string{}
	var edits []map[string]string
	for i, a := range acts {
		if a.Kind != kNoop {
			allNoop = false
		}
		if a.Kind == kEarly && firstEarly < 0 {
			firstEarly = i
		}
		if isMod(a.Kind) {
			edits = append(edits, a.Headers)
			for name, val := range a.Headers {
				union[name] = val // input order: the later edit overwrites
			}
		}
	}
	switch {
	case firstEarly >= 0:
		e := acts[firstEarly]
		want := fmt.Sprintf("the first early response (action #%d): status %d, body %q, headers %s",
			firstEarly, e.Status, e.Body, showMap(e.Headers))
		if v.Kind != kEarly {
			h.add("early-displaced:"+site, want, "result kind "+v.Kind)
			return
		}
		var diffs []string
		if !v.HasStatus || v.Status != int64(e.Status) {
			diffs = append(diffs, fmt.Sprintf("status %d (present=%v)", v.Status, v.HasStatus))
		}
		if !v.HasBody || v.Body != e.Body {
			diffs = append(diffs, fmt.Sprintf("body %q (present=%v)", v.Body, v.HasBody))
		}
		if ok, seen := headersAgree(v, nonNilMap(e.Headers)); !ok {
			diffs = append(diffs, "headers "+seen)
		}
		if len(diffs) > 0 {
			h.add("early-changed:"+site, want, strings.Join(diffs, "; "))
		}
	case allNoop:
		if v.Kind == kNoop || (v.Kind == kModH && v.HeadersOK && len(v.Headers) == 0) {
			return
		}
		h.add("noop-expected:"+site, "no-op (every input action is a no-op)", "result kind "+v.Kind)
	default:
		want := "a request modification with header edits " + showMap(union)
		switch {
		case v.Kind == kNoop:
			h.add("modification-lost:"+site, want, "no-op")
		case v.Kind == kEarly:
			h.add("early-invented:"+site, want, "early response although no input is one")
		case !isMod(v.Kind):
			h.add("unknown-result:"+site, want, "result kind "+v.Kind)
		default:
			switch verdict, seen := unionVerdict(v, edits); verdict {
			case "":
			case sigCaseVariant:
				h.add(sigCaseVariant, want+" - one entry per header, names being case-insensitive", seen)
			default:
				h.add("header-union:"+site, want, seen)
			}
		}
	}
}

// ---------------------------------------------------------------- unions

const (
	sigCaseVariant  = "case-variant-conflict:MergeHeaders"
	sigDroppedRetry = "resp-edits-dropped-at-retry:RespPrioritize"
)

// asciiLower folds A-Z (Coq lower_str): header names are ASCII tokens.
func asciiLower(s string) string {
	b := []byte(s)
	for i, ch := range b {
		if ch >= 'A' && ch <= 'Z' {
			b[i] = ch + 32
		}
	}
	return string(b)
}

// caseClash: two of the names differ only in case (Coq case_clash).
func caseClash(names []string) bool {
	spelling := map[string]string{}
	for _, n := range names {
		f := asciiLower(n)
		if first, ok := spelling[f]; ok && first != n {
			return true
		}
		spelling[f] = n
	}
	return false
}

// unionVerdict compares the header map seen at an observation point with the
// later-wins union of the maps (input order).  "" = agrees; sigCaseVariant =
// the result carries two spellings of a header whose last edit names it once;
// "mismatch" otherwise.  Without names that differ only in case the comparison
// is byte-exact.  With such names it is per header (case-folded name): the
// value(s) of the header in the LAST map that mentions it, under any
// spelling; a map that itself names the header twice conflicts with itself,
// "later" is then undefined and any of its values (or both entries) is
// accepted.
func unionVerdict(v view, maps []map[string]string) (verdict, seen string) {
	exact := map[string]string{}
	var names []string
	for _, m := range maps {
		for n, val := range m {
			exact[n] = val
			names = append(names, n)
		}
	}
	if !caseClash(names) {
		if ok, seen := headersAgree(v, exact); !ok {
			return "mismatch", seen
		}
		return "", ""
	}
	if !wfMap(exact) && v.DumpSeen {
		return "", ""
	}
	if !v.HeadersOK {
		return "mismatch", fmt.Sprintf("unreadable header dump %q", v.DumpRaw)
	}
	want := map[string][]string{} // header -> accepted values (of the last map that mentions it)
	for _, m := range maps {
		mine := map[string][]string{}
		for n, val := range m {
			mine[asciiLower(n)] = append(mine[asciiLower(n)], val)
		}
		for f, vals := range mine {
			want[f] = vals
		}
	}
	got := map[string][]string{}
	for n, val := range v.Headers {
		got[asciiLower(n)] = append(got[asciiLower(n)], val)
	}
	dup := false
	for f, vals := range got {
		acc, ok := want[f]
		if !ok {
			return "mismatch", showMap(v.Headers)
		}
		nFound := 0
		for _, val := range vals {
			for _, w := range acc {
				if w == val {
					nFound++
					break
				}
			}
		}
		if nFound == 0 {
			return "mismatch", showMap(v.Headers) // the header's last edit is not there at all
		}
		if nFound < len(vals) || (len(vals) > 1 && len(acc) == 1) {
			dup = true // besides the last edit, an entry of the same header under another spelling
		}
	}
	for f := range want {
		if _, ok := got[f]; !ok {
			return "mismatch", showMap(v.Headers)
		}
	}
	if dup {
		return sigCaseVariant, showMap(v.Headers)
	}
	return "", ""
}

// retrySplitsMods: some response modification comes after a retry that comes
// after a response modification (Coq retry_splits_mods, the same scan).
func retrySplitsMods(acts []Act) bool {
	const (
		sNone = iota
		sMod
		sLost
	)
	st := sNone
	for _, a := range acts {
		switch a.Kind {
		case kModRes:
			if st == sLost {
				return true
			}
			st = sMod
		case kRetry:
			if st != sNone {
				st = sLost
			}
		}
	}
	return false
}

func nonNilMap(m map[string]string) map[string]string {
	if m == nil {
		return map[string]string{}
	}
	return m
}

// ---------------------------------------------------------------- response side

func checkResp(h *hitter, site string, v view) {
	acts := h.k.Actions
	var mods, retries []Act
	lastRetry := -1
	for i, a := range acts {
		switch a.Kind {
		case kModRes:
			mods = append(mods, a)
		case kRetry:
			retries = append(retries, a)
			lastRetry = i
		}
	}
	if len(mods)+len(retries) == 0 {
		if v.Kind != kNoop {
			h.add("noop-expected:"+site, "no-op (every input action is a no-op)", "result kind "+v.Kind)
		}
		return
	}
	if v.Kind == kNoop {
		h.add("noop-displaces:"+site, "a modification or a retry (some input action is not a no-op)", "no-op")
		return
	}
	if v.Kind != kModRes && v.Kind != kRetry {
		h.add("unknown-result:"+site, "a modification or a retry", "result kind "+v.Kind)
		return
	}
	var allMods, runMods []map[string]string
	allUnion := map[string]string{}
	for i, a := range acts {
		if a.Kind == kModRes {
			allMods = append(allMods, a.Headers)
			if i > lastRetry {
				runMods = append(runMods, a.Headers)
			}
			for name, val := range a.Headers {
				allUnion[name] = val
			}
		}
	}
	if v.Kind == kModRes {
		if len(mods) == 0 {
			h.add("modification-invented:"+site, "a retry (no input is a response modification)", "response modification")
			return
		}
		// status and body come from some input modification
		okS, okB := false, false
		for _, m := range mods {
			okS = okS || (v.HasStatus && v.Status == int64(m.Status))
			okB = okB || (v.HasBody && v.Body == m.Body)
		}
		if !okS || !okB {
			h.add("resp-status-body:"+site, "status and body of one of the input response modifications",
				fmt.Sprintf("status %d (present=%v) body %q (present=%v)", v.Status, v.HasStatus, v.Body, v.HasBody))
		}
		// the later-wins union of ALL response modifications, retries or not
		want := "response modification with header edits " + showMap(allUnion)
		verdict, seen := unionVerdict(v, allMods)
		if verdict == "" {
			return
		}
		if retrySplitsMods(acts) {
			// F-C07a: exactly what dropping everything before the last retry gives
			switch v2, _ := unionVerdict(v, runMods); v2 {
			case "":
				h.add(sigDroppedRetry, want+" (the union of all response modifications of the sequence)",
					seen+" = the union of the modifications after the last retry only")
				return
			case sigCaseVariant:
				verdict = sigCaseVariant
			}
		}
		if verdict == sigCaseVariant {
			h.add(sigCaseVariant, want+" - one entry per header, names being case-insensitive", seen)
			return
		}
		h.add("resp-header-union:"+site, want, seen)
		return
	}
	// a retry
	if len(retries) == 0 {
		h.add("retry-invented:"+site, "a response modification (no input is a retry)", "retry")
		return
	}
	if v.DumpSeen {
		for _, a := range retries {
			if !wfMap(a.Headers) {
				return // the dump cannot be read back reliably
			}
		}
	}
	if !v.HeadersOK {
		h.add("resp-header-invented:"+site, "a readable header dump", fmt.Sprintf("%q", v.DumpRaw))
		return
	}
	for name, got := range v.Headers {
		found := false
		for _, a := range retries {
			if val, ok := a.Headers[name]; ok && val == got {
				found = true
			}
		}
		if !found {
			h.add("resp-header-invented:"+site, "retry headers taken from the input retries",
				fmt.Sprintf("%q:%q", name, got))
			return
		}
	}
}

// ---------------------------------------------------------------- encoding

func checkEncoding(h *hitter, site string, r Res, v view) {
	want := fmt.Sprintf("variables carrying kind %s, status %d, body %q, headers %s", r.Kind, r.Status, r.Body,
		showMap(r.Headers))
	if r.Kind == kModH && len(r.Headers) == 0 && v.Kind == kNoop {
		return // a header modification without edits may be encoded as nothing
	}
	if v.Kind != r.Kind {
		h.add("encoding-kind:"+site, want, "variables read as kind "+v.Kind)
		return
	}
	switch r.Kind {
	case kNoop:
		return
	case kEarly, kModRes:
		if !v.HasStatus || v.Status != int64(r.Status) {
			h.add("encoding-status:"+site, want, fmt.Sprintf("status %d (present=%v)", v.Status, v.HasStatus))
		}
		if !v.HasBody || v.Body != r.Body {
			h.add("encoding-body:"+site, want, fmt.Sprintf("body %q (present=%v)", v.Body, v.HasBody))
		}
	case kModReq, kGenReq:
		// an unset body variable means "keep the original body": only for ""
		if (v.HasBody && v.Body != r.Body) || (!v.HasBody && r.Body != "") {
			h.add("encoding-body:"+site, want, fmt.Sprintf("body %q (present=%v)", v.Body, v.HasBody))
		}
	}
	if !v.DumpSeen {
		if len(r.Headers) > 0 {
			h.add("encoding-headers:"+site, want, "no header variable")
		}
		return
	}
	if ok, seen := headersAgree(v, nonNilMap(r.Headers)); !ok {
		h.add("encoding-headers:"+site, want, seen)
	}
}

// canonVars renders a variable list independently of variable order and of
// the order of the lines of a header dump.
func canonVars(vs []Var) string {
	items := make([]string, 0, len(vs))
	for _, v := range vs {
		s := v.Str
		if strings.HasSuffix(v.Name, "_headers") {
			lines := strings.Split(s, "\n")
			sort.Strings(lines)
			s = strings.Join(lines, "\n")
		}
		items = append(items, fmt.Sprintf("%s/%s/%s/%v/%d/%q", v.Scope, v.Name, v.Type, v.Bool, v.Int, s))
	}
	sort.Strings(items)
	return strings.Join(items, " ")
}
