// The log level.  The level of the process logger is configuration (LOG_LEVEL;
// logging.ConfigureLogger: log.Logger = zerolog.New(writer).Level(level), the
// global level stays at trace) and trace is a legal value: the property is
// about every deployment, so the encoding path is run under more than one
// level.  Every case records the level it ran under ("log_level"); the suites
// req / resp execute every case under BOTH levels (the case written for Coq is
// the one of its recorded level, the other execution is monitored the same way
// and its variables must equal the first execution's); sessions, held
// encodings and the legacy suites run a whole case under one level, drawn per
// case (trace or error with equal chance).  The log is written into a counting sink
// (summary: how many lines the implementation wrote under each level), never
// to the terminal.
//
// Header names of the credential family (authorization, proxy-authorization,
// x-api-key, cookie, set-cookie - the names log renderers mask) are in every
// pool (names.go) and in the systematic family credentialCases below.
package main

import (
	"strings"
	"sync/atomic"

	"github.com/rs/zerolog"
	"github.com/rs/zerolog/log"

	c "verifharness/common"
)

const (
	lvTrace = "trace"
	lvError = "error" // the engine's default
)

type countingSink struct{ lines atomic.Int64 }

func (s *countingSink) Write(p []byte) (int, error) {
	s.lines.Add(1)
	return len(p), nil
}

var (
	logSink    countingSink
	levelRng   *c.Rng
	linesUnder = map[string]int64{}
	curLevel   string
)

// setLogLevel configures the process logger the way the engine does for
// LOG_LEVEL=<name>.  An unknown name (a hand-edited replay file) is the
// engine's default.
func setLogLevel(name string) string {
	lv, err := zerolog.ParseLevel(name)
	if err != nil || name == "" {
		name, lv = lvError, zerolog.ErrorLevel
	}
	if curLevel != "" {
		linesUnder[curLevel] += logSink.lines.Swap(0)
	}
	curLevel = name
	zerolog.SetGlobalLevel(zerolog.TraceLevel)
	log.Logger = zerolog.New(&logSink).Level(lv)
	return name
}

// pickLevel: the level a case runs under - the recorded one (replay), else
// trace or error with equal chance (drawn, not alternated: an alternation would
// lock with the two-valued inner loops of the systematic generators, e.g. via =
// loop | routing).
func pickLevel(o *c.Out, recorded string) string {
	if recorded != "" {
		return recorded
	}
	if levelRng == nil {
		levelRng = o.Rng.Fork(0xC07) // its own stream: the generators' draws stay as they were
	}
	if levelRng.Chance(1, 2) {
		return lvError
	}
	return lvTrace
}

func otherLevel(lv string) string {
	if lv == lvTrace {
		return lvError
	}
	return lvTrace
}

func coqLevel(lv string) string {
	switch lv {
	case "trace":
		return "LvTrace"
	case "debug":
		return "LvDebug"
	case "info":
		return "LvInfo"
	case "warn":
		return "LvWarn"
	case "disabled":
		return "LvDisabled"
	}
	return "LvError"
}

// noteLogLines puts the number of log lines the implementation wrote under
// each level into the distribution (an honest "trace was really on").
func noteLogLines(o *c.Out) {
	setLogLevel(curLevel) // flush the counter
	for lv, n := range linesUnder {
		if n > 0 {
			o.Count("log-level=" + lv + ":implementation-wrote-log-lines")
		}
	}
}

// ---------------------------------------------------------------- credential names

var credentialNames = []string{"authorization", "proxy-authorization", "x-api-key", "cookie", "set-cookie"}

var credentialVals = map[string][]string{
	"authorization":       {"Bearer tok-123", "Basic dXNlcjpwdw=="},
	"proxy-authorization": {"Basic cHJveHk6cHc=", "Bearer p-2"},
	"x-api-key":           {"k-9f8e7d", "k-000"},
	"cookie":              {"sid=abc; theme=dark", "sid=xyz"},
	"set-cookie":          {"sid=abc; Path=/; HttpOnly", "sid=new; Max-Age=0"},
}

func isCredential(name string) bool {
	l := asciiLower(name)
	for _, n := range credentialNames {
		if n == l {
			return true
		}
	}
	return false
}

// spellings of a name: lower, canonical Mixed-Case, UPPER, alternating
func spellings(lower string) []string {
	canon := []byte(lower)
	up := true
	for i, ch := range canon {
		if up && ch >= 'a' && ch <= 'z' {
			canon[i] = ch - 32
		}
		up = ch == '-'
	}
	alt := []byte(lower)
	for i, ch := range alt {
		if i%2 == 1 && ch >= 'a' && ch <= 'z' {
			alt[i] = ch - 32
		}
	}
	return []string{lower, string(canon), strings.ToUpper(lower), string(alt)}
}

// credentialCases: every kind that carries a header dump (4 request kinds, 2
// response kinds) x each credential name x 4 spellings x
//
//	shape 0: the action alone - the prioritized action IS the struct the
//	         processor handed in (NoOp.Prioritize(other) returns other);
//	shape 1: [edit of another header; no-op; the credential] - a merged action;
//	shape 2: the credential first, overwritten by a later action of the same
//	         kind under the same spelling, another header besides (request side:
//	         an early response carrying the credential, then a second early
//	         response - the first must be sent unchanged).
//
// Each case is run under both log levels (run).
func credentialCases(f func(Case)) {
	type kd struct{ side, kind string }
	kinds := []kd{{"req", kModH}, {"req", kModReq}, {"req", kGenReq}, {"req", kEarly}, {"resp", kModRes}, {"resp", kRetry}}
	for _, x := range kinds {
		for _, name := range credentialNames {
			for _, sp := range spellings(name) {
				vals := credentialVals[name]
				mk := func(pos int, h map[string]string) Act {
					a := Act{Kind: x.kind, Headers: h}
					tagged(pos, &a)
					return a
				}
				other := Act{Kind: kModH, Headers: map[string]string{"x-lunar-a": "1"}}
				if x.side == "resp" {
					other = Act{Kind: x.kind, Headers: map[string]string{"x-lunar-a": "1"}}
					tagged(0, &other)
				}
				noop := Act{Kind: kNoop}
				for shape := 0; shape < 3; shape++ {
					var acts []Act
					switch shape {
					case 0:
						acts = []Act{mk(0, map[string]string{sp: vals[0], "x-plain": "p"})}
					case 1:
						acts = []Act{other, noop, mk(2, map[string]string{sp: vals[0]})}
					default:
						acts = []Act{mk(0, map[string]string{sp: vals[0], "content-type": "text/plain"}), noop,
							mk(2, map[string]string{sp: vals[1], "x-lunar-b": "2"})}
						if x.kind == kEarly {
							acts = append([]Act{other}, acts...)
						}
					}
					f(Case{Side: x.side, Actions: acts})
				}
			}
		}
	}
}

func countCredentials(o *c.Out, side, level string, acts []Act) {
	for _, a := range acts {
		for k := range a.Headers {
			if isCredential(k) {
				o.Count(side + ":credential-header-names:log-level=" + level)
				return
			}
		}
	}
}
