// Property monitor for C13, written from the property text (its own URL
// parser and matcher; no call into the implementation's trie):
//
//   - a remedy / diagnosis selected for (method, URL) was declared for that method
//     on a pattern that matches the URL (literal = equal part of the same kind,
//     {param} = exactly one part of the same kind, trailing * = nothing or a
//     rest that starts with a part of the kind the * was written in: "a.com/*"
//     covers a.com, a.com/x, a.com/x/y, not a.com.evil.org/x; "a.*" covers a,
//     a.b, a.b/x, not a/x);
//   - the reported normalised URL is a declared pattern that matches the request;
//   - the path parameters are the request's parts at the parameter positions;
//   - the most specific declared pattern wins (literal > parameter > wildcard,
//     compared left to right; an exact pattern over a wildcard standing for
//     nothing; hence a deeper wildcard over an outer one): the selected pattern
//     is at least as specific as every declared pattern that matches the URL,
//     and when a declared pattern matches, one is selected;
//   - same outcome for every order of the same declarations.
//
// Known deviations of the implementation are classified by their own
// signatures (known findings): no-backtracking:lookup (the more specific
// matching pattern has a parameter step shadowed by a declared literal sibling
// carrying the request part: the descent entered the literal branch and does
// not come back), brace-part:lookup (a request part spelled "{..}" is taken
// for a parameter reference), order:plugin-sequence (two declarations of one
// method and URL are merged in declaration order), hostpath-clash:insert,
// order:acceptance (the loader's duplicate check depends on the order; only
// when two declarations of one method have remedies of one type on patterns
// that may overlap, else order:acceptance:no-overlapping-pair).
package main

import (
	"fmt"
	"sort"
	"strings"

	c "verifharness/common"
)

type mpart struct {
	host bool
	v    string
}

const (
	kLit = iota
	kParam
	kWild
)

type mstep struct {
	host bool
	kind int
	v    string // literal text or parameter name
}

// host labels up to the first '/', path segments after it; leading / trailing
// '.' and '/' are not significant
func mSplit(u string) []mpart {
	u = strings.Trim(u, "./")
	host, path, hasPath := strings.Cut(u, "/")
	var out []mpart
	for _, l := range strings.Split(host, ".") {
		out = append(out, mpart{true, l})
	}
	if hasPath {
		for _, s := range strings.Split(path, "/") {
			out = append(out, mpart{false, s})
		}
	}
	return out
}

// leadingScheme: the URL starts with "<scheme>://" (RFC 3986 scheme syntax,
// or an empty scheme).  The property text speaks of host/path URLs; whether
// a scheme IN FRONT of the host is ignored or makes the URL something else
// is not fixed by it (today: a declaration spelled so is refused, a request
// spelled so is a request to the "host" "http:").  The monitor therefore
//   - reads a DECLARED URL with a leading scheme as the URL behind the scheme
//     (an implementation that accepts "https://h/p" as "h/p" is not blamed;
//     one that refuses it is never asked),
//   - does not judge a REQUEST spelled with a leading scheme.
//
// A "://" anywhere AFTER the host is not a scheme: the request is a request
// to the host in front of it, and is judged as such.
func leadingScheme(u string) (rest string, ok bool) {
	i := strings.Index(u, "://")
	if i < 0 {
		return u, false
	}
	for j := 0; j < i; j++ {
		ch := u[j]
		alpha := (ch >= 'a' && ch <= 'z') || (ch >= 'A' && ch <= 'Z')
		if !(alpha || (j > 0 && ((ch >= '0' && ch <= '9') || ch == '+' || ch == '-' || ch == '.'))) {
			return u, false
		}
	}
	return u[i+3:], true
}

func isBrace(s string) bool { return strings.HasPrefix(s, "{") && strings.HasSuffix(s, "}") }

// a declared URL as a pattern; valid = no empty part, wildcard only last
func mPattern(u string) (p []mstep, valid bool) {
	parts := mSplit(u)
	valid = true
	for i, x := range parts {
		switch {
		case x.v == "":
			valid = false
		case x.v == "*":
			if i != len(parts)-1 {
				valid = false
			}
			p = append(p, mstep{x.host, kWild, ""})
			continue
		case isBrace(x.v):
			p = append(p, mstep{x.host, kParam, strings.Trim(x.v, "{}")})
			continue
		}
		p = append(p, mstep{x.host, kLit, x.v})
	}
	return p, valid
}

// kind-aware matcher (the property text); lax = the wildcard stands for parts of any kind
func mMatchesGen(p []mstep, u []mpart, lax bool) bool {
	for i, s := range p {
		if s.kind == kWild {
			return i == len(p)-1 && (lax || i >= len(u) || u[i].host == s.host)
		}
		if i >= len(u) || u[i].host != s.host {
			return false
		}
		if s.kind == kLit && u[i].v != s.v {
			return false
		}
	}
	return len(p) == len(u)
}

func mMatches(p []mstep, u []mpart) bool    { return mMatchesGen(p, u, false) }
func mMatchesLax(p []mstep, u []mpart) bool { return mMatchesGen(p, u, true) }

// literal > parameter > wildcard
func rank(s mstep) int { return 3 - s.kind }

// moreSpecific: r is strictly more specific than sel (both match one request):
// at the first step where they differ r has the higher rank, or r has ended
// (exact) where sel continues with its wildcard.  x = that step.
func moreSpecific(r, sel []mstep) (bool, int) {
	x := 0
	for x < len(r) && x < len(sel) && sameStep(r[x], sel[x]) {
		x++
	}
	switch {
	case x == len(r) && x == len(sel):
		return false, x
	case x == len(r):
		return sel[x].kind == kWild, x
	case x == len(sel):
		return false, x
	}
	return rank(r[x]) > rank(sel[x]), x
}

func hasBracePart(u []mpart) bool {
	for _, x := range u {
		if isBrace(x.v) {
			return true
		}
	}
	return false
}

// duplicateEndpoint: two declarations of one method and one pattern
func duplicateEndpoint(ds []declInfo) bool {
	for i := range ds {
		for j := i + 1; j < len(ds); j++ {
			if ds[i].valid && ds[j].valid && ds[i].d.Method == ds[j].d.Method && samePattern(ds[i].pat, ds[j].pat) {
				return true
			}
		}
	}
	return false
}

// mayOverlap: some URL (or the spelling of one pattern looked up as a URL)
// could match both patterns; kinds are not compared (permissive).
func mayOverlap(p, q []mstep) bool {
	for i := 0; ; i++ {
		switch {
		case i == len(p) && i == len(q):
			return true
		case i == len(p):
			return q[i].kind == kWild
		case i == len(q):
			return p[i].kind == kWild
		case p[i].kind == kWild || q[i].kind == kWild:
			return true
		case p[i].kind == kLit && q[i].kind == kLit && p[i].v != q[i].v:
			return false
		}
	}
}

// sameTypeOverlap: two declarations of one method with remedies of one defined
// type on patterns that may overlap - the only situation in which the loader's
// duplicate check (checkForDuplicates) can refuse a configuration, hence the
// side condition of the known finding F-C13f (acceptance depends on the order)
func sameTypeOverlap(ds []declInfo) bool {
	for i := range ds {
		for j := i + 1; j < len(ds); j++ {
			if !ds[i].valid || !ds[j].valid || ds[i].d.Method != ds[j].d.Method || !mayOverlap(ds[i].pat, ds[j].pat) {
				continue
			}
			for _, a := range ds[i].d.Rem {
				for _, b := range ds[j].d.Rem {
					if a.Type != 0 && a.Type == b.Type {
						return true
					}
				}
			}
		}
	}
	return false
}

func sameStep(a, b mstep) bool {
	return a.host == b.host && a.kind == b.kind && (a.kind == kWild || a.v == b.v)
}

func samePattern(a, b []mstep) bool {
	if len(a) != len(b) {
		return false
	}
	for i := range a {
		if !sameStep(a[i], b[i]) {
			return false
		}
	}
	return true
}

// same child slot of the trie node: literals by value, one parameter slot, one wildcard slot
func sameSlot(a, b mstep) bool {
	return a.kind == b.kind && (a.kind != kLit || a.v == b.v)
}

// hostPathClash: two declared patterns reach the same slot with different
// kinds (host label vs path segment) — the known finding F-C13e.
func hostPathClash(pats [][]mstep) bool {
	for i := range pats {
		for j := i + 1; j < len(pats); j++ {
			for x := 0; x < len(pats[i]) && x < len(pats[j]); x++ {
				if !sameSlot(pats[i][x], pats[j][x]) {
					break
				}
				if pats[i][x].host != pats[j][x].host {
					return true
				}
			}
		}
	}
	return false
}

type declInfo struct {
	d     Decl
	pat   []mstep
	valid bool
}

func infos(k *Case) (ds []declInfo, clash bool) {
	var pats [][]mstep
	for _, d := range k.Decls {
		p, v := mPattern(d.URL)
		if rest, ok := leadingScheme(d.URL); ok && !v {
			p, v = mPattern(rest)
		}
		ds = append(ds, declInfo{d, p, v})
		if v {
			pats = append(pats, p)
		}
	}
	return ds, hostPathClash(pats)
}

// unshadowed: at every parameter step of q no declared pattern with the same
// earlier steps offers the literal request part instead
func unshadowed(q []mstep, u []mpart, ds []declInfo) bool {
	for i, s := range q {
		if s.kind != kParam {
			continue
		}
		for _, r := range ds {
			if !r.valid || len(r.pat) <= i || r.pat[i].kind != kLit {
				continue
			}
			if r.pat[i].v == u[i].v && r.pat[i].host == u[i].host && samePattern(r.pat[:i], q[:i]) {
				return false
			}
		}
	}
	return true
}

func monitorCase(k *Case) []c.Hit {
	if !k.Accepted {
		return nil
	}
	var hits []c.Hit
	ds, clash := infos(k)
	add := func(sig, dem, obs string, q Req) {
		if clash {
			sig = "hostpath-clash:insert"
		}
		kk := *k
		kk.Reqs = []Req{q}
		hits = append(hits, c.Hit{Signature: sig, Demanded: dem, Observed: obs, Case: kk})
	}
	remOwner := map[int]int{}
	dgOwner := map[int]int{}
	enabled := map[string]bool{}
	for i, d := range k.Decls {
		for _, r := range d.Rem {
			remOwner[r.Name] = i
			enabled[remName(r.Name)] = r.Enabled
		}
		for _, g := range d.Diag {
			dgOwner[g.Name] = i
			enabled[dgName(g.Name)] = g.Enabled
		}
	}
	for _, q := range k.Reqs {
		if _, ok := leadingScheme(q.URL); ok {
			continue // reading not fixed by the property text (see leadingScheme)
		}
		u := mSplit(q.URL)
		o := q.Obs
		check := func(what string, owner map[int]int, sels []Sel, nm func(int) string) {
			for _, s := range sels {
				if !s.Endpoint {
					continue
				}
				i, ok := owner[s.Name]
				if !ok {
					add("unsound:unknown-plugin", "selected plugins are declared ones", what+" "+nm(s.Name)+" selected", q)
					continue
				}
				d := ds[i]
				if d.d.Method == q.Method && d.valid && !mMatches(d.pat, u) && mMatchesLax(d.pat, u) {
					add("unsound:wildcard-kind",
						fmt.Sprintf("%s %s (declared for %s %s) applies only to requests matching that URL: the wildcard stands for parts of its own kind (host label / path segment)", what, nm(s.Name), d.d.Method, d.d.URL),
						fmt.Sprintf("selected for %s %s", q.Method, q.URL), q)
				} else if d.d.Method != q.Method || !d.valid || !mMatches(d.pat, u) {
					add("unsound:policy-leak",
						fmt.Sprintf("%s %s (declared for %s %s) applies only to requests of that method matching that URL", what, nm(s.Name), d.d.Method, d.d.URL),
						fmt.Sprintf("selected for %s %s", q.Method, q.URL), q)
				}
				if !enabled[nm(s.Name)] {
					add("unsound:disabled-plugin", "only enabled plugins are selected", what+" "+nm(s.Name)+" selected", q)
				}
			}
		}
		check("remedy", remOwner, o.Rems, remName)
		check("diagnosis", dgOwner, o.Diags, dgName)
		if !o.CtxOK {
			add("scoped-context", "endpoint-scoped plugins carry the request method and the looked-up normalised URL / path parameters",
				"they differ", q)
		}
		brace := hasBracePart(u)
		// the declared patterns that match the request
		var matching []*declInfo
		for i := range ds {
			if ds[i].valid && mMatches(ds[i].pat, u) {
				matching = append(matching, &ds[i])
			}
		}
		// classify a matching pattern r that the selection is below (or nothing selected)
		// (a "{..}" request part only explains that NOTHING is selected: the
		// descent gives up there; it never explains a less specific selection)
		classify := func(r *declInfo, generic string, nothingSelected bool) string {
			switch {
			case nothingSelected && brace:
				return "brace-part:lookup"
			case !unshadowed(r.pat, u, ds):
				return "no-backtracking:lookup"
			}
			return generic
		}
		if !o.HasValue {
			// completeness: a declared pattern matches, so one is selected
			sig, by := "", (*declInfo)(nil)
			for _, r := range matching {
				c := classify(r, "specificity:matching-pattern-not-selected", true)
				if sig == "" || (c == "specificity:matching-pattern-not-selected" && sig != c) {
					sig, by = c, r
				}
			}
			if by != nil {
				add(sig, fmt.Sprintf("%q matches %s: the most specific matching declared pattern is selected", by.d.URL, q.URL),
					fmt.Sprintf("match=%v, no declared pattern reported", o.Match), q)
			}
			continue
		}
		// normalised URL = a declared pattern matching the request
		np, _ := mPattern(o.Norm)
		var sel *declInfo
		for i := range ds {
			if ds[i].valid && samePattern(ds[i].pat, np) {
				sel = &ds[i]
				break
			}
		}
		if sel == nil {
			add("normalised-url:not-declared", "the normalised URL is a declared pattern",
				fmt.Sprintf("%q for %s", o.Norm, q.URL), q)
			continue
		}
		if !mMatches(sel.pat, u) {
			sig := "normalised-url:not-matching"
			if mMatchesLax(sel.pat, u) {
				sig = "normalised-url:wildcard-kind"
			}
			add(sig, "the normalised URL matches the request",
				fmt.Sprintf("%q for %s", o.Norm, q.URL), q)
			continue
		}
		// path parameters = request parts at the parameter positions
		{
			want := map[string]string{}
			for i, s := range sel.pat {
				if s.kind == kParam {
					want[s.v] = u[i].v
				}
			}
			got := map[string]string{}
			for _, p := range o.Params {
				got[p[0]] = p[1]
			}
			if !sameParams(want, got) {
				sig := "path-params"
				if brace {
					sig = "brace-part:lookup"
				}
				add(sig, fmt.Sprintf("path parameters of %q for %s are %v", o.Norm, q.URL, want),
					fmt.Sprintf("%v", got), q)
			}
		}
		// specificity: the selected pattern is at least as specific as every
		// declared pattern that matches the request
		seen := map[string]bool{}
		for _, r := range matching {
			if samePattern(r.pat, sel.pat) {
				continue
			}
			more, x := moreSpecific(r.pat, sel.pat)
			if !more {
				continue
			}
			sig := ""
			switch {
			case x < len(r.pat) && sel.pat[x].kind == kParam && r.pat[x].kind == kLit:
				// literal over parameter at the first differing step: the
				// descent itself prefers the literal child there
				sig = "specificity:literal-over-parameter"
			case r.pat[len(r.pat)-1].kind == kWild:
				sig = classify(r, "specificity:deeper-wildcard-over-outer", false)
			default:
				sig = classify(r, "specificity:exact-over-wildcard", false)
			}
			if seen[sig] {
				continue
			}
			seen[sig] = true
			add(sig, fmt.Sprintf("%q is more specific than %q (step %d) and matches %s", r.d.URL, sel.d.URL, x, q.URL),
				fmt.Sprintf("normalised URL %q", o.Norm), q)
		}
	}
	return hits
}

func outcome(q Req) string {
	o := q.Obs
	names := func(s []Sel) string {
		var x []string
		for _, e := range s {
			x = append(x, fmt.Sprintf("%v:%d", e.Endpoint, e.Name))
		}
		sort.Strings(x)
		return strings.Join(x, ",")
	}
	return fmt.Sprintf("value=%v norm=%q params=%v remedies=[%s] diagnoses=[%s] diagnose=%v",
		o.HasValue, o.Norm, o.Params, names(o.Rems), names(o.Diags), o.Should)
}

// monitorOrder: the same declarations in another order give the same outcome:
// the same plugins selected (as sets), and the same sequence of remedies.
func monitorOrder(ref, k *Case) []c.Hit {
	_, clash := infos(k)
	sig := func(s string) string {
		if clash {
			return "hostpath-clash:insert"
		}
		return s
	}
	if ref.Accepted != k.Accepted {
		kk := *k
		kk.OtherOrder = ref.Decls
		s := "order:acceptance"
		if dsi, _ := infos(k); !sameTypeOverlap(dsi) {
			// not the known finding: no two declarations could be in conflict at all
			s = "order:acceptance:no-overlapping-pair"
		}
		return []c.Hit{{Signature: sig(s),
			Demanded: "the outcome does not depend on the order of the declarations",
			Observed: fmt.Sprintf("accepted=%v in this order (%s), accepted=%v in the other (%s)", k.Accepted, k.Err, ref.Accepted, ref.Err),
			Case:     kk}}
	}
	if !k.Accepted {
		return nil
	}
	dsi, _ := infos(k)
	dup := duplicateEndpoint(dsi)
	for i := range k.Reqs {
		a, b := outcome(ref.Reqs[i]), outcome(k.Reqs[i])
		if a != b {
			kk := *k
			kk.Reqs = []Req{k.Reqs[i]}
			kk.OtherOrder = ref.Decls
			return []c.Hit{{Signature: sig("order:selection"),
				Demanded: fmt.Sprintf("%s %s: %s (as in the other order)", k.Reqs[i].Method, k.Reqs[i].URL, a),
				Observed: b, Case: kk}}
		}
	}
	// the selected remedies run in list order (each sees the request as the
	// previous ones left it): their sequence is part of the outcome
	for i := range k.Reqs {
		a, b := remedySeq(ref.Reqs[i]), remedySeq(k.Reqs[i])
		if a != b {
			kk := *k
			kk.Reqs = []Req{k.Reqs[i]}
			kk.OtherOrder = ref.Decls
			s := "order:selection"
			if dup {
				s = "order:plugin-sequence"
			}
			return []c.Hit{{Signature: sig(s),
				Demanded: fmt.Sprintf("%s %s: remedies run in the sequence %s (as in the other order)", k.Reqs[i].Method, k.Reqs[i].URL, a),
				Observed: b, Case: kk}}
		}
	}
	return nil
}

func remedySeq(q Req) string {
	var x []string
	for _, e := range q.Obs.Rems {
		x = append(x, fmt.Sprintf("%v:%d", e.Endpoint, e.Name))
	}
	return strings.Join(x, ",")
}
