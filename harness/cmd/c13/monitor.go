// Property monitor for C13, written from the property text (its own URL
// parser and matcher; no call into the implementation's trie):
//
//   - a remedy / diagnosis selected for (method, URL) was declared for that method
//     on a pattern that matches the URL (literal = equal part of the same kind,
//     {param} = exactly one part of the same kind, trailing * = any rest);
//   - the reported normalised URL is a declared pattern that matches the request;
//   - the path parameters are the request's parts at the parameter positions;
//   - literal over parameter at the first step where the selected pattern
//     differs from another matching declared pattern; an exact (non-wildcard)
//     matching pattern that no literal sibling shadows wins over a wildcard;
//   - same outcome for every order of the same declarations.
//
// Nothing is demanded when nothing is selected (the property is an only-if).
package main

import (
	"fmt"
	"sort"
	"strings"

	c "verifharness/common"
)

type mpart struct {
	host bool
	v    string
}

const (
	kLit = iota
	kParam
	kWild
)

type mstep struct {
	host bool
	kind int
	v    string // literal text or parameter name
}

// host labels up to the first '/', path segments after it; leading / trailing
// '.' and '/' are not significant
func mSplit(u string) []mpart {
	u = strings.Trim(u, "./")
	host, path, hasPath := strings.Cut(u, "/")
	var out []mpart
	for _, l := range strings.Split(host, ".") {
		out = append(out, mpart{true, l})
	}
	if hasPath {
		for _, s := range strings.Split(path, "/") {
			out = append(out, mpart{false, s})
		}
	}
	return out
}

func isBrace(s string) bool { return strings.HasPrefix(s, "{") && strings.HasSuffix(s, "}") }

// a declared URL as a pattern; valid = no empty part, wildcard only last
func mPattern(u string) (p []mstep, valid bool) {
	parts := mSplit(u)
	valid = true
	for i, x := range parts {
		switch {
		case x.v == "":
			valid = false
		case x.v == "*":
			if i != len(parts)-1 {
				valid = false
			}
			p = append(p, mstep{x.host, kWild, ""})
			continue
		case isBrace(x.v):
			p = append(p, mstep{x.host, kParam, strings.Trim(x.v, "{}")})
			continue
		}
		p = append(p, mstep{x.host, kLit, x.v})
	}
	return p, valid
}

func mMatches(p []mstep, u []mpart) bool {
	for i, s := range p {
		if s.kind == kWild {
			return i == len(p)-1
		}
		if i >= len(u) || u[i].host != s.host {
			return false
		}
		if s.kind == kLit && u[i].v != s.v {
			return false
		}
	}
	return len(p) == len(u)
}

func sameStep(a, b mstep) bool {
	return a.host == b.host && a.kind == b.kind && (a.kind == kWild || a.v == b.v)
}

func samePattern(a, b []mstep) bool {
	if len(a) != len(b) {
		return false
	}
	for i := range a {
		if !sameStep(a[i], b[i]) {
			return false
		}
	}
	return true
}

// same child slot of the trie node: literals by value, one parameter slot, one wildcard slot
func sameSlot(a, b mstep) bool {
	return a.kind == b.kind && (a.kind != kLit || a.v == b.v)
}

// hostPathClash: two declared patterns reach the same slot with different
// kinds (host label vs path segment) — the known finding F-C13e.
func hostPathClash(pats [][]mstep) bool {
	for i := range pats {
		for j := i + 1; j < len(pats); j++ {
			for x := 0; x < len(pats[i]) && x < len(pats[j]); x++ {
				if !sameSlot(pats[i][x], pats[j][x]) {
					break
				}
				if pats[i][x].host != pats[j][x].host {
					return true
				}
			}
		}
	}
	return false
}

type declInfo struct {
	d     Decl
	pat   []mstep
	valid bool
}

func infos(k *Case) (ds []declInfo, clash bool) {
	var pats [][]mstep
	for _, d := range k.Decls {
		p, v := mPattern(d.URL)
		ds = append(ds, declInfo{d, p, v})
		if v {
			pats = append(pats, p)
		}
	}
	return ds, hostPathClash(pats)
}

// unshadowed: at every parameter step of q no declared pattern with the same
// earlier steps offers the literal request part instead
func unshadowed(q []mstep, u []mpart, ds []declInfo) bool {
	for i, s := range q {
		if s.kind != kParam {
			continue
		}
		for _, r := range ds {
			if !r.valid || len(r.pat) <= i || r.pat[i].kind != kLit {
				continue
			}
			if r.pat[i].v == u[i].v && r.pat[i].host == u[i].host && samePattern(r.pat[:i], q[:i]) {
				return false
			}
		}
	}
	return true
}

func monitorCase(k *Case) []c.Hit {
	if !k.Accepted {
		return nil
	}
	var hits []c.Hit
	ds, clash := infos(k)
	add := func(sig, dem, obs string, q Req) {
		if clash {
			sig = "hostpath-clash:insert"
		}
		kk := *k
		kk.Reqs = []Req{q}
		hits = append(hits, c.Hit{Signature: sig, Demanded: dem, Observed: obs, Case: kk})
	}
	remOwner := map[int]int{}
	dgOwner := map[int]int{}
	enabled := map[string]bool{}
	for i, d := range k.Decls {
		for _, r := range d.Rem {
			remOwner[r.Name] = i
			enabled[remName(r.Name)] = r.Enabled
		}
		for _, g := range d.Diag {
			dgOwner[g.Name] = i
			enabled[dgName(g.Name)] = g.Enabled
		}
	}
	for _, q := range k.Reqs {
		u := mSplit(q.URL)
		o := q.Obs
		check := func(what string, owner map[int]int, sels []Sel, nm func(int) string) {
			for _, s := range sels {
				if !s.Endpoint {
					continue
				}
				i, ok := owner[s.Name]
				if !ok {
					add("unsound:unknown-plugin", "selected plugins are declared ones", what+" "+nm(s.Name)+" selected", q)
					continue
				}
				d := ds[i]
				if d.d.Method != q.Method || !d.valid || !mMatches(d.pat, u) {
					add("unsound:policy-leak",
						fmt.Sprintf("%s %s (declared for %s %s) applies only to requests of that method matching that URL", what, nm(s.Name), d.d.Method, d.d.URL),
						fmt.Sprintf("selected for %s %s", q.Method, q.URL), q)
				}
				if !enabled[nm(s.Name)] {
					add("unsound:disabled-plugin", "only enabled plugins are selected", what+" "+nm(s.Name)+" selected", q)
				}
			}
		}
		check("remedy", remOwner, o.Rems, remName)
		check("diagnosis", dgOwner, o.Diags, dgName)
		if !o.CtxOK {
			add("scoped-context", "endpoint-scoped plugins carry the request method and the looked-up normalised URL / path parameters",
				"they differ", q)
		}
		if !o.HasValue {
			continue
		}
		// normalised URL = a declared pattern matching the request
		np, _ := mPattern(o.Norm)
		var sel *declInfo
		for i := range ds {
			if ds[i].valid && samePattern(ds[i].pat, np) {
				sel = &ds[i]
				break
			}
		}
		if sel == nil {
			add("normalised-url:not-declared", "the normalised URL is a declared pattern",
				fmt.Sprintf("%q for %s", o.Norm, q.URL), q)
			continue
		}
		if !mMatches(sel.pat, u) {
			add("normalised-url:not-matching", "the normalised URL matches the request",
				fmt.Sprintf("%q for %s", o.Norm, q.URL), q)
			continue
		}
		// path parameters = request parts at the parameter positions
		brace := false
		for _, x := range u {
			if isBrace(x.v) {
				brace = true
			}
		}
		if !brace {
			want := map[string]string{}
			for i, s := range sel.pat {
				if s.kind == kParam {
					want[s.v] = u[i].v
				}
			}
			got := map[string]string{}
			for _, p := range o.Params {
				got[p[0]] = p[1]
			}
			if !sameParams(want, got) {
				add("path-params", fmt.Sprintf("path parameters of %q for %s are %v", o.Norm, q.URL, want),
					fmt.Sprintf("%v", got), q)
			}
		}
		// specificity
		for i := range ds {
			r := &ds[i]
			if !r.valid || samePattern(r.pat, sel.pat) || !mMatches(r.pat, u) {
				continue
			}
			x := 0
			for x < len(r.pat) && x < len(sel.pat) && sameStep(r.pat[x], sel.pat[x]) {
				x++
			}
			if x < len(r.pat) && x < len(sel.pat) && sel.pat[x].kind == kParam && r.pat[x].kind == kLit {
				add("specificity:literal-over-parameter",
					fmt.Sprintf("%q (literal at step %d) wins over %q for %s", r.d.URL, x, sel.d.URL, q.URL),
					fmt.Sprintf("normalised URL %q", o.Norm), q)
			}
			selWild := sel.pat[len(sel.pat)-1].kind == kWild
			rWild := r.pat[len(r.pat)-1].kind == kWild
			if selWild && !rWild && unshadowed(r.pat, u, ds) {
				add("specificity:exact-over-wildcard",
					fmt.Sprintf("%q wins over the wildcard %q for %s", r.d.URL, sel.d.URL, q.URL),
					fmt.Sprintf("normalised URL %q", o.Norm), q)
			}
		}
	}
	return hits
}

func outcome(q Req) string {
	o := q.Obs
	names := func(s []Sel) string {
		var x []string
		for _, e := range s {
			x = append(x, fmt.Sprintf("%v:%d", e.Endpoint, e.Name))
		}
		sort.Strings(x)
		return strings.Join(x, ",")
	}
	return fmt.Sprintf("value=%v norm=%q params=%v remedies=[%s] diagnoses=[%s] diagnose=%v",
		o.HasValue, o.Norm, o.Params, names(o.Rems), names(o.Diags), o.Should)
}

// monitorOrder: the same declarations in another order give the same outcome
// (plugins selected are compared as sets: their relative order is not part of
// the property).
func monitorOrder(ref, k *Case) []c.Hit {
	_, clash := infos(k)
	sig := func(s string) string {
		if clash {
			return "hostpath-clash:insert"
		}
		return s
	}
	if ref.Accepted != k.Accepted {
		kk := *k
		kk.OtherOrder = ref.Decls
		return []c.Hit{{Signature: sig("order:acceptance"),
			Demanded: "the outcome does not depend on the order of the declarations",
			Observed: fmt.Sprintf("accepted=%v in this order (%s), accepted=%v in the other (%s)", k.Accepted, k.Err, ref.Accepted, ref.Err),
			Case:     kk}}
	}
	if !k.Accepted {
		return nil
	}
	for i := range k.Reqs {
		a, b := outcome(ref.Reqs[i]), outcome(k.Reqs[i])
		if a != b {
			kk := *k
			kk.Reqs = []Req{k.Reqs[i]}
			kk.OtherOrder = ref.Decls
			return []c.Hit{{Signature: sig("order:selection"),
				Demanded: fmt.Sprintf("%s %s: %s (as in the other order)", k.Reqs[i].Method, k.Reqs[i].URL, a),
				Observed: b, Case: kk}}
		}
	}
	return nil
}
