// Suite "large": big configurations.  Many literal siblings (49, 50, 51, 52,
// 120; thorough / search: random sizes too) below ONE parent node of the trie,
// at the path level (below a path segment, directly below the host, with a
// subtree below every sibling) and at the host level (labels below the root,
// labels below a label), declared for mixed methods (some siblings for both),
// alone or next to a path-parameter sibling and / or a wildcard sibling of the
// same parent.  Requests go to the first, 8th, 49th, 50th, 51st, 52nd and last
// sibling, to undeclared siblings (the one just past the last, and "zz"), and
// (shape deep) to the bare sibling and below its subtree.
//
// The property says nothing about the size of a configuration: every sibling
// keeps its own policy however many there are (the trie of the policy tree is
// built with InsertDeclaredURL on a tree without assumed path parameters: no
// convergence of siblings into "{_param_N}").
//
// Case files stay small: every URL and every declaration of the suite is
// defined once in the header of the shard and referred to by name.
package main

import (
	"fmt"
	"strings"

	c "verifharness/common"
)

type largeShape struct {
	name      string
	url       func(sib string) string
	paramURL  string
	wildURL   string
	extraReqs func(sib string) []string // further request URLs around a sibling
	hostLevel bool
}

func sibName(i int) string { return fmt.Sprintf("r%03d", i) }

const largeMaxSib = 130

var largeShapes = []largeShape{
	{name: "path2", url: func(s string) string { return "api.h.com/v1/" + s },
		paramURL: "api.h.com/v1/{p}", wildURL: "api.h.com/v1/*"},
	{name: "path1", url: func(s string) string { return "h.com/" + s },
		paramURL: "h.com/{p}", wildURL: "h.com/*"},
	{name: "deep", url: func(s string) string { return "h.com/v1/" + s + "/items" },
		paramURL: "h.com/v1/{p}/items", wildURL: "h.com/v1/*",
		extraReqs: func(s string) []string { return []string{"h.com/v1/" + s, "h.com/v1/" + s + "/items/x"} }},
	{name: "hostroot", url: func(s string) string { return s + ".h.com" },
		paramURL: "{p}.h.com", wildURL: "*", hostLevel: true},
	{name: "hostsub", url: func(s string) string { return "h." + s + "/v" },
		paramURL: "h.{p}/v", wildURL: "h.*", hostLevel: true},
}

// remedy / diagnosis name tokens: sibling i declared for GET = i+1, for POST =
// 1001+i; the parameter sibling 5001 (GET) / 5003 (POST), the wildcard 5002
const (
	tokParam  = 5001
	tokWild   = 5002
	tokParamP = 5003
)

// the remedy types differ between literal siblings (7), the parameter sibling
// (1) and the wildcard sibling (2), so that checkForDuplicates accepts every order
func largeDecl(tok int, m, u string, typ int) Decl {
	return Decl{Method: m, URL: u, Rem: []Rem{{Name: tok, Type: typ, Enabled: true}},
		Diag: []Dg{{Name: tok, Enabled: true}}}
}

// the methods sibling i is declared for
func sibMethods(i int) []string {
	switch {
	case i%7 == 3:
		return []string{"GET", "POST"}
	case i%3 == 2:
		return []string{"POST"}
	}
	return []string{"GET"}
}

func sibDecls(sh largeShape, i int) []Decl {
	var out []Decl
	for _, m := range sibMethods(i) {
		tok := i + 1
		if m == "POST" {
			tok = 1001 + i
		}
		out = append(out, largeDecl(tok, m, sh.url(sibName(i)), 7))
	}
	return out
}

// extras: 0 none, 1 parameter sibling, 2 wildcard sibling, 3 both
func extraDecls(sh largeShape, extras int) []Decl {
	var out []Decl
	if extras&1 != 0 {
		out = append(out, largeDecl(tokParam, "GET", sh.paramURL, 1), largeDecl(tokParamP, "POST", sh.paramURL, 1))
	}
	if extras&2 != 0 {
		out = append(out, largeDecl(tokWild, "GET", sh.wildURL, 2))
	}
	return out
}

func largeReqURLs(sh largeShape, n int) []string {
	var out []string
	seen := map[string]bool{}
	add := func(u string) {
		if !seen[u] {
			seen[u] = true
			out = append(out, u)
		}
	}
	for _, i := range []int{0, 7, 48, 49, 50, 51, n - 1, n} { // n = the first undeclared one
		add(sh.url(sibName(i)))
	}
	add(sh.url("zz"))
	if sh.extraReqs != nil {
		for _, i := range []int{0, 50, n} {
			for _, u := range sh.extraReqs(sibName(i)) {
				add(u)
			}
		}
	}
	return out
}

// declTab: rendered Coq term of a declaration of this suite -> name of the
// constant the header defines for it
var declTab = map[string]string{}

func coqDecl(d Decl) string {
	t := c.Tuple(bytes(d.Method), bytes(d.URL), c.MapList(d.Rem, coqRem), c.MapList(d.Diag, coqDg))
	if n, ok := declTab[t]; ok {
		return n
	}
	return t
}

// largeHeader interns every URL of the suite and defines its declarations;
// call it after the header of the other suites has been rendered (their
// shards do not need these definitions).
func largeHeader(base string) string {
	from := len(internDefs)
	intern("zz", "v", "v1", "items", "api", "com")
	var defs []string
	for si, sh := range largeShapes {
		intern(sh.paramURL, sh.wildURL)
		for i := 0; i <= largeMaxSib; i++ {
			intern(sibName(i), sh.url(sibName(i)))
			if sh.extraReqs != nil {
				intern(sh.extraReqs(sibName(i))...)
			}
		}
		intern(sh.url("zz"))
		if sh.extraReqs != nil {
			intern(sh.extraReqs("zz")...)
		}
		n := 0
		def := func(d Decl) {
			name := fmt.Sprintf("D%d_%d", si, n)
			n++
			t := coqDecl(d)
			declTab[t] = name
			defs = append(defs, "Definition "+name+" : decl_t := "+t+".")
		}
		for i := 0; i < largeMaxSib; i++ {
			for _, d := range sibDecls(sh, i) {
				def(d)
			}
		}
		for _, d := range extraDecls(sh, 3) {
			def(d)
		}
	}
	return base + "\n" + strings.Join(internDefs[from:], "\n") + "\n" + strings.Join(defs, "\n")
}

func shuffled(o *c.Out, ds []Decl) []Decl {
	p := append([]Decl{}, ds...)
	for i := len(p) - 1; i > 0; i-- {
		j := o.Rng.Intn(i + 1)
		p[i], p[j] = p[j], p[i]
	}
	return p
}

func reversed(ds []Decl) []Decl {
	p := make([]Decl, len(ds))
	for i, d := range ds {
		p[len(ds)-1-i] = d
	}
	return p
}

func largeGroup(o *c.Out, sh largeShape, n, extras, nShuffles int) {
	var ds []Decl
	for i := 0; i < n; i++ {
		ds = append(ds, sibDecls(sh, i)...)
	}
	ds = append(ds, extraDecls(sh, extras)...) // identity: extras last; reversed: extras first
	ords := [][]Decl{ds, reversed(ds)}
	for t := 0; t < nShuffles; t++ {
		ords = append(ords, shuffled(o, ds))
	}
	o.Count(fmt.Sprintf("large:%s:siblings=%d:extras=%d", sh.name, n, extras))
	runGroupOrders(o, "large", ords, nil, nil, reqsOf(largeReqURLs(sh, n), methods))
}

func largeSuite(o *c.Out) {
	sizes := []int{49, 50, 51, 52, 120}
	for si, sh := range largeShapes {
		for ni, n := range sizes {
			switch o.Tier {
			case "quick":
				// no extras, and one of parameter / wildcard / both in turn
				largeGroup(o, sh, n, 0, 1)
				largeGroup(o, sh, n, 1+(si+ni)%3, 1)
			default:
				for extras := 0; extras < 4; extras++ {
					largeGroup(o, sh, n, extras, o.Scale(1, 3, 6))
				}
			}
		}
		for t := o.Scale(0, 4, 12); t > 0; t-- {
			n := o.Rng.Range(40, 64)
			if t%4 == 0 {
				n = o.Rng.Range(95, largeMaxSib-1)
			}
			largeGroup(o, sh, n, o.Rng.Intn(4), 2)
		}
	}
}
