// Suite "embedded": request URLs (and a few declared ones) that EMBED an
// absolute URL, or just a "://", somewhere after the host - web-archive /
// proxy / redirect style: "archive.org/web/http://bank.com/admin",
// "h.com/a/x://y/z", "://" at the start of a path segment - together with
// declarations for the embedded host / path AND for the outer host, in every
// declaration order.
//
// The property: a policy is applied only to requests matching its declared
// endpoint.  A request "archive.org/web/http://bank.com/admin" is a request to
// the host archive.org whose path has the segments web, "http:", "", bank.com,
// admin: it matches "archive.org/*", not "bank.com/admin".  The reported
// normalised URL / path parameters belong to the matched declaration.
//
// What the code does with a scheme today (splitURL / trimURL): nothing - only
// leading and trailing '.' and '/' are trimmed, the host is everything up to
// the first '/'.  "http://bank.com/admin" is host "http:" + segments "",
// "bank.com", "admin" (as a declaration: refused, empty part).  The model
// (Lib/UrlTree split_url) says exactly that; the suite ties it down.
package main

import (
	"strings"

	c "verifharness/common"
)

type embFamily struct {
	outerDecls []string // patterns of the outer host
	innerDecls []string // patterns of the embedded host / path
	reqs       []string
}

var embFamilies = []embFamily{
	{
		outerDecls: []string{"archive.org/*", "archive.org/web/*", "archive.org/web/{s}/{e}/{h}/{a}", "archive.org"},
		innerDecls: []string{"bank.com/admin", "bank.com/{p}", "bank.com/*", "bank.*", "*"},
		reqs: []string{
			"archive.org/web/http://bank.com/admin",       // the seed's demo
			"archive.org/web/2020/https://bank.com/admin", // deeper
			"archive.org/web/://bank.com/admin",           // "://" at the start of a segment
			"archive.org/://bank.com/admin",               // directly below the host
			"archive.org/web/x://bank.com/admin",
			"archive.org/web/http://bank.com/admin/",                      // trailing delimiter
			"archive.org/web/http://bank.com",                             // embedded bare host
			"archive.org/web/http://archive.org/web",                      // embeds its own host
			"archive.org/web/http:/bank.com/admin",                        // one slash: no "://"
			"archive.org/web/http:bank.com/admin",                         // no slash
			"archive.org/web/a://b://bank.com/admin",                      // two separators
			"archive.org/web/http://bank.com/admin?u=x://archive.org/web", // inner first, outer second
			"archive.org.://bank.com/admin",                               // "://" right after the host labels
			"bank.com/admin", "bank.com", "archive.org/web", "archive.org", "archive.org/web/a/b/c/d",
		},
	},
	{
		outerDecls: []string{"h.com/a/*", "h.com/{p}/*", "h.com/a/{s}/{e}/y/z", "h.com/*"},
		innerDecls: []string{"y/z", "y/{q}", "y.com/z", "y/*", "y.*"},
		reqs: []string{
			"h.com/a/x://y/z", "h.com/a/://y/z", "h.com/://y/z", "h.com/a/b/x://y/z", "h.com/a/x://y.com/z",
			"h.com/a/x://y", "h.com/a/x://y/z/w", "h.com/a/x:/y/z", "h.com/a/x:y/z", "h.com/a/x://h.com/a/b",
			"y/z", "y.com/z", "y", "h.com/a", "h.com/a/b", "h.com",
		},
	},
}

// declared URLs that contain a scheme / "://" themselves, next to plain ones
var embDeclared = []string{
	"http://bank.com/admin",                 // leading scheme: refused today (empty part)
	"https://bank.com/*",                    //
	"archive.org/web/http://bank.com/admin", // embedded in a declaration: refused (empty part)
	"h.com/x://",                            // trailing "//" is trimmed: the valid pattern "h.com/x:"
	"h.com/x:/y",                            // a colon, no "://": valid
	"h.com/:/y",
	"bank.com/admin",
	"archive.org/*",
}
var embDeclaredReqs = []string{
	"bank.com/admin", "http://bank.com/admin", "https://bank.com/admin/x", "archive.org/web/http://bank.com/admin",
	"h.com/x:", "h.com/x://", "h.com/x:/y", "h.com/x://y", "h.com/:/y", "h.com/://y", "h.com/x", "http:", "http:/bank.com/admin",
}

func internEmbedded() {
	for _, f := range embFamilies {
		intern(f.outerDecls...)
		intern(f.innerDecls...)
		intern(f.reqs...)
	}
	intern(embDeclared...)
	intern(embDeclaredReqs...)
	intern("e", "a", "http:", "https:", "x:", ":", "bank.com", "admin", "web", "2020")
}

func embeddedSuite(o *c.Out) {
	for _, f := range embFamilies {
		reqs := reqsOf(f.reqs, methods)
		pats := append(append([]string{}, f.outerDecls...), f.innerDecls...)
		// every multiset of <= 2 (pattern, method), every order
		multisets(o, "embedded", pats, methods, 2, reqs, false)
		// one outer wildcard + one outer pattern + one inner pattern, GET, all 6 orders
		for _, in := range f.innerDecls {
			for _, out2 := range f.outerDecls[1:] {
				ds := []Decl{stdDecl(1, "GET", f.outerDecls[0], 1), stdDecl(2, "GET", out2, 2), stdDecl(3, "GET", in, 3)}
				runGroup(o, "embedded", ds, nil, nil, reqs)
			}
		}
	}
	multisets(o, "embedded", embDeclared, []string{"GET"}, 2, reqsOf(embDeclaredReqs, methods), false)
}

// embedRequest builds a request URL that is a request to the endpoint of
// `outer` (wildcard / parameters made concrete) whose path continues with
// "<scheme>://" and a concrete spelling of `inner`.
func embedRequest(r *c.Rng, outer, inner string) string {
	conc := strings.NewReplacer("{p}", "7", "{q}", "8", "/*", "/w", "*", "w")
	out := strings.Trim(conc.Replace(outer), "./")
	if out == "" {
		out = "h"
	}
	sch := c.Pick(r, []string{"http", "https", "x", ""})
	return out + "/" + sch + "://" + strings.Trim(conc.Replace(inner), "./")
}
