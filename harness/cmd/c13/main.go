// C13 harness: drives the real config.BuildEndpointPolicyTree, the real
// EndpointPolicyTree.Lookup and the dispatcher's selection (runner.getRemedies /
// getDiagnoses / shouldDiagnose through the verif shims of runner/verif_c13.go).
//
// Observable per request = (Match, Value != nil, NormalizedURL, PathParams,
// selected remedy names with scope, selected diagnosis names with scope,
// shouldDiagnose).  Every declaration multiset is executed in all its orders.
package main

import (
	"fmt"
	"sort"
	"strings"

	"lunar/engine/config"
	"lunar/engine/runner"
	"lunar/engine/utils"
	sharedConfig "lunar/shared-model/config"

	"github.com/rs/zerolog"

	c "verifharness/common"
)

type Rem struct {
	Name    int  `json:"name"`
	Type    int  `json:"type"`
	Enabled bool `json:"enabled"`
}
type Dg struct {
	Name    int  `json:"name"`
	Enabled bool `json:"enabled"`
}
type Decl struct {
	Method string `json:"method"`
	URL    string `json:"url"`
	Rem    []Rem  `json:"remedies"`
	Diag   []Dg   `json:"diagnoses"`
}
type Sel struct {
	Endpoint bool `json:"endpoint_scope"`
	Name     int  `json:"name"`
}
type Obs struct {
	Match    bool        `json:"match"`
	HasValue bool        `json:"has_value"`
	Norm     string      `json:"normalized_url"`
	Params   [][2]string `json:"path_params"`
	Rems     []Sel       `json:"remedies"`
	Diags    []Sel       `json:"diagnoses"`
	Should   bool        `json:"should_diagnose"`
	CtxOK    bool        `json:"scoped_context_ok"`
}
type Req struct {
	Method string `json:"method"`
	URL    string `json:"url"`
	Obs    Obs    `json:"observed"`
}
type Case struct {
	Decls    []Decl `json:"declarations"`
	GRem     []Rem  `json:"global_remedies"`
	GDiag    []Dg   `json:"global_diagnoses"`
	Accepted bool   `json:"accepted"`
	Err      string `json:"build_error,omitempty"`
	Reqs     []Req  `json:"requests"`
	// for order hits: the other order of the same declarations it was compared with
	OtherOrder []Decl `json:"other_order,omitempty"`
}

// ---------------------------------------------------------------- execution

func remName(i int) string { return fmt.Sprintf("r%d", i) }
func dgName(i int) string  { return fmt.Sprintf("g%d", i) }

func nameTok(s string) int {
	var n int
	fmt.Sscanf(s[1:], "%d", &n)
	return n
}

func mkRemedy(r Rem) sharedConfig.Remedy {
	x := sharedConfig.Remedy{Enabled: r.Enabled, Name: remName(r.Name)}
	switch r.Type { // sharedConfig.RemedyType values; 0 = undefined
	case 1:
		x.Config.Caching = &sharedConfig.CachingConfig{}
	case 2:
		x.Config.ResponseBasedThrottling = &sharedConfig.ResponseBasedThrottlingConfig{}
	case 3:
		x.Config.StrategyBasedThrottling = &sharedConfig.StrategyBasedThrottlingConfig{}
	case 4:
		x.Config.ConcurrencyBasedThrottling = &sharedConfig.ConcurrencyBasedThrottlingConfig{}
	case 5:
		x.Config.StrategyBasedQueue = &sharedConfig.StrategyBasedQueueConfig{}
	case 6:
		x.Config.AccountOrchestration = &sharedConfig.AccountOrchestrationConfig{}
	case 7:
		x.Config.FixedResponse = &sharedConfig.FixedResponseConfig{}
	case 8:
		x.Config.Retry = &sharedConfig.RetryConfig{}
	case 9:
		x.Config.Authentication = &sharedConfig.AuthConfig{}
	}
	return x
}

func mkDiag(d Dg) sharedConfig.Diagnosis {
	return sharedConfig.Diagnosis{Enabled: d.Enabled, Name: dgName(d.Name),
		Config: sharedConfig.DiagnosisConfig{Void: &sharedConfig.VoidConfig{}}, Export: "file"}
}

func sortedParams(m map[string]string) [][2]string {
	out := [][2]string{}
	for k, v := range m {
		out = append(out, [2]string{k, v})
	}
	sort.Slice(out, func(i, j int) bool { return out[i][0] < out[j][0] })
	return out
}

func sameParams(a, b map[string]string) bool {
	if len(a) != len(b) {
		return false
	}
	for k, v := range a {
		if w, ok := b[k]; !ok || w != v {
			return false
		}
	}
	return true
}

// exec runs the case on the implementation and fills Accepted / Obs.
func exec(k *Case) {
	eps := []sharedConfig.EndpointConfig{}
	for _, d := range k.Decls {
		e := sharedConfig.EndpointConfig{Method: d.Method, URL: d.URL,
			Remedies: []sharedConfig.Remedy{}, Diagnosis: []sharedConfig.Diagnosis{}}
		for _, r := range d.Rem {
			e.Remedies = append(e.Remedies, mkRemedy(r))
		}
		for _, g := range d.Diag {
			e.Diagnosis = append(e.Diagnosis, mkDiag(g))
		}
		eps = append(eps, e)
	}
	global := sharedConfig.Global{}
	for _, r := range k.GRem {
		global.Remedies = append(global.Remedies, mkRemedy(r))
	}
	for _, g := range k.GDiag {
		global.Diagnosis = append(global.Diagnosis, mkDiag(g))
	}
	tree, err := config.BuildEndpointPolicyTree(eps)
	k.Accepted = err == nil
	k.Err = ""
	if err != nil {
		k.Err = err.Error()
		for i := range k.Reqs {
			k.Reqs[i].Obs = Obs{}
		}
		return
	}
	for i := range k.Reqs {
		q := &k.Reqs[i]
		lr := tree.Lookup(q.URL)
		o := Obs{Match: lr.Match, HasValue: lr.Value != nil, Norm: lr.NormalizedURL,
			Params: sortedParams(lr.PathParams), Rems: []Sel{}, Diags: []Sel{}, CtxOK: true}
		for _, sr := range runner.VerifC13GetRemedies(q.Method, q.URL, tree, &global) {
			ep := sr.Scope == utils.ScopeEndpoint
			o.Rems = append(o.Rems, Sel{ep, nameTok(sr.Remedy.Name)})
			if ep && (sr.Method != q.Method || sr.NormalizedURL != lr.NormalizedURL ||
				!sameParams(sr.PathParams, lr.PathParams)) {
				o.CtxOK = false
			}
		}
		for _, sd := range runner.VerifC13GetDiagnoses(q.Method, q.URL, tree, global.Diagnosis) {
			ep := sd.Scope == utils.ScopeEndpoint
			o.Diags = append(o.Diags, Sel{ep, nameTok(sd.Diagnosis.Name)})
			if ep && (sd.Method != q.Method || sd.NormalizedURL != lr.NormalizedURL) {
				o.CtxOK = false
			}
		}
		o.Should = runner.VerifC13ShouldDiagnose(q.Method, q.URL, tree, &global)
		q.Obs = o
	}
}

// ---------------------------------------------------------------- Coq terms

func coqRem(r Rem) string { return c.Tuple(c.Z(int64(r.Name)), c.Z(int64(r.Type)), c.B(r.Enabled)) }
func coqDg(g Dg) string   { return c.Tuple(c.Z(int64(g.Name)), c.B(g.Enabled)) }
func coqSel(s Sel) string { return c.Tuple(c.B(s.Endpoint), c.Z(int64(s.Name))) }

// strings that occur in many cases are defined once per shard (in the suite
// header) and referred to by name; others are written as byte lists
var internTab = map[string]string{}
var internDefs []string

func intern(ss ...string) {
	for _, s := range ss {
		if _, ok := internTab[s]; !ok {
			n := fmt.Sprintf("s%d", len(internTab))
			internTab[s] = n
			internDefs = append(internDefs, "Definition "+n+" : list Z := "+c.Bytes(s)+"%Z.",
				"Definition a"+n[1:]+" : request := ("+n+", nomatch, [nosel GETs; nosel POSTs]).",
				"Definition b"+n[1:]+" : request := ("+n+", nomatch, [nosel GETs]).")
		}
	}
}

func bytes(s string) string {
	if n, ok := internTab[s]; ok {
		return n
	}
	return c.Bytes(s)
}

func coq(k *Case) string {
	var reqs []string
	for i := 0; i < len(k.Reqs); {
		j := i
		var sels []string
		for j < len(k.Reqs) && k.Reqs[j].URL == k.Reqs[i].URL {
			o := k.Reqs[j].Obs
			if len(o.Rems) == 0 && len(o.Diags) == 0 && !o.Should {
				sels = append(sels, "(nosel "+bytes(k.Reqs[j].Method)+")")
			} else {
				sels = append(sels, c.Tuple(bytes(k.Reqs[j].Method), c.MapList(o.Rems, coqSel), c.MapList(o.Diags, coqSel), c.B(o.Should)))
			}
			j++
		}
		o := k.Reqs[i].Obs
		if n, ok := internTab[k.Reqs[i].URL]; ok && !(o.Match || o.HasValue || o.Norm != "" || len(o.Params) > 0) {
			// nothing matched, nothing selected: one predefined constant per URL
			ms := ""
			for x := i; x < j; x++ {
				q := k.Reqs[x]
				if len(q.Obs.Rems) == 0 && len(q.Obs.Diags) == 0 && !q.Obs.Should {
					ms += q.Method + ","
				} else {
					ms += "?,"
				}
			}
			if ms == "GET,POST," {
				reqs = append(reqs, "a"+n[1:])
				i = j
				continue
			}
			if ms == "GET," {
				reqs = append(reqs, "b"+n[1:])
				i = j
				continue
			}
		}
		lo := "nomatch"
		if o.Match || o.HasValue || o.Norm != "" || len(o.Params) > 0 {
			lo = c.Tuple(c.B(o.Match), c.B(o.HasValue), bytes(o.Norm),
				c.MapList(o.Params, func(p [2]string) string { return c.Tuple(bytes(p[0]), bytes(p[1])) }))
		}
		reqs = append(reqs, c.Tuple(bytes(k.Reqs[i].URL), lo, c.List(sels)))
		i = j
	}
	return c.Tuple(
		c.MapList(k.Decls, coqDecl),
		c.Tuple(c.MapList(k.GRem, coqRem), c.MapList(k.GDiag, coqDg)),
		c.B(k.Accepted),
		c.List(reqs),
	)
}

// ---------------------------------------------------------------- running a group

// distinct permutations of the declarations (all when n <= 4, else a sample)
func orders(o *c.Out, ds []Decl) [][]Decl {
	n := len(ds)
	var out [][]Decl
	seen := map[string]bool{}
	add := func(p []int) {
		l := make([]Decl, n)
		key := ""
		for i, j := range p {
			l[i] = ds[j]
			key += fmt.Sprintf("%s %s|", ds[j].Method, declKey(ds[j]))
		}
		if !seen[key] {
			seen[key] = true
			out = append(out, l)
		}
	}
	if n <= 4 {
		var rec func(p []int, used []bool)
		rec = func(p []int, used []bool) {
			if len(p) == n {
				add(p)
				return
			}
			for i := 0; i < n; i++ {
				if !used[i] {
					used[i] = true
					rec(append(p, i), used)
					used[i] = false
				}
			}
		}
		rec(nil, make([]bool, n))
		return out
	}
	id := make([]int, n)
	rv := make([]int, n)
	for i := range id {
		id[i], rv[i] = i, n-1-i
	}
	add(id)
	add(rv)
	for t := 0; t < 10; t++ {
		p := append([]int{}, id...)
		for i := n - 1; i > 0; i-- {
			j := o.Rng.Intn(i + 1)
			p[i], p[j] = p[j], p[i]
		}
		add(p)
	}
	return out
}

func declKey(d Decl) string {
	s := d.URL
	for _, r := range d.Rem {
		s += fmt.Sprintf(" r%d", r.Name)
	}
	for _, g := range d.Diag {
		s += fmt.Sprintf(" g%d", g.Name)
	}
	return s
}

// runGroup executes one declaration multiset in all its orders, records each
// order as a correspondence case, runs the per-case monitor and the
// order-independence comparison.
func runGroup(o *c.Out, suite string, ds []Decl, grem []Rem, gdiag []Dg, reqs []Req) {
	runGroupOrders(o, suite, orders(o, ds), grem, gdiag, reqs)
}

// runGroupOrders: the same for the given orders of one declaration multiset
func runGroupOrders(o *c.Out, suite string, ords [][]Decl, grem []Rem, gdiag []Dg, reqs []Req) {
	var ref *Case
	var refIdx int
	for _, ord := range ords {
		ds := ord
		k := Case{Decls: ord, GRem: grem, GDiag: gdiag, Reqs: append([]Req{}, reqs...)}
		exec(&k)
		if !k.Accepted {
			k.Reqs = nil
		}
		nontrivial := false
		for _, q := range k.Reqs {
			for _, s := range q.Obs.Rems {
				if s.Endpoint {
					nontrivial = true
				}
			}
		}
		o.Count(fmt.Sprintf("%s:decls=%d", suite, len(ds)))
		if k.Accepted {
			o.Count(suite + ":accepted")
		} else {
			o.Count(suite + ":rejected")
		}
		idx := o.Case(suite, coq(&k), k, nontrivial)
		o.MonitorChecked(1)
		for _, h := range monitorCase(&k) {
			h.Suite, h.Index = suite, idx
			o.Hit(h)
		}
		if ref == nil {
			kk := k
			ref, refIdx = &kk, idx
			continue
		}
		_ = refIdx
		o.MonitorChecked(1)
		for _, h := range monitorOrder(ref, &k) {
			h.Suite, h.Index = suite, idx
			o.Hit(h)
		}
	}
}

// ---------------------------------------------------------------- generators

var methods = []string{"GET", "POST"}

// every sequence of 1..depth segments over segs, prefixed by host "h"
func pathPatterns(segs []string, depth int, validOnly bool) []string {
	out := []string{"h"}
	var rec func(prefix string, d int)
	rec = func(prefix string, d int) {
		if d == 0 {
			return
		}
		for _, s := range segs {
			u := prefix + "/" + s
			out = append(out, u)
			if validOnly && s == "*" {
				continue
			}
			rec(u, d-1)
		}
	}
	rec("h", depth)
	return out
}

// every sequence of 1..n labels over segs with every host/path split
func kindPatterns(segs []string, n int, validOnly bool) []string {
	var out []string
	var rec func(parts []string)
	rec = func(parts []string) {
		if len(parts) > 0 {
			for h := 1; h <= len(parts); h++ {
				u := strings.Join(parts[:h], ".")
				if h < len(parts) {
					u += "/" + strings.Join(parts[h:], "/")
				}
				out = append(out, u)
			}
		}
		if len(parts) == n {
			return
		}
		if validOnly && len(parts) > 0 && parts[len(parts)-1] == "*" {
			return
		}
		for _, s := range segs {
			rec(append(append([]string{}, parts...), s))
		}
	}
	rec(nil)
	return out
}

func reqsOf(urls []string, ms []string) []Req {
	var out []Req
	for _, u := range urls {
		for _, m := range ms {
			out = append(out, Req{Method: m, URL: u})
		}
	}
	return out
}

// declaration #i of a group: one enabled remedy r_i of its own type (so that
// checkForDuplicates never fires) and one enabled diagnosis g_i
func stdDecl(i int, m, u string, typ int) Decl {
	return Decl{Method: m, URL: u, Rem: []Rem{{Name: i, Type: typ, Enabled: true}},
		Diag: []Dg{{Name: i, Enabled: true}}}
}

// all multisets of size 1..n of (pattern, method)
func multisets(o *c.Out, suite string, pats []string, ms []string, n int, reqs []Req, sameType bool) {
	multisetsSplit(o, suite, 1, pats, ms, n, reqs, sameType)
}

// split > 1: the groups go to the suites <suite>_0 .. <suite>_<split-1> (smaller shards)
func multisetsSplit(o *c.Out, suite string, split int, pats []string, ms []string, n int, reqs []Req, sameType bool) {
	type pm struct{ u, m string }
	var all []pm
	for _, u := range pats {
		for _, m := range ms {
			all = append(all, pm{u, m})
		}
	}
	first := 0
	var rec func(start int, cur []pm)
	rec = func(start int, cur []pm) {
		if len(cur) > 0 {
			su := suite
			if split > 1 {
				su = fmt.Sprintf("%s_%d", suite, first%split)
			}
			ds := make([]Decl, len(cur))
			for i, x := range cur {
				t := i + 1
				if sameType {
					t = 1
				}
				ds[i] = stdDecl(i+1, x.m, x.u, t)
			}
			runGroup(o, su, ds, nil, nil, reqs)
		}
		if len(cur) == n {
			return
		}
		for i := start; i < len(all); i++ {
			if len(cur) == 0 {
				first = i
			}
			rec(i, append(append([]pm{}, cur...), all[i]))
		}
	}
	rec(0, nil)
}

func main() {
	zerolog.SetGlobalLevel(zerolog.Disabled)
	o := c.NewOut("C13")
	o.ShardSize = 60

	segs := []string{"a", "b", "{p}", "*"}
	reqURLs := pathPatterns([]string{"a", "b", "c"}, 3, false)
	reqKindURLs := kindPatterns([]string{"a", "b"}, 3, false)
	pool := pathPatterns([]string{"a", "b", "{p}", "{q}", "*"}, 3, true) // valid spellings
	odd := []string{"h/a/", "/h/a", "h//a", "", "h/a.b", "h.a/b", "x.h/a", "{s}.h/a", "*.h/a", "*", "h/{{p}}", "h/{}", "h/{p}/{p}",
		"h/a/b/c", "h/a/b/*", "h/{p}/b/{q}", "h/*/a/*", "h/*/*", "h/*/a", "h/*/{p}/*", "h.*", "h/{p", "h/a}", "./h/a/.", "h/a/{p}/c"}
	quirk := []string{"h/*", "h/*/*", "h/*/a/*", "h/*/a", "h/a/*", "h/a", "h/{p}/*"} // wildcard in the middle
	reqPool := append(pathPatterns([]string{"a", "b", "c", "{z}"}, 3, false),
		"h/a/", "/h/a", "h//a", "", "h/a.b", "h.a/b", "x.h/a", "y.x.h/a/b", "h/a/b/c", "h/a/b/c/d", "h.a", "g/a", "h/*",
		"h/a/*", "./h/a/.", "h/c/b/a")
	mpool := []string{"GET", "POST", "get", "PUT"}
	intern(mpool...)
	intern("a", "b", "c", "p", "q", "s", "z", "7", "8", "{z}", "x", "y", "h")
	intern(pathPatterns(segs, 3, false)...)
	intern(reqURLs...)
	intern(kindPatterns(segs, 3, false)...)
	intern(reqKindURLs...)
	intern(pool...)
	intern(odd...)
	intern(quirk...)
	intern(reqPool...)
	// wildcards and the kind (host label / path segment) of what they stand for
	hostWild := []string{"a.com/*", "a.*", "a.com", "a.com/{p}/*", "a.com.*"}
	hostWildReqs := []string{"a.com.evil.org/x", "a.com.evil.org", "a.com/x", "a.com/x/y", "a.com", "a/x", "a", "a.b/x", "a.b"}
	intern(hostWild...)
	intern(hostWildReqs...)
	internEmbedded()
	header := "From Verif Require Import C13.Model.\nImport ListNotations.\nOpen Scope Z_scope.\n" +
		"Definition nomatch : lookup_obs := (false, false, [], []).\n" +
		"Definition nosel (m : list Z) : sel_obs := (m, [], [], false).\n" +
		"Definition GETs : list Z := " + c.Bytes("GET") + "%Z.\nDefinition POSTs : list Z := " + c.Bytes("POST") + "%Z.\n" +
		strings.Join(internDefs, "\n")
	// the suite of big configurations has its own, longer header (its URLs and
	// declarations are defined once per shard); a replay may be of any suite
	headerLarge := largeHeader(header)
	if o.Replay != "" {
		header = headerLarge
	}
	o.DeclareSuite("paths", header, "case", "run_case")
	o.DeclareSuite("large", headerLarge, "case", "run_case")
	o.DeclareSuite("kinds", header, "case", "run_case")
	o.DeclareSuite("random", header, "case", "run_case")
	o.DeclareSuite("embedded", header, "case", "run_case")
	if o.Thorough() {
		for i := 0; i < 4; i++ {
			o.DeclareSuite(fmt.Sprintf("paths3_%d", i), header, "case", "run_case")
			o.DeclareSuite(fmt.Sprintf("random_%d", i), header, "case", "run_case")
		}
		o.DeclareSuite("pathsd3", header, "case", "run_case")
	}
	o.Rule("paths: every multiset of <= 2 (thorough: 3) declarations (pattern h/<= 2 segments over {a,b,{p},*}, " +
		"thorough also <= 3 segments for <= 2 declarations) x {GET,POST}, each in every order, against every request URL " +
		"h/<= 3 segments over {a,b,c} x {GET,POST}, plus [GET w, GET p, POST w] for a wildcard URL w and the parameter pattern p at its position in all 6 orders; kinds: every multiset of <= 2 GET declarations over every host-label/path-segment split of " +
		"<= 2 labels, and over 5 host/path wildcard patterns of a two-label host against requests to that host, to a host extending it and to its first label; also every pair over 7 patterns with a wildcard in the middle; random: 1..5 declarations from a pool of valid patterns (1 in 6 malformed / unusually spelled), shared parameter names, " +
		"several remedies per declaration, equal remedy types, disabled plugins, globals, in every order (<= 4) or 12 " +
		"sampled orders; large: 49, 50, 51, 52, 120 (thorough: also random 40..64, 95..129) literal siblings below one parent (below a path segment, " +
		"directly below the host, with a subtree each, host labels below the root, host labels below a label), mixed methods, alone or next to a " +
		"parameter and / or wildcard sibling, in declaration order, reversed and shuffled, requests for the first, 8th, 49th..52nd, last and undeclared siblings; embedded: request URLs that embed an absolute URL or a \"://\" after the host " +
		"(archive.org/web/http://bank.com/admin, h.com/a/x://y/z, \"://\" at the start of a segment, right below the host, twice, one slash only) against every multiset of <= 2 " +
		"declarations (x {GET,POST}) for the outer host (wildcard / parameter / exact) and for the embedded host / path (exact / parameter / wildcard / host wildcard), in every order, triples in all 6 orders; " +
		"declared URLs with a leading scheme / an embedded or trailing \"://\" next to plain ones; random also asks for <declared outer URL>/<scheme>://<declared inner URL>; distinct = distinct (declarations in order, requests, observations); non-trivial = at " +
		"least one endpoint-scoped remedy was selected for some request")
	var k Case
	if _, ok := o.ReplayCase(&k); ok {
		reqs := make([]Req, len(k.Reqs))
		for i, q := range k.Reqs {
			reqs[i] = Req{Method: q.Method, URL: q.URL}
		}
		if len(reqs) == 0 {
			reqs = reqsOf(reqURLs, methods)
		}
		runGroup(o, "paths", k.Decls, k.GRem, k.GDiag, reqs)
		o.Finish()
		return
	}

	reqPaths := reqsOf(reqURLs, methods)
	// paths, exhaustive small scope (invalid patterns included for single declarations)
	multisets(o, "paths", pathPatterns(segs, 2, false), methods, 1, reqPaths, false)
	multisets(o, "paths", pathPatterns(segs, 2, true), methods, 2, reqPaths, false)
	if o.Thorough() {
		multisets(o, "pathsd3", pathPatterns(segs, 3, true), methods, 2, reqPaths, false)
		multisetsSplit(o, "paths3", 4, pathPatterns(segs, 2, true), methods, 3, reqsOf(reqURLs, []string{"GET"}), false)
	}
	// the same declarations with one remedy type everywhere: checkForDuplicates
	multisets(o, "paths", pathPatterns(segs, o.Scale(1, 2, 1), true), methods, 2, reqPaths, true)

	// non-trailing wildcards next to the patterns they would shadow
	multisets(o, "paths", quirk, methods, 2, reqPaths, false)

	// a wildcard URL declared for two methods next to a parameter pattern at the
	// position of the wildcard (the second wildcard entry must join the first
	// one's node whatever else matches the spelling "*"): all 6 orders
	for _, w := range [][2]string{{"h/*", "h/{p}"}, {"h/a/*", "h/a/{p}"}, {"h/{p}/*", "h/{p}/{q}"}} {
		ds := []Decl{stdDecl(1, "GET", w[0], 1), stdDecl(2, "GET", w[1], 2), stdDecl(3, "POST", w[0], 3)}
		runGroup(o, "paths", ds, nil, nil, reqPaths)
	}

	// kinds: host labels vs path segments
	multisets(o, "kinds", kindPatterns(segs, 2, true), []string{"GET"}, 2, reqsOf(reqKindURLs, []string{"GET"}), false)
	if o.Thorough() {
		multisets(o, "kinds", kindPatterns([]string{"a", "{p}", "*"}, 3, true), []string{"GET"}, 2, reqsOf(reqKindURLs, []string{"GET"}), false)
	}
	multisets(o, "kinds", hostWild, []string{"GET"}, 2, reqsOf(hostWildReqs, []string{"GET"}), false)

	// random, bigger and malformed
	r := o.Rng
	for i := 0; i < o.Scale(400, 2000, 20000); i++ {
		n := r.Range(1, 5)
		ds := make([]Decl, n)
		name := 1
		for j := range ds {
			d := Decl{Method: c.Pick(r, mpool[:r.Range(1, 4)]), URL: c.Pick(r, pool)}
			if r.Chance(1, 6) { // malformed / unusual spelling
				d.URL = c.Pick(r, odd)
			}
			if r.Chance(1, 3) && j > 0 { // repeat an earlier URL / pattern
				d.URL = ds[r.Intn(j)].URL
			}
			for x := r.Range(0, 2); x >= 0; x-- {
				d.Rem = append(d.Rem, Rem{Name: name, Type: r.Range(0, 9), Enabled: !r.Chance(1, 5)})
				name++
			}
			for x := r.Range(0, 2); x > 0; x-- {
				d.Diag = append(d.Diag, Dg{Name: name, Enabled: !r.Chance(1, 4)})
				name++
			}
			if r.Chance(1, 2) { // distinct types: accepted more often
				for x := range d.Rem {
					d.Rem[x].Type = (name+x)%9 + 1
				}
			}
			ds[j] = d
		}
		var grem []Rem
		var gdiag []Dg
		if r.Chance(1, 3) {
			grem = append(grem, Rem{Name: 900, Type: 1, Enabled: r.Bool()}, Rem{Name: 901, Type: 8, Enabled: true})
		}
		if r.Chance(1, 4) {
			gdiag = append(gdiag, Dg{Name: 910, Enabled: r.Bool()})
		}
		var reqs []Req
		for j := 0; j < 16; j++ {
			u := c.Pick(r, reqPool)
			if r.Chance(1, 3) { // a request spelled like a declared URL
				u = strings.NewReplacer("{p}", "7", "{q}", "8", "*", "z/y").Replace(ds[r.Intn(n)].URL)
			}
			for _, m := range mpool[:r.Range(1, 3)] {
				reqs = append(reqs, Req{Method: m, URL: u})
			}
		}
		// requests to one declared endpoint whose path embeds "<scheme>://" + another declared URL
		for j := 0; j < 3; j++ {
			u := embedRequest(r, ds[r.Intn(n)].URL, ds[r.Intn(n)].URL)
			for _, m := range mpool[:2] {
				reqs = append(reqs, Req{Method: m, URL: u})
			}
		}
		su := "random"
		if o.Thorough() {
			su = fmt.Sprintf("random_%d", i%4)
		}
		runGroup(o, su, ds, grem, gdiag, reqs)
	}

	// big configurations: many siblings below one parent (large.go)
	largeSuite(o)

	// request URLs / declared URLs that embed an absolute URL or a "://" (embedded.go)
	embeddedSuite(o)
	o.Finish()
}
