// Policy-mode scenario of the C18 stress harness: a policy-mode
// routing.HandlingDataManager (verif_c11.go shims) with two global remedies -
// fixed response and caching - serves G goroutines of request/response
// transactions through processRequest / processResponse. Every transaction has
// its own URL, so nothing is served from the cache and every response is stored.
package main

import (
	"fmt"
	"os"
	"sync"
	"sync/atomic"
	"time"

	"lunar/engine/actions"
	"lunar/engine/config"
	"lunar/engine/routing"
	"lunar/engine/services"
	sharedConfig "lunar/shared-model/config"

	"encoding/json"

	"github.com/negasus/haproxy-spoe-go/message"
	"github.com/negasus/haproxy-spoe-go/payload/kv"
	"github.com/rs/zerolog"
)

type nopWriter struct{}

func (nopWriter) Write(b []byte) (int, error) { return len(b), nil }
func (nopWriter) Close() error                { return nil }

func policyChild(sc Scenario, repo string) {
	zerolog.SetGlobalLevel(zerolog.Disabled)
	_ = repo
	p0, err := config.BuildPolicyData(&sharedConfig.PoliciesConfig{ //nolint:exhaustruct
		Global: sharedConfig.Global{Remedies: []sharedConfig.Remedy{ //nolint:exhaustruct
			{Enabled: true, Name: "fixed", Config: sharedConfig.RemedyConfig{ //nolint:exhaustruct
				FixedResponse: &sharedConfig.FixedResponseConfig{StatusCode: 418}}},
			{Enabled: true, Name: "cache", Config: sharedConfig.RemedyConfig{ //nolint:exhaustruct
				Caching: &sharedConfig.CachingConfig{TTLSeconds: 3600, MaxRecordSizeBytes: 10000, MaxCacheSizeMegabytes: 64}}},
		}},
	}, false)
	must(err)
	svc, err := services.Initialize(nopWriter{}, 10*time.Second, sharedConfig.Exporters{}) //nolint:exhaustruct
	must(err)
	acc := config.NewTxnPoliciesAccessor(p0)
	mgr := routing.VerifC11NewPolicyModeManager(&acc, p0, svc)

	var res ChildResult
	txn := func(id string) {
		url := "example.com/things/" + id
		k := kv.NewKV()
		k.Add("id", id)
		k.Add("sequence_id", id)
		k.Add("method", "GET")
		k.Add("scheme", "http")
		k.Add("url", url)
		k.Add("path", "/things/"+id)
		k.Add("query", "")
		k.Add("headers", "")
		k.Add("body", []byte(""))
		acts, err := routing.VerifC11ProcessRequest(&message.Message{Name: "lunar-on-request", KV: k}, mgr)
		if err != nil {
			atomic.AddInt64(&res.Errors, 1)
			return
		}
		for _, a := range acts {
			if a.Name == actions.ReturnEarlyResponseActionName {
				atomic.AddInt64(&res.Refused, 1)
				return
			}
		}
		atomic.AddInt64(&res.Admitted, 1)
		r := kv.NewKV()
		r.Add("id", id)
		r.Add("sequence_id", id)
		r.Add("method", "GET")
		r.Add("url", url)
		r.Add("status", int64(200))
		r.Add("headers", "")
		r.Add("body", []byte("ok"))
		if _, err := routing.VerifC11ProcessResponse(&message.Message{Name: "lunar-on-response", KV: r}, mgr); err != nil {
			atomic.AddInt64(&res.Errors, 1)
		}
	}
	var wg, start sync.WaitGroup
	start.Add(1)
	for g := 0; g < sc.Goroutines; g++ {
		wg.Add(1)
		go func(g int) {
			defer wg.Done()
			start.Wait()
			for i := 0; i < sc.PerG; i++ {
				txn(fmt.Sprintf("t-%d-%d", g, i))
			}
		}(g)
	}
	start.Done()
	wg.Wait()
	b, _ := json.Marshal(res)
	fmt.Println("C18RESULT " + string(b))
	os.Stdout.Sync()
}
