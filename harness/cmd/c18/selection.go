// Correspondence suite "selection" + monitor: the flows a transaction SELECTED are
// per-transaction state (theories/C18/Selection.v). A real engine is built from a shape
// (n user flows W1..Wn on box.com/*, one flow X<k> on each exact URL box.com/a/u<k>), and a
// generated schedule of
//
//	Lookup t k - transaction t looks its flows up for box.com/a/u<k> with the REAL filter tree
//	             (Stream.VerifC18UserFlows = filterTree.GetFlow + GetUserFlow, what ExecuteFlow
//	             does first) and keeps the result, as ExecuteFlow does while it executes them
//	Use t      - t reads the flows of its kept result (what the executeReq loop does next)
//
// is executed step by step; look-ups of other transactions fall between a transaction's look-up
// and its use. Flow names are encoded W<i> -> -i, X<k> -> k.
//
// Monitor (independent of the model): what t reads at a use must be what a look-up for its URL
// gave when NO other transaction was around - recorded at set-up, one URL after the other, and
// read at once. Nothing is demanded about which flows these are or in which order they come.
package main

import (
	"fmt"
	"os"
	"path/filepath"
	"strings"
	"time"

	lunar_messages "lunar/engine/messages"
	"lunar/engine/streams"
	internal_types "lunar/engine/streams/internal-types"
	lunar_context "lunar/engine/streams/lunar-context"
	stream_types "lunar/engine/streams/types"
	"lunar/engine/utils/environment"
	context_manager "lunar/toolkit-core/context-manager"

	c "verifharness/common"
)

func flowCode(name string) int64 {
	var n int64
	if strings.HasPrefix(name, "W") {
		fmt.Sscanf(name[1:], "%d", &n)
		return -n
	}
	if strings.HasPrefix(name, "X") {
		fmt.Sscanf(name[1:], "%d", &n)
		return n
	}
	return 1 << 40 // a flow the shape does not declare
}

func namesOf(fls []internal_types.FlowI) []int64 {
	out := make([]int64, 0, len(fls))
	for _, f := range fls {
		if f == nil {
			out = append(out, 1<<41)
			continue
		}
		out = append(out, flowCode(f.GetName()))
	}
	return out
}

func eqInts(a, b []int64) bool {
	if len(a) != len(b) {
		return false
	}
	for i := range a {
		if a[i] != b[i] {
			return false
		}
	}
	return true
}

type selEngine struct {
	lookup    func(k int) []internal_types.FlowI
	alone     [][]int64 // per URL: what a look-up gives when no other transaction is around
	wildNames []int64
	spare     bool
}

const selExact = 3

func newSelEngine(repo string, wild int) (*selEngine, error) {
	wd, _ := os.Getwd()
	shared := lunar_context.NewMemoryState[[]byte]()
	base := filepath.Join(wd, fmt.Sprintf("sel%d", wild))
	flows, quotas, pp := filepath.Join(base, "flows"), filepath.Join(base, "quotas"), filepath.Join(base, "path_params")
	for _, d := range []string{flows, quotas, pp} {
		os.MkdirAll(d, 0o755)
	}
	for fn, y := range shapeFlows(Scenario{Wild: wild, Exact: selExact}) {
		os.WriteFile(filepath.Join(flows, fn), []byte(y), 0o644)
	}
	environment.SetProcessorsDirectory(filepath.Join(repo, "proxy/src/services/lunar-engine/streams/processors/registry"))
	environment.SetStreamsFlowsDirectory(flows)
	environment.SetQuotasDirectory(quotas)
	environment.SetPathParamsDirectory(pp)
	context_manager.Get().SetMockClock()
	s, err := streams.NewStream()
	if err == nil {
		err = s.Initialize()
	}
	if err != nil {
		return nil, err
	}
	e := &selEngine{}
	e.lookup = func(k int) []internal_types.FlowI {
		req := lunar_messages.OnRequest{ID: "sel", SequenceID: "sel", Method: "GET", Scheme: "https",
			URL: shapeURL(k), Headers: map[string]string{}, Time: time.Now()}
		return s.VerifC18UserFlows(stream_types.NewRequestAPIStream(req, shared))
	}
	// reference: one URL after the other, read at once (a one-at-a-time order)
	e.alone = make([][]int64, selExact)
	for k := 0; k < selExact; k++ {
		e.alone[k] = namesOf(e.lookup(k))
	}
	// the wildcard node's list as the model names it: what all URLs have in common in front
	e.wildNames = []int64{}
	if len(e.alone[0]) > 0 {
		e.wildNames = append(e.wildNames, e.alone[0][:len(e.alone[0])-1]...)
	}
	// does a slice grown like the node's (a one-element literal, then append) have spare capacity?
	grown := []int{0}
	for i := 1; i < wild; i++ {
		grown = append(grown, i)
	}
	e.spare = cap(grown) > len(grown)
	return e, nil
}

// exec runs the schedule (kind 0 = Lookup t k, 1 = Use t) and returns what every use read and
// the first violation of the monitor
func (e *selEngine) exec(ops [][3]int64) (obs [][]int64, viol string) {
	heldRes := map[int64][]internal_types.FlowI{}
	heldURL := map[int64]int{}
	for i, op := range ops {
		t := op[1]
		if op[0] == 0 {
			k := int(op[2])
			if k < 0 || k >= selExact {
				continue
			}
			heldRes[t], heldURL[t] = e.lookup(k), k
			continue
		}
		if _, ok := heldURL[t]; !ok {
			obs = append(obs, []int64{})
			continue
		}
		got := namesOf(heldRes[t])
		obs = append(obs, got)
		if !eqInts(got, e.alone[heldURL[t]]) && viol == "" {
			viol = fmt.Sprintf("step %d: transaction %d looked up %s and now finds flows %v in its result; alone it gets %v",
				i, t, shapeURL(heldURL[t]), got, e.alone[heldURL[t]])
		}
	}
	return obs, viol
}

const selSignature = "isolation:selected-flows-overwritten-by-overlapping-lookup"
const selDemanded = "between its look-up and the execution of the selected flows a transaction keeps the flows it selected (what it gets in a one-at-a-time order); another transaction's look-up does not change them"

type selCase struct {
	Wild  int        `json:"wildcard_flows"`
	Spare bool       `json:"spare_capacity"`
	Ops   [][3]int64 `json:"ops"`
	Read  [][]int64  `json:"read"`
}

// selectionReplay: one recorded schedule on a fresh engine (./check C18 --replay <file>)
func selectionReplay(o *c.Out, repo string, k selCase) {
	o.MonitorChecked(1)
	e, err := newSelEngine(repo, k.Wild)
	if err != nil {
		o.Hit(c.Hit{Suite: "selection", Index: 0, Signature: "crash", Demanded: "the engine can be built from the shape's flows",
			Observed: err.Error(), Case: k})
		return
	}
	obs, viol := e.exec(k.Ops)
	k.Read = obs
	o.Case0(k, true)
	if viol != "" {
		o.Hit(c.Hit{Suite: "selection", Index: 0, Signature: selSignature, Demanded: selDemanded, Observed: viol, Case: k})
	}
}

func selectionSuite(o *c.Out, repo string) {
	o.DeclareSuite("selection", "From Verif Require Import C18.Selection.", "case_selection", "run_selection")
	perShape := o.Scale(20, 150, 10)
	for _, wild := range []int{1, 2, 3, 4, 5, 7} {
		e, err := newSelEngine(repo, wild)
		if err != nil {
			o.Hit(c.Hit{Suite: "selection", Index: 0, Signature: "crash", Demanded: "the engine can be built from the shape's flows",
				Observed: err.Error(), Case: map[string]any{"wildcard_flows": wild}})
			return
		}
		for i := 0; i < perShape; i++ {
			nt := o.Rng.Range(2, 3)
			has := make([]bool, nt+1)
			var ops [][3]int64
			overlap := false
			nops := o.Rng.Range(3, 10)
			for len(ops) < nops {
				t := o.Rng.Range(1, nt)
				if !has[t] || o.Rng.Chance(2, 5) {
					for u := 1; u <= nt; u++ {
						if u != t && has[u] {
							overlap = true // t's look-up falls into u's look-up .. use window
						}
					}
					has[t] = true
					ops = append(ops, [3]int64{0, int64(t), int64(o.Rng.Range(0, selExact-1))})
				} else {
					ops = append(ops, [3]int64{1, int64(t), 0})
				}
			}
			obs, viol := e.exec(ops)
			js := selCase{Wild: wild, Spare: e.spare, Ops: ops, Read: obs}
			term := c.Tuple(c.Tuple(c.Tuple(c.MapList(e.wildNames, c.Z), c.B(e.spare)),
				c.MapList(ops, func(x [3]int64) string { return c.Tuple(c.Z(x[0]), c.Tuple(c.Z(x[1]), c.Z(x[2]))) })),
				c.MapList(obs, func(l []int64) string { return c.MapList(l, c.Z) }))
			idx := o.Case("selection", term, js, overlap && len(obs) > 0)
			o.Count(fmt.Sprintf("selection:wild=%d,spare=%v", wild, e.spare))
			o.MonitorChecked(1)
			if viol != "" {
				o.Hit(c.Hit{Suite: "selection", Index: idx, Signature: selSignature, Demanded: selDemanded, Observed: viol, Case: js})
			}
		}
	}
}
